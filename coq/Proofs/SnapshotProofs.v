(* C10 / C06 for every schedule of the stack protocol model (Model/StackProto.v).

   Findings (section 0).  The statements
       forall ... , init_ok tabs -> Forall (forallb modelled) scripts -> c10_ok (trace_of ...) = true
   and the same for c06_ok are FALSE in the model.  Three vm_compute-checked
   counterexamples are given; each isolates one reason:
     (R1) a Read on a handle without a stack returns RNoStack, which c10_loop
          counts as a failed read;
     (R2) reload gives up silently when its attempts run out: an Open after a
          Read can return the EMPTY stack with ROk, and the next Read shows
          fewer transactions than the previous one of the same handle
          (protocol finding: the give-up path of reload);
     (R3) c10_loop never forgets the pending transaction of an Add that did
          not commit (c04_loop does, at ERet): a later compaction by the same
          handle is then taken for the commit of that transaction and the
          oracle's commit sequence gets a transaction nobody committed
          (predicate finding).

   What is proved (for ALL schedules, size oracles, attempt bounds), from one
   proof about a loop [c10g_loop] indexed by a policy [pol] (three booleans that
   switch the three repairs on):
     - [c10_all_traces], [c06_all_traces]: the official predicates (policy
       [pol0], [c10g_loop pol0 = c10_loop]) for scripts that additionally
       satisfy [c10_script pol0]: no Read without an open stack, no Open after
       a Read, no CompactAll / Expire after an Add in the same script.  Each of
       the three conditions closes one of the ways out above and is necessary
       (each counterexample violates just that one, [Examples.scripts*_bad]);
     - [c10_rep_all_traces], [c06_rep_all_traces]: the repaired predicate
       [c10_ok_rep] (policy [pol1]: ERet forgets the handle's pending Add as
       c04_loop does; a Read answered RNoStack is not a failed read) for
       scripts satisfying [c10_script pol1]: no Open after a Read on an open
       stack.  R2 remains a violation of this predicate ([Examples.rep_reopen]);
     - [c10_rep2_all_traces], [c06_rep2_all_traces]: policy [pol2] = [pol1] and
       an Open (ECall h AOpen) forgets what the handle's previous stack showed,
       i.e. views are monotone per opened stack: EVERY modelled script.

   Structure
     0. the counterexamples
     1. lists, is_perm_prefix
     2. the policy-indexed loop [c10g_loop]; [c10g_loop pol0 = c10_loop]
     3. a second judgement [okv] over the programs (next to StackInvProofs.ok):
        which contents of tables.list a call has read, that the stack it
        returns carries the names of one of them (or of the stack it started
        with; the empty one for Open), and whether it may commit
     4. script conditions, the loop state along the events of a step
     5. the strengthened world invariant [XInv] on top of StackInvProofs.WInv:
        every recorded version of tables.list (the ghost is the loop's own
        state [c10_state]) holds, flattened through the ghost table map [G], a
        prefix of the commit sequence; every handle's stack, and every list a
        running call has read, is a recorded version not shorter than what the
        handle's last read showed ([vbound]); preservation by the start of a
        call, a file-system operation, the end of a call ([x_call], [x_req],
        [x_finish]), with the loop equations; [step_x], [crash_x], [run_x]
     6. the initial world, the theorems *)
From Coq Require Import List NArith Arith Bool Lia.
From RT Require Import Model.StackTrace Model.Segments Model.StackProto Proofs.StackInvProofs.
Import ListNotations.
Local Open Scope nat_scope.

(* ------------------------------------------------------------------ *)
(* 0. the unrestricted statements are false                            *)
(* ------------------------------------------------------------------ *)

Module Refuted.
  Definition so (n : nat) : N := 100%N.
  Definition tf (mn mx : N) (txs : list nat) : tfile :=
    {| tf_min := mn; tf_max := mx; tf_txs := txs; tf_size := 100 |}.
  Definition tabs2 : list (nat * tfile) := [(0, tf 1 1 [10]); (1, tf 2 2 [11])].
  Fixpoint rep {A} (n : nat) (x : A) : list A := match n with O => [] | S k => x :: rep k x end.

  Lemma tabs2_ok : init_ok tabs2.
  Proof. split; reflexivity. Qed.

  (* R1: a read on a handle that has no stack *)
  Definition scripts1 : list (list apiop) := [[ARead]].
  Definition sched1 : list sched_item := [Step 0 None].
  Lemma scripts1_modelled : Forall (fun s => forallb modelled s = true) scripts1.
  Proof. repeat constructor. Qed.
  Lemma c10_refuted_nostack : c10_ok (trace_of so 50 tabs2 scripts1 sched1) = false.
  Proof. vm_compute. reflexivity. Qed.

  (* R2: handle 0 opens and reads (2 transactions); handle 1 opens; handle 0 opens again and
     reads tables.list = [0;1]; handle 1 compacts and unlinks tables 0 and 1; handle 0 fails
     to open table 0, sees another list, has no attempt left (attempts = 1), keeps the empty
     stack it started the Open with and reports success; its next read shows nothing *)
  Definition scripts2 : list (list apiop) := [[AOpen; ARead; AOpen; ARead]; [AOpen; ACompactAll]].
  Definition sched2 : list sched_item :=
    rep 5 (Step 0 None) ++ rep 4 (Step 1 None) ++ rep 2 (Step 0 None) ++ rep 14 (Step 1 None) ++ rep 4 (Step 0 None).
  Lemma scripts2_modelled : Forall (fun s => forallb modelled s = true) scripts2.
  Proof. repeat constructor. Qed.
  Lemma c10_refuted_reopen : c10_ok (trace_of so 1 tabs2 scripts2 sched2) = false.
  Proof. vm_compute. reflexivity. Qed.
  Lemma reopen_reads :
    filter (fun e => match e with ERet _ ARead _ | ERet _ AOpen _ => true | _ => false end)
           (trace_of so 1 tabs2 scripts2 sched2)
    = [ERet 0 AOpen ROk; ERet 0 ARead (RView [10; 11] (Some 11)); ERet 1 AOpen ROk;
       ERet 0 AOpen ROk; ERet 0 ARead (RView [] None)].
  Proof. vm_compute. reflexivity. Qed.

  (* R3: handle 1 adds 20; handle 0 (stale) fails to add 7 and then compacts: c10_loop appends 7
     to its commit sequence; handle 1 adds 21 and reads [10;11;20;21] *)
  Definition scripts3 : list (list apiop) :=
    [[AOpen; AAdd 7 false; ACompactAll]; [AOpen; AAdd 20 false; AAdd 21 false; AAdd 21 false; ARead]].
  Definition sched3 : list sched_item :=
    rep 4 (Step 0 None) ++ rep 14 (Step 1 None) ++ rep 80 (Step 0 None) ++ rep 80 (Step 1 None).
  Lemma scripts3_modelled : Forall (fun s => forallb modelled s = true) scripts3.
  Proof. repeat constructor. Qed.
  Lemma c10_refuted_pending : c10_ok (trace_of so 50 tabs2 scripts3 sched3) = false.
  Proof. vm_compute. reflexivity. Qed.
  Lemma pending_c04_c05 :
    c04_ok (trace_of so 50 tabs2 scripts3 sched3) = true /\ c05_ok (trace_of so 50 tabs2 scripts3 sched3) = true.
  Proof. split; vm_compute; reflexivity. Qed.

  Theorem c10_all_traces_refuted :
    ~ (forall size_oracle attempts tabs scripts sched,
         init_ok tabs -> Forall (fun s => forallb modelled s = true) scripts ->
         c10_ok (trace_of size_oracle attempts tabs scripts sched) = true).
  Proof.
    intro H. pose proof (H so 1 tabs2 scripts2 sched2 tabs2_ok scripts2_modelled) as E.
    rewrite c10_refuted_reopen in E. discriminate E.
  Qed.

  Theorem c06_all_traces_refuted :
    ~ (forall size_oracle attempts tabs scripts sched,
         init_ok tabs -> Forall (fun s => forallb modelled s = true) scripts ->
         c06_ok (trace_of size_oracle attempts tabs scripts sched) = true).
  Proof.
    intro H. pose proof (H so 1 tabs2 scripts2 sched2 tabs2_ok scripts2_modelled) as E.
    unfold c06_ok in E. rewrite c10_refuted_reopen, andb_false_r in E. discriminate E.
  Qed.
End Refuted.

(* ------------------------------------------------------------------ *)
(* 1. lists                                                            *)
(* ------------------------------------------------------------------ *)

Definition prefix (a b : list nat) : Prop := exists c, b = a ++ c.

Lemma prefix_refl : forall a, prefix a a.
Proof. intro a. exists []. rewrite app_nil_r. reflexivity. Qed.

Lemma prefix_app : forall a b c, prefix a b -> prefix a (b ++ c).
Proof. intros a b c [d ->]. exists (d ++ c). rewrite app_assoc. reflexivity. Qed.

Lemma prefix_nil : forall b, prefix [] b.
Proof. intro b. exists b. reflexivity. Qed.

Lemma prefix_length : forall a b, prefix a b -> length a <= length b.
Proof. intros a b [c ->]. rewrite app_length. lia. Qed.

Lemma prefix_firstn : forall a b, prefix a b -> a = firstn (length a) b.
Proof.
  intros a b [c ->]. rewrite firstn_app, Nat.sub_diag, firstn_all. cbn. rewrite app_nil_r. reflexivity.
Qed.

Lemma forallb_mem_self : forall l, forallb (fun x => mem_nat x l) l = true.
Proof.
  intro l. apply forallb_forall. intros x Hx. apply mem_nat_In. exact Hx.
Qed.

Lemma ipp_found : forall commits n d k0 fuel,
  k0 + d = n -> n <= length commits -> d < fuel ->
  is_perm_prefix fuel (firstn n commits) commits k0 = Some n.
Proof.
  intros commits n. induction d as [|d IH]; intros k0 fuel Hk Hn Hf.
  - destruct fuel as [|f]; [lia|]. cbn [is_perm_prefix]. cbv zeta.
    assert (k0 = n) by lia. subst k0.
    rewrite Nat.eqb_refl, forallb_mem_self. reflexivity.
  - destruct fuel as [|f]; [lia|]. cbn [is_perm_prefix]. cbv zeta.
    rewrite !firstn_length_le by lia.
    destruct (Nat.eqb_spec n k0) as [E|_]; [lia|]. cbn [andb].
    destruct (Nat.ltb_spec k0 (length commits)) as [_|E]; [|lia].
    apply IH; lia.
Qed.

Lemma existsb_eqb_In : forall v vs, existsb (list_nat_eqb v) vs = true <-> In v vs.
Proof.
  intros v vs. rewrite existsb_exists. split.
  - intros [x [Hx E]]. apply list_nat_eqb_eq in E. subst. exact Hx.
  - intro H. exists v. split; [exact H|apply list_nat_eqb_refl].
Qed.

(* ------------------------------------------------------------------ *)
(* 2. the policy-indexed loop                                          *)
(* ------------------------------------------------------------------ *)

Record pol := mkP {
  p_clr : bool;       (* ERet forgets the handle's pending Add, as c04_loop does *)
  p_tol : bool;       (* a Read answered RNoStack is not a failed read *)
  p_new : bool }.     (* an Open starts a new stack: forget what the handle's previous stack showed *)

Definition pol0 : pol := mkP false false false.      (* Model/StackTrace.c10_loop *)
Definition pol1 : pol := mkP true true false.        (* the repaired predicate *)
Definition pol2 : pol := mkP true true true.         (* ... with views monotone per opened stack *)

Definition cx_clr (P : pol) (h : nat) (st : c10_state) : c10_state :=
  if p_clr P then {| cx_commits := cx_commits st; cx_pending := unassoc h (cx_pending st);
                     cx_seen := cx_seen st; cx_versions := cx_versions st |}
  else st.

Definition cx_new (P : pol) (h : nat) (st : c10_state) : c10_state :=
  if p_new P then {| cx_commits := cx_commits st; cx_pending := cx_pending st;
                     cx_seen := unassoc h (cx_seen st); cx_versions := cx_versions st |}
  else st.

Fixpoint c10g_loop (P : pol) (init : bool) (st : c10_state) (tr : list event) : bool :=
  match tr with
  | [] => true
  | ESnap s :: t =>
      let v := listed s in
      let vs := if existsb (list_nat_eqb v) (cx_versions st) then cx_versions st else v :: cx_versions st in
      if init then c10g_loop P false {| cx_commits := snap_txs s; cx_pending := []; cx_seen := []; cx_versions := [v; []] |} t
      else c10g_loop P false {| cx_commits := cx_commits st; cx_pending := cx_pending st; cx_seen := cx_seen st; cx_versions := vs |} t
  | ECall h (AAdd tx _ | AAddMulti tx _) :: t =>
      c10g_loop P init {| cx_commits := cx_commits st; cx_pending := (h, tx) :: unassoc h (cx_pending st);
                          cx_seen := cx_seen st; cx_versions := cx_versions st |} t
  | ECall h AOpen :: t => c10g_loop P init (cx_new P h st) t
  | EFs h (FRename PL) PLL FOk _ :: t =>
      match assoc h (cx_pending st) with
      | Some tx => c10g_loop P init {| cx_commits := cx_commits st ++ [tx]; cx_pending := unassoc h (cx_pending st);
                                       cx_seen := cx_seen st; cx_versions := cx_versions st |} t
      | None => c10g_loop P init st t
      end
  | ERet h ARead (RView txs shared) :: t =>
      let k0 := match assoc h (cx_seen st) with Some k => k | None => O end in
      match is_perm_prefix (S (length (cx_commits st))) txs (cx_commits st) k0 with
      | None => false
      | Some k =>
          (match shared, rev (firstn k (cx_commits st)) with
           | Some x, y :: _ => Nat.eqb x y
           | None, [] => true
           | _, _ => false
           end)
          && c10g_loop P init (cx_clr P h {| cx_commits := cx_commits st; cx_pending := cx_pending st;
                                             cx_seen := (h, k) :: unassoc h (cx_seen st); cx_versions := cx_versions st |}) t
      end
  | ERet h ARead RNoStack :: t => p_tol P && c10g_loop P init (cx_clr P h st) t
  | ERet h ARead _ :: t => false
  | ERet h _ _ :: t => c10g_loop P init (cx_clr P h st) t
  | EMem h names closed :: t =>
      Nat.eqb closed 0 && existsb (list_nat_eqb names) (cx_versions st) && c10g_loop P init st t
  | EViol :: _ => false
  | _ :: t => c10g_loop P init st t
  end.

Definition cx0 : c10_state := {| cx_commits := []; cx_pending := []; cx_seen := []; cx_versions := [[]] |}.

(* the repaired C10 / C06 predicates *)
Definition c10_ok_rep (tr : list event) : bool := c10g_loop pol1 true cx0 tr.
Definition c06_ok_rep (tr : list event) : bool := c04_ok tr && c05_ok tr && c10_ok_rep tr.
Definition c10_ok_rep2 (tr : list event) : bool := c10g_loop pol2 true cx0 tr.
Definition c06_ok_rep2 (tr : list event) : bool := c04_ok tr && c05_ok tr && c10_ok_rep2 tr.

Lemma c10g_pol0 : forall tr init st, c10g_loop pol0 init st tr = c10_loop init st tr.
Proof.
  induction tr as [|e t IH]; intros init st; [reflexivity|].
  destruct e as [h op p r names|s|h op|h op r|h names closed|h|].
  - destruct op; try (cbn; apply IH).
    destruct dst; try (cbn; apply IH).
    destruct p; try (cbn; apply IH).
    destruct r; try (cbn; apply IH).
    cbn. destruct (assoc h (cx_pending st)); apply IH.
  - cbn. destruct init; apply IH.
  - destruct op; cbn; apply IH.
  - destruct op; try (cbn; apply IH).
    destruct r; try reflexivity.
    cbn [c10g_loop c10_loop cx_clr pol0 p_clr p_tol]. cbv zeta.
    destruct (is_perm_prefix _ _ _ _); [|reflexivity]. rewrite IH. reflexivity.
  - cbn. rewrite IH. reflexivity.
  - cbn. apply IH.
  - reflexivity.
Qed.

Lemma c10_ok_pol0 : forall tr, c10_ok tr = c10g_loop pol0 true cx0 tr.
Proof. intro tr. symmetry. apply c10g_pol0. Qed.

(* ------------------------------------------------------------------ *)
(* 3. what a call reads and what it returns                            *)
(* ------------------------------------------------------------------ *)

Definition rd_step (q : req) (rs : resp) (rd : list (list nat)) : list (list nat) :=
  match q with QReadList => lnames rs :: rd | _ => rd end.

(* [rd]: the contents of tables.list read so far (and the names of the stack the call
   started with); [mc]: may the program commit *)
Fixpoint okv {A} (mc : bool) (rd : list (list nat)) (p : prog A) (Q : list (list nat) -> A -> Prop) : Prop :=
  match p with
  | Ret a => Q rd a
  | Op q k => (is_commit q = true -> mc = true) /\ forall rs, okv mc (rd_step q rs rd) (k rs) Q
  end.

Lemma okv_bind : forall {A B} (p : prog A) (f : A -> prog B) mc rd Q Q',
  okv mc rd p Q -> (forall rd' a, Q rd' a -> okv mc rd' (f a) Q') -> okv mc rd (pbind p f) Q'.
Proof.
  induction p as [a|q k IH]; intros f mc rd Q Q' H Hf; cbn [pbind okv] in *.
  - apply Hf. exact H.
  - destruct H as [Ha Hk]. split; [exact Ha|]. intros rs. eapply IH; eauto.
Qed.

Lemma okv_conseq : forall {A} (p : prog A) mc rd (Q Q' : list (list nat) -> A -> Prop),
  okv mc rd p Q -> (forall rd' a, Q rd' a -> Q' rd' a) -> okv mc rd p Q'.
Proof.
  induction p as [a|q k IH]; intros mc rd Q Q' H HQ; cbn [okv] in *.
  - apply HQ. exact H.
  - destruct H as [Ha Hk]. split; [exact Ha|]. intros rs. eapply IH; eauto.
Qed.

Lemma okv_op : forall {B} q (f : resp -> prog B) mc rd Q,
  (is_commit q = true -> mc = true) -> (forall rs, okv mc (rd_step q rs rd) (f rs) Q) ->
  okv mc rd (pbind (op q) f) Q.
Proof. intros. cbn [pbind op okv]. split; assumption. Qed.

Ltac vop := apply okv_op; [let X := fresh in intro X; first [discriminate X | reflexivity]|].

Lemma remove_tabs_okv : forall mc l rd, okv mc rd (remove_tabs l) (fun rd' _ => rd' = rd).
Proof.
  induction l as [|n t IH]; intros rd; cbn [remove_tabs]; [reflexivity|].
  vop. intros rs. cbn [rd_step]. apply IH.
Qed.

Lemma remove_tlocks_okv : forall mc l rd, okv mc rd (remove_tlocks l) (fun rd' _ => rd' = rd).
Proof.
  induction l as [|n t IH]; intros rd; cbn [remove_tlocks]; [reflexivity|].
  vop. intros rs. cbn [rd_step]. apply IH.
Qed.

Lemma remove_any_okv : forall mc fuel cands rd, okv mc rd (remove_any fuel cands) (fun rd' _ => rd' = rd).
Proof.
  induction fuel as [|f IH]; intros cands rd.
  - destruct cands; reflexivity.
  - destruct cands as [|c cands]; [reflexivity|]. cbn [remove_any].
    vop. intros rs. cbn [rd_step]. destruct rs; try reflexivity. apply IH.
Qed.

Lemma lock_tabs_okv : forall mc todo taken rd, okv mc rd (lock_tabs todo taken) (fun rd' _ => rd' = rd).
Proof.
  induction todo as [|n t IH]; intros taken rd; cbn [lock_tabs]; [reflexivity|].
  vop. intros rs. cbn [rd_step].
  destruct rs; try (eapply okv_bind; [apply remove_tlocks_okv|intros rd' _ ->; reflexivity]).
  apply IH.
Qed.

Lemma mnames_rev : forall m : mem, mnames (rev m) = rev (mnames m).
Proof. intro m. unfold mnames. apply map_rev. Qed.

Lemma open_all_okv : forall mc reuse old names acc rd,
  okv mc rd (open_all reuse old names acc)
      (fun rd' o => rd' = rd /\ forall m, o = Some m -> mnames m = rev (mnames acc) ++ names).
Proof.
  intros mc reuse old. induction names as [|n t IH]; intros acc rd; cbn [open_all].
  - cbn [okv]. split; [reflexivity|]. intros m E. inversion E; subst. rewrite mnames_rev, app_nil_r. reflexivity.
  - assert (Hstep : forall f, okv mc rd (open_all reuse old t ((n, f) :: acc))
              (fun rd' o => rd' = rd /\ forall m, o = Some m -> mnames m = rev (mnames acc) ++ n :: t)).
    { intro f. eapply okv_conseq; [apply IH|]. cbn beta. intros rd' o [E H]. split; [exact E|].
      intros m Em. rewrite (H m Em). cbn [mnames map fst rev]. rewrite <- app_assoc. reflexivity. }
    destruct (if reuse then lookup n old else None) as [f|]; [apply Hstep|].
    vop. intros rs. cbn [rd_step]. destruct rs; try (cbn [okv]; split; [reflexivity|intros; discriminate]).
    apply Hstep.
Qed.

Definition Pv {B} (rd : list (list nat)) : list (list nat) -> mem * B -> Prop :=
  fun rd' res => incl rd rd' /\ In (mnames (fst res)) rd'.

Lemma reload_okv : forall mc a reuse old rd, In (mnames old) rd ->
  okv mc rd (reload a reuse old) (Pv rd).
Proof.
  intros mc. induction a as [|a IH]; intros reuse old rd Hold; cbn [reload].
  - cbn [okv]. split; [apply incl_refl|exact Hold].
  - vop. intros rs. cbn [rd_step].
    change (match rs with SNames (Some l) => l | _ => [] end) with (lnames rs).
    eapply okv_bind; [apply open_all_okv|]. cbn beta. intros rd1 o [-> Ho].
    destruct o as [m|].
    + eapply okv_bind; [apply remove_any_okv|]. cbn beta. intros rd2 _ ->.
      cbn [okv]. split; [apply incl_tl, incl_refl|]. cbn [fst].
      rewrite (Ho m eq_refl). cbn. left. reflexivity.
    + vop. intros rs2. cbn [rd_step].
      change (match rs2 with SNames (Some l) => l | _ => [] end) with (lnames rs2).
      destruct (names_eqb (lnames rs2) (lnames rs)).
      * cbn [okv]. split; [apply incl_tl, incl_tl, incl_refl|]. cbn [fst]. right. right. exact Hold.
      * eapply okv_conseq; [apply IH; right; right; exact Hold|].
        cbn beta. intros rd' res [H1 H2]. split; [|exact H2].
        intros x Hx. apply H1. right. right. exact Hx.
Qed.

Lemma compact_range_okv : forall att first last expiry m rd, In (mnames m) rd ->
  okv true rd (compact_range att first last expiry m) (Pv rd).
Proof.
  intros att first last expiry m rd Hm. unfold compact_range.
  assert (Hdone : forall rd' (b : bool), incl rd rd' -> Pv rd rd' (m, b)).
  { intros rd' b H. split; [exact H|]. apply H. exact Hm. }
  destruct (Nat.leb last first && negb expiry); [cbn [okv]; apply Hdone, incl_refl|].
  vop. intros r. cbn [rd_step].
  destruct r; try (cbn [okv]; apply Hdone, incl_refl).
  vop. intros c. cbn [rd_step].
  change (match c with SNames (Some l) => l | _ => [] end) with (lnames c).
  set (rd1 := lnames c :: rd). assert (I1 : incl rd rd1) by apply incl_tl, incl_refl.
  destruct (negb (names_eqb (lnames c) (mnames m))).
  { vop. intros r1. cbn [rd_step okv]. apply Hdone, I1. }
  eapply okv_bind; [apply lock_tabs_okv|]. cbn beta. intros rd' lkr ->.
  destruct lkr as [locks|].
  2:{ vop. intros r1. cbn [rd_step okv]. apply Hdone, I1. }
  vop. intros r3. cbn [rd_step].
  vop. intros t. cbn [rd_step].
  destruct t; try (eapply okv_bind; [apply remove_tlocks_okv|]; cbn beta; intros ? _ ->; cbn [okv]; apply Hdone, I1).
  vop. intros r5. cbn [rd_step].
  destruct r5;
    try (vop; intros ?; cbn [rd_step]; eapply okv_bind; [apply remove_tlocks_okv|]; cbn beta; intros ? _ ->;
         cbn [okv]; apply Hdone, I1).
  vop. intros c2. cbn [rd_step].
  change (match c2 with SNames (Some l) => l | _ => [] end) with (lnames c2).
  set (rd2 := lnames c2 :: rd1). assert (I2 : incl rd rd2) by (apply incl_tl; exact I1).
  destruct (find_run _ _ 0) as [start|].
  - vop. intros nw. cbn [rd_step].
    destruct nw;
      try (eapply okv_bind; [apply remove_tlocks_okv|]; cbn beta; intros ? _ ->; vop; intros ?; cbn [rd_step okv];
           apply Hdone, I2).
    vop. intros r8. cbn [rd_step].
    eapply okv_bind; [apply remove_tabs_okv|]. cbn beta. intros ? _ ->.
    eapply okv_bind; [apply reload_okv; apply I2; exact Hm|]. cbn beta. intros rd3 rl [I3 H3].
    eapply okv_bind; [apply remove_tlocks_okv|]. cbn beta. intros ? _ ->.
    cbn [okv]. split; [|exact H3]. intros x Hx. apply I3, I2. exact Hx.
  - vop. intros r7. cbn [rd_step].
    eapply okv_bind; [apply remove_tlocks_okv|]. cbn beta. intros ? _ ->.
    vop. intros r9. cbn [rd_step okv]. apply Hdone, I2.
Qed.

Lemma auto_compact_okv : forall att m rd, In (mnames m) rd ->
  okv true rd (auto_compact att m) (fun rd' m' => incl rd rd' /\ In (mnames m') rd').
Proof.
  intros att m rd Hm. unfold auto_compact.
  destruct (suggest _) as [[s e]|].
  - eapply okv_bind; [apply compact_range_okv; exact Hm|]. cbn beta. intros rd' r H. cbn [okv]. exact H.
  - cbn [okv]. split; [apply incl_refl|exact Hm].
Qed.

Definition add_mc (kind : add_kind) (auto : bool) : bool := match kind with KAdd _ => true | _ => auto end.

Lemma add_okv : forall att kind auto m rd, In (mnames m) rd ->
  okv (add_mc kind auto) rd (add att kind auto m) (Pv rd).
Proof.
  intros att kind auto m rd Hm. unfold add.
  assert (Hdone : forall rd' (r : apires), incl rd rd' -> Pv rd rd' (m, r)).
  { intros rd' b H. split; [exact H|]. apply H. exact Hm. }
  assert (Hfail : forall rd', incl rd rd' ->
            okv (add_mc kind auto) rd' (do! rl := reload att true m in Ret (fst rl, RLockFailure)) (Pv rd)).
  { intros rd' I. eapply okv_bind; [apply reload_okv; apply I; exact Hm|]. cbn beta. intros rd2 rl [I2 H2].
    cbn [okv]. split; [|exact H2]. intros x Hx. apply I2, I. exact Hx. }
  vop. intros r. cbn [rd_step].
  destruct r; try (apply Hfail, incl_refl).
  vop. intros c. cbn [rd_step].
  change (match c with SNames (Some l) => l | _ => [] end) with (lnames c).
  set (rd1 := lnames c :: rd). assert (I1 : incl rd rd1) by apply incl_tl, incl_refl.
  destruct (negb (names_eqb (lnames c) (mnames m))).
  { vop. intros r1. cbn [rd_step]. apply Hfail, I1. }
  vop. intros t. cbn [rd_step].
  destruct t; try (vop; intros ?; cbn [rd_step okv]; apply Hdone, I1).
  destruct kind as [tx| |].
  - vop. intros r5. cbn [rd_step].
    vop. intros nw. cbn [rd_step].
    destruct nw; try (vop; intros ?; cbn [rd_step okv]; apply Hdone, I1).
    vop. intros r7. cbn [rd_step].
    vop. intros r8. cbn [rd_step].
    eapply okv_bind; [apply reload_okv; apply I1; exact Hm|]. cbn beta. intros rd2 rl [I2 H2].
    destruct auto.
    + eapply okv_bind; [apply auto_compact_okv; exact H2|]. cbn beta. intros rd3 m' [I3 H3].
      cbn [okv]. split; [|exact H3]. intros x Hx. apply I3, I2, I1. exact Hx.
    + cbn [okv]. split; [|exact H2]. intros x Hx. apply I2, I1. exact Hx.
  - vop. intros r5. cbn [rd_step].
    vop. intros r6. cbn [rd_step].
    destruct auto.
    + eapply okv_bind; [apply auto_compact_okv; apply I1; exact Hm|]. cbn beta. intros rd3 m' [I3 H3].
      cbn [okv]. split; [|exact H3]. intros x Hx. apply I3, I1. exact Hx.
    + cbn [okv]. apply Hdone, I1.
  - vop. intros r5. cbn [rd_step].
    vop. intros r6. cbn [rd_step okv]. apply Hdone, I1.
Qed.

Lemma close_okv : forall m rd, okv false rd (close m) (fun _ _ => True).
Proof.
  intros m rd. unfold close. vop. intros rs. cbn [rd_step].
  destruct (match rs with SNames (Some l) => l | _ => [] end) as [|a t]; [exact I|].
  eapply okv_conseq; [apply remove_tabs_okv|]. intros; exact I.
Qed.

(* ---------------- call_prog ---------------- *)

Definition txsm (m : mem) : list nat := flat_map (fun x => tf_txs (snd x)) m.
Definition is_some {A} (o : option A) : bool := match o with Some _ => true | None => false end.
Definition opened_after (o : apiop) (b : bool) : bool := match o with AOpen => true | AClose => false | _ => b end.
Definition may_commit (o : apiop) : bool := match o with AAdd _ _ | ACompactAll | AExpire => true | _ => false end.

Definition rd_init (o : apiop) (m : option mem) : list (list nat) :=
  match o with
  | AOpen => [[]]
  | _ => match m with Some mm => [mnames mm] | None => [] end
  end.

Definition Qv (o : apiop) (m0 : option mem) (rd : list (list nat)) (res : option mem * apires) : Prop :=
  snd res = RErr \/
  (is_some (fst res) = opened_after o (is_some m0) /\
   (forall mm, fst res = Some mm -> In (mnames mm) rd) /\
   (o = ARead -> match m0 with
                 | Some mm => res = (Some mm, RView (txsm mm) (hd_error (rev (txsm mm))))
                 | None => res = (None, RNoStack)
                 end)).

Lemma call_prog_okv : forall att o m, okv (may_commit o) (rd_init o m) (call_prog att o m) (Qv o m).
Proof.
  intros att o m.
  assert (Hnone : forall r, o <> AOpen -> o <> ARead -> m = None -> Qv o m (rd_init o m) (None, r)).
  { intros r H1 H2 ->. right. cbn [fst snd is_some]. split; [destruct o; try reflexivity; congruence|].
    split; [intros; discriminate|]. intro; congruence. }
  destruct o; cbn [call_prog may_commit rd_init].
  - (* Open *)
    unfold wrap. eapply okv_bind; [apply reload_okv; left; reflexivity|]. cbn beta. intros rd' rl [I1 I2].
    cbn [okv]. destruct (snd rl); [|left; reflexivity].
    right. cbn [fst snd is_some opened_after]. split; [reflexivity|].
    split; [intros x E; inversion E; subst; exact I2|discriminate].
  - (* Add *)
    destruct m as [mm|]; [|apply Hnone; congruence].
    unfold wrap. eapply okv_bind; [apply (add_okv att (KAdd tx) auto mm); left; reflexivity|].
    cbn beta. intros rd' res [I1 I2]. cbn [okv]. right. cbn [fst snd is_some opened_after].
    split; [reflexivity|]. split; [intros x E; inversion E; subst; exact I2|discriminate].
  - (* AddMulti *)
    destruct m as [mm|]; [|apply Hnone; congruence]. cbn [okv]. left. reflexivity.
  - (* AddEmpty *)
    destruct m as [mm|]; [|apply Hnone; congruence].
    unfold wrap. eapply okv_bind; [apply (add_okv att KEmpty false mm); left; reflexivity|].
    cbn beta. intros rd' res [I1 I2]. cbn [okv]. right. cbn [fst snd is_some opened_after].
    split; [reflexivity|]. split; [intros x E; inversion E; subst; exact I2|discriminate].
  - (* AddBad *)
    destruct m as [mm|]; [|apply Hnone; congruence].
    unfold wrap. eapply okv_bind; [apply (add_okv att KBad false mm); left; reflexivity|].
    cbn beta. intros rd' res [I1 I2]. cbn [okv]. right. cbn [fst snd is_some opened_after].
    split; [reflexivity|]. split; [intros x E; inversion E; subst; exact I2|discriminate].
  - (* CompactAll *)
    destruct m as [mm|]; [|apply Hnone; congruence].
    destruct mm as [|x mm].
    + cbn [okv]. right. cbn [fst snd is_some opened_after]. split; [reflexivity|].
      split; [intros y E; inversion E; subst; left; reflexivity|discriminate].
    + unfold wrap. eapply okv_bind; [apply compact_range_okv; left; reflexivity|].
      cbn beta. intros rd' res [I1 I2]. cbn [okv]. right. cbn [fst snd is_some opened_after].
      split; [reflexivity|]. split; [intros y E; inversion E; subst; exact I2|discriminate].
  - (* Expire *)
    destruct m as [mm|]; [|apply Hnone; congruence].
    destruct mm as [|x mm].
    + cbn [okv]. right. cbn [fst snd is_some opened_after]. split; [reflexivity|].
      split; [intros y E; inversion E; subst; left; reflexivity|discriminate].
    + unfold wrap. eapply okv_bind; [apply compact_range_okv; left; reflexivity|].
      cbn beta. intros rd' res [I1 I2]. cbn [okv]. right. cbn [fst snd is_some opened_after].
      split; [reflexivity|]. split; [intros y E; inversion E; subst; exact I2|discriminate].
  - (* Close *)
    destruct m as [mm|].
    + unfold wrap. eapply okv_bind; [apply close_okv|]. cbn beta. intros rd' _ _. cbn [okv]. right.
      cbn [fst snd is_some opened_after]. split; [reflexivity|]. split; [intros; discriminate|discriminate].
    + cbn [okv]. right. cbn [fst snd is_some opened_after]. split; [reflexivity|]. split; [intros; discriminate|discriminate].
  - (* Read *)
    destruct m as [mm|]; cbn [okv]; right; cbn [fst snd is_some opened_after].
    + split; [reflexivity|]. split; [intros y E; inversion E; subst; left; reflexivity|]. intros _. reflexivity.
    + split; [reflexivity|]. split; [intros; discriminate|]. intros _. reflexivity.
  - (* Clean *)
    destruct m as [mm|]; [|apply Hnone; congruence]. cbn [okv]. left. reflexivity.
Qed.

(* ------------------------------------------------------------------ *)
(* 4. scripts, the loop state along a step                             *)
(* ------------------------------------------------------------------ *)

(* what a script has done so far: is the stack open, has a read on an open stack
   happened, has an Add been called *)
Record sst := mkS { s_open : bool; s_read : bool; s_add : bool }.

Definition s_next (P : pol) (o : apiop) (s : sst) : option sst :=
  match o with
  | AOpen => if s_read s && negb (p_new P) then None else Some (mkS true false (s_add s))
  | ARead => if s_open s then Some (mkS true true (s_add s)) else if p_tol P then Some s else None
  | AClose => Some (mkS false (s_read s) (s_add s))
  | AAdd _ _ | AAddMulti _ _ => Some (mkS (s_open s) (s_read s) true)
  | ACompactAll | AExpire => if s_add s && negb (p_clr P) then None else Some s
  | _ => Some s
  end.

Fixpoint wf_script (P : pol) (s : sst) (l : list apiop) : bool :=
  match l with
  | [] => true
  | o :: t => match s_next P o s with Some s' => wf_script P s' t | None => false end
  end.

(* the hypothesis on scripts:
   pol0: no Read without an open stack, no Open after a Read, no CompactAll / Expire after an Add;
   pol1: no Open after a Read on an open stack *)
Definition c10_script (P : pol) (l : list apiop) : bool := wf_script P (mkS false false false) l.

Definition cx_call (P : pol) (h : nat) (o : apiop) (cx : c10_state) : c10_state :=
  match o with
  | AAdd tx _ | AAddMulti tx _ =>
      {| cx_commits := cx_commits cx; cx_pending := (h, tx) :: unassoc h (cx_pending cx);
         cx_seen := cx_seen cx; cx_versions := cx_versions cx |}
  | AOpen => cx_new P h cx
  | _ => cx
  end.
Definition cx_commit (h : nat) (cx : c10_state) : c10_state :=
  match assoc h (cx_pending cx) with
  | Some tx => {| cx_commits := cx_commits cx ++ [tx]; cx_pending := unassoc h (cx_pending cx);
                  cx_seen := cx_seen cx; cx_versions := cx_versions cx |}
  | None => cx
  end.
Definition cx_req (q : req) (h : nat) (cx : c10_state) : c10_state := if is_commit q then cx_commit h cx else cx.
Definition cx_snap (v : list nat) (cx : c10_state) : c10_state :=
  {| cx_commits := cx_commits cx; cx_pending := cx_pending cx; cx_seen := cx_seen cx;
     cx_versions := if existsb (list_nat_eqb v) (cx_versions cx) then cx_versions cx else v :: cx_versions cx |}.
Definition cx_read (h k : nat) (cx : c10_state) : c10_state :=
  {| cx_commits := cx_commits cx; cx_pending := cx_pending cx;
     cx_seen := (h, k) :: unassoc h (cx_seen cx); cx_versions := cx_versions cx |}.

Lemma cx_clr_commits : forall P h cx, cx_commits (cx_clr P h cx) = cx_commits cx.
Proof. intros. unfold cx_clr. destruct (p_clr P); reflexivity. Qed.
Lemma cx_clr_seen : forall P h cx, cx_seen (cx_clr P h cx) = cx_seen cx.
Proof. intros. unfold cx_clr. destruct (p_clr P); reflexivity. Qed.
Lemma cx_clr_versions : forall P h cx, cx_versions (cx_clr P h cx) = cx_versions cx.
Proof. intros. unfold cx_clr. destruct (p_clr P); reflexivity. Qed.
Lemma cx_clr_pending_other : forall P h cx i, i <> h ->
  assoc i (cx_pending (cx_clr P h cx)) = assoc i (cx_pending cx).
Proof. intros. unfold cx_clr. destruct (p_clr P); [cbn; apply assoc_unassoc_neq; assumption|reflexivity]. Qed.
Lemma cx_clr_pending_self : forall P h cx, p_clr P = true -> assoc h (cx_pending (cx_clr P h cx)) = None.
Proof. intros P h cx E. unfold cx_clr. rewrite E. cbn. apply assoc_unassoc_eq. Qed.
Lemma cx_clr_pending_some : forall P h cx,
  assoc h (cx_pending (cx_clr P h cx)) <> None -> assoc h (cx_pending cx) <> None.
Proof.
  intros P h cx. unfold cx_clr. destruct (p_clr P); [|auto]. cbn. rewrite assoc_unassoc_eq. congruence.
Qed.

Lemma cx_req_seen : forall q h cx, cx_seen (cx_req q h cx) = cx_seen cx.
Proof. intros. unfold cx_req, cx_commit. destruct (is_commit q); [|reflexivity]. destruct (assoc _ _); reflexivity. Qed.
Lemma cx_req_versions : forall q h cx, cx_versions (cx_req q h cx) = cx_versions cx.
Proof. intros. unfold cx_req, cx_commit. destruct (is_commit q); [|reflexivity]. destruct (assoc _ _); reflexivity. Qed.
Lemma cx_req_pending_other : forall q h cx i, i <> h ->
  assoc i (cx_pending (cx_req q h cx)) = assoc i (cx_pending cx).
Proof.
  intros. unfold cx_req, cx_commit. destruct (is_commit q); [|reflexivity].
  destruct (assoc h _); [cbn; apply assoc_unassoc_neq; assumption|reflexivity].
Qed.
Lemma cx_req_pending_some : forall q h cx,
  assoc h (cx_pending (cx_req q h cx)) <> None -> assoc h (cx_pending cx) <> None.
Proof.
  intros q h cx. unfold cx_req, cx_commit. destruct (is_commit q); [|auto].
  destruct (assoc h (cx_pending cx)) eqn:E; [congruence|]. rewrite E. auto.
Qed.
Lemma cx_req_commits : forall q h cx, exists l, cx_commits (cx_req q h cx) = cx_commits cx ++ l.
Proof.
  intros. unfold cx_req, cx_commit. destruct (is_commit q); [|exists []; rewrite app_nil_r; reflexivity].
  destruct (assoc _ _) as [tx|]; [exists [tx]; reflexivity|exists []; rewrite app_nil_r; reflexivity].
Qed.

Lemma cx_snap_incl : forall v cx, incl (cx_versions cx) (cx_versions (cx_snap v cx)).
Proof. intros v cx. cbn. destruct (existsb _ _); [apply incl_refl|apply incl_tl, incl_refl]. Qed.
Lemma cx_snap_in : forall v cx, In v (cx_versions (cx_snap v cx)).
Proof. intros v cx. cbn. destruct (existsb _ _) eqn:E; [apply existsb_eqb_In; exact E|left; reflexivity]. Qed.
Lemma cx_snap_old : forall v cx x, In x (cx_versions (cx_snap v cx)) -> x = v \/ In x (cx_versions cx).
Proof. intros v cx x. cbn. destruct (existsb _ _); [auto|]. intros [<-|H]; auto. Qed.

(* ---------------- the loop along the events of a step ---------------- *)

Lemma c10g_call : forall P h o cx rest,
  c10g_loop P false cx (ECall h o :: rest) = c10g_loop P false (cx_call P h o cx) rest.
Proof. intros. destruct o; reflexivity. Qed.

Lemma c10g_req : forall P h q rs fr cx s' rest,
  (is_commit q = true -> fr = FOk) ->
  c10g_loop P false cx (req_event h q rs fr :: ESnap s' :: rest)
  = c10g_loop P false (cx_snap (listed s') (cx_req q h cx)) rest.
Proof.
  intros P h q rs fr cx s' rest Hc.
  assert (Hsn : forall c0, c10g_loop P false c0 (ESnap s' :: rest) = c10g_loop P false (cx_snap (listed s') c0) rest)
    by reflexivity.
  destruct q; cbn [req_event cx_req is_commit] in *; try (cbn [c10g_loop]; apply Hsn).
  - destruct rs; cbn [c10g_loop]; apply Hsn.
  - rewrite (Hc eq_refl). cbn [c10g_loop]. unfold cx_commit. destruct (assoc h (cx_pending cx)); apply Hsn.
Qed.

Lemma c10g_finish_other : forall P h o m r cx rest, o <> ARead ->
  (forall mm, m = Some mm -> In (mnames mm) (cx_versions cx)) ->
  c10g_loop P false cx (finish_events h o m r ++ rest) = c10g_loop P false (cx_clr P h cx) rest.
Proof.
  intros P h o m r cx rest Ho Hm. unfold finish_events.
  assert (E : c10g_loop P false cx ((ERet h o r :: match m with Some mm => [EMem h (mnames mm) 0] | None => [] end) ++ rest)
              = c10g_loop P false (cx_clr P h cx) (match m with Some mm => [EMem h (mnames mm) 0] | None => [] end ++ rest)).
  { destruct o; try congruence; reflexivity. }
  rewrite E. destruct m as [mm|]; [|reflexivity].
  cbn [app c10g_loop Nat.eqb andb]. rewrite cx_clr_versions.
  rewrite (proj2 (existsb_eqb_In _ _) (Hm mm eq_refl)). reflexivity.
Qed.

Lemma c10g_finish_nostack : forall P h cx rest, p_tol P = true ->
  c10g_loop P false cx (finish_events h ARead None RNoStack ++ rest) = c10g_loop P false (cx_clr P h cx) rest.
Proof. intros P h cx rest E. cbn [finish_events app c10g_loop]. rewrite E. reflexivity. Qed.

Lemma c10g_finish_read : forall P h mm n cx rest,
  match assoc h (cx_seen cx) with Some k => k | None => 0 end <= n -> n <= length (cx_commits cx) ->
  In (mnames mm) (cx_versions cx) ->
  c10g_loop P false cx (finish_events h ARead (Some mm)
       (RView (firstn n (cx_commits cx)) (hd_error (rev (firstn n (cx_commits cx))))) ++ rest)
  = c10g_loop P false (cx_clr P h (cx_read h n cx)) rest.
Proof.
  intros P h mm n cx rest Hlo Hhi Hin. cbn [finish_events app c10g_loop]. cbv zeta.
  rewrite (ipp_found (cx_commits cx) n (n - match assoc h (cx_seen cx) with Some k => k | None => 0 end))
    by lia.
  assert (E : match hd_error (rev (firstn n (cx_commits cx))), rev (firstn n (cx_commits cx)) with
              | Some x, y :: _ => Nat.eqb x y | None, [] => true | _, _ => false end = true).
  { destruct (rev (firstn n (cx_commits cx))); cbn; [reflexivity|apply Nat.eqb_refl]. }
  rewrite E. cbn [andb Nat.eqb]. rewrite cx_clr_versions. cbn [cx_versions cx_read].
  rewrite (proj2 (existsb_eqb_In _ _) Hin). reflexivity.
Qed.

(* ------------------------------------------------------------------ *)
(* 5. the strengthened world invariant                                 *)
(* ------------------------------------------------------------------ *)

(* the transactions of a version of tables.list, through the ghost table map *)
Definition vtx (γ : ghost) (v : list nat) : list nat := flat_map (fun n => tf_txs (G γ n)) v.

Definition ver_ok (γ : ghost) (commits : list nat) (v : list nat) : Prop :=
  (forall n, In n v -> seen γ n) /\ prefix (vtx γ v) commits.

Definition lowb (cx : c10_state) (i : nat) : nat := match assoc i (cx_seen cx) with Some k => k | None => 0 end.

(* [v] is a recorded version and not shorter than what handle [i] has shown last *)
Definition vbound (γ : ghost) (cx : c10_state) (i : nat) (v : list nat) : Prop :=
  In v (cx_versions cx) /\ lowb cx i <= length (vtx γ v).

Definition flags_ok (cx : c10_state) (i : nat) (m : option mem) (ss : sst) : Prop :=
  s_open ss = is_some m /\
  (assoc i (cx_seen cx) <> None -> s_read ss = true) /\
  (assoc i (cx_pending cx) <> None -> s_add ss = true).

Definition after_ok (P : pol) (cx : c10_state) (i : nat) (o : apiop) (m0 : option mem) (ss' : sst) : Prop :=
  s_open ss' = opened_after o (is_some m0) /\
  (assoc i (cx_seen cx) <> None -> s_read ss' = true) /\
  (o = ARead -> m0 <> None -> s_read ss' = true) /\
  (assoc i (cx_pending cx) <> None -> s_add ss' = true) /\
  (o = ARead -> m0 = None -> p_tol P = true).

Definition hrun (P : pol) (γ : ghost) (st : c04_state) (cx : c10_state) (i : nat) (o : apiop)
           (m0 : option mem) (script : list apiop) (p : prog (option mem * apires)) : Prop :=
  exists rd ss', okv (may_commit o) rd p (Qv o m0) /\
    (forall v, In v rd -> vbound γ cx i v) /\
    (may_commit o = true -> assoc i (cx_pending cx) = assoc i (c4_pending st)) /\
    wf_script P ss' script = true /\ after_ok P cx i o m0 ss'.

Definition hx (P : pol) (γ : ghost) (st : c04_state) (cx : c10_state) (i : nat) (hd : handle) : Prop :=
  (forall m, h_mem hd = Some m -> vbound γ cx i (mnames m)) /\
  match h_pc hd with
  | HDead => True
  | HIdle => (p_clr P = true -> assoc i (cx_pending cx) = None) /\
             exists ss, wf_script P ss (h_script hd) = true /\ flags_ok cx i (h_mem hd) ss
  | HRun o p => hrun P γ st cx i o (h_mem hd) (h_script hd) p
  end.

Definition XG (γ : ghost) (s : fs) (st : c04_state) (cx : c10_state) : Prop :=
  cx_commits cx = c4_commits st /\
  In (listed_fs s) (cx_versions cx) /\ In [] (cx_versions cx) /\
  (forall v, In v (cx_versions cx) -> ver_ok γ (cx_commits cx) v) /\
  (forall i k, assoc i (cx_seen cx) = Some k -> k <= length (cx_commits cx)).

Definition XInv (P : pol) (γ : ghost) (w : world) (st : c04_state) (cx : c10_state) : Prop :=
  XG γ (w_fs w) st cx /\
  forall i hd, nth_error (w_handles w) i = Some hd -> hx P γ st cx i hd.

Lemma xinv_set : forall P γ s st cx hs h x,
  XG γ s st cx ->
  (forall i hd, i <> h -> nth_error hs i = Some hd -> hx P γ st cx i hd) ->
  hx P γ st cx h x ->
  XInv P γ {| w_fs := s; w_handles := set_handle h x hs |} st cx.
Proof.
  intros P γ s st cx hs h x HG Ho Hx. split; [exact HG|].
  cbn [w_fs w_handles]. intros i hd E. destruct (Nat.eq_dec i h) as [->|Hne].
  - apply nth_set_eq in E. subst. exact Hx.
  - rewrite nth_set_neq in E by exact Hne. apply Ho; assumption.
Qed.

Lemma vtx_frame : forall γ s γ' s' v,
  GI γ s -> frame γ s γ' s' -> (forall n, In n v -> seen γ n) -> vtx γ' v = vtx γ v.
Proof.
  intros γ s γ' s' v HG HF Hs. unfold vtx. apply flat_map_ext_in'. intros n Hn.
  rewrite (fr_G HF); [reflexivity|]. apply (g_seen_lt HG). apply Hs. exact Hn.
Qed.

Lemma txsm_vtx : forall γ m, memok γ m -> txsm m = vtx γ (mnames m).
Proof.
  intros γ m. induction m as [|[n f] m IH]; intros H; [reflexivity|].
  cbn [txsm vtx mnames map fst snd flat_map]. 
  rewrite (proj1 (H n f (or_introl eq_refl))). f_equal.
  apply IH. intros n' f' Hin. apply H. right. exact Hin.
Qed.

Lemma vbound_mono : forall γ s γ' s' cx cx' i v,
  GI γ s -> frame γ s γ' s' ->
  (forall v, In v (cx_versions cx) -> ver_ok γ (cx_commits cx) v) ->
  incl (cx_versions cx) (cx_versions cx') ->
  lowb cx' i <= lowb cx i ->
  vbound γ cx i v -> vbound γ' cx' i v.
Proof.
  intros γ s γ' s' cx cx' i v HG HF Hv Hi Hl [A B]. split; [apply Hi; exact A|].
  rewrite (vtx_frame _ _ _ _ v HG HF) by (apply (Hv v A)). lia.
Qed.

Lemma hx_other : forall P γ s γ' s' st st' cx cx' i hd,
  GI γ s -> frame γ s γ' s' ->
  (forall v, In v (cx_versions cx) -> ver_ok γ (cx_commits cx) v) ->
  incl (cx_versions cx) (cx_versions cx') ->
  assoc i (cx_seen cx') = assoc i (cx_seen cx) ->
  assoc i (cx_pending cx') = assoc i (cx_pending cx) ->
  assoc i (c4_pending st') = assoc i (c4_pending st) ->
  hx P γ st cx i hd -> hx P γ' st' cx' i hd.
Proof.
  intros P γ s γ' s' st st' cx cx' i hd HG HF Hv Hi Es Ep E4 [Hm Hpc].
  assert (Hl : lowb cx' i <= lowb cx i) by (unfold lowb; rewrite Es; lia).
  assert (Hvb : forall v, vbound γ cx i v -> vbound γ' cx' i v)
    by (intros v; apply (vbound_mono _ _ _ _ _ _ _ _ HG HF Hv Hi Hl)).
  split; [intros m E; apply Hvb, Hm; exact E|].
  destruct (h_pc hd) as [|o p|]; [| |exact I].
  - destruct Hpc as [A [ss [B (C1 & C2 & C3)]]]. split; [rewrite Ep; exact A|].
    exists ss. split; [exact B|]. split; [exact C1|]. rewrite Es, Ep. split; assumption.
  - destruct Hpc as (rd & ss' & A & B & C & D & (F1 & F2 & F3 & F4 & F5)).
    exists rd, ss'. split; [exact A|]. split; [intros v Hin; apply Hvb, B; exact Hin|].
    split; [rewrite Ep, E4; exact C|]. split; [exact D|].
    unfold after_ok. rewrite Es, Ep. repeat split; assumption.
Qed.

Lemma ret_allowed_RErr : forall o, ret_allowed o RErr = false.
Proof. destruct o; reflexivity. Qed.

Lemma apiop_eq_ARead : forall o, o = ARead \/ o <> ARead.
Proof. destruct o; try (right; discriminate). left. reflexivity. Qed.

Lemma assoc_cons_eq : forall h v l, assoc h ((h, v) :: l) = Some v.
Proof. intros. cbn. rewrite Nat.eqb_refl. reflexivity. Qed.
Lemma assoc_cons_neq : forall i h (v : nat) l, i <> h -> assoc i ((h, v) :: l) = assoc i l.
Proof. intros. cbn. destruct (Nat.eqb_spec i h); [congruence|reflexivity]. Qed.

(* ---------------- the end of a call ---------------- *)

Lemma x_finish : forall P γ s st cx hs h o m0 m r script,
  GI γ s -> XG γ s st cx ->
  (forall i hd, i <> h -> nth_error hs i = Some hd -> hx P γ st cx i hd) ->
  hrun P γ st cx h o m0 script (Ret (m, r)) ->
  (forall mm, m0 = Some mm -> vbound γ cx h (mnames mm) /\ memok γ mm) ->
  ret_allowed o r = true ->
  exists cx',
    XInv P γ {| w_fs := s; w_handles := set_handle h {| h_mem := m; h_pc := HIdle; h_script := script |} hs |}
         (st_ret h st) cx' /\
    forall rest, c10g_loop P false cx (finish_events h o m r ++ rest) = c10g_loop P false cx' rest.
Proof.
  intros P γ s st cx hs h o m0 m r script HG (X1 & X2 & X3 & X4 & X5) Ho
         (rd & ss' & Hq & Hrd & Hpe & Hwf & (F1 & F2 & F3 & F4 & F5)) Hm0 Hra.
  cbn [okv] in Hq. destruct Hq as [Hq|(Q1 & Q2 & Q3)].
  { cbn [snd] in Hq. subst r. rewrite ret_allowed_RErr in Hra. discriminate. }
  cbn [fst snd] in *.
  (* the others, for any new state that leaves them alone *)
  assert (Hoth : forall cx', cx_versions cx' = cx_versions cx ->
            (forall i, i <> h -> assoc i (cx_seen cx') = assoc i (cx_seen cx)) ->
            (forall i, i <> h -> assoc i (cx_pending cx') = assoc i (cx_pending cx)) ->
            forall i hd, i <> h -> nth_error hs i = Some hd -> hx P γ (st_ret h st) cx' i hd).
  { intros cx' Ev Es Ep i hd Hne E.
    apply hx_other with (γ := γ) (s := s) (s' := s) (st := st) (cx := cx); auto.
    - apply frame_refl.
    - rewrite Ev. apply incl_refl.
    - cbn. apply assoc_unassoc_neq. exact Hne. }
  destruct (apiop_eq_ARead o) as [->|Hnr].
  - (* a read *)
    specialize (Q3 eq_refl). destruct m0 as [mm|].
    + inversion Q3; subst m r. clear Q3.
      destruct (Hm0 mm eq_refl) as [[V1 V2] Hmok].
      destruct (X4 _ V1) as [_ Hpre].
      rewrite <- (txsm_vtx _ _ Hmok) in Hpre, V2.
      set (n := length (txsm mm)) in *.
      assert (Hn : n <= length (cx_commits cx)) by (apply prefix_length; exact Hpre).
      assert (Etx : txsm mm = firstn n (cx_commits cx)) by (apply prefix_firstn; exact Hpre).
      exists (cx_clr P h (cx_read h n cx)). split.
      * apply xinv_set.
        -- unfold XG. rewrite cx_clr_commits, cx_clr_versions, cx_clr_seen. cbn [cx_commits cx_versions cx_seen cx_read st_ret c4_commits].
           repeat split; auto; try apply X4; auto.
           intros i k E. destruct (Nat.eq_dec i h) as [->|Hne].
           ++ rewrite assoc_cons_eq in E. inversion E; subst. exact Hn.
           ++ rewrite assoc_cons_neq, assoc_unassoc_neq in E by exact Hne. eapply X5; eauto.
        -- apply Hoth.
           ++ rewrite cx_clr_versions. reflexivity.
           ++ intros i Hne. rewrite cx_clr_seen. cbn [cx_seen cx_read]. rewrite assoc_cons_neq, assoc_unassoc_neq by exact Hne. reflexivity.
           ++ intros i Hne. rewrite cx_clr_pending_other by exact Hne. reflexivity.
        -- split.
           ++ cbn [h_mem]. intros m E. inversion E; subst m. split.
              ** rewrite cx_clr_versions. exact V1.
              ** unfold lowb. rewrite cx_clr_seen. cbn [cx_seen cx_read]. rewrite assoc_cons_eq.
                 rewrite <- (txsm_vtx _ _ Hmok). fold n. lia.
           ++ cbn [h_pc h_script h_mem]. split; [apply cx_clr_pending_self|].
              exists ss'. split; [exact Hwf|]. split; [rewrite F1; reflexivity|]. split.
              ** intros _. apply F3; [reflexivity|discriminate].
              ** intro E. apply F4. apply cx_clr_pending_some in E. exact E.
      * intros rest. rewrite Etx. apply c10g_finish_read; [exact V2|exact Hn|exact V1].
    + inversion Q3; subst m r. clear Q3.
      exists (cx_clr P h cx). split.
      * apply xinv_set.
        -- unfold XG. rewrite cx_clr_commits, cx_clr_versions, cx_clr_seen. repeat split; auto; apply X4; auto.
        -- apply Hoth.
           ++ apply cx_clr_versions.
           ++ intros i Hne. rewrite cx_clr_seen. reflexivity.
           ++ intros i Hne. apply cx_clr_pending_other. exact Hne.
        -- split; [cbn; intros; discriminate|].
           cbn [h_pc h_script h_mem]. split; [apply cx_clr_pending_self|].
           exists ss'. split; [exact Hwf|]. split; [rewrite F1; reflexivity|]. rewrite cx_clr_seen. split.
           ** exact F2.
           ** intro E. apply F4. apply cx_clr_pending_some in E. exact E.
      * intros rest. apply c10g_finish_nostack. apply F5; reflexivity.
  - (* any other call *)
    exists (cx_clr P h cx). split.
    + apply xinv_set.
      * unfold XG. rewrite cx_clr_commits, cx_clr_versions, cx_clr_seen. repeat split; auto; apply X4; auto.
      * apply Hoth.
        -- apply cx_clr_versions.
        -- intros i Hne. rewrite cx_clr_seen. reflexivity.
        -- intros i Hne. apply cx_clr_pending_other. exact Hne.
      * split.
        -- cbn [h_mem]. intros mm E. destruct (Hrd _ (Q2 mm E)) as [A B]. split.
           ++ rewrite cx_clr_versions. exact A.
           ++ unfold lowb in *. rewrite cx_clr_seen. exact B.
        -- cbn [h_pc h_script h_mem]. split; [apply cx_clr_pending_self|].
           exists ss'. split; [exact Hwf|]. split; [rewrite F1, Q1; reflexivity|]. rewrite cx_clr_seen. split.
           ++ exact F2.
           ++ intro E. apply F4. apply cx_clr_pending_some in E. exact E.
    + intros rest. apply c10g_finish_other; [exact Hnr|].
      intros mm E. apply (Hrd _ (Q2 mm E)).
Qed.

(* ---------------- the start of a call ---------------- *)

Definition open_new (P : pol) (o : apiop) : bool := p_new P && match o with AOpen => true | _ => false end.
Definition is_add (o : apiop) : bool := match o with AAdd _ _ | AAddMulti _ _ => true | _ => false end.

Lemma cx_call_same : forall P h o cx,
  cx_commits (cx_call P h o cx) = cx_commits cx /\ cx_versions (cx_call P h o cx) = cx_versions cx.
Proof.
  intros. destruct o; try (split; reflexivity). cbn [cx_call]. unfold cx_new. destruct (p_new P); split; reflexivity.
Qed.

Lemma cx_call_seen_other : forall P h o cx i, i <> h ->
  assoc i (cx_seen (cx_call P h o cx)) = assoc i (cx_seen cx).
Proof.
  intros P h o cx i Hne. destruct o; try reflexivity. cbn [cx_call]. unfold cx_new.
  destruct (p_new P); [cbn [cx_seen]; apply assoc_unassoc_neq; exact Hne|reflexivity].
Qed.

Lemma cx_call_seen_self : forall P h o cx,
  (open_new P o = true /\ assoc h (cx_seen (cx_call P h o cx)) = None) \/
  (open_new P o = false /\ cx_seen (cx_call P h o cx) = cx_seen cx).
Proof.
  intros P h o cx. unfold open_new.
  destruct o; try (right; split; [destruct (p_new P); reflexivity|reflexivity]).
  cbn [cx_call]. unfold cx_new. destruct (p_new P).
  - left. split; [reflexivity|]. cbn [cx_seen]. apply assoc_unassoc_eq.
  - right. split; reflexivity.
Qed.

Lemma cx_call_lowb : forall P h o cx i, lowb (cx_call P h o cx) i <= lowb cx i.
Proof.
  intros P h o cx i. unfold lowb. destruct (Nat.eq_dec i h) as [->|Hne].
  - destruct (cx_call_seen_self P h o cx) as [[_ E]|[_ E]]; rewrite E; lia.
  - rewrite cx_call_seen_other by exact Hne. lia.
Qed.

Lemma cx_call_pending_nonadd : forall P h o cx, is_add o = false -> cx_pending (cx_call P h o cx) = cx_pending cx.
Proof.
  intros P h o cx E. destruct o; try discriminate E; try reflexivity.
  cbn [cx_call]. unfold cx_new. destruct (p_new P); reflexivity.
Qed.

Lemma cx_call_pending_other : forall P h o cx i, i <> h ->
  assoc i (cx_pending (cx_call P h o cx)) = assoc i (cx_pending cx).
Proof.
  intros P h o cx i Hne. destruct (is_add o) eqn:Ea; [|rewrite cx_call_pending_nonadd by exact Ea; reflexivity].
  destruct o; try discriminate Ea;
    cbn [cx_call cx_pending]; rewrite assoc_cons_neq, assoc_unassoc_neq by exact Hne; reflexivity.
Qed.

Lemma vbound_call : forall γ P h o cx i v, vbound γ cx i v -> vbound γ (cx_call P h o cx) i v.
Proof.
  intros γ P h o cx i v [A B]. destruct (cx_call_same P h o cx) as (_ & E3).
  split; [rewrite E3; exact A|]. pose proof (cx_call_lowb P h o cx i). lia.
Qed.

Lemma s_next_facts : forall P o ss ss', s_next P o ss = Some ss' ->
  s_open ss' = opened_after o (s_open ss) /\
  (s_read ss = true -> open_new P o = false -> s_read ss' = true) /\
  (o = ARead -> s_open ss = true -> s_read ss' = true) /\
  (s_add ss = true -> s_add ss' = true) /\
  (o = ARead -> s_open ss = false -> p_tol P = true) /\
  (is_add o = true -> s_add ss' = true).
Proof.
  intros P o [so sr sa] ss' E. unfold open_new. cbn [s_open s_read s_add].
  destruct o, so, sr, sa; cbn in E; try destruct (p_tol P); try destruct (p_clr P); try destruct (p_new P); cbn in E;
    try discriminate E; inversion E; subst ss'; cbn; repeat split; auto; try discriminate.
Qed.

Lemma x_call : forall P att γ s st cx hs h o m0 rest ss,
  GI γ s -> XG γ s st cx ->
  (forall i hd, i <> h -> nth_error hs i = Some hd -> hx P γ st cx i hd) ->
  (forall mm, m0 = Some mm -> vbound γ cx h (mnames mm)) ->
  (p_clr P = true -> assoc h (cx_pending cx) = None) ->
  wf_script P ss (o :: rest) = true -> flags_ok cx h m0 ss ->
  assoc h (c4_pending st) = None ->
  XG γ s (st_call h o st) (cx_call P h o cx) /\
  (forall i hd, i <> h -> nth_error hs i = Some hd -> hx P γ (st_call h o st) (cx_call P h o cx) i hd) /\
  hrun P γ (st_call h o st) (cx_call P h o cx) h o m0 rest (call_prog att o m0) /\
  (forall mm, m0 = Some mm -> vbound γ (cx_call P h o cx) h (mnames mm)).
Proof.
  intros P att γ s st cx hs h o m0 rest ss HG (X1 & X2 & X3 & X4 & X5) Ho Hm Hclr Hwf (L1 & L2 & L3) H4.
  destruct (cx_call_same P h o cx) as (E1 & E3).
  cbn [wf_script] in Hwf. destruct (s_next P o ss) as [ss'|] eqn:En; [|discriminate].
  split; [|split; [|split]].
  - unfold XG. rewrite E1, E3, st_call_commits. split; [exact X1|]. split; [exact X2|]. split; [exact X3|].
    split; [exact X4|]. intros i k E. destruct (Nat.eq_dec i h) as [->|Hne].
    + destruct (cx_call_seen_self P h o cx) as [[_ E']|[_ E']]; rewrite E' in E; [discriminate|eapply X5; eauto].
    + rewrite cx_call_seen_other in E by exact Hne. eapply X5; eauto.
  - intros i hd Hne E. destruct (@st_call_other i h o st Hne) as [A B].
    apply hx_other with (γ := γ) (s := s) (s' := s) (st := st) (cx := cx); auto.
    + apply frame_refl.
    + rewrite E3. apply incl_refl.
    + apply cx_call_seen_other. exact Hne.
    + apply cx_call_pending_other. exact Hne.
  - exists (rd_init o m0), ss'. split; [apply call_prog_okv|]. split; [|split; [|split; [exact Hwf|]]].
    + (* the versions the call starts with *)
      intros v Hv.
      assert (Hm' : o <> AOpen -> vbound γ (cx_call P h o cx) h v).
      { intro Hno. apply vbound_call. destruct m0 as [mm|].
        - assert (v = mnames mm) by (destruct o; try congruence; cbn [rd_init] in Hv; destruct Hv as [<-|[]]; reflexivity).
          subst v. apply Hm. reflexivity.
        - destruct o; try congruence; cbn [rd_init] in Hv; destruct Hv. }
      destruct o; try (apply Hm'; discriminate).
      destruct Hv as [<-|[]]. split; [rewrite E3; exact X3|].
      unfold lowb. destruct (cx_call_seen_self P h AOpen cx) as [[_ E']|[Eo E']]; rewrite E'; [lia|].
      unfold open_new in Eo. rewrite andb_true_r in Eo.
      cbn [s_next] in En. rewrite Eo in En. cbn [negb] in En. rewrite andb_true_r in En.
      destruct (s_read ss) eqn:Er; [discriminate|].
      destruct (assoc h (cx_seen cx)) eqn:Es; [|lia].
      assert (X : false = true) by (apply L2; congruence). discriminate X.
    + (* the pending transaction *)
      intro Hmc.
      assert (Hnone : o = ACompactAll \/ o = AExpire ->
                assoc h (cx_pending (cx_call P h o cx)) = assoc h (c4_pending (st_call h o st))).
      { intro Hoo. assert (Ec : cx_call P h o cx = cx) by (destruct Hoo; subst; reflexivity).
        assert (Et : st_call h o st = st) by (destruct Hoo; subst; reflexivity).
        rewrite Ec, Et, H4.
        destruct (p_clr P) eqn:Ep; [apply Hclr; reflexivity|].
        destruct (assoc h (cx_pending cx)) eqn:Ea; [|reflexivity].
        assert (Hsa : s_add ss = true) by (apply L3; congruence).
        destruct Hoo; subst o; cbn [s_next] in En; rewrite Hsa, Ep in En; discriminate. }
      destruct o; try discriminate Hmc; try (apply Hnone; first [left; reflexivity|right; reflexivity]).
      cbn [cx_call st_call cx_pending c4_pending]. rewrite !assoc_cons_eq. reflexivity.
    + (* the script state after the call *)
      destruct (s_next_facts P o ss ss' En) as (G1 & G2 & G3 & G4 & G5 & G6).
      unfold after_ok. split; [rewrite G1, L1; reflexivity|].
      split.
      { intro E. destruct (cx_call_seen_self P h o cx) as [[_ E']|[Eo E']]; [congruence|].
        rewrite E' in E. apply G2; [apply L2; exact E|exact Eo]. }
      split; [intros Eo Em; apply G3; [exact Eo|]; rewrite L1; destruct m0; [reflexivity|congruence]|].
      split.
      * intro E. destruct (is_add o) eqn:Ea; [apply G6; reflexivity|].
        apply G4, L3. rewrite cx_call_pending_nonadd in E by exact Ea. exact E.
      * intros Eo Em. apply G5; [exact Eo|]. rewrite L1, Em. reflexivity.
  - intros mm E. apply vbound_call. apply Hm. exact E.
Qed.

(* ---------------- one file-system operation ---------------- *)

Lemma apply_req_readlist : forall so c h s s' rs fr,
  apply_req so c h QReadList s = (s', rs, fr) -> s' = s /\ lnames rs = listed_fs s.
Proof. intros so c h s s' rs fr H. cbn in H. inversion H; subst. split; reflexivity. Qed.

Lemma x_req : forall P so c h γ s st cx lg q γ' s' rs fr o m0 script k (hs : list handle),
  GI γ s -> XG γ s st cx -> c4_commits st = txs_of γ s ->
  apply_req so c h q s = (s', rs, fr) ->
  step_post h γ s lg q γ' s' rs fr ->
  assoc h (c4_pending st) = pd lg ->
  hrun P γ st cx h o m0 script (Op q k) ->
  (forall mm, m0 = Some mm -> vbound γ cx h (mnames mm)) ->
  (forall i hd, i <> h -> nth_error hs i = Some hd -> hx P γ st cx i hd) ->
  XG γ' s' (st_req q h st) (cx_snap (listed_fs s') (cx_req q h cx)) /\
  hrun P γ' (st_req q h st) (cx_snap (listed_fs s') (cx_req q h cx)) h o m0 script (k rs) /\
  (forall mm, m0 = Some mm -> vbound γ' (cx_snap (listed_fs s') (cx_req q h cx)) h (mnames mm)) /\
  (forall i hd, i <> h -> nth_error hs i = Some hd ->
     hx P γ' (st_req q h st) (cx_snap (listed_fs s') (cx_req q h cx)) i hd) /\
  (forall rest, c10g_loop P false cx (req_event h q rs fr :: ESnap (snapshot_of s') :: rest)
                = c10g_loop P false (cx_snap (listed_fs s') (cx_req q h cx)) rest).
Proof.
  intros P so c h γ s st cx lg q γ' s' rs fr o m0 script k hs HG (X1 & X2 & X3 & X4 & X5) Hc Ha SP Hpd
         (rd & ss' & Hq & Hrd & Hpe & Hwf & (F1 & F2 & F3 & F4 & F5)) Hm Ho.
  cbn [okv] in Hq. destruct Hq as [Hmc Hk].
  set (st1 := st_req q h st). set (cx1 := cx_snap (listed_fs s') (cx_req q h cx)).
  pose proof (sp_GI SP) as HG'. pose proof (sp_frame SP) as HF.
  (* the commit sequences agree *)
  assert (Ecm : cx_commits (cx_req q h cx) = c4_commits st1).
  { unfold st1, cx_req, st_req. destruct (is_commit q) eqn:Eq; [|exact X1].
    unfold cx_commit, st_commit. rewrite (Hpe (Hmc eq_refl)).
    destruct (assoc h (c4_pending st)); cbn; rewrite X1; reflexivity. }
  assert (Hc1 : c4_commits st1 = txs_of γ' s').
  { rewrite (sp_txs SP). unfold st1, st_req. destruct (is_commit q).
    - unfold st_commit. rewrite Hpd. destruct (pd lg); cbn; [rewrite Hc; reflexivity|].
      rewrite app_nil_r. exact Hc.
    - rewrite app_nil_r. exact Hc. }
  assert (Ec1 : cx_commits cx1 = c4_commits st1) by exact Ecm.
  destruct (cx_req_commits q h cx) as [ext Eext].
  assert (Ev1 : incl (cx_versions cx) (cx_versions cx1)).
  { unfold cx1. eapply incl_tran; [|apply cx_snap_incl]. rewrite cx_req_versions. apply incl_refl. }
  assert (Es1 : cx_seen cx1 = cx_seen cx) by (unfold cx1; cbn [cx_snap cx_seen]; apply cx_req_seen).
  assert (Hlow : forall i, lowb cx1 i <= lowb cx i) by (intro i; unfold lowb; rewrite Es1; lia).
  assert (Hvb : forall i v, vbound γ cx i v -> vbound γ' cx1 i v).
  { intros i v. apply (vbound_mono _ _ _ _ _ _ _ _ HG HF X4 Ev1 (Hlow i)). }
  assert (Hlen : forall i, lowb cx1 i <= length (cx_commits cx1)).
  { intro i. unfold lowb. rewrite Es1. destruct (assoc i (cx_seen cx)) as [k0|] eqn:E; [|lia].
    apply X5 in E. change (cx_commits cx1) with (cx_commits (cx_req q h cx)). rewrite Eext, app_length. lia. }
  assert (Hnew : vtx γ' (listed_fs s') = cx_commits cx1) by (rewrite Ec1, Hc1; reflexivity).
  split; [|split; [|split; [|split]]].
  - (* the global part *)
    unfold XG. split; [exact Ec1|]. split; [apply cx_snap_in|]. split; [apply Ev1; exact X3|]. split.
    + intros v Hv. apply cx_snap_old in Hv as [->|Hv].
      * split; [intros n Hn; apply (g_seen HG'); exact Hn|]. rewrite Hnew. apply prefix_refl.
      * rewrite cx_req_versions in Hv. destruct (X4 v Hv) as [A B]. split.
        -- intros n Hn. apply (fr_seen HF). apply A. exact Hn.
        -- rewrite (vtx_frame _ _ _ _ v HG HF A).
           change (cx_commits cx1) with (cx_commits (cx_req q h cx)). rewrite Eext. apply prefix_app. exact B.
    + intros i k0 E. rewrite Es1 in E. apply X5 in E.
      change (cx_commits cx1) with (cx_commits (cx_req q h cx)). rewrite Eext, app_length. lia.
  - (* the rest of the call *)
    exists (rd_step q rs rd), ss'. split; [apply Hk|]. split; [|split; [|split; [exact Hwf|]]].
    + intros v Hv.
      assert (Hold : In v rd -> vbound γ' cx1 h v) by (intro X; apply Hvb, Hrd; exact X).
      destruct q; cbn [rd_step] in Hv; try (apply Hold; exact Hv).
      destruct Hv as [<-|Hv]; [|apply Hold; exact Hv].
      destruct (apply_req_readlist _ _ _ _ _ _ _ Ha) as [-> ->].
      split; [apply cx_snap_in|]. rewrite Hnew. apply Hlen.
    + intro Hmcc. unfold cx1, st1. cbn [cx_snap cx_pending]. unfold cx_req, st_req.
      destruct (is_commit q); [|apply Hpe; exact Hmcc].
      unfold cx_commit, st_commit. rewrite (Hpe Hmcc).
      destruct (assoc h (c4_pending st)) eqn:E; cbn [cx_pending c4_pending].
      * rewrite !assoc_unassoc_eq. reflexivity.
      * rewrite E. apply Hpe. exact Hmcc.
    + unfold after_ok. rewrite Es1. split; [exact F1|]. split; [exact F2|]. split; [exact F3|]. split; [|exact F5].
      intro E. apply F4. unfold cx1 in E. cbn [cx_snap cx_pending] in E. apply cx_req_pending_some in E. exact E.
  - intros mm E. apply Hvb, Hm. exact E.
  - intros i hd Hne E.
    apply hx_other with (γ := γ) (s := s) (s' := s') (st := st) (cx := cx); auto.
    + rewrite Es1. reflexivity.
    + unfold cx1. cbn [cx_snap cx_pending]. apply cx_req_pending_other. exact Hne.
    + unfold st1, st_req. destruct (is_commit q); [apply st_commit_other; exact Hne|reflexivity].
  - intros rest. apply c10g_req. apply (sp_commit SP).
Qed.

(* ---------------- a step, a crash, a run ---------------- *)

Lemma step_x : forall P so att γ w st cx h c w' evs,
  WInv γ w st -> XInv P γ w st cx -> step so att w h c = (w', evs) ->
  exists γ' st' cx', WInv γ' w' st' /\ XInv P γ' w' st' cx' /\
    forall rest, c10g_loop P false cx (evs ++ rest) = c10g_loop P false cx' rest.
Proof.
  intros P so att γ w st cx h c w' evs (HG & Hc & Hh) (HXG & Hxh) H. unfold step in H.
  assert (Hnop : (w', evs) = (w, []) ->
            exists γ' st' cx', WInv γ' w' st' /\ XInv P γ' w' st' cx' /\
              forall rest, c10g_loop P false cx (evs ++ rest) = c10g_loop P false cx' rest).
  { intro E. inversion E; subst. exists γ, st, cx. split; [split; [exact HG|split; assumption]|].
    split; [split; assumption|]. reflexivity. }
  destruct (nth_error (w_handles w) h) as [hd|] eqn:En; [|apply Hnop; congruence].
  destruct (Hh h hd En) as (Hscr & Hmem & Hpc).
  destruct (Hxh h hd En) as (Hxm & Hxpc).
  assert (Hothers : forall i hd', i <> h -> nth_error (w_handles w) i = Some hd' -> hinv γ (w_fs w) st i hd')
    by (intros i hd' _ E; apply Hh; exact E).
  assert (Hxothers : forall i hd', i <> h -> nth_error (w_handles w) i = Some hd' -> hx P γ st cx i hd')
    by (intros i hd' _ E; apply Hxh; exact E).
  destruct (h_pc hd) as [|o p|] eqn:Epc; [| |apply Hnop; congruence].
  - (* a call starts *)
    destruct (h_script hd) as [|o rest] eqn:Es; [apply Hnop; congruence|].
    cbn [forallb] in Hscr. apply andb_true_iff in Hscr as [Hmod Hrest].
    pose proof (@call_prog_ok att o (h_mem hd) Hmod) as Hok.
    pose proof (@interp_init γ (w_fs w) h o (h_mem hd) HG Hmem) as HI.
    destruct Hpc as [Hp0 Hd0].
    destruct Hxpc as [Hclr [ss [Hwf Hfl]]].
    set (st1 := st_call h o st). set (cx1 := cx_call P h o cx).
    assert (Hp1 : assoc h (c4_pending st1) = pd (lg_init o (h_mem hd))).
    { unfold st1. destruct o; cbn; try exact Hp0; try discriminate Hmod. rewrite Nat.eqb_refl. reflexivity. }
    assert (Hd1 : assoc h (c4_done st1) = dn (lg_init o (h_mem hd))).
    { unfold st1. destruct o; cbn; try exact Hd0; apply assoc_unassoc_eq. }
    assert (Hc1 : c4_commits st1 = txs_of γ (w_fs w)) by (unfold st1; rewrite st_call_commits; exact Hc).
    assert (Ho1 : forall i hd', i <> h -> nth_error (w_handles w) i = Some hd' -> hinv γ (w_fs w) st1 i hd').
    { intros i hd' Hne E. destruct (@st_call_other i h o st Hne) as [A B].
      apply hinv_other with (γ := γ) (s := w_fs w) (st := st); auto.
      - apply frame_refl.
      - apply keepsL_refl.
      - apply keepsT_refl. }
    destruct (x_call P att γ (w_fs w) st cx (w_handles w) h o (h_mem hd) rest ss HG HXG Hxothers Hxm Hclr Hwf Hfl Hp0)
      as (XG1 & XO1 & XR1 & XM1).
    fold st1 cx1 in XG1, XO1, XR1, XM1.
    destruct (call_prog att o (h_mem hd)) as [[m r]|q k] eqn:Ecp.
    + inversion H; subst w' evs. clear H.
      destruct (@finish_inv γ (w_fs w) st1 (w_handles w) h o m r _ rest HG Hc1 Ho1 HI Hok Hd1 Hrest)
        as (W & _ & _).
      assert (Hra : ret_allowed o r = true) by (cbn [ok] in Hok; apply Hok).
      destruct (x_finish P γ (w_fs w) st1 cx1 (w_handles w) h o (h_mem hd) m r rest HG XG1 XO1 XR1) as [cx' [XI XL]].
      { intros mm E. split; [apply XM1; exact E|apply Hmem; exact E]. }
      { exact Hra. }
      exists γ, (st_ret h st1), cx'. split; [exact W|]. split; [exact XI|].
      intros rest'. cbn [app]. rewrite c10g_call. apply XL.
    + inversion H; subst w' evs. clear H.
      exists γ, st1, cx1. split; [|split].
      * apply winv_set; auto.
        split; [exact Hrest|]. split; [exact Hmem|]. cbn [h_pc].
        exists (lg_init o (h_mem hd)). auto.
      * apply xinv_set; auto. split; [exact XM1|]. cbn [h_pc h_mem h_script]. exact XR1.
      * intros rest'. cbn [app]. apply c10g_call.
  - (* inside a call *)
    destruct Hpc as (lg & HI & Hok & Hp0 & Hd0).
    destruct p as [[m r]|q k].
    + (* the call returns *)
      inversion H; subst w' evs. clear H.
      destruct (@finish_inv γ (w_fs w) st (w_handles w) h o m r lg (h_script hd) HG Hc Hothers HI Hok Hd0 Hscr)
        as (W & _ & _).
      assert (Hra : ret_allowed o r = true) by (cbn [ok] in Hok; apply Hok).
      destruct (x_finish P γ (w_fs w) st cx (w_handles w) h o (h_mem hd) m r (h_script hd) HG HXG Hxothers Hxpc)
        as [cx' [XI XL]].
      { intros mm E. split; [apply Hxm; exact E|apply Hmem; exact E]. }
      { exact Hra. }
      exists γ, (st_ret h st), cx'. split; [exact W|]. split; [exact XI|exact XL].
    + (* one file-system operation *)
      destruct (apply_req so c h q (w_fs w)) as [[s' rs] fr] eqn:Ea.
      cbn [ok] in Hok. destruct Hok as [Hal Hk].
      destruct (@req_step so c h q γ (w_fs w) lg s' rs fr HG HI Hal Ea) as [γ' SP].
      specialize (Hk rs (sp_poss SP)).
      set (st1 := st_req q h st).
      assert (Hc1 : c4_commits st1 = txs_of γ' s').
      { rewrite (sp_txs SP). unfold st1, st_req. destruct (is_commit q).
        - unfold st_commit. rewrite Hp0. destruct (pd lg); cbn; [rewrite Hc; reflexivity|].
          rewrite app_nil_r. exact Hc.
        - rewrite app_nil_r. exact Hc. }
      assert (Hp1 : assoc h (c4_pending st1) = pd (nxt lg q rs) /\ assoc h (c4_done st1) = dn (nxt lg q rs)).
      { unfold st1, st_req. destruct (is_commit q) eqn:Eq.
        - destruct q; try discriminate Eq. cbn [nxt pd dn]. unfold st_commit. rewrite Hp0.
          destruct (pd lg) as [tx|] eqn:Epd; cbn.
          + rewrite Nat.eqb_refl. split; [apply assoc_unassoc_eq|reflexivity].
          + split; [rewrite Hp0; reflexivity|exact Hd0].
        - destruct (@nxt_pd_dn lg q rs Eq) as [A B]. rewrite A, B. auto. }
      destruct Hp1 as [Hp1 Hd1].
      assert (Ho1 : forall i hd', i <> h -> nth_error (w_handles w) i = Some hd' -> hinv γ' s' st1 i hd').
      { intros i hd' Hne E.
        apply hinv_other with (γ := γ) (s := w_fs w) (st := st); auto.
        - apply (sp_frame SP).
        - apply (sp_keepL SP). exact Hne.
        - apply (sp_keepT SP). exact Hne.
        - unfold st1, st_req. destruct (is_commit q); [apply st_commit_other; exact Hne|reflexivity].
        - unfold st1, st_req. destruct (is_commit q); [apply st_commit_other; exact Hne|reflexivity]. }
      destruct (x_req P so c h γ (w_fs w) st cx lg q γ' s' rs fr o (h_mem hd) (h_script hd) k (w_handles w)
                      HG HXG Hc Ea SP Hp0 Hxpc Hxm Hxothers) as (XG1 & XR1 & XM1 & XO1 & XL1).
      fold st1 in XG1, XR1, XO1.
      set (cx1 := cx_snap (listed_fs s') (cx_req q h cx)) in *.
      destruct (k rs) as [[m r]|q' k'] eqn:Ek.
      * inversion H; subst w' evs. clear H. cbn [ok] in Hk.
        destruct (@finish_inv γ' s' st1 (w_handles w) h o m r _ (h_script hd) (sp_GI SP) Hc1 Ho1 (sp_interp SP) Hk Hd1 Hscr)
          as (W & _ & _).
        assert (Hra : ret_allowed o r = true) by apply Hk.
        destruct (x_finish P γ' s' st1 cx1 (w_handles w) h o (h_mem hd) m r (h_script hd) (sp_GI SP) XG1 XO1 XR1)
          as [cx' [XI XL]].
        { intros mm E. split; [apply XM1; exact E|].
          eapply memok_stable; [exact HG|apply (sp_frame SP)|]. apply Hmem. exact E. }
        { exact Hra. }
        exists γ', (st_ret h st1), cx'. split; [exact W|]. split; [exact XI|].
        intros rest. cbn [app]. rewrite XL1. apply XL.
      * inversion H; subst w' evs. clear H.
        exists γ', st1, cx1. split; [|split].
        -- apply winv_set; auto.
           ++ apply (sp_GI SP).
           ++ split; [exact Hscr|]. split.
              ** cbn [h_mem]. intros mm E. eapply memok_stable; [exact HG|apply (sp_frame SP)|]. apply Hmem. exact E.
              ** cbn [h_pc]. exists (nxt lg q rs). split; [apply (sp_interp SP)|]. auto.
        -- apply xinv_set; auto. split; [exact XM1|]. cbn [h_pc h_mem h_script]. exact XR1.
        -- intros rest. cbn [app]. apply XL1.
Qed.

Lemma crash_x : forall P γ w st cx h w' evs,
  WInv γ w st -> XInv P γ w st cx -> crash w h = (w', evs) ->
  WInv γ w' st /\ XInv P γ w' st cx /\
  forall rest, c10g_loop P false cx (evs ++ rest) = c10g_loop P false cx rest.
Proof.
  intros P γ w st cx h w' evs HW (HXG & Hxh) H.
  destruct (@crash_inv γ w st h w' evs HW H) as (W & _ & _).
  split; [exact W|]. unfold crash in H.
  destruct (nth_error (w_handles w) h) as [hd|] eqn:En.
  - inversion H; subst w' evs. clear H. split; [|reflexivity].
    apply xinv_set; auto. destruct (Hxh h hd En) as (Hxm & _). split; [exact Hxm|exact I].
  - inversion H; subst w' evs. split; [split; assumption|reflexivity].
Qed.

Lemma run_x : forall P so att sched γ w st cx w' evs,
  WInv γ w st -> XInv P γ w st cx -> run so att w sched = (w', evs) ->
  c10g_loop P false cx evs = true.
Proof.
  intros P so att. induction sched as [|[h c|h] sched IH]; intros γ w st cx w' evs HW HX H; cbn [run] in H.
  - inversion H; subst. reflexivity.
  - destruct (step so att w h c) as [w1 e1] eqn:E1.
    destruct (run so att w1 sched) as [w2 e2] eqn:E2. inversion H; subst w' evs. clear H.
    destruct (step_x P so att γ w st cx h c w1 e1 HW HX E1) as (γ' & st' & cx' & HW' & HX' & XL).
    rewrite XL. eapply IH; eauto.
  - destruct (crash w h) as [w1 e1] eqn:E1.
    destruct (run so att w1 sched) as [w2 e2] eqn:E2. inversion H; subst w' evs. clear H.
    destruct (crash_x P γ w st cx h w1 e1 HW HX E1) as (HW' & HX' & XL).
    rewrite XL. eapply IH; eauto.
Qed.

(* ------------------------------------------------------------------ *)
(* 6. the initial world, the theorems                                  *)
(* ------------------------------------------------------------------ *)

Definition cx_init (tabs : list (nat * tfile)) : c10_state :=
  {| cx_commits := snap_txs (snapshot_of (init_fs tabs)); cx_pending := []; cx_seen := [];
     cx_versions := [listed (snapshot_of (init_fs tabs)); []] |}.

Lemma XInv_init : forall P tabs scripts,
  init_ok tabs -> Forall (fun s => c10_script P s = true) scripts ->
  XInv P (ghost0 tabs) (init_world tabs scripts) (st_init tabs) (cx_init tabs).
Proof.
  intros P tabs scripts Hi Hs. pose proof (@GI_init tabs Hi) as HG.
  split.
  - unfold XG. cbn [cx_init cx_commits cx_versions cx_seen st_init c4_commits init_world w_fs].
    split; [reflexivity|]. split; [left; reflexivity|]. split; [right; left; reflexivity|]. split.
    + intros v [<-|[<-|[]]].
      * change (listed (snapshot_of (init_fs tabs))) with (listed_fs (init_fs tabs)). split.
        -- intros n Hn. apply (g_seen HG). exact Hn.
        -- rewrite (snap_txs_snapshot HG). apply prefix_refl.
      * split; [intros n []|apply prefix_nil].
    + intros i k E. discriminate E.
  - cbn [init_world w_handles w_fs]. intros i hd E. apply nth_error_In in E.
    apply in_map_iff in E as [s [<- Hin]]. rewrite Forall_forall in Hs.
    split; [cbn; intros; discriminate|]. cbn [h_pc h_script h_mem].
    split; [reflexivity|]. exists (mkS false false false). split; [apply Hs; exact Hin|].
    repeat split; cbn; congruence.
Qed.

Lemma c10g_all_traces : forall P size_oracle attempts tabs scripts sched,
  init_ok tabs -> Forall (fun s => forallb modelled s = true) scripts ->
  Forall (fun s => c10_script P s = true) scripts ->
  c10g_loop P true cx0 (trace_of size_oracle attempts tabs scripts sched) = true.
Proof.
  intros P so att tabs scripts sched Hi Hs Hw. unfold trace_of.
  destruct (run so att (init_world tabs scripts) sched) as [w' evs] eqn:E. cbn [snd].
  change (c10g_loop P true cx0 (ESnap (snapshot_of (init_fs tabs)) :: evs))
    with (c10g_loop P false (cx_init tabs) evs).
  exact (run_x P so att sched _ _ _ _ _ _ (@WInv_init tabs scripts Hi Hs) (XInv_init P tabs scripts Hi Hw) E).
Qed.

(* property C10 (official predicate): a handle's view is one committed snapshot and stays
   readable under churn -- for scripts that read only open stacks, do not re-open after a
   read, and do not compact explicitly after an Add (see section 0 for why) *)
Theorem c10_all_traces : forall size_oracle attempts tabs scripts sched,
  init_ok tabs -> Forall (fun s => forallb modelled s = true) scripts ->
  Forall (fun s => c10_script pol0 s = true) scripts ->
  c10_ok (trace_of size_oracle attempts tabs scripts sched) = true.
Proof.
  intros. rewrite c10_ok_pol0. apply c10g_all_traces; assumption.
Qed.

(* property C06 (official predicate): crash atomicity *)
Theorem c06_all_traces : forall size_oracle attempts tabs scripts sched,
  init_ok tabs -> Forall (fun s => forallb modelled s = true) scripts ->
  Forall (fun s => c10_script pol0 s = true) scripts ->
  c06_ok (trace_of size_oracle attempts tabs scripts sched) = true.
Proof.
  intros so att tabs scripts sched Hi Hs Hw. unfold c06_ok.
  rewrite (@c04_all_traces so att tabs scripts sched Hi Hs), (@c05_all_traces so att tabs scripts sched Hi Hs),
          (c10_all_traces so att tabs scripts sched Hi Hs Hw). reflexivity.
Qed.

(* the repaired predicate: only re-opening after a read on an open stack is excluded *)
Theorem c10_rep_all_traces : forall size_oracle attempts tabs scripts sched,
  init_ok tabs -> Forall (fun s => forallb modelled s = true) scripts ->
  Forall (fun s => c10_script pol1 s = true) scripts ->
  c10_ok_rep (trace_of size_oracle attempts tabs scripts sched) = true.
Proof. intros. apply c10g_all_traces; assumption. Qed.

Theorem c06_rep_all_traces : forall size_oracle attempts tabs scripts sched,
  init_ok tabs -> Forall (fun s => forallb modelled s = true) scripts ->
  Forall (fun s => c10_script pol1 s = true) scripts ->
  c06_ok_rep (trace_of size_oracle attempts tabs scripts sched) = true.
Proof.
  intros so att tabs scripts sched Hi Hs Hw. unfold c06_ok_rep.
  rewrite (@c04_all_traces so att tabs scripts sched Hi Hs), (@c05_all_traces so att tabs scripts sched Hi Hs),
          (c10_rep_all_traces so att tabs scripts sched Hi Hs Hw). reflexivity.
Qed.

(* the repaired predicate with views monotone per opened stack: every script *)
Lemma wf_pol2 : forall l ss, wf_script pol2 ss l = true.
Proof.
  induction l as [|o l IH]; intros ss; [reflexivity|]. cbn [wf_script].
  assert (H : exists ss', s_next pol2 o ss = Some ss').
  { destruct ss as [so sr sa]. destruct o, so, sr, sa; cbn; eexists; reflexivity. }
  destruct H as [ss' ->]. apply IH.
Qed.

Theorem c10_rep2_all_traces : forall size_oracle attempts tabs scripts sched,
  init_ok tabs -> Forall (fun s => forallb modelled s = true) scripts ->
  c10_ok_rep2 (trace_of size_oracle attempts tabs scripts sched) = true.
Proof.
  intros. apply c10g_all_traces; try assumption.
  apply Forall_forall. intros s _. apply wf_pol2.
Qed.

Theorem c06_rep2_all_traces : forall size_oracle attempts tabs scripts sched,
  init_ok tabs -> Forall (fun s => forallb modelled s = true) scripts ->
  c06_ok_rep2 (trace_of size_oracle attempts tabs scripts sched) = true.
Proof.
  intros so att tabs scripts sched Hi Hs. unfold c06_ok_rep2.
  rewrite (@c04_all_traces so att tabs scripts sched Hi Hs), (@c05_all_traces so att tabs scripts sched Hi Hs),
          (c10_rep2_all_traces so att tabs scripts sched Hi Hs). reflexivity.
Qed.

(* the script conditions on examples, and the repaired predicates on the counterexamples of section 0 *)
Module Examples.
  Import Refuted.
  Lemma script_ok0 :
    c10_script pol0 [AOpen; ACompactAll; AExpire; AAdd 1 true; ARead; AAddEmpty; AAdd 2 false; ARead; AClose; AAdd 3 true] = true.
  Proof. reflexivity. Qed.
  Lemma script_ok1 :
    c10_script pol1 [ARead; AOpen; AAdd 1 true; ACompactAll; ARead; AExpire; AClose; ARead; AAdd 3 true] = true.
  Proof. reflexivity. Qed.
  (* the three counterexamples violate exactly one condition each *)
  Lemma scripts1_bad : forallb (c10_script pol0) scripts1 = false /\ forallb (c10_script pol1) scripts1 = true.
  Proof. split; reflexivity. Qed.
  Lemma scripts2_bad : forallb (c10_script pol0) scripts2 = false /\ forallb (c10_script pol1) scripts2 = false.
  Proof. split; reflexivity. Qed.
  Lemma scripts3_bad : forallb (c10_script pol0) scripts3 = false /\ forallb (c10_script pol1) scripts3 = true.
  Proof. split; reflexivity. Qed.
  (* R1 and R3 are artefacts of the predicate, R2 is not *)
  Lemma rep_nostack : c10_ok_rep (trace_of so 50 tabs2 scripts1 sched1) = true.
  Proof. vm_compute. reflexivity. Qed.
  Lemma rep_pending : c10_ok_rep (trace_of so 50 tabs2 scripts3 sched3) = true.
  Proof. vm_compute. reflexivity. Qed.
  Lemma rep_reopen : c10_ok_rep (trace_of so 1 tabs2 scripts2 sched2) = false.
  Proof. vm_compute. reflexivity. Qed.
  Lemma rep2_reopen : c10_ok_rep2 (trace_of so 1 tabs2 scripts2 sched2) = true.
  Proof. vm_compute. reflexivity. Qed.
End Examples.

Print Assumptions c10_all_traces.
Print Assumptions c06_all_traces.
Print Assumptions c10_rep_all_traces.
Print Assumptions c06_rep_all_traces.
Print Assumptions c10_rep2_all_traces.
Print Assumptions c06_rep2_all_traces.
Print Assumptions Refuted.c10_all_traces_refuted.
Print Assumptions Refuted.c06_all_traces_refuted.
