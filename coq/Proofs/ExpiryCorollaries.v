(* Corollaries of expiry_exact: an unset configuration expires nothing, expiring twice with
   the same configuration equals expiring once, and two configurations commute (view level). *)
From Coq Require Import List NArith Arith Bool Lia ZifyBool ZifyN.
From RT Require Import Model.Bytes Model.Records Model.Merge Model.Overlay Model.Compact
  Proofs.MergeProofs Proofs.CompactProofs Proofs.ExpiryProofs.
Import ListNotations.
Local Open Scope N_scope.

Definition expiry_unset : expiry := {| e_time := 0; e_max_index := 0; e_min_index := 0 |}.

Lemma keep_log_unset : forall l, keep_log (Some expiry_unset) l = true.
Proof. intros l. unfold keep_log, expiry_unset. cbn [e_time e_max_index e_min_index].
  rewrite N.ltb_irrefl, N.eqb_refl. reflexivity. Qed.

Lemma filter_all_true : forall (A : Type) (f : A -> bool) (l : list A),
  (forall x, f x = true) -> filter f l = l.
Proof. intros A f l H. induction l as [|x xs IH]; cbn [filter]; [reflexivity|]. rewrite H, IH. reflexivity. Qed.

Lemma filter_idem : forall (A : Type) (f : A -> bool) (l : list A), filter f (filter f l) = filter f l.
Proof. intros A f l. induction l as [|x xs IH]; cbn [filter]; [reflexivity|].
  destruct (f x) eqn:E; cbn [filter]; [rewrite E, IH|]; auto. Qed.

Lemma filter_comm : forall (A : Type) (f g : A -> bool) (l : list A), filter f (filter g l) = filter g (filter f l).
Proof. intros A f g l. induction l as [|x xs IH]; cbn [filter]; [reflexivity|].
  destruct (g x) eqn:G; destruct (f x) eqn:F; cbn [filter]; rewrite ?G, ?F, IH; reflexivity. Qed.

(* every limit unset: CompactAll(&LogExpirationConfig{}) removes nothing *)
Theorem expiry_unset_identity : forall ts, tables_sorted ts -> ts <> [] ->
  stack_logs (compact_range 0 (length ts - 1) (Some expiry_unset) ts) = stack_logs ts /\
  stack_refs (compact_range 0 (length ts - 1) (Some expiry_unset) ts) = stack_refs ts.
Proof.
  intros ts Hs Hne. destruct (expiry_exact expiry_unset ts Hs Hne) as [Hl Hr]. split; [|exact Hr].
  rewrite Hl. apply filter_all_true. exact keep_log_unset.
Qed.

(* expiring again with the same configuration changes nothing more; with another one, the order
   of the two expiries does not matter *)
Theorem expiry_twice : forall e1 e2 ts, tables_sorted ts -> ts <> [] ->
  let ts1 := compact_range 0 (length ts - 1) (Some e1) ts in
  ts1 <> [] ->
  stack_logs (compact_range 0 (length ts1 - 1) (Some e2) ts1) =
    filter (keep_log (Some e2)) (filter (keep_log (Some e1)) (stack_logs ts)) /\
  stack_refs (compact_range 0 (length ts1 - 1) (Some e2) ts1) = stack_refs ts.
Proof.
  intros e1 e2 ts Hs Hne ts1 Hne1.
  assert (Hlen : (0 < length ts)%nat) by (destruct ts; [congruence|cbn; lia]).
  assert (Hs1 : tables_sorted ts1) by (apply compact_sorted; [exact Hs|lia|lia]).
  destruct (expiry_exact e1 ts Hs Hne) as [Hl Hr].
  destruct (expiry_exact e2 ts1 Hs1 Hne1) as [Hl2 Hr2].
  split; [rewrite Hl2; unfold ts1; rewrite Hl; reflexivity | rewrite Hr2; exact Hr].
Qed.

Theorem expiry_idempotent_view : forall e L,
  filter (keep_log (Some e)) (filter (keep_log (Some e)) L) = filter (keep_log (Some e)) L.
Proof. intros. apply filter_idem. Qed.

Theorem expiry_commute_view : forall e1 e2 L,
  filter (keep_log (Some e2)) (filter (keep_log (Some e1)) L) =
  filter (keep_log (Some e1)) (filter (keep_log (Some e2)) L).
Proof. intros. apply filter_comm. Qed.
