(* Property C16 "operations leave no residue" for every schedule of the stack
   protocol model (Model/StackProto.v).

   1. A residue judgement [res lg d p Q] over the free-monad programs, running
      along the same handle-local ghost state [lgh] as the judgement [ok] of
      Proofs/StackInvProofs.v: [d] is the list of table files the handle has
      dropped from tables.list by its own commit and still has to unlink, and
      [fr lg] are its fresh, not yet listed tables.  Every API program (also
      add_multi, which takes its first table back when the second is refused,
      and clean, which only unlinks) goes from "owes nothing" to "owes nothing".
   2. A world invariant for crash-free runs: every table file is listed, or is
      the fresh table / a table still to unlink of a handle inside a call;
      together with the lock ownership invariant of Proofs/LockProofs.v.
   3. At quiescence the directory is clean; the theorem. *)
From Coq Require Import List NArith Arith Bool Lia.
From RT Require Import Model.StackTrace Model.Segments Model.StackProto.
From RT Require Import Proofs.LockProofs Proofs.StackInvProofs.
Import ListNotations.
Local Open Scope nat_scope.

(* ------------------------------------------------------------------ *)
(* 1. the residue judgement                                            *)
(* ------------------------------------------------------------------ *)

Definition dead_upd (lg : lgh) (q : req) (rs : resp) (d : list nat) : list nat :=
  match q with
  | QCommitList names =>
      filter (fun n => negb (mem_nat n names)) (match vw lg with Some l => l | None => [] end) ++ d
  | QRemove (PT n) => rm n d
  | QRemoveOne _ => match rs with SRemoved n => rm n d | _ => d end
  | _ => d
  end.

Definition needs_nofresh (q : req) : bool :=
  match q with QRemove PLL => true | _ => false end.

Fixpoint res {A} (lg : lgh) (d : list nat) (p : prog A) (Q : lgh -> list nat -> A -> Prop) : Prop :=
  match p with
  | Ret a => Q lg d a
  | Op q k => (needs_nofresh q = true -> fr lg = []) /\
              forall rs, possible lg q rs -> res (nxt lg q rs) (dead_upd lg q rs d) (k rs) Q
  end.

Lemma res_bind : forall A B (p : prog A) (f : A -> prog B) lg d Q Q',
  res lg d p Q -> (forall lg' d' a, Q lg' d' a -> res lg' d' (f a) Q') -> res lg d (pbind p f) Q'.
Proof.
  induction p as [a|q k IH]; intros f lg d Q Q' H Hf; cbn [pbind res] in *.
  - apply Hf. exact H.
  - destruct H as [Ha Hk]. split; [exact Ha|]. intros rs Hp. eapply IH; eauto.
Qed.

Lemma res_conseq : forall A (p : prog A) lg d (Q Q' : lgh -> list nat -> A -> Prop),
  res lg d p Q -> (forall lg' d' a, Q lg' d' a -> Q' lg' d' a) -> res lg d p Q'.
Proof.
  induction p as [a|q k IH]; intros lg d Q Q' H HQ; cbn [res] in *.
  - apply HQ. exact H.
  - destruct H as [Ha Hk]. split; [exact Ha|]. intros rs Hp. eapply IH; eauto.
Qed.

Lemma res_op : forall B q (f : resp -> prog B) lg d Q,
  (needs_nofresh q = true -> fr lg = []) ->
  (forall rs, possible lg q rs -> res (nxt lg q rs) (dead_upd lg q rs d) (f rs) Q) ->
  res lg d (pbind (op q) f) Q.
Proof. intros. cbn [pbind op res]. split; assumption. Qed.

(* requests that neither create, publish nor give up a fresh table *)
Definition calm (q : req) : bool :=
  match q with QRenameTmp _ _ _ _ _ | QCommitList _ | QRemove PLL => false | _ => true end.

Fixpoint calmp {A} (p : prog A) : Prop :=
  match p with Ret _ => True | Op q k => calm q = true /\ forall rs, calmp (k rs) end.

Lemma calmp_bind : forall A B (p : prog A) (f : A -> prog B),
  calmp p -> (forall a, calmp (f a)) -> calmp (pbind p f).
Proof.
  induction p as [a|q k IH]; intros f Hp Hf; cbn [pbind calmp] in *.
  - apply Hf.
  - destruct Hp as [Hq Hk]. split; [exact Hq|]. intro rs. apply IH; auto.
Qed.

Lemma calmp_op : forall A q (f : resp -> prog A), calm q = true -> (forall r, calmp (f r)) -> calmp (pbind (op q) f).
Proof. intros. cbn [pbind op calmp]. split; assumption. Qed.

Lemma nxt_calm_fr : forall lg q rs, calm q = true -> incl (fr (nxt lg q rs)) (fr lg).
Proof.
  intros lg q rs H. destruct q as [p| | | | | | |p| | |]; try discriminate H; cbn [nxt]; try apply incl_refl.
  - destruct p; try apply incl_refl. destruct rs; apply incl_refl.
  - destruct rs; apply incl_refl.
  - destruct rs; apply incl_refl.
  - destruct p; try apply incl_refl; try discriminate H.
    destruct (nxt_rmtab lg n rs) as [_ E]. cbn [nxt] in E. rewrite E. intros x Hx. apply in_rmv in Hx. apply Hx.
Qed.

Lemma incl_rm : forall n d, incl (rm n d) d.
Proof. intros n d x Hx. apply in_rm in Hx. apply Hx. Qed.

Lemma dead_calm : forall lg q rs d, calm q = true -> incl (dead_upd lg q rs d) d.
Proof.
  intros lg q rs d H. destruct q as [p| | | | | | |p| | |]; try discriminate H; cbn [dead_upd]; try apply incl_refl.
  - destruct p; try apply incl_refl. apply incl_rm.
  - destruct rs; try apply incl_refl. apply incl_rm.
Qed.

Lemma calm_nofresh : forall q, calm q = true -> needs_nofresh q = true -> False.
Proof. intros q H1 H2. destruct q as [p| | | | | | |p| | |]; try discriminate; destruct p; discriminate. Qed.

Lemma res_calm : forall A (p : prog A) lg d, calmp p ->
  res lg d p (fun lg' d' _ => incl (fr lg') (fr lg) /\ incl d' d).
Proof.
  induction p as [a|q k IH]; intros lg d H; cbn [res calmp] in *.
  - split; apply incl_refl.
  - destruct H as [Hq Hk]. split.
    + intro X. exfalso. eapply calm_nofresh; eauto.
    + intros rs _. eapply res_conseq; [apply IH; apply Hk|].
      cbn beta. intros lg' d' _ [E I]. split.
      * eapply incl_tran; [exact E|]. apply nxt_calm_fr. exact Hq.
      * eapply incl_tran; [exact I|]. apply dead_calm. exact Hq.
Qed.

Lemma calmp_open_all : forall reuse old names acc, calmp (open_all reuse old names acc).
Proof.
  intros reuse old names. induction names as [|n t IH]; intro acc; cbn [open_all].
  - exact I.
  - destruct (if reuse then lookup n old else None).
    + apply IH.
    + apply calmp_op; [reflexivity|]. intro r. destruct r; try exact I. apply IH.
Qed.

Lemma calmp_remove_tabs : forall l, calmp (remove_tabs l).
Proof.
  induction l as [|n t IH]; cbn [remove_tabs]; [exact I|].
  apply calmp_op; [reflexivity|]. intros _. exact IH.
Qed.

Lemma calmp_remove_any : forall fuel cands, calmp (remove_any fuel cands).
Proof.
  induction fuel as [|f IH]; intro cands; cbn [remove_any].
  - destruct cands; exact I.
  - destruct cands as [|c cs]; [exact I|].
    apply calmp_op; [reflexivity|]. intro r. destruct r; try exact I. apply IH.
Qed.

Lemma calmp_reload : forall attempts hh reuse old, calmp (reload attempts hh reuse old).
Proof.
  induction attempts as [|a IH]; intros hh reuse old; cbn [reload]; [exact I|].
  apply calmp_op; [reflexivity|]. intro r.
  apply calmp_bind; [apply calmp_open_all|]. intros [m|].
  - destruct (same_hash hh m); [|exact I].
    apply calmp_bind; [apply calmp_remove_any|]. intros _. exact I.
  - apply calmp_op; [reflexivity|]. intro r2. destruct (names_eqb _ _); [exact I|apply IH].
Qed.

Lemma calmp_open_reload : forall attempts hh, calmp (open_reload attempts hh).
Proof.
  induction attempts as [|a IH]; intro hh; cbn [open_reload]; [exact I|].
  apply calmp_op; [reflexivity|]. intro r.
  apply calmp_bind; [apply calmp_open_all|]. intros [m|]; [destruct (same_hash hh m); exact I|].
  apply calmp_op; [reflexivity|]. intro r2. destruct (names_eqb _ _); [exact I|apply IH].
Qed.

Lemma calmp_close : forall m, calmp (close m).
Proof.
  intro m. unfold close. apply calmp_op; [reflexivity|]. intro c.
  destruct (match c with SNames (Some l) => l | _ => [] end); [exact I|apply calmp_remove_tabs].
Qed.

Lemma calmp_remove_tlocks : forall l, calmp (remove_tlocks l).
Proof.
  induction l as [|n t IH]; cbn [remove_tlocks]; [exact I|].
  apply calmp_op; [reflexivity|]. intros _. exact IH.
Qed.

Lemma calmp_lock_tabs : forall todo taken, calmp (lock_tabs todo taken).
Proof.
  induction todo as [|n t IH]; intro taken; cbn [lock_tabs]; [exact I|].
  apply calmp_op; [reflexivity|]. intro r.
  destruct r; try (apply calmp_bind; [apply calmp_remove_tlocks|intros _; exact I]). apply IH.
Qed.

(* unlinking a list of tables clears them from the debt *)
Lemma res_remove_tabs : forall l lg d, fr lg = [] ->
  res lg d (remove_tabs l) (fun lg' d' _ => lg' = lg /\ d' = rms l d).
Proof.
  induction l as [|n t IH]; intros lg d Hfr; cbn [remove_tabs].
  - cbn. auto.
  - apply res_op; [discriminate|]. intros rs _. cbn [nxt dead_upd]. rewrite Hfr. apply IH. exact Hfr.
Qed.

Definition owes_nothing {A} (lg : lgh) (d : list nat) (_ : A) : Prop := fr lg = [] /\ d = [].

Lemma incl_nil_eq : forall (d : list nat), incl d [] -> d = [].
Proof. intros [|x d] H; [reflexivity|]. exfalso. apply (H x). left. reflexivity. Qed.

Lemma res_calm_nothing : forall A (p : prog A) lg, calmp p -> fr lg = [] -> res lg [] p owes_nothing.
Proof.
  intros A p lg H Hfr. eapply res_conseq; [apply res_calm; exact H|].
  cbn beta. intros lg' d' a [E I]. rewrite Hfr in E. split; apply incl_nil_eq; assumption.
Qed.

Lemma filter_replaced : forall (run pre post cur : list nat) n,
  cur = pre ++ run ++ post ->
  incl (filter (fun x => negb (mem_nat x (pre ++ [n] ++ post))) cur) run.
Proof.
  intros run pre post cur n -> x Hx. apply filter_In in Hx as [Hx1 Hx2].
  apply negb_true_iff in Hx2. apply mem_nat_false in Hx2.
  apply in_app_or in Hx1 as [H|H].
  - exfalso. apply Hx2. apply in_or_app. left. exact H.
  - apply in_app_or in H as [H|H]; [exact H|].
    exfalso. apply Hx2. apply in_or_app. right. apply in_or_app. right. exact H.
Qed.

Lemma res_compact_range : forall attempts hh first last expiry m lg,
  fr lg = [] -> res lg [] (compact_range attempts hh first last expiry m) owes_nothing.
Proof.
  intros attempts hh first last expiry m lg Hfr. unfold compact_range.
  assert (Hdone : forall (lgx : lgh) (b : bool), fr lgx = [] -> @owes_nothing (mem * bool) lgx [] (m, b))
    by (intros; split; [assumption|reflexivity]).
  destruct (Nat.leb last first && negb expiry); [cbn [res]; apply Hdone; exact Hfr|].
  apply res_op; [discriminate|]. intros r _.
  destruct r; try (cbn [nxt res dead_upd]; apply Hdone; exact Hfr).
  apply res_op; [discriminate|]. intros c _. cbn [dead_upd].
  change (match c with SNames (Some l) => l | _ => [] end) with (lnames c).
  set (lg2 := nxt (nxt lg (QCreateExcl PLL) SOk) QReadList c).
  assert (F2 : fr lg2 = []) by exact Hfr.
  assert (Hrel : forall lgx, fr lgx = [] ->
            res lgx [] (do! _ := op (QRemove PLL) in Ret (m, false)) owes_nothing).
  { intros lgx A. apply res_op; [intros _; exact A|]. intros rs _. cbn [nxt res dead_upd]. split; reflexivity. }
  destruct (negb (names_eqb (lnames c) (mnames m))); [apply Hrel; exact F2|].
  set (sub := range first last m).
  eapply res_bind; [apply res_calm; apply calmp_lock_tabs|].
  cbn beta. intros lg3 d3 lkr [F3 I3]. apply incl_nil_eq in I3. subst d3. rewrite F2 in F3. apply incl_nil_eq in F3.
  destruct lkr as [locks|]; [|apply Hrel; exact F3].
  apply res_op; [intros _; exact F3|]. intros r4 _. cbn [dead_upd].
  apply res_op; [discriminate|]. intros t [tmp ->]. cbn [dead_upd].
  apply res_op; [discriminate|]. intros r5 _. cbn [dead_upd].
  destruct r5;
    try (apply res_calm_nothing; [|reflexivity];
         apply calmp_op; [reflexivity|]; intros _;
         apply calmp_bind; [apply calmp_remove_tlocks|intros _; exact I]).
  apply res_op; [discriminate|]. intros c2 _. cbn [dead_upd].
  change (match c2 with SNames (Some l) => l | _ => [] end) with (lnames c2).
  destruct (find_run (mnames sub) (lnames c2) 0) as [start|] eqn:Hfr2.
  - apply find_run_spec in Hfr2 as [_ Hfr2]. rewrite Nat.sub_0_r, length_mnames in Hfr2.
    apply res_op; [intros _; reflexivity|]. intros nw (n & f & -> & _). cbn [dead_upd].
    apply res_op; [discriminate|]. intros r8 _.
    cbn [dead_upd nxt vw lk]. rewrite app_nil_r.
    eapply res_bind; [apply res_remove_tabs; reflexivity|]. cbn beta. intros lg9 d9 _ [-> ->].
    rewrite rms_nil by (apply filter_replaced; exact Hfr2).
    apply res_calm_nothing; [|reflexivity].
    apply calmp_bind; [apply calmp_reload|]. intros rl.
    apply calmp_bind; [apply calmp_remove_tlocks|]. intros _. exact I.
  - apply res_op; [discriminate|]. intros r7 _. cbn [dead_upd].
    eapply res_bind; [apply res_calm; apply calmp_remove_tlocks|].
    cbn beta. intros lg8 d8 _ [F8 I8]. apply incl_nil_eq in I8. subst d8.
    apply Hrel. apply incl_nil_eq. exact F8.
Qed.

Lemma res_auto_compact : forall attempts hh m lg,
  fr lg = [] -> res lg [] (auto_compact attempts hh m) owes_nothing.
Proof.
  intros attempts hh m lg Hfr. unfold auto_compact.
  destruct (suggest _) as [[s e]|]; [|cbn [res]; split; [exact Hfr|reflexivity]].
  eapply res_bind; [apply res_compact_range; exact Hfr|].
  cbn beta. intros lg' d' a H. cbn [res]. exact H.
Qed.

Lemma res_add : forall attempts hh kind auto m lg,
  fr lg = [] -> res lg [] (add attempts hh kind auto m) owes_nothing.
Proof.
  intros attempts hh kind auto m lg Hfr. unfold add.
  assert (Hfail : forall lgx, fr lgx = [] ->
            res lgx [] (do! rl := reload attempts hh true m in Ret (fst rl, RLockFailure)) owes_nothing).
  { intros lgx A. apply res_calm_nothing; [|exact A]. apply calmp_bind; [apply calmp_reload|]. intros; exact I. }
  apply res_op; [discriminate|]. intros r _. cbn [dead_upd].
  destruct r; try (cbn [nxt]; apply Hfail; exact Hfr).
  apply res_op; [discriminate|]. intros c _. cbn [dead_upd].
  change (match c with SNames (Some l) => l | _ => [] end) with (lnames c).
  destruct (names_eqb (lnames c) (mnames m)) eqn:Eq; cbn [negb].
  2:{ apply res_op; [intros _; exact Hfr|]. intros r3 _. cbn [dead_upd]. apply Hfail. reflexivity. }
  apply list_nat_eqb_eq in Eq.
  apply res_op; [discriminate|]. intros t [tmp ->]. cbn [dead_upd].
  destruct kind as [tx| |].
  - apply res_op; [discriminate|]. intros r5 _. cbn [dead_upd].
    apply res_op; [intros _; exact Hfr|]. intros nw (n & f & -> & _). cbn [dead_upd].
    apply res_op; [discriminate|]. intros r7 _. cbn [dead_upd].
    apply res_op; [discriminate|]. intros r8 _.
    cbn [dead_upd nxt vw lk]. rewrite app_nil_r.
    assert (Hd : filter (fun x => negb (mem_nat x (mnames m ++ [n]))) (lnames c) = []).
    { apply incl_nil_eq. intros x Hx. apply filter_In in Hx as [Hx1 Hx2].
      apply negb_true_iff in Hx2. apply mem_nat_false in Hx2. apply Hx2.
      apply in_or_app. left. rewrite <- Eq. exact Hx1. }
    rewrite Hd.
    eapply res_bind; [apply res_calm; apply calmp_reload|].
    cbn beta. intros lg9 d9 rl [F9 I9]. apply incl_nil_eq in I9. subst d9. cbn [fr] in F9. apply incl_nil_eq in F9.
    destruct auto.
    + eapply res_bind; [apply res_auto_compact; exact F9|].
      cbn beta. intros lg10 d10 m' H. cbn [res]. exact H.
    + cbn [res]. split; [exact F9|reflexivity].
  - apply res_op; [discriminate|]. intros r5 _. cbn [dead_upd].
    apply res_op; [intros _; exact Hfr|]. intros r6 _. cbn [dead_upd].
    destruct auto.
    + eapply res_bind; [apply res_auto_compact; reflexivity|].
      cbn beta. intros lg10 d10 m' H. cbn [res]. exact H.
    + cbn [res]. split; reflexivity.
  - apply res_op; [discriminate|]. intros r5 _. cbn [dead_upd].
    apply res_op; [intros _; exact Hfr|]. intros r6 _. cbn [dead_upd res]. split; reflexivity.
Qed.

Lemma nxt_opentab_same : forall lg n r,
  lk (nxt lg (QOpenTab n) r) = lk lg /\ vw (nxt lg (QOpenTab n) r) = vw lg /\ fr (nxt lg (QOpenTab n) r) = fr lg.
Proof. intros lg n r. destruct r; repeat split. Qed.

Lemma res_add_multi : forall attempts hh tx same m lg,
  fr lg = [] -> res lg [] (add_multi attempts hh tx same m) owes_nothing.
Proof.
  intros attempts hh tx same m lg Hfr. unfold add_multi.
  apply res_op; [discriminate|]. intros r _. cbn [dead_upd].
  destruct r; try (cbn [nxt res]; split; [exact Hfr|reflexivity]).
  apply res_op; [discriminate|]. intros c _. cbn [dead_upd].
  change (match c with SNames (Some l) => l | _ => [] end) with (lnames c).
  destruct (names_eqb (lnames c) (mnames m)) eqn:Eq; cbn [negb].
  2:{ apply res_op; [intros _; exact Hfr|]. intros r3 _. cbn [dead_upd res]. split; reflexivity. }
  apply list_nat_eqb_eq in Eq.
  apply res_op; [discriminate|]. intros t [tmp ->]. cbn [dead_upd].
  apply res_op; [discriminate|]. intros r5 _. cbn [dead_upd].
  apply res_op; [discriminate|]. intros nw (n1 & f1 & -> & _). cbn [dead_upd].
  apply res_op; [discriminate|]. intros r7 _. cbn [dead_upd].
  apply res_op; [discriminate|]. intros t2 [tmp2 ->]. cbn [dead_upd].
  set (lg8 := nxt (nxt (nxt (nxt (nxt (nxt (nxt lg (QCreateExcl PLL) SOk) QReadList c) QCreateTemp (STmp tmp))
                (QOpenTmp tmp) r5) (QRenameTmp tmp (next_index m) (next_index m) [tx] hh) (SNew n1 f1))
                (QRemove (PTmp tmp)) r7) QCreateTemp (STmp tmp2)).
  assert (F8 : fr lg8 = [n1]) by (cbn [lg8 nxt fr]; rewrite Hfr; reflexivity).
  assert (V8 : vw lg8 = Some (lnames c)) by reflexivity.
  destruct same.
  - apply res_op; [discriminate|]. intros r9 _. cbn [dead_upd].
    apply res_op; [discriminate|]. intros r10 _. cbn [dead_upd rm remove].
    set (lg10 := nxt (nxt lg8 (QRemove (PTmp tmp2)) r9) (QRemove (PT n1)) r10).
    assert (F10 : fr lg10 = []).
    { destruct (nxt_rmtab (nxt lg8 (QRemove (PTmp tmp2)) r9) n1 r10) as [_ E]. unfold lg10. rewrite E.
      change (fr (nxt lg8 (QRemove (PTmp tmp2)) r9)) with (fr lg8). rewrite F8. cbn. rewrite Nat.eqb_refl. reflexivity. }
    apply res_op; [intros _; exact F10|]. intros r11 _. cbn [dead_upd res]. split; reflexivity.
  - apply res_op; [discriminate|]. intros r9 _. cbn [dead_upd].
    set (lg9 := nxt lg8 (QOpenTab n1) r9).
    destruct (nxt_opentab_same lg8 n1 r9) as (L9 & V9 & F9). fold lg9 in L9, V9, F9.
    apply res_op; [discriminate|]. intros r10 _. cbn [dead_upd].
    apply res_op; [discriminate|]. intros nw2 (n2 & f2 & -> & _). cbn [dead_upd].
    apply res_op; [discriminate|]. intros r12 _. cbn [dead_upd].
    apply res_op; [discriminate|]. intros r13 _.
    cbn [dead_upd nxt vw lk]. rewrite V9, V8, app_nil_r.
    assert (Hd : filter (fun x => negb (mem_nat x (mnames m ++ [n1; n2]))) (lnames c) = []).
    { apply incl_nil_eq. intros x Hx. apply filter_In in Hx as [Hx1 Hx2].
      apply negb_true_iff in Hx2. apply mem_nat_false in Hx2. apply Hx2.
      apply in_or_app. left. rewrite <- Eq. exact Hx1. }
    rewrite Hd.
    apply res_calm_nothing; [|reflexivity].
    apply calmp_bind; [apply calmp_reload|]. intros rl. exact I.
Qed.

Lemma calmp_clean_loop : forall fuel cands mx, calmp (clean_loop fuel cands mx).
Proof.
  induction fuel as [|f IH]; intros cands mx; cbn [clean_loop].
  - destruct cands; exact I.
  - destruct cands as [|c cs]; [exact I|].
    apply calmp_op; [reflexivity|]. intro r. destruct r as [| | | | | | | |n o|]; try exact I.
    destruct o as [tf|]; [|apply IH].
    destruct (tf_max tf <=? mx)%N; [|apply IH].
    apply calmp_op; [reflexivity|]. intros _. apply IH.
Qed.

Lemma res_clean : forall attempts hh m lg,
  fr lg = [] -> res lg [] (clean attempts hh m) owes_nothing.
Proof.
  intros attempts hh m lg Hfr. unfold clean.
  assert (Hrel : forall lgx (x : mem * apires), fr lgx = [] ->
            res lgx [] (do! _ := op (QRemove PLL) in Ret x) owes_nothing).
  { intros lgx x A. apply res_op; [intros _; exact A|]. intros rs _. cbn [nxt res dead_upd]. split; reflexivity. }
  apply res_op; [discriminate|]. intros r _. cbn [dead_upd].
  destruct r; try (cbn [nxt res]; split; [exact Hfr|reflexivity]).
  apply res_op; [discriminate|]. intros c _. cbn [dead_upd].
  set (lg2 := nxt (nxt lg (QCreateExcl PLL) SOk) QReadList c).
  assert (F2 : fr lg2 = []) by exact Hfr.
  destruct (negb (names_eqb _ (mnames m))); [apply Hrel; exact F2|].
  eapply res_bind; [apply res_calm; apply calmp_reload|].
  cbn beta. intros lg3 d3 rl [F3 I3]. apply incl_nil_eq in I3. subst d3. rewrite F2 in F3. apply incl_nil_eq in F3.
  destruct (snd rl); [|apply Hrel; exact F3|apply Hrel; exact F3].
  apply res_op; [discriminate|]. intros dres _. cbn [dead_upd nxt].
  destruct (fst rl) as [|x m']; [apply Hrel; exact F3|].
  eapply res_bind; [apply res_calm; apply calmp_clean_loop|].
  cbn beta. intros lg4 d4 _ [F4 I4]. apply incl_nil_eq in I4. subst d4. rewrite F3 in F4. apply incl_nil_eq in F4.
  apply Hrel. exact F4.
Qed.

Lemma res_wrap : forall A (p : prog A) f lg,
  res lg [] p owes_nothing -> res lg [] (wrap p f) owes_nothing.
Proof.
  intros A p f lg H. unfold wrap. eapply res_bind; [exact H|]. cbn beta. intros lg' d' a X. cbn [res]. exact X.
Qed.

Theorem res_call_prog : forall attempts hh o m lg,
  fr lg = [] -> res lg [] (call_prog attempts hh o m) owes_nothing.
Proof.
  intros attempts hh o m lg Hfr.
  assert (Hret : forall x : option mem * apires, res lg [] (Ret x) owes_nothing)
    by (intro x; cbn [res]; split; [exact Hfr|reflexivity]).
  destruct o; destruct m as [mm|]; cbn [call_prog]; try apply Hret;
    try (apply res_wrap; first [apply res_add; exact Hfr | apply res_add_multi; exact Hfr | apply res_clean; exact Hfr
                               | apply res_calm_nothing; [first [apply calmp_reload|apply calmp_open_reload|apply calmp_close]|exact Hfr]]).
  - destruct mm; [apply Hret|]. apply res_wrap. apply res_compact_range. exact Hfr.
  - destruct (Nat.ltb last (length mm) && Nat.leb first last); [|apply Hret].
    apply res_wrap. apply res_compact_range. exact Hfr.
  - destruct mm; [apply Hret|]. apply res_wrap. apply res_compact_range. exact Hfr.
Qed.

(* ------------------------------------------------------------------ *)
(* 2. table files are listed or owed by a handle inside a call         *)
(* ------------------------------------------------------------------ *)

Definition cover (s : fs) (P : nat -> Prop) : Prop :=
  forall n, lookup n (f_tabs s) <> None -> In n (listed_fs s) \/ P n.

Lemma cover_mono : forall s (P Q : nat -> Prop), (forall n, P n -> Q n) -> cover s P -> cover s Q.
Proof. intros s P Q H C n Hn. destruct (C n Hn); [left|right]; auto. Qed.

Definition side (h : nat) (s : fs) (lg : lgh) (q : req) : Prop :=
  match q with
  | QCommitList names =>
      f_lock s = Some h /\ vw lg = Some (listed_fs s) /\ forall n0, In n0 (fr lg) -> In n0 names
  | QRemove PLL => fr lg = []
  | _ => True
  end.

Lemma cover_same : forall s s' (P P' : nat -> Prop),
  f_tabs s' = f_tabs s -> f_list s' = f_list s -> (forall n, P n -> P' n) -> cover s P -> cover s' P'.
Proof.
  intros s s' P P' Et El HP C n Hn. unfold listed_fs. rewrite Et in Hn. rewrite El.
  destruct (C n Hn); [left|right]; auto.
Qed.

Lemma cover_del : forall s s' m d (lgfr lgfr' : list nat) (R : nat -> Prop),
  f_tabs s' = del m (f_tabs s) -> f_list s' = f_list s ->
  (forall x, In x lgfr -> x <> m -> In x lgfr') ->
  cover s (fun n => In n lgfr \/ In n d \/ R n) ->
  cover s' (fun n => In n lgfr' \/ In n (rm m d) \/ R n).
Proof.
  intros s s' m d lgfr lgfr' R Et El Hf C n Hn. unfold listed_fs. rewrite El. rewrite Et in Hn.
  rewrite lookup_del in Hn. destruct (Nat.eqb_spec n m) as [E|E]; [congruence|].
  destruct (C n Hn) as [A|[A|[A|A]]]; auto.
  right. right. left. apply in_rm. split; assumption.
Qed.

(* the same when the file was not there *)
Lemma cover_nodel : forall s m d (lgfr lgfr' : list nat) (R : nat -> Prop),
  lookup m (f_tabs s) = None ->
  (forall x, In x lgfr -> x <> m -> In x lgfr') ->
  cover s (fun n => In n lgfr \/ In n d \/ R n) ->
  cover s (fun n => In n lgfr' \/ In n (rm m d) \/ R n).
Proof.
  intros s m d lgfr lgfr' R E Hf C x Hx. destruct (Nat.eq_dec x m) as [->|Hne]; [congruence|].
  destruct (C x Hx) as [A|[A|[A|A]]]; auto.
  right. right. left. apply in_rm. split; assumption.
Qed.

Lemma fr_rmtab_keep : forall lg n rs x, In x (fr lg) -> x <> n -> In x (fr (nxt lg (QRemove (PT n)) rs)).
Proof.
  intros lg n rs x Hx Hne. destruct (nxt_rmtab lg n rs) as [_ E]. rewrite E. apply in_rmv. split; assumption.
Qed.

Lemma cover_step : forall so c h q s lg d s' rs fe (R : nat -> Prop),
  apply_req so c h q s = (s', rs, fe) -> side h s lg q ->
  cover s (fun n => In n (fr lg) \/ In n d \/ R n) ->
  cover s' (fun n => In n (fr (nxt lg q rs)) \/ In n (dead_upd lg q rs d) \/ R n).
Proof.
  intros so c h q s lg d s' rs fe R Hap Hside Hcov.
  assert (Hid : forall n, In n (fr lg) \/ In n d \/ R n -> In n (fr lg) \/ In n d \/ R n) by auto.
  destruct q as [p| |n|t| |t mn mx txs hsh|names|p|cands|cands| ]; cbn [apply_req] in Hap.
  - (* QCreateExcl *)
    destruct p; try (inversion Hap; subst; exact Hcov).
    + destruct (f_lock s); inversion Hap; subst; [exact Hcov|].
      cbn [nxt dead_upd]. eapply cover_same; [reflexivity|reflexivity|exact Hid|exact Hcov].
    + destruct (lookup n (f_tlocks s)); inversion Hap; subst; [exact Hcov|].
      cbn [nxt dead_upd]. eapply cover_same; [reflexivity|reflexivity|exact Hid|exact Hcov].
  - inversion Hap; subst. exact Hcov.
  - destruct (lookup n (f_tabs s)); inversion Hap; subst; exact Hcov.
  - destruct (lookup t (f_tmps s)); inversion Hap; subst; exact Hcov.
  - inversion Hap; subst. cbn [nxt dead_upd]. eapply cover_same; [reflexivity|reflexivity|exact Hid|exact Hcov].
  - (* QRenameTmp *)
    cbn [side] in Hside.
    destruct (lookup t (f_tmps s)); inversion Hap; subst; clear Hap.
    + cbn [nxt dead_upd fr]. intros x Hn. cbn [f_tabs] in Hn. unfold listed_fs. cbn [f_list].
      rewrite lookup_app in Hn. destruct (lookup x (f_tabs s)) eqn:E.
      * assert (X : lookup x (f_tabs s) <> None) by congruence.
        destruct (Hcov x X) as [A|[A|[A|A]]]; auto. right. left. right. exact A.
      * cbn [lookup] in Hn. destruct (Nat.eqb_spec x (f_next_tab s)); [|congruence].
        subst. right. left. left. reflexivity.
    + exact Hcov.
  - (* QCommitList *)
    destruct Hside as (Hlock & Hvw & Hfr). rewrite Hlock, Nat.eqb_refl in Hap.
    inversion Hap; subst; clear Hap.
    cbn [nxt dead_upd fr]. rewrite Hvw. intros x Hn. cbn [f_tabs] in Hn. unfold listed_fs at 1. cbn [f_list].
    destruct (mem_nat x names) eqn:Em; [left; apply mem_nat_In; exact Em|].
    destruct (Hcov x Hn) as [A|[A|[A|A]]].
    + right. right. left. apply in_or_app. left. apply filter_In. split; [exact A|]. rewrite Em. reflexivity.
    + apply Hfr in A. apply mem_nat_false in Em. contradiction.
    + right. right. left. apply in_or_app. right. exact A.
    + right. right. right. exact A.
  - (* QRemove *)
    destruct p; try (inversion Hap; subst; exact Hcov).
    + cbn [side] in Hside.
      destruct (f_lock s); inversion Hap; subst; clear Hap; cbn [nxt dead_upd fr].
      * eapply cover_same; [reflexivity|reflexivity| |exact Hcov].
        intros x [A|A]; [rewrite Hside in A; destruct A|auto].
      * eapply cover_same; [reflexivity|reflexivity| |exact Hcov].
        intros x [A|A]; [rewrite Hside in A; destruct A|auto].
    + cbn [dead_upd].
      destruct (lookup n (f_tabs s)) eqn:E; inversion Hap; subst; clear Hap.
      * eapply cover_del; [reflexivity|reflexivity|apply fr_rmtab_keep|exact Hcov].
      * eapply cover_nodel; [exact E|apply fr_rmtab_keep|exact Hcov].
    + destruct (lookup n (f_tlocks s)); inversion Hap; subst; [|exact Hcov].
      cbn [nxt dead_upd]. eapply cover_same; [reflexivity|reflexivity|exact Hid|exact Hcov].
    + cbn [nxt dead_upd fr].
      destruct (lookup n (f_tmps s)); inversion Hap; subst.
      * eapply cover_same; [reflexivity|reflexivity|exact Hid|exact Hcov].
      * exact Hcov.
  - (* QRemoveOne *)
    match type of Hap with context [lookup ?x (f_tabs s)] => set (m := x) in * end.
    cbn [nxt].
    destruct (lookup m (f_tabs s)) eqn:E; inversion Hap; subst; clear Hap; cbn [dead_upd].
    + eapply cover_del; [reflexivity|reflexivity| |exact Hcov]. auto.
    + eapply cover_nodel; [exact E| |exact Hcov]. auto.
  - match type of Hap with context [lookup ?x (f_tabs s)] => destruct (lookup x (f_tabs s)) end;
      inversion Hap; subst; exact Hcov.
  - inversion Hap; subst. exact Hcov.
Qed.

(* ---------------- the ghost owners of lock / temp files are handles of the world ---------------- *)

Definition valid_owners (s : fs) (N : nat) : Prop :=
  (forall c, f_lock s = Some c -> c < N) /\
  (forall n c, lookup n (f_tlocks s) = Some c -> c < N) /\
  (forall t c, lookup t (f_tmps s) = Some c -> c < N).

Lemma valid_apply : forall so ch h q s s' rs fe N,
  h < N -> apply_req so ch h q s = (s', rs, fe) -> valid_owners s N -> valid_owners s' N.
Proof.
  intros so ch h q s s' rs fe N Hh Hap (V1 & V2 & V3).
  assert (Hs : valid_owners s N) by (repeat split; assumption).
  destruct q as [p| |n|t| |t mn mx txs hsh|names|p|cands|cands| ]; cbn [apply_req] in Hap.
  - destruct p; try (inversion Hap; subst; exact Hs).
    + destruct (f_lock s); inversion Hap; subst; [exact Hs|].
      repeat split; cbn [f_lock f_tlocks f_tmps]; auto. intros c E. inversion E; subst. exact Hh.
    + destruct (lookup n (f_tlocks s)); inversion Hap; subst; [exact Hs|].
      repeat split; cbn [f_lock f_tlocks f_tmps]; auto. intros x c E. cbn [lookup] in E.
      destruct (Nat.eqb x n); [inversion E; subst; exact Hh|eauto].
  - inversion Hap; subst; exact Hs.
  - destruct (lookup n (f_tabs s)); inversion Hap; subst; exact Hs.
  - destruct (lookup t (f_tmps s)); inversion Hap; subst; exact Hs.
  - inversion Hap; subst. repeat split; cbn [f_lock f_tlocks f_tmps]; auto. intros x c E. cbn [lookup] in E.
    destruct (Nat.eqb x (f_next_tmp s)); [inversion E; subst; exact Hh|eauto].
  - destruct (lookup t (f_tmps s)); inversion Hap; subst; [|exact Hs].
    repeat split; cbn [f_lock f_tlocks f_tmps]; auto. intros x c E. rewrite lookup_del in E.
    destruct (Nat.eqb x t); [discriminate|eauto].
  - destruct (f_lock s); inversion Hap; subst; [|exact Hs].
    repeat split; cbn [f_lock f_tlocks f_tmps]; auto. discriminate.
  - destruct p; try (inversion Hap; subst; exact Hs).
    + destruct (f_lock s); inversion Hap; subst; [|exact Hs].
      repeat split; cbn [f_lock f_tlocks f_tmps]; auto. discriminate.
    + destruct (lookup n (f_tabs s)); inversion Hap; subst; [|exact Hs].
      repeat split; cbn [f_lock f_tlocks f_tmps]; auto.
    + destruct (lookup n (f_tlocks s)); inversion Hap; subst; [|exact Hs].
      repeat split; cbn [f_lock f_tlocks f_tmps]; auto. intros x c E. rewrite lookup_del in E.
      destruct (Nat.eqb x n); [discriminate|eauto].
    + destruct (lookup n (f_tmps s)); inversion Hap; subst; [|exact Hs].
      repeat split; cbn [f_lock f_tlocks f_tmps]; auto. intros x c E. rewrite lookup_del in E.
      destruct (Nat.eqb x n); [discriminate|eauto].
  - match type of Hap with context [lookup ?x (f_tabs s)] => destruct (lookup x (f_tabs s)) end;
      inversion Hap; subst; [|exact Hs].
    repeat split; cbn [f_lock f_tlocks f_tmps]; auto.
  - match type of Hap with context [lookup ?x (f_tabs s)] => destruct (lookup x (f_tabs s)) end;
      inversion Hap; subst; exact Hs.
  - inversion Hap; subst; exact Hs.
Qed.

Lemma length_set_handle : forall l i x, length (set_handle i x l) = length l.
Proof.
  induction l as [|a l IH]; intros i x; destruct i; cbn [set_handle length]; auto.
Qed.

Lemma valid_step : forall so att w h c w' evs,
  step so att w h c = (w', evs) ->
  valid_owners (w_fs w) (length (w_handles w)) -> valid_owners (w_fs w') (length (w_handles w')).
Proof.
  intros so att w h c w' evs H V. unfold step in H.
  destruct (nth_error (w_handles w) h) as [hd|] eqn:En; [|inversion H; subst; exact V].
  assert (Hh : h < length (w_handles w)) by (apply nth_error_Some; congruence).
  destruct (h_pc hd) as [|o p|].
  - destruct (h_script hd) as [|o rest]; [inversion H; subst; exact V|].
    destruct (call_prog att (h_hash hd) o (h_mem hd)) as [[m r]|q k]; inversion H; subst;
      cbn [w_fs w_handles]; rewrite length_set_handle; exact V.
  - destruct p as [[m r]|q k].
    + inversion H; subst. cbn [w_fs w_handles]. rewrite length_set_handle. exact V.
    + destruct (apply_req so c h q (w_fs w)) as [[s' rs] fe] eqn:Ea.
      pose proof (valid_apply _ _ _ _ _ _ _ _ _ Hh Ea V) as V'.
      destruct (k rs) as [[m r]|q' k']; inversion H; subst;
        cbn [w_fs w_handles]; rewrite length_set_handle; exact V'.
  - inversion H; subst; exact V.
Qed.

(* ---------------- the world invariant of crash-free runs ---------------- *)

Definition ghosts := nat -> lgh * list nat.
Definition gupd (gh : ghosts) (h : nat) (x : lgh * list nat) : ghosts :=
  fun i => if Nat.eqb i h then x else gh i.

Lemma gupd_same : forall gh h x, gupd gh h x h = x.
Proof. intros. unfold gupd. rewrite Nat.eqb_refl. reflexivity. Qed.
Lemma gupd_other : forall gh h x i, i <> h -> gupd gh h x i = gh i.
Proof. intros. unfold gupd. destruct (Nat.eqb_spec i h); [contradiction|reflexivity]. Qed.

Definition hinvR (γ : ghost) (s : fs) (gh : ghosts) (i : nat) (hd : handle) : Prop :=
  (forall m, h_mem hd = Some m -> memok γ m) /\
  omh (h_hash hd) (h_mem hd) /\
  match h_pc hd with
  | HDead => False
  | HIdle => True
  | HRun o p => interp γ s i (fst (gh i)) /\ ok (fst (gh i)) p (Qcall (h_hash hd) o) /\
                res (fst (gh i)) (snd (gh i)) p owes_nothing
  end.

Definition owes (hs : list handle) (gh : ghosts) (n : nat) : Prop :=
  exists i hd o p, nth_error hs i = Some hd /\ h_pc hd = HRun o p /\
                   (In n (fr (fst (gh i))) \/ In n (snd (gh i))).

Record RInv (γ : ghost) (gh : ghosts) (w : world) : Prop := {
  r_GI : GI γ (w_fs w);
  r_winv : winv w;
  r_ow : exists ow, owners_ok ow (w_fs w);
  r_valid : valid_owners (w_fs w) (length (w_handles w));
  r_h : forall i hd, nth_error (w_handles w) i = Some hd -> hinvR γ (w_fs w) gh i hd;
  r_cover : cover (w_fs w) (owes (w_handles w) gh) }.

Lemma hinvR_other : forall γ s γ' s' gh gh' i hd,
  GI γ s -> frame γ s γ' s' -> keepsL i γ s γ' s' -> keepsT i s s' -> gh' i = gh i ->
  hinvR γ s gh i hd -> hinvR γ' s' gh' i hd.
Proof.
  intros γ s γ' s' gh gh' i hd HG HF KL KT Eg (B & Bh & C). split; [|split; [exact Bh|]].
  - intros m E. eapply memok_stable; eauto.
  - destruct (h_pc hd); auto. rewrite Eg. destruct C as (C1 & C2 & C3). split; [|split; assumption].
    apply interp_stable with (γ := γ) (s := s); auto.
Qed.

Lemma hinvR_same : forall γ s gh gh' i hd, GI γ s -> gh' i = gh i -> hinvR γ s gh i hd -> hinvR γ s gh' i hd.
Proof.
  intros γ s gh gh' i hd HG Eg H. eapply hinvR_other; eauto.
  - apply frame_refl.
  - apply keepsL_refl.
  - apply keepsT_refl.
Qed.

Lemma nth_set_same : forall (l : list handle) h x hd, nth_error l h = Some hd -> nth_error (set_handle h x l) h = Some x.
Proof.
  induction l as [|a l IH]; intros h x hd H; destruct h; cbn in *; try discriminate; auto.
  eapply IH; eauto.
Qed.

Definition busy_ok (busy : list nat) (w : world) : Prop :=
  forall i hd o p, nth_error (w_handles w) i = Some hd -> h_pc hd = HRun o p -> In i busy.

(* ------------------------------------------------------------------ *)
(* 3. quiescence                                                       *)
(* ------------------------------------------------------------------ *)

Lemma lookup_some_of_in : forall A n (a : A) (l : list (nat * A)), In (n, a) l -> lookup n l <> None.
Proof.
  induction l as [|[m b] l IH]; cbn; intros H; [contradiction|].
  destruct (Nat.eqb_spec n m); [discriminate|]. destruct H as [E|H]; [congruence|auto].
Qed.

Lemma lookup_all_none : forall A (l : list (nat * A)), (forall n a, lookup n l = Some a -> False) -> l = [].
Proof.
  intros A [|[n a] t] H; [reflexivity|]. exfalso. apply (H n a). cbn. rewrite Nat.eqb_refl. reflexivity.
Qed.

Lemma existsb_path : forall p l, In p l -> existsb (path_eqb p) l = true.
Proof. intros p l H. apply existsb_exists. exists p. split; [exact H|apply path_eqb_refl]. Qed.

Lemma quiescent_clean : forall γ gh w,
  RInv γ gh w ->
  (forall i hd, nth_error (w_handles w) i = Some hd -> h_pc hd = HIdle) ->
  clean_dir (snapshot_of (w_fs w)) = true.
Proof.
  intros γ gh w HR Hidle. destruct HR as [HG [_ Hw] _ (V1 & V2 & V3) _ Hcov].
  set (s := w_fs w) in *.
  assert (Hag : forall c, c < length (w_handles w) -> agree s c own0).
  { intros c Hc. destruct (nth_error (w_handles w) c) as [hd|] eqn:En.
    - pose proof (Hw c hd En) as X. unfold LockProofs.hinv in X. rewrite (Hidle c hd En) in X. exact X.
    - apply nth_error_None in En. lia. }
  assert (L1 : f_lock s = None).
  { destruct (f_lock s) as [c|] eqn:E; [|reflexivity]. destruct (Hag c (V1 c eq_refl)) as (A & _).
    rewrite E in A. destruct A as [A _]. discriminate (A eq_refl). }
  assert (L2 : f_tlocks s = []).
  { apply lookup_all_none. intros n c X.
    destruct (Hag c (V2 n c X)) as (_ & A & _). apply A in X. destruct X. }
  assert (L3 : f_tmps s = []).
  { apply lookup_all_none. intros n c X.
    destruct (Hag c (V3 n c X)) as (_ & _ & A & _). apply A in X. destruct X. }
  unfold clean_dir. change (listed (snapshot_of s)) with (listed_fs s).
  cbn [snapshot_of sn_files sn_list]. rewrite L1, L2, L3. cbn [map app]. rewrite app_nil_r.
  apply andb_true_iff. split.
  - apply forallb_forall. intros p Hp. apply in_app_or in Hp as [Hp|Hp].
    + destruct (f_list s); [|destruct Hp]. destruct Hp as [<-|[]]. reflexivity.
    + apply in_map_iff in Hp as [[n f] [<- Hin]]. cbn [fst]. apply mem_nat_In.
      destruct (Hcov n (lookup_some_of_in _ _ _ _ Hin)) as [A|A]; [exact A|].
      destruct A as (i & hd & o & p & En & Epc & _). rewrite (Hidle i hd En) in Epc. discriminate.
  - apply forallb_forall. intros n Hn. apply existsb_path. apply in_or_app. right.
    pose proof (g_exist HG n Hn) as X. destruct (lookup n (f_tabs s)) as [f|] eqn:E; [|congruence].
    apply lookup_In in E. apply in_map_iff. exists (n, f). split; [reflexivity|exact E].
Qed.

(* ------------------------------------------------------------------ *)
(* 4. the C16 oracle along a step                                      *)
(* ------------------------------------------------------------------ *)

Definition drop (h : nat) (busy : list nat) : list nat := filter (fun x => negb (Nat.eqb x h)) busy.

Lemma c16_ret : forall cur busy crashed h o r t, ret_allowed o r = true ->
  c16_loop cur busy crashed (ERet h o r :: t) =
  (if crashed || negb (match drop h busy with [] => true | _ => false end) then true else clean_dir cur)
  && c16_loop cur (drop h busy) crashed t.
Proof. intros. cbn [c16_loop]. destruct o, r; try discriminate H; reflexivity. Qed.

Lemma c16_req : forall cur busy cr h q rs fe s' rest,
  c16_loop cur busy cr (req_event h q rs fe :: ESnap s' :: rest) = c16_loop s' busy cr rest.
Proof. intros. destruct q; reflexivity. Qed.

Lemma in_drop : forall i h busy, i <> h -> In i busy -> In i (drop h busy).
Proof.
  intros i h busy Hne Hin. apply filter_In. split; [exact Hin|].
  destruct (Nat.eqb_spec i h); [contradiction|reflexivity].
Qed.

Lemma finish_c16 : forall γ gh w h o m r busy,
  RInv γ gh w ->
  (forall hd, nth_error (w_handles w) h = Some hd -> h_pc hd = HIdle) ->
  (forall i hd o p, i <> h -> nth_error (w_handles w) i = Some hd -> h_pc hd = HRun o p -> In i busy) ->
  ret_allowed o r = true ->
  forall rest, c16_loop (snapshot_of (w_fs w)) busy false (finish_events h o m r ++ rest) =
               c16_loop (snapshot_of (w_fs w)) (drop h busy) false rest.
Proof.
  intros γ gh w h o m r busy HR Hh Hb Hret rest. unfold finish_events. cbn [app].
  rewrite c16_ret by exact Hret. cbn [orb].
  assert (E : (if negb (match drop h busy with [] => true | _ => false end) then true
               else clean_dir (snapshot_of (w_fs w))) = true).
  { destruct (drop h busy) as [|x l] eqn:Ed; [|reflexivity]. cbn [negb].
    apply quiescent_clean with (γ := γ) (gh := gh); [exact HR|].
    intros i hd En. destruct (Nat.eq_dec i h) as [->|Hne]; [apply Hh; exact En|].
    pose proof (r_h _ _ _ HR i hd En) as (_ & _ & X).
    destruct (h_pc hd) as [|o0 p0|] eqn:Epc; [reflexivity| |destruct X].
    exfalso. pose proof (in_drop i h busy Hne (Hb i hd o0 p0 Hne En Epc)) as Y. rewrite Ed in Y. destruct Y. }
  rewrite E. cbn [andb]. destruct m; reflexivity.
Qed.

Lemma memok_of_Qcall : forall γ s h lg hh o m r,
  interp γ s h lg -> Qcall hh o lg (m, r) -> forall mm, m = Some mm -> memok γ mm.
Proof.
  intros γ s h lg hh o m r HI (Q1 & _) mm E. cbn [fst] in Q1. destruct (Q1 mm E) as [A B].
  intros n f Hin. split.
  - apply (i_kn HI). apply A. exact Hin.
  - apply (i_sn HI). apply B. unfold mnames. apply in_map_iff. exists (n, f). split; [reflexivity|exact Hin].
Qed.

Lemma side_of : forall γ s h lg q,
  GI γ s -> interp γ s h lg -> allowed lg q -> (needs_nofresh q = true -> fr lg = []) -> side h s lg q.
Proof.
  intros γ s h lg q HG HI Hal Hnf. destruct q as [p| | | | | |names|p| | |]; cbn [side]; auto.
  - destruct (commit_sem HG HI Hal) as (pre & run & news & post & Hl & Hnames & Hlock & _ & Hnews & Hvw & _).
    split; [exact Hlock|]. split; [exact Hvw|]. intros n0 Hn0. apply Hnews in Hn0.
    rewrite Hnames. apply in_or_app. right. apply in_or_app. left. exact Hn0.
  - destruct p; auto.
Qed.

Lemma step_R : forall so att γ gh w h c w' evs busy,
  RInv γ gh w -> busy_ok busy w -> step so att w h c = (w', evs) ->
  exists γ' gh' busy', RInv γ' gh' w' /\ busy_ok busy' w' /\
    forall rest, c16_loop (snapshot_of (w_fs w)) busy false (evs ++ rest)
               = c16_loop (snapshot_of (w_fs w')) busy' false rest.
Proof.
  intros so att γ gh w h c w' evs busy HR HB H.
  pose proof HR as HR0.
  destruct HR as [HG Hwinv [ow How] Hval Hh Hcov].
  destruct (winv_step so att w h c w' evs ow Hwinv How H) as (Hwinv' & ow' & How' & _).
  pose proof (valid_step _ _ _ _ _ _ _ H Hval) as Hval'.
  unfold step in H.
  match goal with |- ?G => assert (Hnop : (w', evs) = (w, []) -> G) end.
  { intro E. inversion E; subst. exists γ, gh, busy. split; [exact HR0|]. split; [exact HB|reflexivity]. }
  destruct (nth_error (w_handles w) h) as [hd|] eqn:En; [|apply Hnop; congruence].
  destruct (Hh h hd En) as (Hmem & Hmh & Hpc).
  destruct (h_pc hd) as [|o p|] eqn:Epc; [| |apply Hnop; congruence].
  - (* a call starts *)
    destruct (h_script hd) as [|o rest] eqn:Es; [apply Hnop; congruence|].
    pose proof (@call_prog_ok att (h_hash hd) o (h_mem hd) Hmh) as Hok.
    pose proof (@interp_init γ (w_fs w) h o (h_mem hd) HG Hmem) as HI.
    pose proof (res_call_prog att (h_hash hd) o (h_mem hd) (lg_init o (h_mem hd)) eq_refl) as Hres.
    assert (Hnoth : forall i hd0 o0 p0, nth_error (w_handles w) i = Some hd0 -> h_pc hd0 = HRun o0 p0 -> i <> h).
    { intros i hd0 o0 p0 E1 E2 ->. rewrite En in E1. inversion E1; subst. congruence. }
    destruct (call_prog att (h_hash hd) o (h_mem hd)) as [[m r]|q k] eqn:Ecp.
    + inversion H; subst w' evs. clear H.
      set (x := {| h_mem := m; h_pc := HIdle; h_script := rest; h_hash := h_hash hd |}) in *.
      assert (HR' : RInv γ gh {| w_fs := w_fs w; w_handles := set_handle h x (w_handles w) |}).
      { constructor; cbn [w_fs w_handles]; auto.
        - exists ow'. exact How'.
        - intros i hd' E. destruct (Nat.eq_dec i h) as [->|Hne].
          + apply nth_set_eq in E. subst hd'. split; [|split; [exact (proj2 (proj2 (proj2 Hok)))|exact I]].
            cbn [h_mem x]. eapply memok_of_Qcall; [exact HI|exact Hok].
          + rewrite nth_set_neq in E by exact Hne. apply Hh. exact E.
        - eapply cover_mono; [|exact Hcov]. intros n (i & hd0 & o0 & p0 & E1 & E2 & E3).
          exists i, hd0, o0, p0. split; [|auto]. rewrite nth_set_neq; [exact E1|]. eapply Hnoth; eauto. }
      exists γ, gh, (drop h (h :: busy)). split; [exact HR'|]. split.
      * intros i hd' o0 p0 E Ep. cbn [w_handles] in E. destruct (Nat.eq_dec i h) as [->|Hne].
        -- apply nth_set_eq in E. subst hd'. discriminate Ep.
        -- rewrite nth_set_neq in E by exact Hne. apply in_drop; [exact Hne|]. right. eapply HB; eauto.
      * intros rest'. cbn [app c16_loop w_fs].
        apply (finish_c16 γ gh _ h o m r (h :: busy) HR').
        -- cbn [w_handles]. intros hd' E. apply nth_set_eq in E. subst hd'. reflexivity.
        -- cbn [w_handles]. intros i hd' o0 p0 Hne E Ep. rewrite nth_set_neq in E by exact Hne.
           right. eapply HB; eauto.
        -- apply Hok.
    + inversion H; subst w' evs. clear H.
      set (x := {| h_mem := h_mem hd; h_pc := HRun o (Op q k); h_script := rest; h_hash := h_hash hd |}) in *.
      set (gh' := gupd gh h (lg_init o (h_mem hd), [])).
      exists γ, gh', (h :: busy). split; [|split].
      * constructor; cbn [w_fs w_handles]; auto.
        -- exists ow'. exact How'.
        -- intros i hd' E. destruct (Nat.eq_dec i h) as [->|Hne].
           ++ apply nth_set_eq in E. subst hd'. split; [exact Hmem|]. split; [exact Hmh|].
              cbn [h_pc h_hash x]. unfold gh'. rewrite gupd_same. cbn [fst snd]. auto.
           ++ rewrite nth_set_neq in E by exact Hne. apply hinvR_same with (gh := gh); [exact HG| |apply Hh; exact E].
              apply gupd_other. exact Hne.
        -- eapply cover_mono; [|exact Hcov]. intros n (i & hd0 & o0 & p0 & E1 & E2 & E3).
           assert (Hne : i <> h) by (eapply Hnoth; eauto).
           exists i, hd0, o0, p0. split; [rewrite nth_set_neq; [exact E1|exact Hne]|]. split; [exact E2|].
           unfold gh'. rewrite gupd_other by exact Hne. exact E3.
      * intros i hd' o0 p0 E Ep. cbn [w_handles] in E. destruct (Nat.eq_dec i h) as [->|Hne]; [left; reflexivity|].
        rewrite nth_set_neq in E by exact Hne. right. eapply HB; eauto.
      * intros rest'. reflexivity.
  - (* inside a call *)
    destruct Hpc as (HI & Hok & Hres).
    destruct (gh h) as [lg d] eqn:Egh. cbn [fst snd] in HI, Hok, Hres.
    destruct p as [[m r]|q k].
    + (* the call returns *)
      inversion H; subst w' evs. clear H.
      cbn [ok] in Hok. cbn [res] in Hres. destruct Hres as [Hfr0 Hd0].
      set (x := {| h_mem := m; h_pc := HIdle; h_script := h_script hd; h_hash := h_hash hd |}) in *.
      assert (HR' : RInv γ gh {| w_fs := w_fs w; w_handles := set_handle h x (w_handles w) |}).
      { constructor; cbn [w_fs w_handles]; auto.
        - exists ow'. exact How'.
        - intros i hd' E. destruct (Nat.eq_dec i h) as [->|Hne].
          + apply nth_set_eq in E. subst hd'. split; [|split; [exact (proj2 (proj2 (proj2 Hok)))|exact I]].
            cbn [h_mem x]. eapply memok_of_Qcall; [exact HI|exact Hok].
          + rewrite nth_set_neq in E by exact Hne. apply Hh. exact E.
        - eapply cover_mono; [|exact Hcov]. intros n (i & hd0 & o0 & p0 & E1 & E2 & E3).
          destruct (Nat.eq_dec i h) as [->|Hne].
          + exfalso. rewrite Egh in E3. cbn [fst snd] in E3. rewrite Hfr0, Hd0 in E3.
            destruct E3 as [E3|E3]; destruct E3.
          + exists i, hd0, o0, p0. split; [|auto]. rewrite nth_set_neq; [exact E1|exact Hne]. }
      exists γ, gh, (drop h busy). split; [exact HR'|]. split.
      * intros i hd' o0 p0 E Ep. cbn [w_handles] in E. destruct (Nat.eq_dec i h) as [->|Hne].
        -- apply nth_set_eq in E. subst hd'. discriminate Ep.
        -- rewrite nth_set_neq in E by exact Hne. apply in_drop; [exact Hne|]. eapply HB; eauto.
      * intros rest'. cbn [w_fs].
        apply (finish_c16 γ gh _ h o m r busy HR').
        -- cbn [w_handles]. intros hd' E. apply nth_set_eq in E. subst hd'. reflexivity.
        -- cbn [w_handles]. intros i hd' o0 p0 Hne E Ep. rewrite nth_set_neq in E by exact Hne.
           eapply HB; eauto.
        -- apply Hok.
    + (* one file-system operation *)
      destruct (apply_req so c h q (w_fs w)) as [[s' rs] fe] eqn:Ea.
      cbn [ok] in Hok. destruct Hok as [Hal Hk].
      cbn [res] in Hres. destruct Hres as [Hnf Hr].
      destruct (@req_step so c h q γ (w_fs w) lg s' rs fe HG HI Hal Ea) as [γ' SP].
      specialize (Hk rs (sp_poss SP)). specialize (Hr rs (sp_poss SP)).
      pose proof (side_of γ (w_fs w) h lg q HG HI Hal Hnf) as Hside.
      set (lg' := nxt lg q rs) in *. set (d' := dead_upd lg q rs d) in *.
      set (gh' := gupd gh h (lg', d')).
      set (R := fun n => exists i hd0 o0 p0, i <> h /\ nth_error (w_handles w) i = Some hd0 /\
                          h_pc hd0 = HRun o0 p0 /\ (In n (fr (fst (gh i))) \/ In n (snd (gh i)))).
      assert (Hcov' : cover s' (fun n => In n (fr lg') \/ In n d' \/ R n)).
      { eapply cover_step; [exact Ea|exact Hside|].
        eapply cover_mono; [|exact Hcov]. intros n (i & hd0 & o0 & p0 & E1 & E2 & E3).
        destruct (Nat.eq_dec i h) as [->|Hne].
        - rewrite Egh in E3. cbn [fst snd] in E3. destruct E3; auto.
        - right. right. exists i, hd0, o0, p0. auto. }
      assert (Hothers : forall i hd0, i <> h -> nth_error (w_handles w) i = Some hd0 -> hinvR γ' s' gh' i hd0).
      { intros i hd0 Hne E. apply hinvR_other with (γ := γ) (s := w_fs w) (gh := gh); auto.
        - apply (sp_frame SP).
        - apply (sp_keepL SP). exact Hne.
        - apply (sp_keepT SP). exact Hne.
        - apply gupd_other. exact Hne. }
      assert (HRo : forall n, R n -> forall x, owes (set_handle h x (w_handles w)) gh' n).
      { intros n (i & hd0 & o0 & p0 & Hne & E1 & E2 & E3) x.
        exists i, hd0, o0, p0. split; [rewrite nth_set_neq; [exact E1|exact Hne]|]. split; [exact E2|].
        unfold gh'. rewrite gupd_other by exact Hne. exact E3. }
      destruct (k rs) as [[m r]|q' k'] eqn:Ek.
      * inversion H; subst w' evs. clear H. cbn [ok] in Hk. cbn [res] in Hr. destruct Hr as [Hfr0 Hd0].
        set (x := {| h_mem := m; h_pc := HIdle; h_script := h_script hd; h_hash := h_hash hd |}) in *.
        assert (HR' : RInv γ' gh' {| w_fs := s'; w_handles := set_handle h x (w_handles w) |}).
        { constructor; cbn [w_fs w_handles]; auto.
          - apply (sp_GI SP).
          - exists ow'. exact How'.
          - intros i hd' E. destruct (Nat.eq_dec i h) as [->|Hne].
            + apply nth_set_eq in E. subst hd'. split; [|split; [exact (proj2 (proj2 (proj2 Hk)))|exact I]].
              cbn [h_mem x]. eapply memok_of_Qcall; [apply (sp_interp SP)|exact Hk].
            + rewrite nth_set_neq in E by exact Hne. apply Hothers; assumption.
          - eapply cover_mono; [|exact Hcov']. intros n [A|[A|A]].
            + rewrite Hfr0 in A. destruct A.
            + rewrite Hd0 in A. destruct A.
            + apply HRo. exact A. }
        exists γ', gh', (drop h busy). split; [exact HR'|]. split.
        -- intros i hd' o0 p0 E Ep. cbn [w_handles] in E. destruct (Nat.eq_dec i h) as [->|Hne].
           ++ apply nth_set_eq in E. subst hd'. discriminate Ep.
           ++ rewrite nth_set_neq in E by exact Hne. apply in_drop; [exact Hne|]. eapply HB; eauto.
        -- intros rest'. cbn [app w_fs]. rewrite c16_req.
           apply (finish_c16 γ' gh' _ h o m r busy HR').
           ++ cbn [w_handles]. intros hd' E. apply nth_set_eq in E. subst hd'. reflexivity.
           ++ cbn [w_handles]. intros i hd' o0 p0 Hne E Ep. rewrite nth_set_neq in E by exact Hne.
              eapply HB; eauto.
           ++ apply Hk.
      * inversion H; subst w' evs. clear H.
        set (x := {| h_mem := h_mem hd; h_pc := HRun o (Op q' k'); h_script := h_script hd; h_hash := h_hash hd |}) in *.
        exists γ', gh', busy. split; [|split].
        -- constructor; cbn [w_fs w_handles]; auto.
           ++ apply (sp_GI SP).
           ++ exists ow'. exact How'.
           ++ intros i hd' E. destruct (Nat.eq_dec i h) as [->|Hne].
              ** apply nth_set_eq in E. subst hd'. split.
                 { cbn [h_mem x]. intros mm E. eapply memok_stable; [exact HG|apply (sp_frame SP)|]. apply Hmem. exact E. }
                 split; [exact Hmh|].
                 cbn [h_pc h_hash x]. unfold gh'. rewrite gupd_same. cbn [fst snd].
                 split; [apply (sp_interp SP)|]. split; assumption.
              ** rewrite nth_set_neq in E by exact Hne. apply Hothers; assumption.
           ++ eapply cover_mono; [|exact Hcov']. intros n [A|[A|A]]; [| |apply HRo; exact A].
              ** exists h, x, o, (Op q' k'). split; [eapply nth_set_same; exact En|]. split; [reflexivity|].
                 unfold gh'. rewrite gupd_same. left. exact A.
              ** exists h, x, o, (Op q' k'). split; [eapply nth_set_same; exact En|]. split; [reflexivity|].
                 unfold gh'. rewrite gupd_same. right. exact A.
        -- intros i hd' o0 p0 E Ep. cbn [w_handles] in E. destruct (Nat.eq_dec i h) as [->|Hne].
           ++ eapply HB; eauto.
           ++ rewrite nth_set_neq in E by exact Hne. eapply HB; eauto.
        -- intros rest'. cbn [app w_fs]. apply c16_req.
Qed.

(* ------------------------------------------------------------------ *)
(* 5. return values (also after a crash) come from the C04 oracle       *)
(* ------------------------------------------------------------------ *)

Definition rets_ok (tr : list event) : Prop := forall h o r, In (ERet h o r) tr -> ret_allowed o r = true.

Lemma c04_rets : forall tr init st, c04_loop init st tr = true -> rets_ok tr.
Proof.
  induction tr as [|e tr IH]; intros init st H h0 o0 r0 Hin; [destruct Hin|].
  destruct Hin as [->|Hin].
  - cbn [c04_loop] in H. apply andb_true_iff in H as [H _]. apply andb_true_iff in H as [H _]. exact H.
  - assert (X : exists init' st', c04_loop init' st' tr = true).
    { destruct e as [h op p r names|s|h op|h op r|h names closed|h|]; cbn [c04_loop] in H.
      - destruct op; try (eexists; eexists; exact H).
        destruct dst; try (eexists; eexists; exact H).
        destruct p; try (eexists; eexists; exact H).
        destruct r; try (eexists; eexists; exact H).
        destruct (assoc h (c4_pending st)); eexists; eexists; exact H.
      - destruct init; [eexists; eexists; exact H|].
        apply andb_true_iff in H as [_ H]. eexists; eexists; exact H.
      - destruct op; eexists; eexists; exact H.
      - apply andb_true_iff in H as [_ H]. eexists; eexists; exact H.
      - eexists; eexists; exact H.
      - eexists; eexists; exact H.
      - discriminate H. }
    destruct X as (init' & st' & X). exact (IH init' st' X h0 o0 r0 Hin).
Qed.

Lemma c16_crashed : forall tr cur busy, rets_ok tr -> c16_loop cur busy true tr = true.
Proof.
  induction tr as [|e tr IH]; intros cur busy H; [reflexivity|].
  assert (H' : rets_ok tr) by (intros h o r Hin; apply (H h o r); right; exact Hin).
  destruct e as [h op p r names|s|h op|h op r|h names closed|h|];
    try (cbn [c16_loop]; apply IH; exact H').
  rewrite c16_ret by (apply (H h op r); left; reflexivity). cbn [orb andb]. apply IH. exact H'.
Qed.

Lemma rets_app : forall a b, rets_ok (a ++ b) -> rets_ok b.
Proof. intros a b H h o r Hin. apply (H h o r). apply in_or_app. right. exact Hin. Qed.

Lemma run_c16 : forall so att sched γ gh w busy w' evs,
  RInv γ gh w -> busy_ok busy w -> run so att w sched = (w', evs) -> rets_ok evs ->
  c16_loop (snapshot_of (w_fs w)) busy false evs = true.
Proof.
  intros so att. induction sched as [|[h c|h] sched IH]; intros γ gh w busy w' evs HR HB H Hrets; cbn [run] in H.
  - inversion H; subst. reflexivity.
  - destruct (step so att w h c) as [w1 e1] eqn:E1.
    destruct (run so att w1 sched) as [w2 e2] eqn:E2. inversion H; subst w' evs. clear H.
    destruct (step_R so att γ gh w h c w1 e1 busy HR HB E1) as (γ' & gh' & busy' & HR' & HB' & Hc).
    rewrite Hc. eapply IH; eauto. eapply rets_app; eauto.
  - destruct (crash w h) as [w1 e1] eqn:E1.
    destruct (run so att w1 sched) as [w2 e2] eqn:E2. inversion H; subst w' evs. clear H.
    unfold crash in E1. destruct (nth_error (w_handles w) h) as [hd|].
    + inversion E1; subst w1 e1. cbn [app c16_loop]. apply c16_crashed. eapply rets_app with (a := [ECrash h]). exact Hrets.
    + inversion E1; subst w1 e1. cbn [app]. eapply IH; eauto.
Qed.

Lemma RInv_init : forall tabs scripts,
  init_ok tabs ->
  RInv (ghost0 tabs) (fun _ => (lg_init AOpen None, [])) (init_world tabs scripts).
Proof.
  intros tabs scripts Hi. constructor.
  - apply GI_init. exact Hi.
  - apply winv_init.
  - exists []. apply owners_init.
  - cbn [init_world w_fs w_handles init_fs]. repeat split; cbn [f_lock f_tlocks f_tmps lookup]; intros; discriminate.
  - cbn [init_world w_handles w_fs]. intros i hd E. apply nth_error_In in E.
    apply in_map_iff in E as [s [<- Hin]].
    split; [cbn; intros; discriminate|]. split; [intros mm E; discriminate E|]. cbn. exact I.
  - intros n Hn. left. cbn [init_world w_fs] in *. rewrite listed_init.
    cbn [init_fs f_tabs] in Hn. destruct (lookup n tabs) as [f|] eqn:E; [|congruence].
    apply lookup_In in E. apply in_map_iff. exists (n, f). split; [reflexivity|exact E].
Qed.

(* property C16: no call panics, Close / Clean succeed, and whenever nobody has
   crashed and no handle is inside a call the directory holds exactly
   tables.list and the tables it names *)
Theorem c16_all_traces : forall size_oracle attempts tabs scripts sched,
  init_ok tabs ->
  c16_ok (trace_of size_oracle attempts tabs scripts sched) = true.
Proof.
  intros so att tabs scripts sched Hi.
  pose proof (@c04_all_traces so att tabs scripts sched Hi) as H4.
  unfold c16_ok, c04_ok, trace_of in *.
  destruct (run so att (init_world tabs scripts) sched) as [w' evs] eqn:E. cbn [snd] in *.
  cbn [c16_loop].
  apply (run_c16 so att sched _ _ (init_world tabs scripts) [] w' evs (RInv_init tabs scripts Hi)).
  - intros i hd o p En Ep. cbn [init_world w_handles] in En. apply nth_error_In in En.
    apply in_map_iff in En as [s [<- _]]. discriminate Ep.
  - exact E.
  - apply c04_rets in H4. intros h o r Hin. apply (H4 h o r). right. exact Hin.
Qed.

Print Assumptions c16_all_traces.
