(* C18: reading damaged or hostile table bytes fails cleanly -- the reader
   never panics and never hangs.  Standard library only. *)
From Coq Require Import List NArith Arith Bool Lia ZifyN ZifyNat ZifyBool.
From RT Require Import Proofs.BlockInitEq.
From RT Require Import Model.Bytes Model.Result Model.Varint Model.KeyCodec Model.Records
  Model.RecCodec Model.Block Model.Crc32 Model.Writer Model.Reader.
Import ListNotations.
Local Open Scope N_scope.

Definition safe {A} (x : res A) : Prop :=
  match x with Ok _ | Err => True | Panic _ | Fuel => False end.

(* [good true] = never panics; [good false] = never panics and never runs
   out of fuel (= [safe]).  All lemmas are proved for both at once: the
   hypotheses that only termination needs are guarded by [af = false]. *)
Definition good (af : bool) {A} (x : res A) : Prop :=
  match x with Ok _ | Err => True | Panic _ => False | Fuel => af = true end.

Lemma good_false_safe : forall A (x : res A), good false x <-> safe x.
Proof. intros A [a| |s|]; cbn; intuition discriminate. Qed.

Lemma good_fuel : forall af A, (af = false -> False) -> good af (@Fuel A).
Proof. intros [|] A H; cbn; [reflexivity | exfalso; auto]. Qed.

Lemma good_bind : forall af A B (x : res A) (f : A -> res B),
  good af x -> (forall a, x = Ok a -> good af (f a)) -> good af (bind x f).
Proof. intros af A B [a| |s|] f Hx Hf; cbn in *; auto. Qed.

(* ------------------------------------------------------------------ *)
(* lists                                                              *)

Lemma skipn_skipn' : forall A (n m : nat) (l : list A), skipn n (skipn m l) = skipn (m + n) l.
Proof.
  intros A n m; revert n; induction m as [|m IH]; intros n l; [reflexivity|].
  destruct l as [|x l]; [now rewrite !skipn_nil|]. cbn. apply IH.
Qed.

Lemma tl_skipn : forall A (l : list A), tl l = skipn 1 l.
Proof. intros A [|x l]; reflexivity. Qed.

Lemma drop_pos_skipn : forall A (p : positive) (l : list A), drop_pos p l = skipn (Pos.to_nat p) l.
Proof.
  intros A p; induction p as [q IH|q IH|]; intros l; cbn [drop_pos].
  - rewrite !IH, tl_skipn, !skipn_skipn'. f_equal. lia.
  - rewrite !IH, !skipn_skipn'. f_equal. lia.
  - apply tl_skipn.
Qed.

Lemma dropN_skipn : forall A (n : N) (l : list A), dropN n l = skipn (N.to_nat n) l.
Proof. intros A [|p] l; cbn; [reflexivity | apply drop_pos_skipn]. Qed.

Lemma dropN_length : forall A (n : N) (l : list A), length (dropN n l) = (length l - N.to_nat n)%nat.
Proof. intros; rewrite dropN_skipn; apply skipn_length. Qed.

Lemma nth_firstn_lt : forall A (l : list A) (i n : nat) d, (i < n)%nat -> nth i (firstn n l) d = nth i l d.
Proof.
  intros A l; induction l as [|x l IH]; intros i n d H.
  - now rewrite firstn_nil.
  - destruct n as [|n]; [lia|]. destruct i as [|i]; cbn; [reflexivity|]. apply IH; lia.
Qed.

Lemma nth_skipn0 : forall A (l : list A) (h : nat) d, nth 0 (skipn h l) d = nth h l d.
Proof.
  intros A l; induction l as [|x l IH]; intros h d.
  - rewrite skipn_nil. now destruct h.
  - destruct h as [|h]; cbn; [reflexivity | apply IH].
Qed.

(* ------------------------------------------------------------------ *)
(* decoders: every record consumes at least one byte and has the type of
   its block                                                          *)

Lemma get_varint_loop_pos : forall buf val n v m,
  get_varint_loop buf val n = Some (v, m) -> (n < m)%nat.
Proof.
  induction buf as [|b t IH]; intros val n v m H; cbn [get_varint_loop] in H; [discriminate|].
  destruct (128 <=? b).
  - apply IH in H. lia.
  - inversion H; subst. lia.
Qed.

Lemma get_varint_pos : forall buf v m, get_varint buf = Some (v, m) -> (1 <= m)%nat.
Proof.
  intros [|b t] v m H; cbn [get_varint] in H; [discriminate|].
  destruct (128 <=? b).
  - apply get_varint_loop_pos in H. lia.
  - inversion H; subst. lia.
Qed.

Lemma decode_key_pos : forall buf prev n k vt,
  decode_key buf prev = Some (n, k, vt) -> (1 <= n)%nat.
Proof.
  intros buf prev n k vt H. unfold decode_key in H.
  destruct (get_varint buf) as [[pl s1]|] eqn:E1; [|discriminate].
  destruct (get_varint (skipn s1 buf)) as [[sl s2]|] eqn:E2; [|discriminate].
  cbv zeta in H.
  destruct (N.of_nat (length (skipn s2 (skipn s1 buf))) <? sl / 8); [discriminate|].
  destruct (N.of_nat (length prev) <? pl); [discriminate|].
  inversion H; subst. apply get_varint_pos in E1. lia.
Qed.

Ltac break_match_hyp H :=
  match type of H with
  | context [match ?x with _ => _ end] =>
      match x with
      | context [match _ with _ => _ end] => fail 1
      | _ => destruct x eqn:?
      end
  end.

Lemma rec_decode_typ : forall typ hs key vt buf m r,
  rec_decode typ hs key vt buf = Some (m, r) -> rec_typ r = typ.
Proof.
  intros typ hs key vt buf m r H. unfold rec_decode in H.
  destruct (typ =? typ_ref) eqn:Er.
  { apply N.eqb_eq in Er. subst typ.
    repeat (cbv zeta in H; break_match_hyp H; try discriminate);
      inversion H; subst; reflexivity. }
  destruct (typ =? typ_log) eqn:El.
  { apply N.eqb_eq in El. subst typ.
    repeat (cbv zeta in H; break_match_hyp H; try discriminate);
      inversion H; subst; reflexivity. }
  destruct (typ =? typ_obj) eqn:Eo.
  { apply N.eqb_eq in Eo. subst typ.
    repeat (cbv zeta in H; break_match_hyp H; try discriminate);
      inversion H; subst; reflexivity. }
  destruct (typ =? typ_idx) eqn:Ei; [|discriminate].
  apply N.eqb_eq in Ei. subst typ.
  repeat (cbv zeta in H; break_match_hyp H; try discriminate);
    inversion H; subst; reflexivity.
Qed.

Lemma bi_next_some : forall b off last rec off' last',
  bi_next b (off, last) = Some (Some (rec, (off', last'))) ->
  (off < off')%nat /\ (off < length (br_block b))%nat /\ rec_typ rec = br_typ b.
Proof.
  intros b off last rec off' last' H. unfold bi_next in H.
  destruct (Nat.leb (length (br_block b)) off) eqn:El; [discriminate|].
  cbv zeta in H.
  destruct (decode_key (skipn off (br_block b)) last) as [[[n key] vt]|] eqn:Ek; [|discriminate].
  destruct (rec_decode (br_typ b) (br_hash b) key vt (skipn n (skipn off (br_block b))))
    as [[m r]|] eqn:Er; [|discriminate].
  inversion H; subst. apply decode_key_pos in Ek. apply rec_decode_typ in Er.
  repeat split; [lia | lia | exact Er].
Qed.

(* ------------------------------------------------------------------ *)
(* the loops of Block.v whose fuel exhaustion is silent: the fuel the model
   passes is enough (more fuel never changes the result)               *)

Lemma seek_scan_fuel : forall f1 f2 b key p,
  (length (br_block b) - fst p < f1)%nat -> (length (br_block b) - fst p < f2)%nat ->
  seek_scan f1 b key p = seek_scan f2 b key p.
Proof.
  induction f1 as [|f1 IH]; intros f2 b key [off last] H1 H2; [lia|].
  destruct f2 as [|f2]; [lia|]. cbn [seek_scan fst] in *.
  destruct (bi_next b (off, last)) as [[[rec [off' last']]|]|] eqn:E; try reflexivity.
  destruct (negb (bytes_ltb (rec_key rec) key)); [reflexivity|].
  apply bi_next_some in E. destruct E as (E1 & E2 & _).
  apply IH; cbn [fst]; lia.
Qed.

Lemma search_loop_fuel : forall f1 f2 g i j fl,
  (j - i < f1)%nat -> (j - i < f2)%nat -> search_loop f1 g i j fl = search_loop f2 g i j fl.
Proof.
  induction f1 as [|f1 IH]; intros f2 g i j fl H1 H2; [lia|].
  destruct f2 as [|f2]; [lia|]. cbn [search_loop].
  destruct (Nat.ltb i j) eqn:E; [|reflexivity].
  apply Nat.ltb_lt in E.
  assert (Hh : (i <= Nat.div (i + j) 2 < j)%nat).
  { split; [apply Nat.div_le_lower_bound | apply Nat.div_lt_upper_bound]; lia. }
  destruct (g (Nat.div (i + j) 2)) as [[|]|]; apply IH; lia.
Qed.

(* br_seek as the model runs it equals br_seek with any larger fuel *)
Lemma br_seek_fuel_enough : forall b key k1 k2,
  br_seek b key =
  (let f := fun i => match decode_restart_key (br_block b) (restart_offset b i) with
                     | Some rk => Some (bytes_ltb key rk)
                     | None => None
                     end in
   let '(j, failed) := search_loop (S (br_count b) + k1) f 0 (br_count b) false in
   if failed then None
   else
     let off := match j with O => (br_hdr b + 4)%nat | S j' => restart_offset b j' end in
     seek_scan (S (length (br_block b)) + k2) b key (off, [])).
Proof.
  intros b key k1 k2. unfold br_seek. cbv zeta.
  rewrite (search_loop_fuel (S (br_count b)) (S (br_count b) + k1)) by lia.
  destruct (search_loop _ _ _ _ _) as [j failed].
  destruct failed; [reflexivity|].
  apply seek_scan_fuel; cbn [fst]; lia.
Qed.

(* ------------------------------------------------------------------ *)
(* br_init                                                            *)

Lemma is_block_type_not_any : forall t, is_block_type t = true -> t <> typ_any.
Proof. intros t H. unfold is_block_type, typ_ref, typ_log, typ_obj, typ_idx, typ_any in *. lia. Qed.

Lemma br_init_inr : forall inflate block hdr tbs hash b,
  br_init inflate block hdr tbs hash = inr b ->
  (1 <= br_full b)%nat /\ br_typ b = nth hdr block 0 /\ br_typ b <> typ_any /\
  (hdr + 4 <= length block)%nat.
Proof.
  intros inflate block hdr tbs hash b H. rewrite br_init_eq in H. unfold br_init_ref in H.
  destruct (Nat.ltb (length block) (hdr + 4)) eqn:E0; [discriminate|].
  cbv zeta in H.
  destruct (is_block_type (nth hdr block 0)) eqn:Et; [|discriminate].
  apply is_block_type_not_any in Et. cbn [negb] in H.
  remember (N.to_nat (be_value (firstn 3 (skipn (hdr + 1) block)) 0)) as sz eqn:Esz.
  clear Esz.
  repeat (break_match_hyp H; try discriminate);
    inversion H; subst; cbn [br_full br_typ]; repeat split; try assumption;
    repeat match goal with
           | Hc : _ || _ = false |- _ => apply orb_false_iff in Hc; destruct Hc
           | Hc : _ && _ = true |- _ => apply andb_true_iff in Hc; destruct Hc
           | Hc : (3 * _ + _ <? _)%nat = _ |- _ => clear Hc
           | Hc : (_ <? 2 + 3 * _ + _)%nat = _ |- _ => clear Hc
           end; try lia.
Qed.

Lemma br_init_trunc : forall inflate block hdr tbs hash,
  br_init inflate block hdr tbs hash = inl BrTrunc -> (hdr + 4 <= length block)%nat.
Proof.
  intros inflate block hdr tbs hash H. rewrite br_init_eq in H. unfold br_init_ref in H.
  destruct (Nat.ltb (length block) (hdr + 4)) eqn:E0; [discriminate|]. lia.
Qed.

(* ------------------------------------------------------------------ *)
(* rd_open                                                            *)

Theorem rd_open_safe : forall src, safe (rd_open src).
Proof.
  intros src. unfold rd_open.
  repeat (cbv zeta; match goal with |- safe (match ?x with _ => _ end) => destruct x end);
    exact I.
Qed.

Lemma rd_open_ok : forall src r, rd_open src = Ok r ->
  rd_src r = src /\ rd_size r <= N.of_nat (length src).
Proof.
  intros src r H. unfold rd_open in H.
  repeat (cbv zeta in H;
          match type of H with
          | (match ?x with _ => _ end) = _ => destruct x eqn:?; try discriminate
          end).
  inversion H; subst; cbn [rd_src rd_size]. split; [reflexivity | lia].
Qed.

(* ------------------------------------------------------------------ *)
(* the reader                                                         *)

Definition rd_ok (r : reader) : Prop :=
  rd_size r <= N.of_nat (length (rd_src r)) /\ N.of_nat (length (rd_src r)) < 2 ^ 31.

(* [block] is a prefix of the file contents from offset [off] on *)
Definition blk_at (r : reader) (off : N) (block : bytes) : Prop :=
  exists n, block = firstn n (dropN off (rd_src r)).
Definition typ_at (r : reader) (off : N) (hdr : nat) : N := nth hdr (dropN off (rd_src r)) 0.

Lemma blk_at_nth : forall r off block hdr,
  blk_at r off block -> (hdr < length block)%nat -> nth hdr block 0 = typ_at r off hdr.
Proof.
  intros r off block hdr [n ->] H. unfold typ_at.
  rewrite firstn_length in H. apply nth_firstn_lt. lia.
Qed.

Lemma get_block_some : forall r off sz blk,
  get_block r off sz = Some blk -> blk_at r off blk /\ off < rd_size r.
Proof.
  intros r off sz blk H. unfold get_block in H.
  destruct (rd_size r <=? off) eqn:E; [discriminate|]. inversion H; subst.
  split; [eexists; reflexivity | lia].
Qed.

Lemma get_block_len : forall r off sz blk,
  rd_size r <= N.of_nat (length (rd_src r)) ->
  get_block r off sz = Some blk -> N.of_nat (length blk) = N.min sz (rd_size r - off).
Proof.
  intros r off sz blk Hs H. unfold get_block in H.
  destruct (rd_size r <=? off) eqn:E; [discriminate|]. inversion H; subst.
  rewrite firstn_length, dropN_length. lia.
Qed.

Section Safety.
  Variable inflate : bytes -> inflate_result.
  Variable af : bool.

  (* the hypotheses only termination needs *)
  Definition rdf (r : reader) : Prop := af = false -> rd_ok r.

  Lemma br_retry_post : forall fuel r off hdr is_log block b,
    blk_at r off block ->
    br_retry inflate fuel r off hdr is_log block = Ok (Some b) ->
    (1 <= br_full b)%nat /\ br_typ b = typ_at r off hdr /\ br_typ b <> typ_any.
  Proof.
    induction fuel as [|f IH]; intros r off hdr is_log block b Hb H; cbn [br_retry] in H;
      [discriminate|].
    destruct (br_init inflate block hdr (N.to_nat (rd_block_size r)) (rd_hash_size r))
      as [[|]|b0] eqn:Ei.
    - discriminate.
    - destruct (negb is_log || (rd_size r <=? off + N.of_nat (length block))); [discriminate|].
      destruct (get_block r off (2 * N.of_nat (length block) mod 4294967296)) as [block'|] eqn:Eg;
        [|discriminate].
      apply get_block_some in Eg. eapply IH; [apply Eg | exact H].
    - inversion H; subst b0. apply br_init_inr in Ei. destruct Ei as (H1 & H2 & H3 & H4).
      repeat split; try assumption. rewrite H2. apply blk_at_nth; [assumption | lia].
  Qed.

  Lemma br_retry_good : forall fuel r off hdr is_log block,
    blk_at r off block ->
    (af = false -> rd_ok r /\ (fuel <> 0)%nat /\
                   rd_size r - off <= N.of_nat (length block) * 2 ^ N.of_nat (Nat.pred fuel)) ->
    good af (br_retry inflate fuel r off hdr is_log block).
  Proof.
    induction fuel as [|f IH]; intros r off hdr is_log block Hb HF; cbn [br_retry].
    { apply good_fuel. intros Ha. destruct (HF Ha) as (_ & H & _). congruence. }
    destruct (br_init inflate block hdr (N.to_nat (rd_block_size r)) (rd_hash_size r))
      as [[|]|b0] eqn:Ei; try exact I.
    destruct (negb is_log || (rd_size r <=? off + N.of_nat (length block))) eqn:Ec; [exact I|].
    destruct (get_block r off (2 * N.of_nat (length block) mod 4294967296)) as [block'|] eqn:Eg;
      [|exact I].
    apply IH; [apply (get_block_some _ _ _ _ Eg)|].
    intros Ha. destruct (HF Ha) as ((Hs1 & Hs2) & _ & Hm). cbn [Nat.pred] in Hm.
    apply orb_false_iff in Ec. destruct Ec as [_ Ec].
    pose proof (get_block_len _ _ _ _ Hs1 Eg) as Hl.
    split; [split; assumption|].
    change (2 ^ 31) with 2147483648 in Hs2.
    rewrite N.mod_small in Hl by lia.
    destruct f as [|f'].
    - exfalso. cbn in Hm. lia.
    - split; [discriminate|]. cbn [Nat.pred].
      rewrite Nat2N.inj_succ, N.pow_succ_r' in Hm.
      assert (Hp : 1 <= 2 ^ N.of_nat f') by (apply N.lt_pred_le, N.neq_0_lt_0, N.pow_nonzero; lia).
      rewrite Hl. remember (2 ^ N.of_nat f') as X. nia.
  Qed.

  Lemma new_block_reader_post : forall r off want b,
    new_block_reader inflate r off want = Ok (Some b) ->
    off < rd_size r /\ (1 <= br_full b)%nat /\ br_typ b <> typ_any /\
    (want <> typ_any -> br_typ b = want).
  Proof.
    intros r off want b H. unfold new_block_reader in H.
    destruct (rd_size r <=? off) eqn:E0; [discriminate|].
    cbv zeta in H.
    set (guess := if rd_block_size r =? 0 then 4096 else rd_block_size r) in *.
    destruct (get_block r off guess) as [block|] eqn:Eg; [|discriminate].
    set (hdr := if off =? 0 then rd_header_size r else 0%nat) in *.
    destruct (Nat.ltb (length block) hdr) eqn:E1; [discriminate|].
    destruct (Nat.ltb (length (skipn hdr block)) 4) eqn:E2; [discriminate|].
    destruct (negb (is_block_type (nth 0 (skipn hdr block) 0))); [discriminate|].
    destruct (negb (want =? typ_any) && negb (nth 0 (skipn hdr block) 0 =? want)) eqn:E3;
      [discriminate|].
    rewrite skipn_length in E2. rewrite nth_skipn0 in *.
    pose proof (get_block_some _ _ _ _ Eg) as [Hb _].
    match type of H with
    | match ?x with _ => _ end = _ => destruct x as [block2|] eqn:Eb; [|discriminate]
    end.
    assert (Hb2 : blk_at r off block2).
    { destruct (guess <? _) in Eb; [apply (get_block_some _ _ _ _ Eb) | now inversion Eb; subst]. }
    apply (br_retry_post _ _ _ _ _ _ _ Hb2) in H. destruct H as (H1 & H2 & H3).
    repeat split; try assumption; [lia|].
    intros Hw. rewrite H2. rewrite <- (blk_at_nth _ _ _ _ Hb) by lia. lia.
  Qed.

  Lemma new_block_reader_good : forall r off want,
    rdf r -> good af (new_block_reader inflate r off want).
  Proof.
    intros r off want HF. unfold new_block_reader.
    destruct (rd_size r <=? off) eqn:E0; [exact I|].
    cbv zeta.
    set (guess := if rd_block_size r =? 0 then 4096 else rd_block_size r) in *.
    assert (Hguess : 1 <= guess) by (subst guess; destruct (rd_block_size r =? 0) eqn:?; lia).
    destruct (get_block r off guess) as [block|] eqn:Eg; [|exact I].
    set (hdr := if off =? 0 then rd_header_size r else 0%nat) in *.
    destruct (Nat.ltb (length block) hdr) eqn:E1; [exact I|].
    destruct (Nat.ltb (length (skipn hdr block)) 4) eqn:E2; [exact I|].
    destruct (negb (is_block_type (nth 0 (skipn hdr block) 0))); [exact I|].
    destruct (negb (want =? typ_any) && negb (nth 0 (skipn hdr block) 0 =? want)) eqn:E3;
      [exact I|].
    rewrite skipn_length in E2.
    pose proof (get_block_some _ _ _ _ Eg) as [Hb _].
    match goal with
    | |- good af (match ?x with _ => _ end) => destruct x as [block2|] eqn:Eb; [|exact I]
    end.
    apply br_retry_good.
    { destruct (guess <? _) in Eb; [apply (get_block_some _ _ _ _ Eb) | now inversion Eb; subst]. }
    intros Ha. destruct (HF Ha) as (Hs1 & Hs2). split; [split; assumption|].
    split; [discriminate|]. cbn [Nat.pred].
    change (2 ^ N.of_nat 39) with 549755813888. change (2 ^ 31) with 2147483648 in Hs2.
    assert (1 <= N.of_nat (length block2)); [|lia].
    destruct (guess <? _) eqn:Egl in Eb.
    - apply (get_block_len _ _ _ _ Hs1) in Eb. lia.
    - inversion Eb; subst. lia.
  Qed.

  (* table iterators: the block reader has the iterator's type, lies inside
     the file and has a positive size *)
  Definition ti_wf (r : reader) (t : titer) : Prop :=
    ti_typ t = br_typ (ti_br t) /\ ti_typ t <> typ_any /\ ti_off t < rd_size r /\
    (1 <= br_full (ti_br t))%nat.

  Lemma ti_set_wf : forall r t p, ti_wf r t -> ti_wf r (ti_set t p).
  Proof. intros r t p H. exact H. Qed.

  Lemma tab_iter_at_good : forall r off want, rdf r -> good af (tab_iter_at inflate r off want).
  Proof.
    intros r off want HF. unfold tab_iter_at. apply good_bind; [now apply new_block_reader_good|].
    intros [b|] _; exact I.
  Qed.

  Lemma tab_iter_at_post : forall r off want t,
    tab_iter_at inflate r off want = Ok (Some t) ->
    ti_wf r t /\ ti_off t = off /\ (want <> typ_any -> ti_typ t = want).
  Proof.
    intros r off want t H. unfold tab_iter_at in H.
    destruct (new_block_reader inflate r off want) as [[b|]| |s|] eqn:E; cbn [bind] in H;
      try discriminate.
    inversion H; subst t. apply new_block_reader_post in E. destruct E as (H1 & H2 & H3 & H4).
    unfold ti_wf; cbn [ti_typ ti_off ti_br]. repeat split; assumption.
  Qed.

  Lemma rd_start_good : forall r typ index, rdf r -> good af (rd_start inflate r typ index).
  Proof.
    intros r typ index HF. unfold rd_start. destruct index.
    - destruct (o_index (rd_offsets r typ) =? 0); [exact I | now apply tab_iter_at_good].
    - now apply tab_iter_at_good.
  Qed.

  Lemma typ_idx_not_any : typ_idx <> typ_any.
  Proof. discriminate. Qed.

  Lemma rd_start_post : forall r typ index t,
    rd_start inflate r typ index = Ok (Some t) ->
    ti_wf r t /\ (if index then ti_typ t = typ_idx else typ <> typ_any -> ti_typ t = typ).
  Proof.
    intros r typ index t H. unfold rd_start in H. destruct index.
    - destruct (o_index (rd_offsets r typ) =? 0); [discriminate|].
      apply tab_iter_at_post in H. destruct H as (H1 & _ & H3). split; [assumption|].
      apply H3, typ_idx_not_any.
    - apply tab_iter_at_post in H. destruct H as (H1 & _ & H3). split; assumption.
  Qed.

  Lemma ti_next_block_good : forall r t, rdf r -> good af (ti_next_block inflate r t).
  Proof.
    intros r t HF. unfold ti_next_block. cbv zeta.
    apply good_bind; [now apply new_block_reader_good|]. intros [b|] _; exact I.
  Qed.

  Lemma ti_next_block_post : forall r t t' moved,
    ti_wf r t -> ti_next_block inflate r t = Ok (t', moved) ->
    ti_wf r t' /\ ti_typ t' = ti_typ t /\
    (if moved then ti_off t < ti_off t' else ti_off t' = ti_off t).
  Proof.
    intros r t t' moved (W1 & W2 & W3 & W4) H. unfold ti_next_block in H. cbv zeta in H.
    destruct (new_block_reader inflate r (ti_off t + N.of_nat (br_full (ti_br t))) (ti_typ t))
      as [[b|]| |s|] eqn:E; cbn [bind] in H; try discriminate.
    - inversion H; subst t' moved. apply new_block_reader_post in E.
      destruct E as (H1 & H2 & H3 & H4).
      unfold ti_wf; cbn [ti_typ ti_off ti_br]. repeat split; auto; try lia.
    - inversion H; subst t' moved.
      unfold ti_wf; cbn [ti_typ ti_off ti_br]. repeat split; auto.
  Qed.

  Lemma fix_index_typ : forall r rec, rec_typ (fix_index r rec) = rec_typ rec.
  Proof. intros r [x|l|p o|k o]; reflexivity. Qed.

  (* distance to the end of the file: the measure of all block loops *)
  Definition dist (r : reader) (t : titer) : nat := N.to_nat (rd_size r - ti_off t).

  Lemma ti_next_post : forall fuel r t rec t',
    ti_wf r t -> ti_next inflate fuel r t = Ok (Some (rec, t')) ->
    ti_wf r t' /\ ti_typ t' = ti_typ t /\ ti_off t <= ti_off t' /\ rec_typ rec = ti_typ t.
  Proof.
    induction fuel as [|f IH]; intros r t rec t' W H; cbn [ti_next] in H; [discriminate|].
    destruct (ti_done t); [discriminate|].
    destruct (ti_pos t) as [off last] eqn:Ep.
    destruct (bi_next (ti_br t) (off, last)) as [[[rec0 [off' last']]|]|] eqn:Eb; [| |discriminate].
    - inversion H; subst rec t'. apply bi_next_some in Eb. destruct Eb as (_ & _ & Eb).
      destruct W as (W1 & W2 & W3 & W4).
      unfold ti_wf, ti_set; cbn [ti_typ ti_off ti_br].
      repeat split; try assumption; try lia.
      rewrite fix_index_typ, Eb. symmetry; assumption.
    - destruct (ti_next_block inflate r t) as [[t1 moved]| |s|] eqn:En; cbn [bind] in H;
        try discriminate.
      destruct moved; [|discriminate].
      apply (ti_next_block_post _ _ _ _ W) in En. destruct En as (W1 & T1 & O1).
      apply IH in H; [|assumption]. destruct H as (W2 & T2 & O2 & R2).
      repeat split; try apply W2; try congruence; lia.
  Qed.

  Lemma ti_next_good : forall fuel r t,
    ti_wf r t -> rdf r -> (af = false -> (dist r t < fuel)%nat) ->
    good af (ti_next inflate fuel r t).
  Proof.
    induction fuel as [|f IH]; intros r t W HF Hm; cbn [ti_next].
    { apply good_fuel. intros Ha. specialize (Hm Ha). lia. }
    destruct (ti_done t); [exact I|].
    destruct (bi_next (ti_br t) (ti_pos t)) as [[[rec0 p']|]|]; try exact I.
    apply good_bind; [now apply ti_next_block_good|].
    intros [t1 moved] En. destruct moved; [|exact I].
    apply (ti_next_block_post _ _ _ _ W) in En. destruct En as (W1 & T1 & O1).
    apply IH; try assumption. intros Ha. specialize (Hm Ha).
    unfold dist in *. destruct W1 as (_ & _ & ? & _). lia.
  Qed.

  Lemma dist_blocks_fuel : forall r t, rdf r -> af = false -> (dist r t < blocks_fuel r)%nat.
  Proof.
    intros r t HF Ha. destruct (HF Ha) as (H1 & _). unfold dist, blocks_fuel. lia.
  Qed.

  Lemma ti_next_good' : forall r t,
    ti_wf r t -> rdf r -> good af (ti_next inflate (blocks_fuel r) r t).
  Proof. intros r t W HF. apply ti_next_good; auto. now apply dist_blocks_fuel. Qed.

  (* seekLinear *)
  Lemma seek_linear_loop_post : forall fuel r t want t',
    ti_wf r t -> seek_linear_loop inflate fuel r t want = Ok t' ->
    ti_wf r t' /\ ti_typ t' = ti_typ t.
  Proof.
    induction fuel as [|f IH]; intros r t want t' W H; cbn [seek_linear_loop] in H; [discriminate|].
    destruct (ti_next_block inflate r t) as [[t1 moved]| |s|] eqn:En; cbn [bind] in H;
      try discriminate.
    apply (ti_next_block_post _ _ _ _ W) in En. destruct En as (W1 & T1 & O1).
    destruct moved; cbn [negb] in H; [|inversion H; subst; auto].
    destruct (ti_next inflate (blocks_fuel r) r t1) as [[[rec t2]|]| |s|] eqn:Ex; cbn [bind] in H;
      try discriminate.
    apply (ti_next_post _ _ _ _ _ W1) in Ex. destruct Ex as (W2 & T2 & O2 & _).
    destruct (bytes_ltb want (rec_key rec)); [inversion H; subst; auto|].
    apply IH in H; [|assumption]. destruct H as (W3 & T3). split; [assumption | congruence].
  Qed.

  Lemma seek_linear_loop_good : forall fuel r t want,
    ti_wf r t -> rdf r -> (af = false -> (dist r t < fuel)%nat) ->
    good af (seek_linear_loop inflate fuel r t want).
  Proof.
    induction fuel as [|f IH]; intros r t want W HF Hm; cbn [seek_linear_loop].
    { apply good_fuel. intros Ha. specialize (Hm Ha). lia. }
    apply good_bind; [now apply ti_next_block_good|].
    intros [t1 moved] En.
    apply (ti_next_block_post _ _ _ _ W) in En. destruct En as (W1 & T1 & O1).
    destruct moved; cbn [negb]; [|exact I].
    apply good_bind; [now apply ti_next_good'|].
    intros [[rec t2]|] Ex; [|exact I].
    apply (ti_next_post _ _ _ _ _ W1) in Ex. destruct Ex as (W2 & T2 & O2 & _).
    destruct (bytes_ltb want (rec_key rec)); [exact I|].
    apply IH; try assumption. intros Ha. specialize (Hm Ha).
    unfold dist in *. destruct W2 as (_ & _ & ? & _). lia.
  Qed.

  Lemma seek_linear_post : forall r t want t',
    ti_wf r t -> seek_linear inflate r t want = Ok t' -> ti_wf r t' /\ ti_typ t' = ti_typ t.
  Proof.
    intros r t want t' W H. unfold seek_linear in H.
    destruct (seek_linear_loop inflate (blocks_fuel r) r t want) as [last| |s|] eqn:El;
      cbn [bind] in H; try discriminate.
    apply (seek_linear_loop_post _ _ _ _ _ W) in El. destruct El as (W1 & T1).
    destruct (br_seek (ti_br last) want) as [p|]; [|discriminate].
    inversion H; subst t'. split; [now apply ti_set_wf | exact T1].
  Qed.

  Lemma seek_linear_good : forall r t want,
    ti_wf r t -> rdf r -> good af (seek_linear inflate r t want).
  Proof.
    intros r t want W HF. unfold seek_linear.
    apply good_bind.
    - apply seek_linear_loop_good; auto. now apply dist_blocks_fuel.
    - intros last _. destruct (br_seek (ti_br last) want); exact I.
  Qed.

  (* seekIndexed.  [sil false] is the model's loop; [sil true] is the loop
     with the repaired descent check: the child must lie before the index
     block the iterator was in BEFORE Next (which may move to a later block). *)
  Fixpoint sil (fx : bool) (fuel : nat) (r : reader) (idx : titer) (typ : N) (want : bytes)
    : res (option titer) :=
    match fuel with
    | O => Fuel
    | S f =>
        match ti_next inflate (blocks_fuel r) r idx with
        | Ok None => Ok None
        | Ok (Some (RecIdx _ off, idx')) =>
            if (if fx then ti_off idx else ti_off idx') <=? off then Err
            else
              let* ot := tab_iter_at inflate r off typ_any in
              match ot with
              | None => Err
              | Some t =>
                  match br_seek (ti_br t) want with
                  | None => Err
                  | Some p =>
                      let t' := ti_set t p in
                      if ti_typ t' =? typ then Ok (Some t')
                      else if negb (ti_typ t' =? typ_idx) then Err
                      else sil fx f r t' typ want
                  end
              end
        | Ok (Some _) => Panic site_iter_type
        | Err => Ok None
        | Panic s => Panic s
        | Fuel => Fuel
        end
    end.

  Lemma sil_true : forall fuel r idx typ want,
    sil true fuel r idx typ want = seek_indexed_loop inflate fuel r idx typ want.
  Proof.
    induction fuel as [|f IH]; intros r idx typ want; cbn [sil seek_indexed_loop]; [reflexivity|].
    destruct (ti_next inflate (blocks_fuel r) r idx) as [[[[x|l|pp oo|k off] idx']|]| |s|];
      try reflexivity.
    destruct (ti_off idx <=? off); [reflexivity|].
    destruct (tab_iter_at inflate r off typ_any) as [[t|]| |s|]; cbn [bind]; try reflexivity.
    destruct (br_seek (ti_br t) want) as [p|]; [|reflexivity]. cbv zeta.
    destruct (ti_typ (ti_set t p) =? typ); [reflexivity|].
    destruct (negb (ti_typ (ti_set t p) =? typ_idx)); [reflexivity|]. apply IH.
  Qed.

  Lemma sil_post : forall fx fuel r idx typ want t,
    sil fx fuel r idx typ want = Ok (Some t) -> ti_wf r t /\ ti_typ t = typ.
  Proof.
    induction fuel as [|f IH]; intros r idx typ want t0 H; cbn [sil] in H; [discriminate|].
    destruct (ti_next inflate (blocks_fuel r) r idx) as [[[[x|l|pp oo|k off] idx']|]| |s|];
      try discriminate.
    destruct (_ <=? off); [discriminate|].
    destruct (tab_iter_at inflate r off typ_any) as [[t|]| |s|] eqn:Et; cbn [bind] in H;
      try discriminate.
    apply tab_iter_at_post in Et. destruct Et as (W & _ & _).
    destruct (br_seek (ti_br t) want) as [p|]; [|discriminate]. cbv zeta in H.
    destruct (ti_typ (ti_set t p) =? typ) eqn:E1.
    - inversion H; subst t0. split; [now apply ti_set_wf | lia].
    - destruct (negb (ti_typ (ti_set t p) =? typ_idx)); [discriminate|]. eapply IH; eassumption.
  Qed.

  Lemma sil_good : forall fx fuel r idx typ want,
    ti_wf r idx -> ti_typ idx = typ_idx -> rdf r ->
    (af = false -> fx = true /\ (N.to_nat (ti_off idx) < fuel)%nat) ->
    good af (sil fx fuel r idx typ want).
  Proof.
    induction fuel as [|f IH]; intros r idx typ want W T HF Hm; cbn [sil].
    { apply good_fuel. intros Ha. destruct (Hm Ha). lia. }
    pose proof (ti_next_good' r idx W HF) as G.
    destruct (ti_next inflate (blocks_fuel r) r idx) as [[[rec idx']|]| |s|] eqn:Ex;
      try exact I; try exact G.
    apply (ti_next_post _ _ _ _ _ W) in Ex. destruct Ex as (W' & T' & O' & R').
    rewrite T in R'.
    destruct rec as [x|l|pp oo|k off]; try discriminate R'.
    destruct (_ <=? off) eqn:Ec; [exact I|].
    apply good_bind; [now apply tab_iter_at_good|].
    intros [t|] Et; [|exact I].
    apply tab_iter_at_post in Et. destruct Et as (Wt & Ot & _).
    destruct (br_seek (ti_br t) want) as [p|]; [|exact I]. cbv zeta.
    destruct (ti_typ (ti_set t p) =? typ); [exact I|].
    destruct (negb (ti_typ (ti_set t p) =? typ_idx)) eqn:E2; [exact I|].
    apply IH; try assumption.
    - lia.
    - intros Ha. destruct (Hm Ha) as [-> Hlt]. split; [reflexivity|].
      unfold ti_set; cbn [ti_off]. lia.
  Qed.

  Definition seek_indexed_g (fx : bool) (r : reader) (typ : N) (want : bytes) : res (option titer) :=
    let* oi := rd_start inflate r typ true in
    match oi with
    | None => Err
    | Some idx =>
        let* idx1 := seek_linear inflate r idx want in
        sil fx (blocks_fuel r) r idx1 typ want
    end.

  Definition rd_seek_g (fx : bool) (r : reader) (typ : N) (want : bytes) : res (option titer) :=
    if bytes_eqb want (empty_key typ) then rd_start inflate r typ false
    else if 0 <? o_index (rd_offsets r typ) then seek_indexed_g fx r typ want
    else
      let* ot := rd_start inflate r typ false in
      match ot with
      | None => Ok None
      | Some t => let* t' := seek_linear inflate r t want in Ok (Some t')
      end.

  Definition seek_record_g (fx : bool) (r : reader) (typ : N) (want : bytes) : res (option titer) :=
    if negb (o_present (rd_offsets r typ)) then Ok None else rd_seek_g fx r typ want.

  Definition seek_ref_g (fx : bool) (r : reader) (name : bytes) : res (list record) :=
    let* ot := seek_record_g fx r typ_ref name in drain_opt inflate r ot.
  Definition seek_log_g (fx : bool) (r : reader) (name : bytes) (idx : N) : res (list record) :=
    let* ot := seek_record_g fx r typ_log (log_key_of name idx) in drain_opt inflate r ot.

  Definition refs_for_g (fx : bool) (r : reader) (oid : bytes) : res (list record) :=
    if negb (o_present (rd_ref r)) then Ok []
    else if o_present (rd_obj r) then
      if Nat.ltb (length oid) (rd_idlen r) then Ok []
      else
        let want := firstn (rd_idlen r) oid in
        let* ot := rd_seek_g fx r typ_obj want in
        match ot with
        | None => Ok []
        | Some t =>
            let* nx := ti_next inflate (blocks_fuel r) r t in
            match nx with
            | Some (RecObj k offs, _) =>
                if negb (bytes_eqb k want) then Ok []
                else match offs with
                     | [] => refs_for_linear inflate r oid
                     | _ => refs_in_blocks inflate r oid offs
                     end
            | Some _ => Panic site_iter_type
            | None => Ok []
            end
        end
    else refs_for_linear inflate r oid.

  Lemma seek_indexed_g_true : forall r typ want,
    seek_indexed_g true r typ want = seek_indexed inflate r typ want.
  Proof.
    intros. unfold seek_indexed_g, seek_indexed.
    destruct (rd_start inflate r typ true) as [[idx|]| |s|]; cbn [bind]; try reflexivity.
    destruct (seek_linear inflate r idx want); cbn [bind]; try reflexivity. apply sil_true.
  Qed.

  Lemma rd_seek_g_true : forall r typ want, rd_seek_g true r typ want = rd_seek inflate r typ want.
  Proof. intros. unfold rd_seek_g, rd_seek. now rewrite seek_indexed_g_true. Qed.

  Lemma seek_ref_g_true : forall r name, seek_ref_g true r name = seek_ref inflate r name.
  Proof.
    intros. unfold seek_ref_g, seek_ref, seek_record_g, seek_record. now rewrite rd_seek_g_true.
  Qed.

  Lemma seek_log_g_true : forall r name idx, seek_log_g true r name idx = seek_log inflate r name idx.
  Proof.
    intros. unfold seek_log_g, seek_log, seek_record_g, seek_record. now rewrite rd_seek_g_true.
  Qed.

  Lemma refs_for_g_true : forall r oid, refs_for_g true r oid = refs_for inflate r oid.
  Proof. intros. unfold refs_for_g, refs_for. cbv zeta. now rewrite rd_seek_g_true. Qed.

  (* termination of the index descent needs the repaired check, or no index *)
  Definition idx_ok (fx : bool) (r : reader) (typ : N) : Prop :=
    af = false -> fx = true \/ o_index (rd_offsets r typ) = 0.

  Lemma seek_indexed_g_post : forall fx r typ want t,
    seek_indexed_g fx r typ want = Ok (Some t) -> ti_wf r t /\ ti_typ t = typ.
  Proof.
    intros fx r typ want t H. unfold seek_indexed_g in H.
    destruct (rd_start inflate r typ true) as [[idx|]| |s|]; cbn [bind] in H; try discriminate.
    destruct (seek_linear inflate r idx want); cbn [bind] in H; try discriminate.
    eapply sil_post; eassumption.
  Qed.

  Lemma seek_indexed_g_good : forall fx r typ want,
    rdf r -> (af = false -> fx = true) -> good af (seek_indexed_g fx r typ want).
  Proof.
    intros fx r typ want HF Hx. unfold seek_indexed_g.
    apply good_bind; [now apply rd_start_good|].
    intros [idx|] Es; [|exact I].
    apply rd_start_post in Es. destruct Es as (W & T).
    apply good_bind; [now apply seek_linear_good|].
    intros idx1 El. apply (seek_linear_post _ _ _ _ W) in El. destruct El as (W1 & T1).
    apply sil_good; try assumption; [congruence|].
    intros Ha. split; [auto|]. destruct (HF Ha) as (H1 & _).
    destruct W1 as (_ & _ & ? & _). unfold blocks_fuel. lia.
  Qed.

  Lemma rd_seek_g_post : forall fx r typ want t,
    typ <> typ_any -> rd_seek_g fx r typ want = Ok (Some t) -> ti_wf r t /\ ti_typ t = typ.
  Proof.
    intros fx r typ want t Hty H. unfold rd_seek_g in H.
    destruct (bytes_eqb want (empty_key typ)).
    { apply rd_start_post in H. destruct H as (W & T). auto. }
    destruct (0 <? o_index (rd_offsets r typ)).
    { eapply seek_indexed_g_post; eassumption. }
    destruct (rd_start inflate r typ false) as [[t0|]| |s|] eqn:Es; cbn [bind] in H;
      try discriminate.
    apply rd_start_post in Es. destruct Es as (W & T).
    destruct (seek_linear inflate r t0 want) as [t1| |s|] eqn:El; cbn [bind] in H;
      try discriminate.
    inversion H; subst t1. apply (seek_linear_post _ _ _ _ W) in El.
    destruct El as (W1 & T1). split; [assumption|]. rewrite T1. auto.
  Qed.

  Lemma rd_seek_g_good : forall fx r typ want,
    rdf r -> idx_ok fx r typ -> good af (rd_seek_g fx r typ want).
  Proof.
    intros fx r typ want HF Hx. unfold rd_seek_g.
    destruct (bytes_eqb want (empty_key typ)); [now apply rd_start_good|].
    destruct (0 <? o_index (rd_offsets r typ)) eqn:Ei.
    { apply seek_indexed_g_good; [assumption|]. intros Ha. destruct (Hx Ha); [assumption | lia]. }
    apply good_bind; [now apply rd_start_good|].
    intros [t|] Es; [|exact I].
    apply rd_start_post in Es. destruct Es as (W & _).
    apply good_bind; [now apply seek_linear_good|]. intros; exact I.
  Qed.

  (* draining *)
  Lemma block_rest_good : forall fuel r b p acc,
    (af = false -> (length (br_block b) - fst p < fuel)%nat) ->
    good af (block_rest fuel r b p acc).
  Proof.
    induction fuel as [|f IH]; intros r b [off last] acc Hm; cbn [block_rest].
    { apply good_fuel. intros Ha. specialize (Hm Ha). lia. }
    destruct (bi_next b (off, last)) as [[[rec [off' last']]|]|] eqn:E; try exact I.
    apply IH. intros Ha. specialize (Hm Ha). apply bi_next_some in E.
    cbn [fst] in *. lia.
  Qed.

  Lemma block_rest_good' : forall r b p acc,
    good af (block_rest (S (length (br_block b))) r b p acc).
  Proof. intros. apply block_rest_good. intros _. lia. Qed.

  Lemma ti_drain_good : forall fuel r t acc,
    ti_wf r t -> rdf r -> (af = false -> (dist r t < fuel)%nat) ->
    good af (ti_drain inflate fuel r t acc).
  Proof.
    induction fuel as [|f IH]; intros r t acc W HF Hm; cbn [ti_drain].
    { apply good_fuel. intros Ha. specialize (Hm Ha). lia. }
    destruct (ti_done t); [exact I|].
    apply good_bind; [apply block_rest_good'|]. intros recs _.
    apply good_bind; [now apply ti_next_block_good|].
    intros [t1 moved] En. destruct moved; [|exact I].
    apply (ti_next_block_post _ _ _ _ W) in En. destruct En as (W1 & T1 & O1).
    apply IH; try assumption. intros Ha. specialize (Hm Ha).
    unfold dist in *. destruct W1 as (_ & _ & ? & _). lia.
  Qed.

  Lemma drain_opt_good : forall r ot,
    (forall t, ot = Some t -> ti_wf r t) -> rdf r -> good af (drain_opt inflate r ot).
  Proof.
    intros r [t|] W HF; cbn [drain_opt]; [|exact I].
    apply ti_drain_good; auto. now apply dist_blocks_fuel.
  Qed.

  Lemma typ_ref_not_any : typ_ref <> typ_any. Proof. discriminate. Qed.
  Lemma typ_log_not_any : typ_log <> typ_any. Proof. discriminate. Qed.
  Lemma typ_obj_not_any : typ_obj <> typ_any. Proof. discriminate. Qed.

  Lemma seek_record_drain_good : forall fx r typ want,
    typ <> typ_any -> rdf r -> idx_ok fx r typ ->
    good af (let* ot := seek_record_g fx r typ want in drain_opt inflate r ot).
  Proof.
    intros fx r typ want Hty HF Hx. apply good_bind.
    - unfold seek_record_g. destruct (negb _); [exact I | now apply rd_seek_g_good].
    - intros ot Es. apply drain_opt_good; [|assumption].
      intros t ->. unfold seek_record_g in Es. destruct (negb _); [discriminate|].
      apply rd_seek_g_post in Es; [apply Es | assumption].
  Qed.

  Lemma seek_ref_g_good : forall fx r name,
    rdf r -> idx_ok fx r typ_ref -> good af (seek_ref_g fx r name).
  Proof. intros. apply seek_record_drain_good; auto using typ_ref_not_any. Qed.

  Lemma seek_log_g_good : forall fx r name idx,
    rdf r -> idx_ok fx r typ_log -> good af (seek_log_g fx r name idx).
  Proof. intros. apply seek_record_drain_good; auto using typ_log_not_any. Qed.

  (* RefsFor *)
  Lemma refs_in_blocks_good : forall r oid offs, rdf r -> good af (refs_in_blocks inflate r oid offs).
  Proof.
    intros r oid offs HF. induction offs as [|off rest IH]; cbn [refs_in_blocks]; [exact I|].
    apply good_bind; [now apply new_block_reader_good|].
    intros [b|] _; [|exact I].
    apply good_bind; [apply block_rest_good'|]. intros recs _.
    apply good_bind; [exact IH|]. intros; exact I.
  Qed.

  Lemma refs_for_linear_good : forall r oid, rdf r -> good af (refs_for_linear inflate r oid).
  Proof.
    intros r oid HF. unfold refs_for_linear.
    apply good_bind; [now apply rd_start_good|]. intros ot Es.
    apply good_bind; [|intros; exact I].
    apply drain_opt_good; [|assumption]. intros t ->. apply rd_start_post in Es. apply Es.
  Qed.

  Lemma refs_for_g_good : forall fx r oid,
    rdf r -> idx_ok fx r typ_obj -> good af (refs_for_g fx r oid).
  Proof.
    intros fx r oid HF Hx. unfold refs_for_g.
    destruct (negb (o_present (rd_ref r))); [exact I|].
    destruct (o_present (rd_obj r)); [|now apply refs_for_linear_good].
    destruct (Nat.ltb (length oid) (rd_idlen r)); [exact I|]. cbv zeta.
    apply good_bind; [now apply rd_seek_g_good|].
    intros [t|] Es; [|exact I].
    apply rd_seek_g_post in Es; [|exact typ_obj_not_any]. destruct Es as (W & T).
    apply good_bind; [now apply ti_next_good'|].
    intros [[rec t']|] Ex; [|exact I].
    apply (ti_next_post _ _ _ _ _ W) in Ex. destruct Ex as (_ & _ & _ & R). rewrite T in R.
    destruct rec as [x|l|k offs|k off]; try discriminate R.
    destruct (negb (bytes_eqb k (firstn (rd_idlen r) oid))); [exact I|].
    destruct offs; [now apply refs_for_linear_good | now apply refs_in_blocks_good].
  Qed.
End Safety.

(* ------------------------------------------------------------------ *)
(* the theorems                                                       *)

Lemma rd_open_rd_ok : forall src r,
  rd_open src = Ok r -> N.of_nat (length src) < 2 ^ 31 -> rd_ok r.
Proof.
  intros src r H L. apply rd_open_ok in H. destruct H as [H1 H2].
  unfold rd_ok. rewrite H1. split; assumption.
Qed.

Section Theorems.
  Variable inflate : bytes -> inflate_result.      (* arbitrary: no hypothesis *)

  Local Lemma rdf_false : forall src r,
    rd_open src = Ok r -> N.of_nat (length src) < 2 ^ 31 -> rdf false r.
  Proof. intros src r H L _. eapply rd_open_rd_ok; eassumption. Qed.

  Theorem seek_ref_safe : forall src r name,
    rd_open src = Ok r -> N.of_nat (length src) < 2 ^ 31 -> safe (seek_ref inflate r name).
  Proof.
    intros src r name H L. apply good_false_safe. rewrite <- seek_ref_g_true.
    apply seek_ref_g_good; [eapply rdf_false; eassumption|]. intros _. left. reflexivity.
  Qed.

  Theorem seek_log_safe : forall src r name idx,
    rd_open src = Ok r -> N.of_nat (length src) < 2 ^ 31 -> safe (seek_log inflate r name idx).
  Proof.
    intros src r name idx H L. apply good_false_safe. rewrite <- seek_log_g_true.
    apply seek_log_g_good; [eapply rdf_false; eassumption|]. intros _. left. reflexivity.
  Qed.

  Theorem refs_for_safe : forall src r oid,
    rd_open src = Ok r -> N.of_nat (length src) < 2 ^ 31 -> safe (refs_for inflate r oid).
  Proof.
    intros src r oid H L. apply good_false_safe. rewrite <- refs_for_g_true.
    apply refs_for_g_good; [eapply rdf_false; eassumption|]. intros _. left. reflexivity.
  Qed.

  Corollary scan_refs_safe : forall src r,
    rd_open src = Ok r -> N.of_nat (length src) < 2 ^ 31 -> safe (scan_refs inflate r).
  Proof. intros. eapply seek_ref_safe; eassumption. Qed.

  Corollary scan_logs_safe : forall src r,
    rd_open src = Ok r -> N.of_nat (length src) < 2 ^ 31 -> safe (scan_logs inflate r).
  Proof. intros. eapply seek_log_safe; eassumption. Qed.
End Theorems.

Print Assumptions rd_open_safe.
Print Assumptions seek_ref_safe.
Print Assumptions seek_log_safe.
Print Assumptions refs_for_safe.
Print Assumptions scan_refs_safe.
Print Assumptions scan_logs_safe.
Print Assumptions br_seek_fuel_enough.
