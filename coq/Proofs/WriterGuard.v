(* The entry guard of Writer.add (index_entry_fits): a successful w_add is a successful
   w_add_core.  Standard library only. *)
From Coq Require Import List NArith ZArith Arith Bool Lia ZifyN ZifyNat ZifyBool.
From RT Require Import Model.Bytes Model.Result Model.Varint Model.KeyCodec Model.Records
  Model.RecCodec Model.Block Model.Crc32 Model.Writer.
From RT Require Import Proofs.BytesProofs Proofs.CodecProofs Proofs.BlockProofs.
Import ListNotations.
Local Open Scope N_scope.

#[local] Arguments N.div : simpl never.
#[local] Arguments N.modulo : simpl never.
#[local] Arguments N.mul : simpl never.
#[local] Arguments N.add : simpl never.
#[local] Arguments N.sub : simpl never.
#[local] Arguments N.of_nat : simpl never.
#[local] Arguments N.to_nat : simpl never.
#[local] Arguments N.leb : simpl never.
#[local] Arguments N.ltb : simpl never.
#[local] Arguments N.eqb : simpl never.
#[local] Arguments Nat.modulo : simpl never.
#[local] Arguments Nat.ltb : simpl never.
#[local] Arguments Nat.leb : simpl never.

Section WriterGuard.
  Variable deflate : bytes -> bytes.

  Lemma w_add_ok_core : forall st r st',
    w_add deflate st r = Ok st' -> w_add_core deflate st r = Ok st'.
  Proof.
    intros st r st' H. unfold w_add in H.
    destruct (negb (bytes_ltb (w_last_key st) (rec_key r))); [discriminate|].
    destruct (negb (index_entry_fits st (rec_key r))); [discriminate|].
    exact H.
  Qed.

  Lemma w_add_ok_fits : forall st r st',
    w_add deflate st r = Ok st' -> index_entry_fits st (rec_key r) = true.
  Proof.
    intros st r st' H. unfold w_add in H.
    destruct (negb (bytes_ltb (w_last_key st) (rec_key r))); [discriminate|].
    destruct (index_entry_fits st (rec_key r)); [reflexivity|discriminate].
  Qed.

  (* complete characterisation, for proofs that look at the failing cases *)
  Lemma w_add_cases : forall st r,
    w_add deflate st r =
      if negb (bytes_ltb (w_last_key st) (rec_key r)) then Panic site_writer_order
      else if index_entry_fits st (rec_key r) then w_add_core deflate st r else Err.
  Proof.
    intros st r. unfold w_add.
    destruct (negb (bytes_ltb (w_last_key st) (rec_key r))); [reflexivity|].
    destruct (index_entry_fits st (rec_key r)); reflexivity.
  Qed.
End WriterGuard.

(* ------------------------------------------------------------------ *)
(* With the guard, index emission cannot fail on a fresh block.        *)

Section IndexEmission.
  Variable deflate : bytes -> bytes.

  Lemma ief_cfg : forall st st' k, w_cfg st' = w_cfg st ->
    index_entry_fits st' k = index_entry_fits st k.
  Proof. intros st st' k E. unfold index_entry_fits. rewrite E. reflexivity. Qed.

  Lemma bw_add_idx_res : forall b k off,
    bw_add b (RecIdx k off) = Ok None \/ exists b', bw_add b (RecIdx k off) = Ok (Some b').
  Proof.
    intros b k off. unfold bw_add.
    destruct (encode_key _ _ _) as [kb restart].
    destruct (Nat.ltb _ (length kb)); [left; reflexivity|].
    cbn [rec_encode bind].
    destruct (Nat.ltb _ (length (put_varint off))); [left; reflexivity|].
    destruct (Nat.ltb _ _); [left; reflexivity|right; eexists; reflexivity].
  Qed.

  (* the entry of a fitting key, with a 64-bit position, fits a fresh index block that is
     not the first block of the table *)
  Lemma bw_add_fresh_idx : forall st k off,
    w_next st <> 0 -> c_block_size (w_cfg st) < 16777216 -> off < two64 ->
    index_entry_fits st k = true ->
    bw_add (new_bw st typ_idx) (RecIdx k off) <> Ok None.
  Proof.
    intros st k off NZ BS OF F. unfold index_entry_fits in F.
    apply N.leb_le in F.
    assert (KL : N.of_nat (length k) * 8 < two64) by (unfold two64; lia).
    rewrite (N.mod_small _ _ KL) in F.
    unfold bw_add, new_bw, bw_new, bw_next.
    cbn [bw_entries bw_interval bw_last bw_size bw_hdr bw_body bw_restarts bw_hash bw_typ length].
    apply N.eqb_neq in NZ. rewrite NZ.
    assert (M : Nat.eqb (Nat.modulo 0 (c_restart_interval (w_cfg st))) 0 = true).
    { destruct (c_restart_interval (w_cfg st)); [reflexivity|]. rewrite Nat.mod_0_l by discriminate. reflexivity. }
    rewrite M. unfold encode_key. cbn [common_prefix skipn rec_key rec_val_type].
    change (N.of_nat 0) with 0. rewrite put_varint_0, N.add_0_r.
    pose proof (put_varint_len off OF) as VL.
    cbn [rec_encode bind]. rewrite !app_length. cbn [length Nat.eqb].
    set (v := length (put_varint (N.of_nat (length k) * 8))) in *.
    set (bs := c_block_size (w_cfg st)) in *.
    change (max_restarts <=? 0) with false. cbv iota.
    repeat match goal with |- context [Nat.ltb ?a ?b] => destruct (Nat.ltb_spec a b); [lia|] end.
    discriminate.
  Qed.

  Lemma bw_finish_pos : forall fh w, (1 <= length (bw_finish deflate fh w))%nat.
  Proof.
    intros fh w. unfold bw_finish. destruct (bw_typ w =? typ_log); rewrite !app_length; cbn [length]; lia.
  Qed.

  Lemma bw_finish_len : forall fh w, bw_typ w =? typ_log = false ->
    length (bw_finish deflate fh w)
    = (length fh + 4 + length (bw_body w) + 3 * length (bw_restarts w) + 2)%nat.
  Proof.
    intros fh w T. unfold bw_finish. rewrite T.
    rewrite !app_length, be24_length, be16_length. cbn [length].
    fold (rtable (bw_restarts w)). rewrite rtable_length. lia.
  Qed.

  (* flush_block: nothing happens, or the current block is emitted and indexed *)
  Lemma flush_cases : forall st,
    (flush_block deflate st = st /\
     match w_bw st with Some b => bw_entries b = 0%nat | None => True end)
    \/ exists b, w_bw st = Some b /\ bw_entries b <> 0%nat /\
         w_cfg (flush_block deflate st) = w_cfg st /\
         w_bw (flush_block deflate st) = None /\
         w_index (flush_block deflate st) = w_index st ++ [(bw_last b, w_next st)] /\
         w_next st < w_next (flush_block deflate st) /\
         w_next st < w_next (flush_block deflate st) - w_pad (flush_block deflate st) /\
         (bw_typ b =? typ_log = false -> w_next st <> 0 -> bw_hdr b = 0%nat ->
          N.of_nat (bw_next b + 3 * length (bw_restarts b) + 2) <= c_block_size (w_cfg st) ->
          w_next (flush_block deflate st) <= w_next st + c_block_size (w_cfg st)).
  Proof.
    intros st. unfold flush_block. destruct (w_bw st) as [b|] eqn:B; [|left; split; [reflexivity|exact I]].
    destruct (Nat.eqb_spec (bw_entries b) 0) as [E|E]; [left; split; [reflexivity|exact E]|].
    right. exists b. split; [reflexivity|]. split; [exact E|].
    cbn [set_obj upd set_stats w_cfg w_bw w_index w_next w_pad].
    split; [reflexivity|]. split; [reflexivity|]. split; [reflexivity|].
    set (fh := if w_next st =? 0 then header_bytes (w_cfg st) (w_min st) (w_max st) else []).
    pose proof (bw_finish_pos fh b) as P.
    split; [lia|]. split; [lia|].
    intros T NZ H0 F. apply N.eqb_neq in NZ. unfold fh in *. rewrite NZ in *.
    rewrite T, orb_false_r.
    rewrite (bw_finish_len [] b T) in *. unfold bw_next in F. rewrite H0 in F. cbn [length] in *.
    destruct (c_unaligned (w_cfg st)); lia.
  Qed.

  Lemma flush_cfg : forall st, w_cfg (flush_block deflate st) = w_cfg st.
  Proof.
    intros st. destruct (flush_cases st) as [[E _]|(b & _ & _ & C & _)]; [rewrite E; reflexivity|exact C].
  Qed.

  Lemma flush_next_le : forall st, w_next st <= w_next (flush_block deflate st).
  Proof.
    intros st. destruct (flush_cases st) as [[E _]|(b & _ & _ & _ & _ & _ & C & _)]; [rewrite E; lia|lia].
  Qed.

  (* ---- invariants ---- *)

  (* entries of an index list: fitting keys, positions bounded by [lim] *)
  Definition ents_ok (st : wstate) (lim : N) (idx : list (bytes * N)) : Prop :=
    Forall (fun e => index_entry_fits st (fst e) = true /\ snd e <= lim) idx.

  Definition bw_ok (st : wstate) (b : bw) : Prop :=
    bw_entries b <> 0%nat -> index_entry_fits st (bw_last b) = true.

  (* what the guard of Writer.add maintains: every key that can become an index key
     (the last key of a flushed block, the last key of the current block) fits *)
  Definition guard_inv (st : wstate) : Prop :=
    c_block_size (w_cfg st) < 16777216 /\
    ents_ok st (w_next st - w_pad st) (w_index st) /\
    (w_index st <> [] -> w_next st - w_pad st <> 0) /\
    match w_bw st with Some b => bw_ok st b | None => True end.

  Lemma ents_ok_mono : forall st st' lim lim' idx,
    w_cfg st' = w_cfg st -> lim <= lim' -> ents_ok st lim idx -> ents_ok st' lim' idx.
  Proof.
    intros st st' lim lim' idx C Le H. unfold ents_ok in *.
    eapply Forall_impl; [|exact H]. intros e [F B]. cbv beta. rewrite (ief_cfg st st' _ C). split; [exact F|lia].
  Qed.

  Lemma guard_flush : forall st, guard_inv st -> guard_inv (flush_block deflate st).
  Proof.
    intros st (BS & EO & NZ & BW).
    destruct (flush_cases st) as [[E _]|(b & B & NE & C & BN & IX & _ & LT & _)].
    - rewrite E. repeat split; assumption.
    - unfold guard_inv. rewrite C, BN, IX. rewrite B in BW. repeat split.
      + exact BS.
      + unfold ents_ok. apply Forall_app. split.
        * apply (ents_ok_mono st _ (w_next st - w_pad st)); [exact C|lia|exact EO].
        * constructor; [|constructor]. cbn [fst snd]. rewrite (ief_cfg st _ _ C). split; [exact (BW NE)|lia].
      + intros _. lia.
  Qed.

  (* ---- one index level never fails on a fresh block ---- *)

  Lemma index_level_no_panic : forall idx st,
    c_block_size (w_cfg st) < 16777216 -> w_next st <> 0 ->
    Forall (fun e => index_entry_fits st (fst e) = true /\ snd e < two64) idx ->
    index_level deflate st idx <> Panic site_idx_fresh.
  Proof.
    induction idx as [|[k off] rest IH]; intros st BS NZ F; cbn [index_level]; [discriminate|].
    destruct (w_bw st) as [b|]; [|unfold site_slice, site_idx_fresh; discriminate].
    inversion F as [|e l [Fk Fo] Fr]; subst e l. cbn [fst snd] in Fk, Fo.
    destruct (bw_add_idx_res b k off) as [E|[b' E]]; rewrite E; cbn [bind].
    - pose proof (flush_cfg st) as C. pose proof (flush_next_le st) as LE.
      set (st1 := flush_block deflate st) in *.
      destruct (bw_add_idx_res (new_bw st1 typ_idx) k off) as [E2|[b2 E2]]; rewrite E2; cbn [bind].
      + exfalso. apply (bw_add_fresh_idx st1 k off); try assumption.
        * lia.
        * rewrite C. exact BS.
        * rewrite (ief_cfg st st1 _ C). exact Fk.
      + apply IH.
        * cbn [set_bw upd w_cfg]. rewrite C. exact BS.
        * cbn [set_bw upd w_next]. lia.
        * eapply Forall_impl; [|exact Fr]. intros e [A B]. cbv beta.
          rewrite (ief_cfg st (set_bw st1 (Some b2)) _ C). split; assumption.
    - apply IH; [exact BS|exact NZ|].
      eapply Forall_impl; [|exact Fr]. intros e [A B]. cbv beta.
      rewrite (ief_cfg st (set_bw st (Some b')) _ eq_refl). split; assumption.
  Qed.

  (* ---- the size of one index level ---- *)

  Definition bwI (st : wstate) (b : bw) : Prop :=
    bw_typ b = typ_idx /\ bw_hdr b = 0%nat /\ bw_size b = N.to_nat (c_block_size (w_cfg st)) /\
    (bw_entries b <> 0%nat ->
       index_entry_fits st (bw_last b) = true /\
       (bw_next b + 3 * length (bw_restarts b) + 2 <= bw_size b)%nat).

  (* within a level that started at [base]: every index block advanced the position by at
     most one block size *)
  Definition L0 (base : N) (st : wstate) : Prop :=
    w_next st <> 0 /\
    ents_ok st (w_next st) (w_index st) /\
    w_next st <= base + N.of_nat (length (w_index st)) * c_block_size (w_cfg st).

  Definition L (base : N) (st : wstate) : Prop :=
    L0 base st /\ exists b, w_bw st = Some b /\ bwI st b.

  Lemma bwI_add : forall st b k off b',
    bwI st b -> index_entry_fits st k = true ->
    bw_add b (RecIdx k off) = Ok (Some b') -> bwI st b'.
  Proof.
    intros st b k off b' (T & H0 & SZ & _) F A.
    destruct (bw_add_inv _ _ _ A) as (last & kb & restart & vb & restart' & _ & _ & _ & _ & _ & LE
                                      & (ST & SH & SS & _) & BB & BR & BL & BE).
    unfold bwI. rewrite ST, SH, SS, BL. repeat split; try assumption.
    unfold bw_next in *. rewrite SH, BB, BR, !app_length.
    destruct restart'; [rewrite app_length; cbn [length]|]; lia.
  Qed.

  Lemma bwI_new : forall st, w_next st <> 0 -> bwI st (new_bw st typ_idx).
  Proof.
    intros st NZ. apply N.eqb_neq in NZ. unfold bwI, new_bw, bw_new.
    cbn [bw_typ bw_hdr bw_size bw_entries]. rewrite NZ. repeat split; congruence.
  Qed.

  Lemma L_flush : forall base st, L base st -> L0 base (flush_block deflate st) /\
    match w_bw (flush_block deflate st) with Some b => bw_entries b = 0%nat | None => True end.
  Proof.
    intros base st ((NZ & EO & SZ) & b & B & (T & H0 & BSZ & BF)).
    destruct (flush_cases st) as [[E Z]|(b1 & B1 & NE & C & BN & IX & LT & _ & LE)].
    - rewrite E. split; [repeat split; assumption|]. exact Z.
    - rewrite B in B1. injection B1 as <-. destruct (BF NE) as [Fk Fit].
      rewrite BN. split; [|exact I].
      assert (LE' : w_next (flush_block deflate st) <= w_next st + c_block_size (w_cfg st)).
      { apply LE; [rewrite T; reflexivity|exact NZ|exact H0|lia]. }
      unfold L0. rewrite C, IX, app_length. cbn [length]. repeat split.
      + lia.
      + unfold ents_ok. apply Forall_app. split.
        * apply (ents_ok_mono st _ (w_next st)); [exact C|lia|exact EO].
        * constructor; [|constructor]. cbn [fst snd]. rewrite (ief_cfg st _ _ C). split; [exact Fk|lia].
      + lia.
  Qed.

  Lemma index_level_L : forall idx base st st',
    L base st -> Forall (fun e => index_entry_fits st (fst e) = true) idx ->
    index_level deflate st idx = Ok st' -> L base st' /\ w_cfg st' = w_cfg st.
  Proof.
    induction idx as [|[k off] rest IH]; intros base st st' HL F H; cbn [index_level] in H.
    - injection H as <-. split; [exact HL|reflexivity].
    - inversion F as [|e l Fk Fr]; subst e l. cbn [fst] in Fk.
      pose proof HL as (HL0 & b & B & BI). rewrite B in H.
      destruct (bw_add_idx_res b k off) as [E|[b' E]]; rewrite E in H; cbn [bind] in H.
      + pose proof (flush_cfg st) as C. destruct (L_flush base st HL) as [HL1 _].
        set (st1 := flush_block deflate st) in *.
        destruct (bw_add_idx_res (new_bw st1 typ_idx) k off) as [E2|[b2 E2]]; rewrite E2 in H; cbn [bind] in H;
          [discriminate|].
        apply (IH base) in H.
        * destruct H as [H1 H2]. split; [exact H1|]. rewrite H2. exact C.
        * split; [exact HL1|]. exists b2. split; [reflexivity|].
          apply (bwI_add st1 (new_bw st1 typ_idx) k off); [apply bwI_new; apply HL1| |exact E2].
          rewrite (ief_cfg st st1 _ C). exact Fk.
        * eapply Forall_impl; [|exact Fr]. intros e A. cbv beta.
          rewrite (ief_cfg st (set_bw st1 (Some b2)) _ C). exact A.
      + apply (IH base) in H.
        * exact H.
        * split; [exact HL0|]. exists b'. split; [reflexivity|].
          apply (bwI_add st b k off); assumption.
        * exact Fr.
  Qed.

  (* ---- all levels ---- *)

  Lemma sq_step : forall m n x : N, m < n -> m * x + m * m * x <= n * n * x.
  Proof.
    intros m n x H. replace (m * x + m * m * x) with ((m + m * m) * x) by lia.
    apply N.mul_le_mono_r. nia.
  Qed.

  Lemma index_levels_guard : forall fuel st thr ist ml,
    c_block_size (w_cfg st) < 16777216 ->
    ents_ok st (w_next st) (w_index st) ->
    (w_index st <> [] -> w_next st <> 0) ->
    w_next st + N.of_nat (length (w_index st)) * N.of_nat (length (w_index st)) * c_block_size (w_cfg st)
      < two64 ->
    index_levels deflate fuel st thr ist ml <> Panic site_idx_fresh /\
    (forall st' a b, index_levels deflate fuel st thr ist ml = Ok (st', a, b) ->
       w_cfg st' = w_cfg st /\
       (st' = st \/ match w_bw st' with Some b => bw_entries b = 0%nat | None => True end)).
  Proof.
    induction fuel as [|f IH]; intros st thr ist ml BS EO NZ SZ; cbn [index_levels].
    - split; [discriminate|]. intros; discriminate.
    - destruct (Nat.ltb_spec thr (length (w_index st))) as [T|T].
      2:{ split; [discriminate|]. intros st' a b H. injection H as <- _ _. split; [reflexivity|left; reflexivity]. }
      assert (NE : w_index st <> []) by (intros X; rewrite X in T; cbn in T; lia).
      specialize (NZ NE).
      set (idx := w_index st) in *.
      set (st0 := set_index (set_bw st (Some (new_bw st typ_idx))) []).
      assert (HL : L (w_next st) st0).
      { split.
        - unfold L0. cbn [st0 set_index set_bw upd w_next w_index w_cfg length]. repeat split.
          + exact NZ.
          + constructor.
          + lia.
        - exists (new_bw st typ_idx). split; [reflexivity|]. exact (bwI_new st NZ). }
      assert (NP : index_level deflate st0 idx <> Panic site_idx_fresh).
      { apply index_level_no_panic; [exact BS|exact NZ|].
        eapply Forall_impl; [|exact EO]. intros e [A B]. cbv beta.
        rewrite (ief_cfg st st0 _ eq_refl). split; [exact A|]. lia. }
      destruct (index_level deflate st0 idx) as [st1| |s|] eqn:E; cbn [bind].
      2:{ split; [discriminate|]. intros; discriminate. }
      2:{ split; [intros X; apply NP; injection X as ->; reflexivity|]. intros; discriminate. }
      2:{ split; [discriminate|]. intros; discriminate. }
      assert (F0 : Forall (fun e => index_entry_fits st0 (fst e) = true) idx).
      { eapply Forall_impl; [|exact EO]. intros e [A B]. exact A. }
      destruct (index_level_L idx (w_next st) st0 st1 HL F0 E) as [HL1 C1].
      change (w_cfg st0) with (w_cfg st) in C1.
      destruct (L_flush _ _ HL1) as [(NZ2 & EO2 & SZ2) BW2].
      pose proof (flush_cfg st1) as C2. rewrite C1 in C2.
      set (st2 := flush_block deflate st1) in *. rewrite C2 in SZ2.
      destruct (Nat.leb_spec (length idx) (length (w_index st2))) as [G|G].
      + split; [discriminate|]. intros st' a b H. injection H as <- _ _. split; [exact C2|right; exact BW2].
      + assert (SZ' : w_next st2 + N.of_nat (length (w_index st2)) * N.of_nat (length (w_index st2)) *
                        c_block_size (w_cfg st2) < two64).
        { rewrite C2.
          pose proof (sq_step (N.of_nat (length (w_index st2))) (N.of_nat (length idx))
                              (c_block_size (w_cfg st)) ltac:(lia)).
          lia. }
        destruct (IH st2 thr (w_next st) (S ml) ltac:(rewrite C2; exact BS) EO2 (fun _ => NZ2) SZ') as [P1 P2].
        split; [exact P1|]. intros st' a b H. destruct (P2 _ _ _ H) as [Q1 Q2].
        split; [rewrite Q1; exact C2|]. destruct Q2 as [->|Q2]; right; [exact BW2|exact Q2].
  Qed.

  (* ---- finish_section ---- *)

  (* With the guard invariant, finishSection cannot reach "index record does not fit a fresh
     block".  The size hypothesis keeps every block position below 2^64 (the model's
     positions are unbounded; a position of eleven varint bytes is outside the format):
     after the data block is flushed there are n index entries, every index block advances
     the position by at most one block size, and the levels shrink, so n*n blocks bound
     the index. *)
  Theorem index_emission_no_panic : forall st,
    guard_inv st ->
    w_next (flush_block deflate st)
      + N.of_nat (length (w_index (flush_block deflate st)))
        * N.of_nat (length (w_index (flush_block deflate st))) * c_block_size (w_cfg st) < two64 ->
    finish_section deflate st <> Panic site_idx_fresh.
  Proof.
    intros st G SZ. unfold finish_section.
    destruct (w_bw st) as [b|]; [|unfold site_slice, site_idx_fresh; discriminate].
    destruct (guard_flush st G) as (BS & EO & NZ & _).
    rewrite <- (flush_cfg st) in SZ.
    set (st1 := flush_block deflate st) in *.
    assert (EO' : ents_ok st1 (w_next st1) (w_index st1))
      by (apply (ents_ok_mono st1 st1 (w_next st1 - w_pad st1)); [reflexivity|lia|exact EO]).
    assert (NZ' : w_index st1 <> [] -> w_next st1 <> 0) by (intros X; specialize (NZ X); lia).
    destruct (index_levels_guard (S (length (w_index st1))) st1
                (if c_unaligned (w_cfg st) then 1%nat else 3%nat) 0 O BS EO' NZ' SZ) as [NP _].
    destruct (index_levels _ _ _ _ _ _) as [[[st2 a] c]| |s|]; cbn [bind]; try discriminate.
    intros X. apply NP. injection X as ->. reflexivity.
  Qed.

  (* ---- the invariant is established by NewWriter and kept by Writer.add ---- *)

  Lemma w_new_guard : forall cfg st, w_new cfg = Ok st -> guard_inv st.
  Proof.
    intros cfg st H. unfold w_new in H.
    destruct (N.leb_spec 16777216 (c_block_size cfg)) as [B|B]; [discriminate|].
    destruct (block_too_small cfg) eqn:TS; [discriminate|].
    injection H as <-. unfold guard_inv.
    cbn [set_bw upd w_cfg w_index w_next w_bw cfg_defaults c_block_size]. repeat split.
    - destruct (c_block_size cfg =? 0); lia.
    - constructor.
    - intros X. exfalso. apply X. reflexivity.
    - intros X. exfalso. apply X. reflexivity.
  Qed.

  Lemma set_limits_guard : forall st a b, guard_inv st -> guard_inv (set_limits st a b).
  Proof. intros st a b H. exact H. Qed.

  Lemma guard_frame : forall st st',
    w_cfg st' = w_cfg st -> w_index st' = w_index st -> w_next st' - w_pad st' = w_next st - w_pad st ->
    (forall b, w_bw st' = Some b -> bw_entries b <> 0%nat -> index_entry_fits st (bw_last b) = true) ->
    guard_inv st -> guard_inv st'.
  Proof.
    intros st st' C IX NX BW (BS & EO & NZ & _). unfold guard_inv. rewrite C, IX, NX. repeat split.
    - exact BS.
    - apply (ents_ok_mono st st' (w_next st - w_pad st)); [exact C|lia|exact EO].
    - exact NZ.
    - destruct (w_bw st') as [b|]; [|exact I]. intros NE. rewrite (ief_cfg st st' _ C). apply BW; [reflexivity|exact NE].
  Qed.

  Lemma w_add_guard : forall st r st', guard_inv st -> w_add deflate st r = Ok st' -> guard_inv st'.
  Proof.
    intros st r st' G H. pose proof (w_add_ok_fits deflate _ _ _ H) as F.
    apply w_add_ok_core in H. unfold w_add_core in H.
    destruct (negb (bytes_ltb (w_last_key st) (rec_key r))); [discriminate|].
    set (st0 := set_last_key st (rec_key r)) in *.
    set (st1 := match w_bw st0 with None => set_bw st0 (Some (new_bw st0 (rec_typ r))) | Some _ => st0 end) in *.
    assert (G1 : guard_inv st1 /\ w_cfg st1 = w_cfg st).
    { unfold st1. destruct (w_bw st0) as [b0|] eqn:B0.
      - split; [|reflexivity]. apply (guard_frame st st0); try reflexivity; [|exact G].
        intros b Hb NE. destruct G as (_ & _ & _ & BW). change (w_bw st0) with (w_bw st) in Hb.
        rewrite Hb in BW. exact (BW NE).
      - split; [|reflexivity]. apply (guard_frame st); try reflexivity; [|exact G].
        intros b Hb NE. cbn [set_bw upd w_bw] in Hb. injection Hb as <-. exfalso. apply NE. reflexivity. }
    clearbody st1. destruct G1 as [G1 C1].
    destruct (w_bw st1) as [b|] eqn:B1; [|discriminate].
    destruct (negb (bw_typ b =? rec_typ r)); [discriminate|].
    destruct (bw_add b r) as [[b'|]| | |] eqn:A; cbn [bind] in H; try discriminate.
    - injection H as <-. apply (guard_frame st1); try reflexivity; [|exact G1].
      intros b0 Hb _. cbn [set_bw upd w_bw] in Hb. injection Hb as <-.
      destruct (bw_add_inv _ _ _ A) as (? & ? & ? & ? & ? & _ & _ & _ & _ & _ & _ & _ & _ & _ & BL & _).
      rewrite BL, (ief_cfg st st1 _ C1). exact F.
    - pose proof (guard_flush st1 G1) as G2. pose proof (flush_cfg st1) as C2.
      set (st2 := flush_block deflate st1) in *.
      destruct (bw_add (new_bw st2 (rec_typ r)) r) as [[b2|]| | |] eqn:A2; cbn [bind] in H; try discriminate.
      injection H as <-. apply (guard_frame st2); try reflexivity; [|exact G2].
      intros b0 Hb _. cbn [set_bw upd w_bw] in Hb. injection Hb as <-.
      destruct (bw_add_inv _ _ _ A2) as (? & ? & ? & ? & ? & _ & _ & _ & _ & _ & _ & _ & _ & _ & BL & _).
      rewrite BL, (ief_cfg st1 st2 _ C2), (ief_cfg st st1 _ C1). exact F.
  Qed.

  Lemma index_hash_guard : forall st h, guard_inv st -> guard_inv (index_hash st h).
  Proof. intros st h G. unfold index_hash. destruct (c_skip_index_objects (w_cfg st)); exact G. Qed.

  Lemma w_add_ref_guard : forall st r st', guard_inv st -> w_add_ref deflate st r = Ok st' -> guard_inv st'.
  Proof.
    intros st r st' G H. unfold w_add_ref in H.
    destruct (Nat.eqb (length (r_name r)) 0); [discriminate|].
    destruct ((r_index r <? w_min st) || (w_max st <? r_index r)); [discriminate|].
    destruct (w_add deflate st _) as [st1| | |] eqn:A; cbn [bind] in H; try discriminate.
    apply (w_add_guard _ _ _ G) in A. injection H as <-.
    destruct (r_val r); repeat apply index_hash_guard; exact A.
  Qed.

  Lemma add_refs_guard : forall refs st st', guard_inv st -> add_refs deflate st refs = Ok st' -> guard_inv st'.
  Proof.
    induction refs as [|r t IH]; intros st st' G H; cbn [add_refs] in H.
    - injection H as <-. exact G.
    - destruct (w_add_ref deflate st r) as [st1| | |] eqn:A; cbn [bind] in H; try discriminate.
      eapply IH; [|exact H]. eapply w_add_ref_guard; eassumption.
  Qed.

  (* ---- AddLog: the section switch keeps the invariant ---- *)

  Lemma index_level_cfg : forall idx st st', index_level deflate st idx = Ok st' -> w_cfg st' = w_cfg st.
  Proof.
    induction idx as [|[k off] rest IH]; intros st st' H; cbn [index_level] in H.
    - injection H as <-. reflexivity.
    - destruct (w_bw st) as [b|]; [|discriminate].
      destruct (bw_add_idx_res b k off) as [E|[b' E]]; rewrite E in H; cbn [bind] in H.
      + destruct (bw_add_idx_res (new_bw (flush_block deflate st) typ_idx) k off) as [E2|[b2 E2]];
          rewrite E2 in H; cbn [bind] in H; [discriminate|].
        apply IH in H. rewrite H. cbn [set_bw upd w_cfg]. apply flush_cfg.
      + apply IH in H. exact H.
  Qed.

  Lemma index_levels_cfg : forall fuel st thr ist ml st' a b,
    index_levels deflate fuel st thr ist ml = Ok (st', a, b) -> w_cfg st' = w_cfg st.
  Proof.
    induction fuel as [|f IH]; intros st thr ist ml st' a b H; cbn [index_levels] in H; [discriminate|].
    destruct (Nat.ltb thr (length (w_index st))).
    2:{ injection H as <- _ _. reflexivity. }
    destruct (index_level deflate _ (w_index st)) as [st1| | |] eqn:E; cbn [bind] in H; try discriminate.
    apply index_level_cfg in E. cbn [set_index set_bw upd w_cfg] in E.
    pose proof (flush_cfg st1) as C2. rewrite E in C2.
    destruct (Nat.leb _ _).
    - injection H as <- _ _. exact C2.
    - apply IH in H. rewrite H. exact C2.
  Qed.

  Lemma finish_section_shape : forall st st', finish_section deflate st = Ok st' ->
    w_cfg st' = w_cfg st /\ w_index st' = [].
  Proof.
    intros st st' H. unfold finish_section in H.
    destruct (w_bw st) as [b|]; [|discriminate].
    destruct (index_levels _ _ _ _ _ _) as [[[st2 a] c]| | |] eqn:E; cbn [bind] in H; try discriminate.
    injection H as <-. apply index_levels_cfg in E. rewrite flush_cfg in E.
    split; [|reflexivity]. exact E.
  Qed.

  Lemma dump_objs_cfg : forall objs st idlen st',
    dump_objs deflate st idlen objs = Ok st' -> w_cfg st' = w_cfg st.
  Proof.
    induction objs as [|[k offs] rest IH]; intros st idlen st' H; cbn [dump_objs] in H.
    - injection H as <-. reflexivity.
    - destruct (w_bw st) as [b|]; [|discriminate].
      destruct (bw_add b _) as [[b'|]| | |]; cbn [bind] in H; try discriminate.
      + apply IH in H. exact H.
      + destruct (bw_add (new_bw _ _) (RecObj _ offs)) as [[b2|]| | |]; cbn [bind] in H; try discriminate.
        * apply IH in H. rewrite H. cbn [set_bw upd w_cfg]. apply flush_cfg.
        * destruct (bw_add (new_bw _ _) (RecObj _ [])) as [[b3|]| | |]; cbn [bind] in H; try discriminate.
          apply IH in H. rewrite H. cbn [set_bw upd w_cfg]. apply flush_cfg.
  Qed.

  Lemma dump_object_index_shape : forall st st', dump_object_index deflate st = Ok st' ->
    w_cfg st' = w_cfg st /\ (st' = st \/ w_index st' = []).
  Proof.
    intros st st' H. unfold dump_object_index in H.
    destruct (Nat.leb 32 _).
    - injection H as <-. split; [reflexivity|left; reflexivity].
    - destruct (dump_objs _ _ _ _) as [st3| | |] eqn:D; cbn [bind] in H; try discriminate.
      apply dump_objs_cfg in D. cbn [set_bw upd set_obj w_cfg] in D.
      apply finish_section_shape in H. destruct H as [C IX]. split; [rewrite C; exact D|right; exact IX].
  Qed.

  Lemma finish_public_section_shape : forall st st', finish_public_section deflate st = Ok st' ->
    (w_bw st = None /\ st' = st) \/ (w_cfg st' = w_cfg st /\ w_index st' = [] /\ w_bw st' = None).
  Proof.
    intros st st' H. unfold finish_public_section in H.
    destruct (w_bw st) as [b|]; [|left; injection H as <-; split; reflexivity].
    right.
    destruct (finish_section deflate st) as [st1| | |] eqn:FS; cbn [bind] in H; try discriminate.
    apply finish_section_shape in FS. destruct FS as [C1 IX1].
    destruct (_ && _).
    - destruct (dump_object_index deflate st1) as [st2| | |] eqn:D; cbn [bind] in H; try discriminate.
      apply dump_object_index_shape in D. destruct D as [C2 D]. injection H as <-.
      cbn [set_bw upd w_cfg w_index w_bw]. split; [rewrite C2; exact C1|]. split; [|reflexivity].
      destruct D as [->|D]; assumption.
    - cbn [bind] in H. injection H as <-. cbn [set_bw upd w_cfg w_index w_bw].
      split; [exact C1|]. split; [exact IX1|reflexivity].
  Qed.

  Lemma guard_unpad : forall st, guard_inv st ->
    guard_inv (upd st (w_out st) 0 (w_next st - w_pad st) (w_last_key st) (w_bw st) (w_index st)).
  Proof.
    intros st G. apply (guard_frame st); try reflexivity; [cbn [upd w_next w_pad]; lia| |exact G].
    intros b Hb NE. destruct G as (_ & _ & _ & BW). cbn [upd w_bw] in Hb. rewrite Hb in BW. exact (BW NE).
  Qed.

  Lemma w_add_log_guard : forall st l st', guard_inv st -> w_add_log deflate st l = Ok st' -> guard_inv st'.
  Proof.
    intros st l st' G H. unfold w_add_log in H.
    destruct (Nat.eqb (length (l_name l)) 0); [discriminate|].
    destruct (norm_log _ l) as [l1|]; [|discriminate].
    match type of H with (let* st1 := ?X in _) = _ => destruct X as [st1| | |] eqn:E end; cbn [bind] in H; try discriminate.
    eapply w_add_guard; [|exact H]. apply guard_unpad.
    assert (FP : finish_public_section deflate st = Ok st1 -> w_bw st <> None -> guard_inv st1).
    { intros FP NN. apply finish_public_section_shape in FP. destruct FP as [[X _]|(C & IX & BN)]; [congruence|].
      destruct G as (BS & _). unfold guard_inv. rewrite C, IX, BN. repeat split.
      - exact BS.
      - constructor.
      - intros X. exfalso. apply X. reflexivity. }
    destruct (w_bw st) as [b|]; [|injection E as <-; exact G].
    destruct (bw_typ b =? typ_ref); [apply FP; [exact E|discriminate]|injection E as <-; exact G].
  Qed.

  Lemma add_logs_guard : forall logs st st', guard_inv st -> add_logs deflate st logs = Ok st' -> guard_inv st'.
  Proof.
    induction logs as [|r t IH]; intros st st' G H; cbn [add_logs] in H.
    - injection H as <-. exact G.
    - destruct (w_add_log deflate st r) as [st1| | |] eqn:A; cbn [bind] in H; try discriminate.
      eapply IH; [|exact H]. eapply w_add_log_guard; eassumption.
  Qed.

  (* ---- the two public sections of write_table ---- *)

  Definition index_room (st : wstate) : Prop :=
    w_next (flush_block deflate st)
      + N.of_nat (length (w_index (flush_block deflate st)))
        * N.of_nat (length (w_index (flush_block deflate st))) * c_block_size (w_cfg st) < two64.

  (* the ref section: after any accepted sequence of AddRef *)
  Corollary ref_section_index_no_panic : forall cfg mn mx refs st0 st1,
    w_new cfg = Ok st0 -> add_refs deflate (set_limits st0 mn mx) refs = Ok st1 ->
    index_room st1 -> finish_section deflate st1 <> Panic site_idx_fresh.
  Proof.
    intros cfg mn mx refs st0 st1 N A R. apply index_emission_no_panic; [|exact R].
    eapply add_refs_guard; [|exact A]. apply set_limits_guard. eapply w_new_guard. exact N.
  Qed.

  (* the log section: after any accepted sequence of AddRef then AddLog *)
  Corollary log_section_index_no_panic : forall cfg mn mx refs logs st0 st1 st2,
    w_new cfg = Ok st0 -> add_refs deflate (set_limits st0 mn mx) refs = Ok st1 ->
    add_logs deflate st1 logs = Ok st2 ->
    index_room st2 -> finish_section deflate st2 <> Panic site_idx_fresh.
  Proof.
    intros cfg mn mx refs logs st0 st1 st2 N A B R. apply index_emission_no_panic; [|exact R].
    eapply add_logs_guard; [|exact B].
    eapply add_refs_guard; [|exact A]. apply set_limits_guard. eapply w_new_guard. exact N.
  Qed.
End IndexEmission.

Print Assumptions w_add_ok_core.
Print Assumptions index_emission_no_panic.
Print Assumptions w_add_guard.
Print Assumptions add_refs_guard.
Print Assumptions ref_section_index_no_panic.
Print Assumptions log_section_index_no_panic.

