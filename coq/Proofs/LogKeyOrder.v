(* The order of reflog keys, read back as an order on (name, update index).

   A reflog record is keyed by  name ++ [0] ++ be64 (2^64-1 - index)  and tables
   keep their logs sorted by that key.  The usual reading -- "ascending by name,
   and newest first inside one name" -- is right exactly when names contain no
   zero byte (Git ref names never do): the separator 0 is then smaller than every
   byte of a name, so comparing two keys compares the names first.  A name with
   an embedded 0 can sort BETWEEN two entries of a shorter name (the example at
   the end), and then SeekLog(name, u) does not find the newest entry <= u.

   No bound on the bytes of a name is needed: bytes_ltb compares arbitrary N
   element-wise, and all that matters is that 0 is below every byte of a name. *)
From Coq Require Import List NArith Arith Bool Lia Sorted.
From RT Require Import Proofs.BytesProofs Proofs.CodecProofs Proofs.SeekProofs Proofs.ReadOneProofs.
From RT Require Import Model.Bytes Model.Records.
Import ListNotations.
Local Open Scope N_scope.

Definition nul_free (name : bytes) : Prop := ~ In 0 name.

Lemma nul_free_cons : forall x n, nul_free (x :: n) -> 0 < x /\ nul_free n.
Proof.
  intros x n H. unfold nul_free in *. cbn [In] in H. split.
  - destruct (N.eq_dec x 0) as [E|E]; [exfalso; apply H; left; exact E | lia].
  - intros I. apply H. right. exact I.
Qed.

(* the separator decides after the names: two keys compare as their names do, and
   only when the names are equal as the parts behind the separator *)
Lemma bytes_ltb_sep : forall n1 n2 s1 s2, nul_free n1 -> nul_free n2 ->
  bytes_ltb (n1 ++ 0 :: s1) (n2 ++ 0 :: s2) =
  if bytes_ltb n1 n2 then true else if bytes_ltb n2 n1 then false else bytes_ltb s1 s2.
Proof.
  induction n1 as [|x n1 IH]; intros [|y n2] s1 s2 H1 H2; cbn [app bytes_ltb].
  - rewrite N.ltb_irrefl. reflexivity.
  - apply nul_free_cons in H2. destruct H2 as [P _].
    destruct (N.ltb_spec 0 y); [reflexivity | lia].
  - apply nul_free_cons in H1. destruct H1 as [P _].
    destruct (N.ltb_spec x 0); [lia|]. destruct (N.ltb_spec 0 x); [reflexivity | lia].
  - apply nul_free_cons in H1. apply nul_free_cons in H2.
    destruct H1 as [_ H1], H2 as [_ H2].
    destruct (N.ltb_spec x y) as [L|L]; [destruct (N.ltb_spec y x); [lia | reflexivity]|].
    destruct (N.ltb_spec y x) as [G|G]; [reflexivity|]. apply IH; assumption.
Qed.

Lemma be64_rev_ltb : forall i1 i2, i1 < two64 -> i2 < two64 ->
  (bytes_ltb (be64 (rev_int64 i1)) (be64 (rev_int64 i2)) = true <-> i2 < i1).
Proof.
  intros i1 i2 H1 H2.
  assert (LT : forall a b, a < two64 -> b < two64 -> b < a ->
            bytes_ltb (be64 (rev_int64 a)) (be64 (rev_int64 b)) = true).
  { intros a b Ha Hb Hab. unfold be64.
    apply be_bytes_lt; [|rewrite pow256_8; apply rev_int64_lt].
    unfold rev_int64, u64_max, two64 in *. lia. }
  split; [|apply LT; assumption].
  intros H. destruct (N.lt_trichotomy i2 i1) as [L|[E|G]]; [exact L| |].
  - subst. rewrite bytes_ltb_irrefl in H. discriminate.
  - pose proof (LT i2 i1 H2 H1 G) as R. apply bytes_ltb_asym in R. congruence.
Qed.

(* key order = (name ascending, update index descending) on NUL-free names *)
Theorem log_key_order : forall n1 i1 n2 i2, nul_free n1 -> nul_free n2 -> i1 < two64 -> i2 < two64 ->
  (bytes_ltb (log_key_of n1 i1) (log_key_of n2 i2) = true <->
   (bytes_ltb n1 n2 = true \/ (n1 = n2 /\ i2 < i1))).
Proof.
  intros n1 i1 n2 i2 F1 F2 H1 H2. unfold log_key_of. cbn [app].
  rewrite (bytes_ltb_sep n1 n2 _ _ F1 F2).
  destruct (bytes_ltb n1 n2) eqn:E12.
  { split; intros _; [left|]; reflexivity. }
  destruct (bytes_ltb n2 n1) eqn:E21.
  { split; [discriminate|]. intros [D|[E _]]; [discriminate|].
    subst. rewrite bytes_ltb_irrefl in E21. discriminate. }
  pose proof (bytes_ltb_total _ _ E12 E21) as E. subst n2.
  rewrite (be64_rev_ltb i1 i2 H1 H2). split.
  - intros L. right. split; [reflexivity | exact L].
  - intros [D|[_ L]]; [discriminate | exact L].
Qed.

(* seek_logs cuts the list at the first record whose key is not below [k] *)
Lemma seek_logs_split : forall k logs, exists pre,
  logs = pre ++ seek_logs k logs /\
  Forall (fun r => bytes_ltb (log_key r) k = true) pre /\
  match seek_logs k logs with
  | [] => True
  | l :: _ => bytes_ltb (log_key l) k = false
  end.
Proof.
  intros k logs. induction logs as [|r t IH]; cbn [seek_logs].
  - exists []. repeat split. constructor.
  - destruct (bytes_ltb (log_key r) k) eqn:E.
    + destruct IH as (pre & E0 & F & M). exists (r :: pre). split; [|split].
      * cbn [app]. f_equal. exact E0.
      * constructor; assumption.
      * exact M.
    + exists []. split; [reflexivity|]. split; [constructor | exact E].
Qed.

(* the first record at or after key (name, u) in a key-sorted reflog whose names are NUL-free
   is the NEWEST entry of [name] with update index <= u, if there is one; and if the first
   record does not carry [name], the reflog has no entry of [name] with index <= u at all *)
Theorem seek_logs_newest : forall name u logs,
  nul_free name -> u < two64 ->
  Forall (fun l => nul_free (l_name l) /\ l_index l < two64) logs ->
  StronglySorted (fun a b => bytes_ltb (log_key a) (log_key b) = true) logs ->
  match find_log_at name u logs with
  | Some l => In l logs /\ l_name l = name /\ l_index l <= u /\
              (forall l', In l' logs -> l_name l' = name -> l_index l' <= u -> l_index l' <= l_index l)
  | None => forall l', In l' logs -> l_name l' = name -> u < l_index l'
  end.
Proof.
  intros name u logs NF Hu FA SS. unfold find_log_at.
  destruct (seek_logs_split (log_key_of name u) logs) as (pre & E0 & FP & M).
  rewrite Forall_forall in FA.
  (* every entry of [name] in front of the cut is newer than u *)
  assert (PRE : forall l', In l' pre -> l_name l' = name -> u < l_index l').
  { intros l' I N. rewrite Forall_forall in FP. pose proof (FP l' I) as K.
    assert (I' : In l' logs) by (rewrite E0; apply in_or_app; left; exact I).
    destruct (FA l' I') as (NF' & B').
    unfold log_key in K. apply (log_key_order _ _ _ _ NF' NF B' Hu) in K.
    destruct K as [K|[_ K]]; [|exact K].
    rewrite N, bytes_ltb_irrefl in K. discriminate. }
  destruct (seek_logs (log_key_of name u) logs) as [|l rest].
  { (* every key is below (name, u) *)
    intros l' I N. apply PRE; [|exact N]. rewrite E0, app_nil_r in I. exact I. }
  assert (IL : In l logs) by (rewrite E0; apply in_or_app; right; left; reflexivity).
  destruct (FA l IL) as (NFl & Bl).
  (* the cut: not (key l < key (name, u)) *)
  assert (GE : ~ (bytes_ltb (l_name l) name = true \/ (l_name l = name /\ u < l_index l))).
  { intros C. apply (log_key_order _ _ _ _ NFl NF Bl Hu) in C. unfold log_key in M. congruence. }
  (* everything behind l has a greater key *)
  assert (REST : forall l', In l' rest ->
            bytes_ltb (l_name l) (l_name l') = true \/ (l_name l = l_name l' /\ l_index l' < l_index l)).
  { intros l' I. rewrite E0 in SS.
    assert (SS2 : StronglySorted (fun a b => bytes_ltb (log_key a) (log_key b) = true) (l :: rest)).
    { clear - SS. induction pre as [|p pre IH]; [exact SS|]. apply IH. cbn [app] in SS.
      apply StronglySorted_inv in SS. apply SS. }
    apply StronglySorted_inv in SS2. destruct SS2 as [_ FR]. rewrite Forall_forall in FR. pose proof (FR l' I) as K.
    assert (I' : In l' logs) by (rewrite E0; apply in_or_app; right; right; exact I).
    destruct (FA l' I') as (NF' & B').
    unfold log_key in K. apply (log_key_order _ _ _ _ NFl NF' Bl B') in K. exact K. }
  destruct (bytes_eqb_spec (l_name l) name) as [EN|NN].
  - split; [exact IL|]. split; [exact EN|]. split.
    + destruct (N.le_gt_cases (l_index l) u) as [L|G]; [exact L|]. exfalso. apply GE. right. auto.
    + intros l' I N Lu. rewrite E0 in I. apply in_app_or in I. destruct I as [I|[I|I]].
      * pose proof (PRE l' I N). lia.
      * subst l'. lia.
      * destruct (REST l' I) as [K|[_ K]]; [|lia].
        rewrite EN, N, bytes_ltb_irrefl in K. discriminate.
  - intros l' I N. rewrite E0 in I. apply in_app_or in I. destruct I as [I|[I|I]].
    + apply PRE; assumption.
    + subst l'. contradiction.
    + exfalso. destruct (REST l' I) as [K|[K _]].
      * rewrite N in K. apply GE. left. exact K.
      * apply NN. rewrite K. exact N.
Qed.

(* Without NUL-freeness the reading fails: a name with an embedded 0 sorts between
   two entries of [97], and the entry ([97], 1) -- the newest one <= 2 -- is not found. *)
Definition ex_logs : list log_record :=
  [ {| l_name := [97]; l_index := 3; l_body := None |};
    {| l_name := [97;0;255;255;255;255;255;255;255;253]; l_index := 7; l_body := None |};
    {| l_name := [97]; l_index := 1; l_body := None |} ].

Fixpoint keys_sortedb (l : list log_record) : bool :=
  match l with
  | [] => true
  | a :: t => forallb (fun b => bytes_ltb (log_key a) (log_key b)) t && keys_sortedb t
  end.

Lemma keys_sortedb_sound : forall l, keys_sortedb l = true ->
  StronglySorted (fun a b => bytes_ltb (log_key a) (log_key b) = true) l.
Proof.
  induction l as [|a t IH]; intros H; [constructor|].
  cbn [keys_sortedb] in H. apply andb_true_iff in H. destruct H as [H1 H2].
  constructor; [apply IH; exact H2|]. apply Forall_forall. rewrite forallb_forall in H1. exact H1.
Qed.

Example nul_name_breaks_newest :
  StronglySorted (fun a b => bytes_ltb (log_key a) (log_key b) = true) ex_logs /\
  Forall (fun l => l_index l < two64) ex_logs /\
  In {| l_name := [97]; l_index := 1; l_body := None |} ex_logs /\
  find_log_at [97] 2 ex_logs = None.
Proof.
  split; [apply keys_sortedb_sound; vm_compute; reflexivity|].
  split; [repeat constructor|].
  split; [right; right; left; reflexivity|].
  vm_compute. reflexivity.
Qed.

Print Assumptions log_key_order.
Print Assumptions seek_logs_newest.
Print Assumptions nul_name_breaks_newest.
