(* C14: every table the writer emits is well-formed per the reftable format --
   the independent format judge Model/SpecDecoder.spec_decode accepts it and
   decodes exactly the records given to the writer (table_wellformed, at the end).
   Standard library only; axiom-free.

   Structure: (0) vocabulary; (1) pure list lemma for the object index
   (objs_check); (2) parse_block / parse_blocks on the writer's chunks;
   (3) writer side: written3 = written2 of SeekProofs extended with the object
   section, its index levels and every footer field; (4) the judge: envelope
   (spec_decode_open), runs / take_run (tail_sections), index levels
   (check_levels_ok, section_index_ok), sections (spec_fin_ok); (5) assembly. *)
From Coq Require Import List NArith ZArith Arith Bool Lia ZifyN ZifyNat ZifyBool Sorted.
From RT Require Import Model.Bytes Model.Result Model.Varint Model.KeyCodec Model.Records
  Model.RecCodec Model.Block Model.Crc32 Model.Writer Model.Reader Model.SpecDecoder.
From RT Require Import Proofs.BytesProofs Proofs.CodecProofs Proofs.BlockInitEq Proofs.BlockProofs
  Proofs.WriterGuard Proofs.TableProofs Proofs.SeekProofs.
Import ListNotations.
Local Open Scope N_scope.

#[local] Arguments N.div : simpl never.
#[local] Arguments N.modulo : simpl never.
#[local] Arguments N.mul : simpl never.
#[local] Arguments N.add : simpl never.
#[local] Arguments N.sub : simpl never.
#[local] Arguments N.pow : simpl never.
#[local] Arguments N.of_nat : simpl never.
#[local] Arguments N.to_nat : simpl never.
#[local] Arguments N.min : simpl never.
#[local] Arguments N.leb : simpl never.
#[local] Arguments N.ltb : simpl never.
#[local] Arguments N.eqb : simpl never.
#[local] Arguments Nat.div : simpl never.
#[local] Arguments Nat.modulo : simpl never.
#[local] Arguments Nat.ltb : simpl never.
#[local] Arguments Nat.leb : simpl never.

(* ====================================================================== *)
(* PART 0: shared vocabulary *)
(* ====================================================================== *)

(* C14, shared vocabulary: the judge (Model/SpecDecoder.spec_decode) accepts every
   table the writer emits.  Definitions shared by the parts of the proof. *)


(* the judge's view of the reader's inflate *)
Definition sinfl_of (inflate : bytes -> inflate_result) (x : bytes) : sinflate_result :=
  match inflate x with IOk o c => SIOk o c | _ => SIFail end.

(* ------------------------------------------------------------------ *)
(* the object index as a function of the ref blocks *)

Definition ref_hashes (r : ref_record) : list bytes :=
  match r_val r with RVal h => [h] | RVal2 h t => [h; t] | _ => [] end.
Definition rec_hashes (r : record) : list bytes :=
  match r with RecRef x => ref_hashes x | _ => [] end.

(* blocks with their file positions *)
Fixpoint posrecs (off : N) (cs : list chunk) : list (N * list record) :=
  match cs with
  | [] => []
  | k :: t => (off, ck_recs k) :: posrecs (off + N.of_nat (length (ck_bytes k))) t
  end.

(* the calls of indexHash: (position of the block being written, object id) *)
Definition blk_events (pos : N) (recs : list record) : list (N * bytes) :=
  flat_map (fun r => map (pair pos) (rec_hashes r)) recs.
Definition events (rb : list (N * list record)) : list (N * bytes) :=
  flat_map (fun b => blk_events (fst b) (snd b)) rb.
Definition objs_of (evs : list (N * bytes)) : list (bytes * list N) :=
  fold_left (fun o e => obj_insert (snd e) (fst e) o) evs [].

(* what dumpObjectIndex writes for one entry: its abbreviated id with its
   positions, or (entry too large for a block) without them *)
Definition obj_rec_of (idlen : nat) (kv : bytes * list N) (r : record) : Prop :=
  r = RecObj (firstn idlen (fst kv)) (snd kv) \/ r = RecObj (firstn idlen (fst kv)) [].

(* check_objs of the judge, on positioned record lists *)
Definition cobjs (idlen : nat) (rb : list (N * list record)) (orecs : list record) : bool :=
  let objs := flat_map (fun r => match r with RecObj p o => [(p, o)] | _ => [] end) orecs in
  forallb (fun po =>
    let '(p, offs) := po in
    Nat.eqb (length p) idlen &&
    let want := map fst (filter (fun b => existsb (fun r => match r with RecRef x => ref_has_prefix p x | _ => false end) (snd b)) rb) in
    (match offs with [] => true | _ => same_N_list offs want end) &&
    negb (match want with [] => true | _ => false end)) objs
  && forallb (fun x =>
       match r_val x with
       | RVal h => existsb (fun po => bytes_eqb (fst po) (firstn idlen h)) objs
       | RVal2 h t => existsb (fun po => bytes_eqb (fst po) (firstn idlen h)) objs
                      && existsb (fun po => bytes_eqb (fst po) (firstn idlen t)) objs
       | _ => true
       end)
       (flat_map (fun b => flat_map (fun r => match r with RecRef x => [x] | _ => [] end) (snd b)) rb).

(* ------------------------------------------------------------------ *)
(* the judge's block list as a function of the writer's chunks *)

Definition sblk (c : config) (off : N) (k : chunk) : sblock :=
  {| sb_pos := off; sb_typ := ck_typ k;
     sb_len := N.to_nat (be_at 3 (blk_hdr c off + 1) (ck_raw k));
     sb_next := off + N.of_nat (length (ck_bytes k));
     sb_recs := map (rec_read (hash_size c)) (ck_recs k);
     sb_last := rec_key (last (ck_recs k) rdummy) |}.

Fixpoint sblks (c : config) (off : N) (cs : list chunk) : list sblock :=
  match cs with
  | [] => []
  | k :: t => sblk c off k :: sblks c (off + N.of_nat (length (ck_bytes k))) t
  end.

Lemma sblks_app : forall c a b off,
  sblks c off (a ++ b) = sblks c off a ++ sblks c (off + llen a) b.
Proof.
  intros c. induction a as [|k t IH]; intros b off; cbn [app sblks].
  - unfold llen, layout. cbn [flat_map length]. rewrite N.add_0_r. reflexivity.
  - rewrite IH. rewrite llen_cons. rewrite N.add_assoc. reflexivity.
Qed.

Lemma posrecs_app : forall a b off,
  posrecs off (a ++ b) = posrecs off a ++ posrecs (off + llen a) b.
Proof.
  induction a as [|k t IH]; intros b off; cbn [app posrecs].
  - unfold llen, layout. cbn [flat_map length]. rewrite N.add_0_r. reflexivity.
  - rewrite IH. rewrite llen_cons. rewrite N.add_assoc. reflexivity.
Qed.

Lemma sblks_length : forall c cs off, length (sblks c off cs) = length cs.
Proof. intros c. induction cs as [|k t IH]; intros off; cbn [sblks length]; [reflexivity|]. rewrite IH. reflexivity. Qed.

(* ====================================================================== *)
(* PART 1 (L6, lists): the object index as a function of the ref blocks satisfies the judge's check *)
(* ====================================================================== *)

(* C14, object index: the object records the writer derives from its indexHash
   calls pass the judge's object-index check (cobjs). *)


(* ------------------------------------------------------------------ *)
(* generic list facts *)

Definition ltbR (a b : bytes) : Prop := bytes_ltb a b = true.

Lemma SS_app_last {A} (R : A -> A -> Prop) : forall l x,
  StronglySorted R (l ++ [x]) -> StronglySorted R l /\ Forall (fun y => R y x) l.
Proof.
  induction l as [|a l IH]; intros x H; cbn [app] in H.
  - split; constructor.
  - inversion H as [|? ? H1 H2]; subst. destruct (IH _ H1) as [S1 F1].
    rewrite Forall_app in H2. destruct H2 as [H2 H3]. inversion H3; subst.
    split; constructor; auto.
Qed.

Lemma SS_map {A B} (R : B -> B -> Prop) (f : A -> B) : forall l,
  StronglySorted (fun a b => R (f a) (f b)) l <-> StronglySorted R (map f l).
Proof.
  induction l as [|a l IH]; cbn [map]; split; intros H; try constructor;
    inversion H as [|? ? H1 H2]; subst.
  - apply IH; assumption.
  - rewrite Forall_forall in *. intros y Hy. apply in_map_iff in Hy.
    destruct Hy as (z & <- & Hz). apply H2; exact Hz.
  - apply IH; assumption.
  - rewrite Forall_forall in *. intros y Hy. apply H2. apply in_map. exact Hy.
Qed.

Lemma SS_map_inj {A} (f : A -> bytes) : forall l,
  StronglySorted ltbR (map f l) ->
  forall a b, In a l -> In b l -> f a = f b -> a = b.
Proof.
  induction l as [|c l IH]; cbn [map]; intros S a b Ia Ib E; [contradiction|].
  inversion S as [|? ? S1 F1]; subst. rewrite Forall_forall in F1.
  destruct Ia as [->|Ia], Ib as [->|Ib]; auto.
  - exfalso. specialize (F1 (f b) (in_map f _ _ Ib)). unfold ltbR in F1.
    rewrite E, bytes_ltb_irrefl in F1. discriminate.
  - exfalso. specialize (F1 (f a) (in_map f _ _ Ia)). unfold ltbR in F1.
    rewrite E, bytes_ltb_irrefl in F1. discriminate.
Qed.

Lemma existsb_ext_in {A} (f g : A -> bool) : forall l,
  (forall x, In x l -> f x = g x) -> existsb f l = existsb g l.
Proof.
  induction l as [|a l IH]; intros H; cbn [existsb]; [reflexivity|].
  rewrite (H a) by (left; reflexivity). rewrite IH; [reflexivity|].
  intros x Hx. apply H. right. exact Hx.
Qed.

Lemma Forall2_in_l {A B} (R : A -> B -> Prop) : forall l1 l2,
  Forall2 R l1 l2 -> forall a, In a l1 -> exists b, In b l2 /\ R a b.
Proof.
  induction 1 as [|x y l1 l2 Hxy F IH]; intros a Ha; [contradiction|].
  destruct Ha as [->|Ha].
  - exists y. split; [left; reflexivity|exact Hxy].
  - destruct (IH a Ha) as (b & Hb & Hr). exists b. split; [right; exact Hb|exact Hr].
Qed.

Lemma Forall2_in_r {A B} (R : A -> B -> Prop) : forall l1 l2,
  Forall2 R l1 l2 -> forall b, In b l2 -> exists a, In a l1 /\ R a b.
Proof.
  induction 1 as [|x y l1 l2 Hxy F IH]; intros b Hb; [contradiction|].
  destruct Hb as [->|Hb].
  - exists x. split; [left; reflexivity|exact Hxy].
  - destruct (IH b Hb) as (a & Ha & Hr). exists a. split; [right; exact Ha|exact Hr].
Qed.

Lemma same_N_list_refl : forall l, same_N_list l l = true.
Proof.
  induction l as [|x l IH]; cbn [same_N_list]; [reflexivity|].
  rewrite N.eqb_refl, IH. reflexivity.
Qed.

(* ------------------------------------------------------------------ *)
(* prefixes *)

Lemma is_prefix_firstn : forall n k, is_prefix (firstn n k) k = true.
Proof.
  induction n as [|n IH]; intros [|x k]; cbn [firstn is_prefix]; try reflexivity.
  rewrite N.eqb_refl, IH. reflexivity.
Qed.

Lemma is_prefix_eq : forall p h, is_prefix p h = true -> firstn (length p) h = p.
Proof.
  induction p as [|x p IH]; intros [|y h] H; cbn [is_prefix length firstn] in *;
    try reflexivity; try discriminate.
  apply andb_true_iff in H. destruct H as [H1 H2]. apply N.eqb_eq in H1. subst y.
  f_equal. apply IH. exact H2.
Qed.

Lemma firstn_ltb : forall n a b, bytes_ltb a b = true -> (common_prefix a b < n)%nat ->
  bytes_ltb (firstn n a) (firstn n b) = true.
Proof.
  induction n as [|n IH]; intros a b L C; [lia|].
  destruct a as [|x a]; destruct b as [|y b];
    cbn [bytes_ltb firstn common_prefix] in *; try discriminate; try reflexivity.
  destruct (N.ltb_spec x y) as [E1|E1]; [reflexivity|].
  destruct (N.ltb_spec y x) as [E2|E2]; [discriminate|].
  assert (x = y) by lia. subst. rewrite N.eqb_refl in C. apply IH; [exact L|lia].
Qed.

Lemma cp_lt : forall a b, bytes_ltb a b = true -> (length a <= length b)%nat ->
  (common_prefix a b < length b)%nat.
Proof.
  induction a as [|x a IH]; intros [|y b] L Hl; cbn [bytes_ltb common_prefix length] in *;
    try discriminate; try lia.
  destruct (N.eqb_spec x y) as [->|Hn]; [|lia].
  rewrite N.ltb_irrefl in L. apply IH in L; lia.
Qed.

(* ------------------------------------------------------------------ *)
(* max_common *)

Lemma mc_ge : forall ks l m, (m <= max_common l ks m)%nat.
Proof.
  induction ks as [|k t IH]; intros l m; cbn [max_common]; [lia|].
  specialize (IH k (Nat.max m (common_prefix l k))). lia.
Qed.

Lemma mc_lt : forall ks l m n,
  StronglySorted ltbR (l :: ks) -> Forall (fun k => length k = n) ks ->
  (m < n)%nat -> (length l <= n)%nat -> (max_common l ks m < n)%nat.
Proof.
  induction ks as [|k t IH]; intros l m n S F Hm Hl; cbn [max_common]; [exact Hm|].
  inversion S as [|? ? S1 F1]; subst. inversion F1 as [|? ? L1 _]; subst.
  inversion F as [|? ? Hk Ft]; subst.
  apply IH; try assumption; try lia.
  pose proof (cp_lt l k L1 Hl). lia.
Qed.

Lemma mc_sorted : forall ks l m n,
  StronglySorted ltbR (l :: ks) -> (max_common l ks m < n)%nat ->
  StronglySorted ltbR (map (firstn n) (l :: ks)).
Proof.
  induction ks as [|k t IH]; intros l m n S H.
  - cbn [map]. constructor; constructor.
  - cbn [max_common] in H. inversion S as [|? ? S1 F1]; subst.
    inversion F1 as [|? ? L1 _]; subst.
    pose proof (IH k _ n S1 H) as S2.
    pose proof (mc_ge t k (Nat.max m (common_prefix l k))) as G.
    assert (L2 : ltbR (firstn n l) (firstn n k)) by (apply firstn_ltb; [exact L1|lia]).
    change (map (firstn n) (l :: k :: t)) with (firstn n l :: map (firstn n) (k :: t)).
    constructor; [exact S2|].
    cbn [map] in *. constructor; [exact L2|].
    inversion S2 as [|? ? _ F2]; subst.
    eapply Forall_impl; [|exact F2]. intros a Ha. unfold ltbR in *.
    eapply bytes_ltb_trans; eauto.
Qed.

(* ------------------------------------------------------------------ *)
(* obj_insert as an update of a finite map with sorted keys *)

Fixpoint lookup (k : bytes) (o : list (bytes * list N)) : list N :=
  match o with
  | [] => []
  | (k', offs) :: t => if bytes_eqb k' k then offs else lookup k t
  end.

Definition app_last (offs : list N) (off : N) : list N :=
  if (match rev offs with o :: _ => o =? off | [] => false end) then offs else offs ++ [off].

Lemma app_last_idem : forall l p, app_last (app_last l p) p = app_last l p.
Proof.
  intros l p. unfold app_last at 2 3.
  destruct (match rev l with o :: _ => o =? p | [] => false end) eqn:E.
  - unfold app_last. rewrite E. reflexivity.
  - unfold app_last. rewrite rev_app_distr. cbn [rev app]. rewrite N.eqb_refl. reflexivity.
Qed.

Lemma app_last_lt : forall l p, Forall (fun x => x < p) l -> app_last l p = l ++ [p].
Proof.
  intros l p F. unfold app_last. destruct (rev l) as [|o r] eqn:E; [reflexivity|].
  assert (Ho : In o l) by (apply in_rev; rewrite E; left; reflexivity).
  rewrite Forall_forall in F. apply F in Ho.
  destruct (N.eqb_spec o p); [lia|reflexivity].
Qed.

Lemma keys_insert : forall h off o k,
  In k (map fst (obj_insert h off o)) <-> k = h \/ In k (map fst o).
Proof.
  intros h off. induction o as [|[k' offs] t IH]; intros k; cbn [obj_insert].
  - cbn [map fst In]. intuition (subst; auto).
  - destruct (bytes_eqb_spec k' h) as [->|Hn].
    + cbn [map fst In]. intuition (subst; auto).
    + destruct (bytes_ltb h k'); cbn [map fst In]; [|rewrite IH]; intuition (subst; auto).
Qed.

Lemma sorted_insert : forall h off o,
  StronglySorted ltbR (map fst o) -> StronglySorted ltbR (map fst (obj_insert h off o)).
Proof.
  intros h off. induction o as [|[k' offs] t IH]; intros S; cbn [obj_insert].
  - cbn [map fst]. constructor; constructor.
  - cbn [map fst] in S. inversion S as [|? ? S1 F1]; subst.
    destruct (bytes_eqb_spec k' h) as [->|Hn]; [cbn [map fst]; exact S|].
    destruct (bytes_ltb h k') eqn:L.
    + cbn [map fst]. constructor; [exact S|]. constructor; [exact L|].
      eapply Forall_impl; [|exact F1]. intros a Ha. unfold ltbR in *.
      eapply bytes_ltb_trans; eauto.
    + cbn [map fst]. constructor; [apply IH; exact S1|].
      rewrite Forall_forall in *. intros x Hx. apply keys_insert in Hx.
      destruct Hx as [->|Hx]; [|apply F1; exact Hx].
      unfold ltbR. destruct (bytes_ltb_trichotomy k' h) as [[T|T]|T]; [exact T|contradiction|congruence].
Qed.

Lemma lookup_notin : forall k o, ~ In k (map fst o) -> lookup k o = [].
Proof.
  intros k. induction o as [|[k' offs] t IH]; intros H; cbn [lookup]; [reflexivity|].
  cbn [map fst In] in H. destruct (bytes_eqb_spec k' k) as [->|Hn]; [exfalso; auto|].
  apply IH. intros H'. apply H. right. exact H'.
Qed.

Lemma lookup_insert : forall h off k o,
  StronglySorted ltbR (map fst o) ->
  lookup k (obj_insert h off o)
  = if bytes_eqb h k then app_last (lookup h o) off else lookup k o.
Proof.
  intros h off k. induction o as [|[k' offs] t IH]; intros S; cbn [obj_insert].
  - cbn [lookup]. destruct (bytes_eqb h k); reflexivity.
  - cbn [map fst] in S. inversion S as [|? ? S1 F1]; subst.
    destruct (bytes_eqb_spec k' h) as [->|Hn].
    + cbn [lookup]. rewrite bytes_eqb_refl. destruct (bytes_eqb h k); reflexivity.
    + destruct (bytes_ltb h k') eqn:L.
      * cbn [lookup].
        assert (Hni : ~ In h (map fst ((k', offs) :: t))).
        { cbn [map fst In]. intros [E|E]; [congruence|].
          rewrite Forall_forall in F1. apply F1 in E. unfold ltbR in E.
          pose proof (bytes_ltb_trans _ _ _ L E) as X. rewrite bytes_ltb_irrefl in X. discriminate. }
        apply lookup_notin in Hni. cbn [lookup] in Hni. rewrite Hni.
        destruct (bytes_eqb h k); reflexivity.
      * cbn [lookup]. rewrite IH by exact S1.
        destruct (bytes_eqb_spec k' h) as [E|_]; [contradiction|].
        destruct (bytes_eqb_spec k' k) as [->|Hk]; [|reflexivity].
        destruct (bytes_eqb_spec h k) as [E|_]; [congruence|reflexivity].
Qed.

Lemma lookup_entry : forall o kv,
  StronglySorted ltbR (map fst o) -> In kv o -> lookup (fst kv) o = snd kv.
Proof.
  induction o as [|[k' offs] t IH]; intros kv S H; [contradiction|].
  cbn [map fst] in S. inversion S as [|? ? S1 F1]; subst. cbn [lookup].
  destruct H as [<-|H].
  - cbn [fst snd]. rewrite bytes_eqb_refl. reflexivity.
  - rewrite Forall_forall in F1. specialize (F1 (fst kv) (in_map fst _ _ H)).
    unfold ltbR in F1. rewrite (bytes_ltb_eqb _ _ F1). apply IH; assumption.
Qed.

(* ------------------------------------------------------------------ *)
(* folding the events *)

Definition ins (o : list (bytes * list N)) (e : N * bytes) : list (bytes * list N) :=
  obj_insert (snd e) (fst e) o.

Lemma fold_sorted : forall evs o,
  StronglySorted ltbR (map fst o) -> StronglySorted ltbR (map fst (fold_left ins evs o)).
Proof.
  induction evs as [|e evs IH]; intros o S; cbn [fold_left]; [exact S|].
  apply IH. apply sorted_insert. exact S.
Qed.

Lemma fold_keys : forall evs o k,
  In k (map fst (fold_left ins evs o)) <-> In k (map fst o) \/ In k (map snd evs).
Proof.
  induction evs as [|e evs IH]; intros o k; cbn [fold_left map In].
  - intuition.
  - rewrite IH. unfold ins. rewrite keys_insert. intuition (subst; auto).
Qed.

Lemma fold_lookup_blk : forall p k hl o,
  StronglySorted ltbR (map fst o) ->
  lookup k (fold_left ins (map (pair p) hl) o)
  = if existsb (bytes_eqb k) hl then app_last (lookup k o) p else lookup k o.
Proof.
  intros p k. induction hl as [|h t IH]; intros o S; cbn [map fold_left existsb]; [reflexivity|].
  rewrite IH by (apply sorted_insert; exact S).
  change (ins o (p, h)) with (obj_insert h p o). rewrite lookup_insert by exact S.
  rewrite (bytes_eqb_sym k h).
  destruct (bytes_eqb_spec h k) as [->|Hn]; cbn [orb].
  - rewrite app_last_idem. destruct (existsb (bytes_eqb k) t); reflexivity.
  - reflexivity.
Qed.

Lemma blk_events_map : forall p recs,
  blk_events p recs = map (pair p) (flat_map rec_hashes recs).
Proof.
  intros p. unfold blk_events. induction recs as [|r t IH]; cbn [flat_map map]; [reflexivity|].
  rewrite map_app, IH. reflexivity.
Qed.

Lemma existsb_flat_map {A B} (f : B -> bool) (g : A -> list B) : forall l,
  existsb f (flat_map g l) = existsb (fun a => existsb f (g a)) l.
Proof.
  induction l as [|a l IH]; cbn [flat_map existsb]; [reflexivity|].
  rewrite existsb_app, IH. reflexivity.
Qed.

Definition blk_has (k : bytes) (b : N * list record) : bool :=
  existsb (fun r => existsb (bytes_eqb k) (rec_hashes r)) (snd b).

Definition posof (k : bytes) (rb : list (N * list record)) : list N :=
  map fst (filter (blk_has k) rb).

Lemma objs_of_fold : forall evs, objs_of evs = fold_left ins evs [].
Proof. reflexivity. Qed.

Lemma objs_sorted : forall evs, StronglySorted ltbR (map fst (objs_of evs)).
Proof. intros evs. rewrite objs_of_fold. apply fold_sorted. constructor. Qed.

Lemma objs_keys : forall evs k, In k (map fst (objs_of evs)) <-> In k (map snd evs).
Proof.
  intros evs k. rewrite objs_of_fold, fold_keys. cbn [map In]. intuition.
Qed.

Lemma posof_incl : forall k rb x, In x (posof k rb) -> In x (map fst rb).
Proof.
  intros k rb x H. unfold posof in H. apply in_map_iff in H. destruct H as (b & <- & Hb).
  apply filter_In in Hb. apply in_map. apply Hb.
Qed.

(* the position list of an object id: the blocks containing it, in order *)
Lemma lookup_objs : forall rb, StronglySorted N.lt (map fst rb) ->
  forall k, lookup k (objs_of (events rb)) = posof k rb.
Proof.
  induction rb as [|b rb IH] using rev_ind; intros S k; [reflexivity|].
  rewrite map_app in S. cbn [map] in S. apply SS_app_last in S. destruct S as [S F].
  unfold events. rewrite flat_map_app. cbn [flat_map]. rewrite app_nil_r.
  fold (events rb). rewrite objs_of_fold, fold_left_app. rewrite <- objs_of_fold.
  rewrite blk_events_map. rewrite fold_lookup_blk by apply objs_sorted.
  rewrite IH by exact S. unfold posof at 3. rewrite filter_app, map_app. fold (posof k rb).
  cbn [filter]. unfold blk_has. rewrite existsb_flat_map.
  destruct (existsb (fun a => existsb (bytes_eqb k) (rec_hashes a)) (snd b)).
  - cbn [map]. apply app_last_lt. rewrite Forall_forall in *. intros x Hx.
    apply F. eapply posof_incl. exact Hx.
  - cbn [map]. rewrite app_nil_r. reflexivity.
Qed.

Lemma posof_nonempty : forall k rb b, In b rb -> blk_has k b = true -> posof k rb <> [].
Proof.
  intros k rb b Hb H E.
  assert (X : In (fst b) (posof k rb)).
  { unfold posof. apply in_map. apply filter_In. split; assumption. }
  rewrite E in X. contradiction.
Qed.

Lemma ev_in : forall rb h, In h (map snd (events rb)) <->
  exists b r, In b rb /\ In r (snd b) /\ In h (rec_hashes r).
Proof.
  intros rb h. unfold events, blk_events. rewrite in_map_iff. split.
  - intros ([p h'] & E & H). cbn [snd] in E. subst h'.
    apply in_flat_map in H. destruct H as (b & Hb & H).
    apply in_flat_map in H. destruct H as (r & Hr & H).
    apply in_map_iff in H. destruct H as (h' & E & H). inversion E; subst. eauto.
  - intros (b & r & Hb & Hr & Hh). exists (fst b, h). split; [reflexivity|].
    apply in_flat_map. exists b. split; [exact Hb|].
    apply in_flat_map. exists r. split; [exact Hr|]. apply in_map. exact Hh.
Qed.

Lemma ref_hashes_len : forall hs x h, ref_ok hs x -> In h (ref_hashes x) -> length h = hs.
Proof.
  intros hs x h [_ H] Hi. unfold ref_hashes in Hi. destruct (r_val x); cbn [In] in Hi.
  - contradiction.
  - destruct Hi as [<-|[]]. exact H.
  - destruct H as [H1 H2]. destruct Hi as [<-|[<-|[]]]; assumption.
  - contradiction.
Qed.

Lemma ref_has_prefix_hashes : forall p x,
  ref_has_prefix p x = existsb (is_prefix p) (ref_hashes x).
Proof.
  intros p x. unfold ref_has_prefix, ref_hashes. destruct (r_val x); cbn [existsb]; try reflexivity.
  - rewrite orb_false_r. reflexivity.
  - rewrite orb_false_r. reflexivity.
Qed.

Lemma orecs_keys : forall idlen orecs o,
  Forall2 (fun r kv => obj_rec_of idlen kv r) orecs o ->
  map rec_key orecs = map (firstn idlen) (map fst o).
Proof.
  intros idlen orecs o F. induction F as [|r kv l1 l2 H F IH]; cbn [map]; [reflexivity|].
  f_equal; [|exact IH]. destruct H as [-> | ->]; reflexivity.
Qed.

(* ------------------------------------------------------------------ *)

Theorem objs_check : forall hs rb orecs idlen,
  (0 < hs)%nat ->
  StronglySorted N.lt (map fst rb) ->
  Forall (fun b => Forall (fun r => match r with RecRef x => ref_ok hs x | _ => False end) (snd b)) rb ->
  idlen = S (max_common [] (map fst (objs_of (events rb))) 0) ->
  Forall2 (fun r kv => obj_rec_of idlen kv r) orecs (objs_of (events rb)) ->
  sorted_recs orecs /\ cobjs idlen rb orecs = true /\ (orecs <> [] -> idlen <= hs)%nat.
Proof.
  intros hs rb orecs idlen Hhs Spos Fok Hid F2.
  pose proof (objs_sorted (events rb)) as SK.
  pose proof (objs_keys (events rb)) as Kev.
  pose proof (lookup_objs rb Spos) as Hlk.
  remember (objs_of (events rb)) as O eqn:HO.
  assert (Hlen : forall b r h, In b rb -> In r (snd b) -> In h (rec_hashes r) -> length h = hs).
  { intros b r h Hb Hr Hh. rewrite Forall_forall in Fok. specialize (Fok b Hb).
    rewrite Forall_forall in Fok. specialize (Fok r Hr). destruct r as [x| | |]; try contradiction.
    eapply ref_hashes_len; eauto. }
  assert (Klen : forall k, In k (map fst O) -> length k = hs).
  { intros k Hk. apply Kev in Hk. apply ev_in in Hk.
    destruct Hk as (b & r & Hb & Hr & Hh). eapply Hlen; eauto. }
  assert (SK0 : StronglySorted ltbR ([] :: map fst O)).
  { constructor; [exact SK|]. rewrite Forall_forall. intros k Hk. apply Klen in Hk.
    destruct k; cbn [length] in Hk; [lia|reflexivity]. }
  assert (Hmc : (max_common [] (map fst O) 0 < hs)%nat).
  { apply mc_lt; [exact SK0| |exact Hhs|cbn [length]; lia].
    rewrite Forall_forall. exact Klen. }
  assert (Hle : (idlen <= hs)%nat) by lia.
  assert (SF : StronglySorted ltbR (map (firstn idlen) (map fst O))).
  { assert (X : (max_common [] (map fst O) 0 < idlen)%nat) by lia.
    pose proof (mc_sorted _ _ _ _ SK0 X) as Y. cbn [map] in Y.
    inversion Y; assumption. }
  (* abbreviated ids identify the keys *)
  assert (Hpre : forall k h, In k (map fst O) -> In h (map fst O) ->
            is_prefix (firstn idlen k) h = bytes_eqb k h).
  { intros k h Hk Hh. destruct (bytes_eqb_spec k h) as [->|Hn]; [apply is_prefix_firstn|].
    destruct (is_prefix (firstn idlen k) h) eqn:E; [|reflexivity]. exfalso. apply Hn.
    apply is_prefix_eq in E. rewrite firstn_length_le in E by (rewrite (Klen k Hk); exact Hle).
    symmetry. eapply (SS_map_inj (firstn idlen)); eauto. }
  split; [|split; [|intros _; exact Hle]].
  - unfold sorted_recs. apply (proj2 (SS_map ltbR rec_key orecs)).
    rewrite (orecs_keys _ _ _ F2). exact SF.
  - unfold cobjs. cbv zeta. apply andb_true_iff. split.
    + apply forallb_forall. intros [p offs] Hpo. apply in_flat_map in Hpo.
      destruct Hpo as (r & Hr & Hpo).
      destruct (Forall2_in_l _ _ _ F2 r Hr) as (kv & Hkv & Hrel).
      assert (Hp : p = firstn idlen (fst kv) /\ (offs = snd kv \/ offs = [])).
      { destruct Hrel as [-> | ->]; cbn [In] in Hpo; destruct Hpo as [Hpo|[]];
          inversion Hpo; auto. }
      destruct Hp as [-> Hoffs].
      assert (Hk : In (fst kv) (map fst O)) by (apply in_map; exact Hkv).
      assert (Hsnd : snd kv = posof (fst kv) rb).
      { rewrite <- Hlk. symmetry. apply lookup_entry; assumption. }
      assert (Hw : map fst (filter (fun b => existsb (fun r0 => match r0 with
                     | RecRef x => ref_has_prefix (firstn idlen (fst kv)) x | _ => false end) (snd b)) rb)
                   = snd kv).
      { rewrite Hsnd. unfold posof. f_equal. apply filter_ext_in. intros b Hb.
        unfold blk_has. apply existsb_ext_in. intros r0 Hr0.
        pose proof (Hlen b r0) as Hl0.
        assert (Hin0 : forall h, In h (rec_hashes r0) -> In h (map fst O)).
        { intros h Hh. apply Kev. apply ev_in. eauto. }
        destruct r0 as [x| | |]; try reflexivity.
        rewrite ref_has_prefix_hashes. cbn [rec_hashes] in *.
        apply existsb_ext_in. intros h Hh. apply Hpre; auto. }
      assert (Hne : snd kv <> []).
      { rewrite Hsnd. apply Kev in Hk. apply ev_in in Hk.
        destruct Hk as (b & r0 & Hb & Hr0 & Hh). apply (posof_nonempty _ _ b Hb).
        unfold blk_has. apply existsb_exists. exists r0. split; [exact Hr0|].
        apply existsb_exists. exists (fst kv). split; [exact Hh|apply bytes_eqb_refl]. }
      rewrite Hw. rewrite firstn_length_le by (rewrite (Klen _ Hk); exact Hle).
      rewrite Nat.eqb_refl. cbn [andb].
      destruct (snd kv) as [|o1 ol] eqn:Es; [contradiction|]. cbn [negb]. rewrite andb_true_r.
      destruct Hoffs as [-> | ->]; [apply same_N_list_refl|reflexivity].
    + apply forallb_forall. intros x Hx. apply in_flat_map in Hx. destruct Hx as (b & Hb & Hx).
      apply in_flat_map in Hx. destruct Hx as (r & Hr & Hx).
      destruct r as [x'| | |]; try contradiction. destruct Hx as [->|[]].
      assert (Hcov : forall h, In h (ref_hashes x) ->
        existsb (fun po => bytes_eqb (fst po) (firstn idlen h))
          (flat_map (fun r => match r with RecObj p o => [(p, o)] | _ => [] end) orecs) = true).
      { intros h Hh.
        assert (Hk : In h (map fst O)).
        { apply Kev. apply ev_in. exists b, (RecRef x). auto. }
        apply in_map_iff in Hk. destruct Hk as (kv & <- & Hkv).
        destruct (Forall2_in_r _ _ _ F2 kv Hkv) as (r & Hr' & Hrel).
        apply existsb_exists.
        destruct Hrel as [-> | ->].
        - exists (firstn idlen (fst kv), snd kv). split; [|apply bytes_eqb_refl].
          apply in_flat_map. eexists. split; [exact Hr'|]. left. reflexivity.
        - exists (firstn idlen (fst kv), []). split; [|apply bytes_eqb_refl].
          apply in_flat_map. eexists. split; [exact Hr'|]. left. reflexivity. }
      unfold ref_hashes in Hcov. destruct (r_val x) as [|h|h t|s]; try reflexivity.
      * apply Hcov. left. reflexivity.
      * rewrite !Hcov; [reflexivity|right; left; reflexivity|left; reflexivity].
Qed.

(* ====================================================================== *)
(* PART 2 (L2, L3): parse_block / parse_blocks on the writer's chunks *)
(* ====================================================================== *)

(* C14, block layer: the judge's parse_block / parse_blocks accept the blocks the
   writer lays out, and return exactly sblk / sblks. *)


(* ------------------------------------------------------------------ *)
(* 1. parse_records on a chain of entries *)

(* "written with prefix length 0" as the judge sees it: first key byte is 0 *)
Definition p0_of (e : ent) : bool := match e_kb e with b0 :: _ => b0 =? 0 | [] => false end.

Fixpoint ents_out (hs off : nat) (es : list ent) : list (nat * bool * record) :=
  match es with
  | [] => []
  | e :: t => (off, p0_of e, rec_read hs (e_rec e)) :: ents_out hs (off + length (e_bytes e)) t
  end.

Lemma slice_mid : forall (pre mid tl : bytes) n, n = length mid ->
  slice (length pre) n (pre ++ mid ++ tl) = mid.
Proof.
  intros pre mid tl n ->. unfold slice. rewrite skipn_app_len. apply firstn_app_len.
Qed.

Lemma ent_wf_kb : forall hs prev e, ent_wf hs prev e -> (1 <= length (e_kb e))%nat.
Proof.
  intros hs prev e (pw & E & _). apply encode_key_zero in E. destruct E as [E _].
  rewrite E. apply encode_key_nonempty.
Qed.

Lemma parse_records_chain : forall typ hs es pre tl prev fuel acc,
  (0 < hs)%nat -> chain hs prev es -> Forall (fun e => rec_dom typ hs (e_rec e)) es ->
  (length es < fuel)%nat ->
  parse_records fuel typ hs (pre ++ body_of es ++ tl) (length pre)
                (length pre + length (body_of es)) prev acc
  = Some (rev acc ++ ents_out hs (length pre) es).
Proof.
  intros typ hs es. induction es as [|e t IH]; intros pre tl prev fuel acc Hs Hc Hd Hf.
  - destruct fuel; [cbn [length] in Hf; lia|]. cbn [parse_records body_of flat_map length ents_out].
    rewrite Nat.add_0_r, Nat.eqb_refl, app_nil_r. reflexivity.
  - destruct fuel; [lia|]. cbn [length] in Hf. cbn [parse_records].
    destruct Hc as [Hw Hc]. inversion Hd as [|? ? Hd1 Hd2]; subst.
    pose proof (ent_wf_len _ _ _ Hw) as L1.
    pose proof (ent_wf_kb _ _ _ Hw) as Lk.
    assert (BO : body_of (e :: t) = e_bytes e ++ body_of t) by reflexivity.
    rewrite BO, app_length.
    destruct (Nat.eqb_spec (length pre) (length pre + (length (e_bytes e) + length (body_of t)))) as [X|_]; [lia|].
    destruct (Nat.ltb_spec (length pre + (length (e_bytes e) + length (body_of t))) (length pre)) as [X|_]; [lia|].
    replace (length pre + (length (e_bytes e) + length (body_of t)) - length pre)%nat
      with (length (e_bytes e ++ body_of t)) by (rewrite app_length; lia).
    rewrite slice_mid by reflexivity.
    destruct Hw as (pw & E & Hz & V). destruct Hd1 as [Ht [Hk Hok]].
    pose proof (conj Hk Hok : rec_ok hs (e_rec e)) as Hok'.
    apply encode_key_zero in E. destruct E as [Ekb Ez].
    unfold e_bytes. rewrite <- app_assoc.
    assert (DK : decode_key (e_kb e ++ e_vb e ++ body_of t) prev
               = Some (length (e_kb e), rec_key (e_rec e), rec_val_type (e_rec e))).
    { rewrite Ekb. destruct Hz as [Z| ->].
      - apply decode_encode_key_restart; [apply rec_val_type_lt8|exact Hk|auto].
      - pose proof (decode_encode_key prev (rec_key (e_rec e)) (rec_val_type (e_rec e)) (e_vb e ++ body_of t)
                      (rec_val_type_lt8 _) Hk) as D.
        destruct (encode_key prev (rec_key (e_rec e)) (rec_val_type (e_rec e))) as [kb z].
        cbn [fst]. apply D. }
    rewrite DK. rewrite skipn_app_len.
    rewrite <- Ht. rewrite (decode_encode_rec hs (e_rec e) (body_of t) (e_vb e) Hs Hok' V).
    rewrite rec_key_read.
    replace (length pre + length (e_kb e) + length (e_vb e))%nat with (length (pre ++ e_bytes e))
      by (unfold e_bytes; rewrite !app_length; lia).
    replace (length pre + (length (e_kb e ++ e_vb e) + length (body_of t)))%nat
      with (length (pre ++ e_bytes e) + length (body_of t))%nat
      by (unfold e_bytes; rewrite !app_length; lia).
    replace (pre ++ (e_kb e ++ e_vb e ++ body_of t) ++ tl) with ((pre ++ e_bytes e) ++ body_of t ++ tl)
      by (unfold e_bytes; rewrite <- !app_assoc; reflexivity).
    rewrite Ht.
    rewrite (IH (pre ++ e_bytes e) tl (rec_key (e_rec e)) fuel); try assumption; [|lia].
    cbn [rev ents_out]. rewrite <- app_assoc. cbn [app].
    assert (P0 : match e_kb e ++ e_vb e ++ body_of t with b0 :: _ => b0 =? 0 | [] => false end = p0_of e).
    { unfold p0_of. destruct (e_kb e) as [|b0 kb']; [cbn [length] in Lk; lia|reflexivity]. }
    rewrite P0. rewrite app_length. reflexivity.
Qed.

Lemma ents_out_app : forall hs es1 es2 off,
  ents_out hs off (es1 ++ es2)
  = ents_out hs off es1 ++ ents_out hs (off + length (body_of es1)) es2.
Proof.
  intros hs. induction es1 as [|e t IH]; intros es2 off; cbn [app ents_out].
  - cbn [body_of flat_map length]. rewrite Nat.add_0_r. reflexivity.
  - rewrite IH. f_equal. f_equal. f_equal.
    change (body_of (e :: t)) with (e_bytes e ++ body_of t). rewrite app_length. lia.
Qed.

Lemma ents_out_snd : forall hs es off,
  map snd (ents_out hs off es) = map (rec_read hs) (map e_rec es).
Proof.
  intros hs. induction es as [|e t IH]; intros off; cbn [ents_out map snd]; [reflexivity|].
  rewrite IH. reflexivity.
Qed.

Lemma map_nth_seq : forall (l : list nat), map (fun i => nth i l 0%nat) (seq 0 (length l)) = l.
Proof.
  induction l as [|a t IH]; [reflexivity|].
  cbn [length seq map nth]. f_equal. rewrite <- seq_shift, map_map. exact IH.
Qed.

Lemma ascending_sorted : forall l, StronglySorted lt l -> ascending_nat l = true.
Proof.
  induction l as [|a t IH]; intros S; [reflexivity|].
  inversion S as [|? ? S1 F1]; subst. destruct t as [|b t']; [reflexivity|].
  cbn [ascending_nat]. inversion F1 as [|? ? Fa _]; subst.
  destruct (Nat.ltb_spec a b); [|lia]. cbn [andb]. apply IH. exact S1.
Qed.

Lemma keys_asc_sorted : forall hs l last,
  StronglySorted (fun a b => bytes_ltb (rec_key a) (rec_key b) = true) l ->
  match last with Some k => Forall (fun r => bytes_ltb k (rec_key r) = true) l | None => True end ->
  keys_ascending last (map (rec_read hs) l) = true.
Proof.
  intros hs. induction l as [|a t IH]; intros last S H; [reflexivity|].
  cbn [map keys_ascending]. inversion S as [|? ? S1 F1]; subst.
  rewrite rec_key_read. rewrite (IH (Some (rec_key a)) S1 F1). rewrite andb_true_r.
  destruct last as [k|]; [|reflexivity]. inversion H; subst. assumption.
Qed.

Lemma last_read_key : forall hs l,
  rec_key (last (map (rec_read hs) l) (RecIdx [] 0)) = rec_key (last l rdummy).
Proof.
  intros hs. induction l as [|a t IH]; [reflexivity|].
  destruct t as [|b t']; [cbn [map last]; apply rec_key_read|].
  change (last (a :: b :: t') rdummy) with (last (b :: t') rdummy). rewrite <- IH. reflexivity.
Qed.

Lemma p0_of_zero : forall hs prev e, ent_wf hs prev e -> e_zero e = true -> p0_of e = true.
Proof.
  intros hs prev e (pw & E & _) Z. unfold encode_key in E. inversion E as [[E1 E2]].
  rewrite Z in E2. apply Nat.eqb_eq in E2. unfold p0_of. rewrite <- E1, E2.
  change (N.of_nat 0) with 0. rewrite put_varint_0. reflexivity.
Qed.

Lemma chain_mid : forall hs prev es1 e es2, chain hs prev (es1 ++ e :: es2) ->
  exists prev', ent_wf hs prev' e.
Proof.
  intros hs prev es1 e es2 C. apply chain_app in C. destruct C as [_ [C _]]. eexists; exact C.
Qed.

(* ------------------------------------------------------------------ *)
(* 2./3. the second half of parse_block: restart table, records, checks *)

Definition pb_tail (typ : N) (hs : nat) (pos : N) (hdr blen : nat) (bn : bytes * N) : sres sblock :=
  let '(blk, next) := bn in
  let count := N.to_nat (be_at 2 (blen - 2) blk) in
  if Nat.ltb blen (hdr + 4 + 2 + 3 * count) then inl (SE_restart pos)
  else
    let rstart := (blen - 2 - 3 * count)%nat in
    let restarts := map (fun i => N.to_nat (be_at 3 (rstart + 3 * i) blk)) (seq 0 count) in
    match parse_records (S blen) typ hs blk (hdr + 4) rstart [] [] with
    | None => inl (SE_record pos)
    | Some recs =>
        let offs0 := map (fun x => fst (fst x)) (filter (fun x => snd (fst x)) recs) in
        if negb (ascending_nat restarts) then inl (SE_restart pos)
        else if negb (forallb (fun r => existsb (Nat.eqb r) offs0) restarts) then inl (SE_restart pos)
        else match recs, restarts with
             | [], _ => inl (SE_record pos)
             | _, [] => inl (SE_restart pos)
             | (o1, _, _) :: _, r1 :: _ =>
                 if negb (Nat.eqb o1 r1) then inl (SE_restart pos)
                 else
                   let rs := map snd recs in
                   if negb (keys_ascending None rs) then inl (SE_key_order pos)
                   else inr {| sb_pos := pos; sb_typ := typ; sb_len := blen; sb_next := next;
                               sb_recs := rs; sb_last := rec_key (last rs (RecIdx [] 0)) |}
             end
    end.

Lemma pb_tail_spec : forall typ hs pos hdr head es rs next blen,
  (0 < hs)%nat ->
  length head = (hdr + 4)%nat ->
  es <> [] ->
  chain hs [] es -> Forall (fun e => rec_dom typ hs (e_rec e)) es ->
  StronglySorted (fun a b => bytes_ltb (rec_key a) (rec_key b) = true) (map e_rec es) ->
  (exists t, rs = (hdr + 4)%nat :: t) -> StronglySorted lt rs ->
  Forall (is_zero_off (hdr + 4) es) rs ->
  N.of_nat (length rs) <= 65535 ->
  blen = (hdr + 4 + length (body_of es) + 3 * length rs + 2)%nat ->
  N.of_nat blen < 16777216 ->
  pb_tail typ hs pos hdr blen (head ++ body_of es ++ rtable rs ++ be16 (N.of_nat (length rs)), next)
  = inr {| sb_pos := pos; sb_typ := typ; sb_len := blen; sb_next := next;
           sb_recs := map (rec_read hs) (map e_rec es);
           sb_last := rec_key (last (map e_rec es) rdummy) |}.
Proof.
  intros typ hs pos hdr head es rs next blen Hs Lh NE Hc Hd Hso Hfirst Hsrt Hzero Hcnt Hblen Hsmall.
  unfold pb_tail.
  set (body := body_of es). set (c16 := be16 (N.of_nat (length rs))).
  set (blk := head ++ body ++ rtable rs ++ c16).
  assert (Lc : length c16 = 2%nat) by apply be16_length.
  pose proof (rtable_length rs) as Lr.
  assert (CNT : N.to_nat (be_at 2 (blen - 2) blk) = length rs).
  { unfold be_at, slice, blk.
    replace (head ++ body ++ rtable rs ++ c16) with ((head ++ body ++ rtable rs) ++ c16)
      by (rewrite <- !app_assoc; reflexivity).
    rewrite skipn_app_len' by (rewrite !app_length; fold body in Hblen; lia).
    rewrite firstn_all2 by lia. unfold c16. rewrite be16_value by lia. apply Nat2N.id. }
  rewrite CNT.
  destruct (Nat.ltb_spec blen (hdr + 4 + 2 + 3 * length rs)) as [X|_]; [lia|].
  replace (blen - 2 - 3 * length rs)%nat with (length (head ++ body))
    by (rewrite app_length; fold body in Hblen; lia).
  assert (RS : map (fun i => N.to_nat (be_at 3 (length (head ++ body) + 3 * i) blk)) (seq 0 (length rs)) = rs).
  { transitivity (map (fun i => nth i rs 0%nat) (seq 0 (length rs))); [|apply map_nth_seq].
    apply map_ext_in. intros i Hi. apply in_seq in Hi. unfold be_at, slice, blk.
    replace (head ++ body ++ rtable rs ++ c16) with ((head ++ body) ++ rtable rs ++ c16)
      by (rewrite <- !app_assoc; reflexivity).
    rewrite skipn_add_app by reflexivity. rewrite rtable_nth by lia.
    rewrite be24_value; [apply Nat2N.id|].
    rewrite Forall_forall in Hzero.
    destruct (Hzero (nth i rs 0%nat)) as (es1 & e & es2 & E1 & E2 & E3); [apply nth_In; lia|].
    rewrite E2. fold body in Hblen. unfold body in Hblen. rewrite E1, body_of_app, app_length in Hblen. lia. }
  rewrite RS.
  assert (PR : parse_records (S blen) typ hs blk (hdr + 4) (length (head ++ body)) [] []
               = Some (ents_out hs (hdr + 4) es)).
  { rewrite app_length, <- Lh. unfold blk, body.
    rewrite (parse_records_chain typ hs es head (rtable rs ++ c16) [] (S blen) []); try assumption.
    - reflexivity.
    - pose proof (chain_len _ _ _ Hc). lia. }
  rewrite PR.
  set (recs := ents_out hs (hdr + 4) es).
  rewrite (ascending_sorted rs Hsrt). cbn [negb].
  assert (FA : forallb (fun r => existsb (Nat.eqb r)
                 (map (fun x => fst (fst x)) (filter (fun x => snd (fst x)) recs))) rs = true).
  { apply forallb_forall. intros r Hr. apply existsb_exists. exists r. split; [|apply Nat.eqb_refl].
    rewrite Forall_forall in Hzero. destruct (Hzero r Hr) as (es1 & e & es2 & E1 & E2 & E3).
    apply in_map_iff. exists (r, true, rec_read hs (e_rec e)). split; [reflexivity|].
    apply filter_In. split; [|reflexivity].
    unfold recs. rewrite E1, ents_out_app. apply in_or_app. right. cbn [ents_out]. left.
    rewrite E1 in Hc. destruct (chain_mid _ _ _ _ _ Hc) as (pv & W).
    rewrite (p0_of_zero _ _ _ W E3), E2. reflexivity. }
  cbv zeta. rewrite FA. cbn [negb].
  assert (MS : map snd recs = map (rec_read hs) (map e_rec es)) by apply ents_out_snd.
  assert (KA : keys_ascending None (map snd recs) = true).
  { rewrite MS. apply keys_asc_sorted; [exact Hso|exact I]. }
  assert (HE : exists p r t, recs = (hdr + 4, p, r)%nat :: t).
  { unfold recs. destruct es as [|e0 t0]; [congruence|]. cbn [ents_out]. eauto. }
  clearbody recs. destruct HE as (p & r & t & ->). destruct Hfirst as (t' & ->).
  rewrite Nat.eqb_refl. cbn [negb]. rewrite KA. cbn [negb]. rewrite MS, last_read_key. reflexivity.
Qed.

(* ------------------------------------------------------------------ *)
(* 4.-6. one chunk *)

Lemma be_at_head : forall (fh : bytes) typ n Y hdr, length fh = hdr -> n < 16777216 ->
  be_at 3 (hdr + 1) ((fh ++ typ :: be24 n) ++ Y) = n.
Proof.
  intros fh typ n Y hdr L H. unfold be_at, slice.
  replace ((fh ++ typ :: be24 n) ++ Y) with ((fh ++ [typ]) ++ be24 n ++ Y)
    by (rewrite <- !app_assoc; reflexivity).
  rewrite skipn_app_len' by (rewrite app_length; cbn [length]; lia).
  rewrite firstn_app_len' by (rewrite be24_length; reflexivity).
  apply be24_value. exact H.
Qed.

Lemma all_zero_zeros : forall n, all_zero (zeros n) = true.
Proof. induction n as [|n IH]; [reflexivity|]. cbn [zeros repeat all_zero]. exact IH. Qed.

Section PB.
  Variable deflate : bytes -> bytes.
  Variable inflate : bytes -> inflate_result.
  Hypothesis Hz : zlib_ok deflate inflate.
  Variable c : config.
  Variable mn mx : N.
  Hypothesis Hbs : 64 <= c_block_size c < 16777216.

  Lemma hs_pos' : (0 < hash_size c)%nat.
  Proof. unfold hash_size. destruct (c_sha256 c); lia. Qed.

  (* chunk_split of TableProofs, without a reader *)
  Lemma chunk_split' : forall fcs pre k post, fcs = pre ++ k :: post ->
    chunks_at deflate c mn mx 0 fcs -> last_pad fcs = 0%nat ->
    skipn (N.to_nat (llen pre)) (layout fcs) = ck_raw k ++ zeros (ck_pad k) ++ layout post /\
    chunk_at deflate c mn mx (llen pre) k /\
    (post = [] -> ck_pad k = 0%nat) /\
    (post <> [] -> exists t rest, layout post = t :: rest /\ t <> 0).
  Proof.
    intros fcs pre k post E Hchunks Hlast. pose proof Hchunks as C. rewrite E in C.
    apply chunks_at_app in C. destruct C as [_ C]. rewrite N.add_0_l in C. fold (llen pre) in C.
    cbn [chunks_at] in C. destruct C as [Ck Cp].
    split.
    { rewrite E, layout_app. unfold llen. rewrite Nat2N.id, skipn_app_len.
      unfold layout at 1. cbn [flat_map]. unfold ck_bytes. rewrite <- app_assoc. reflexivity. }
    split; [exact Ck|]. split.
    - intros ->. pose proof Hlast as L. rewrite E in L. rewrite last_pad_snoc in L. exact L.
    - intros NE. destruct post as [|k2 post2]; [congruence|]. cbn [chunks_at] in Cp. destruct Cp as [C2 _].
      pose proof (chunk_at_len _ _ _ _ _ _ Ck) as L4.
      destruct C2 as (T2 & _ & (w2 & A2 & R2) & _).
      destruct (bw_finish_head deflate (blk_file_hdr c mn mx (llen pre + N.of_nat (length (ck_bytes k)))) w2)
        as (b3 & tl & E2 & _).
      assert (Z : blk_file_hdr c mn mx (llen pre + N.of_nat (length (ck_bytes k))) = []).
      { unfold blk_file_hdr. unfold ck_bytes. rewrite app_length.
        destruct (N.eqb_spec (llen pre + N.of_nat (length (ck_raw k) + length (zeros (ck_pad k)))) 0); [lia|reflexivity]. }
      rewrite Z in E2, R2. cbn [app] in E2.
      exists (bw_typ w2), (b3 ++ tl ++ zeros (ck_pad k2) ++ layout post2).
      split.
      + unfold layout. cbn [flat_map]. unfold ck_bytes. rewrite R2, E2. cbn [app]. rewrite <- !app_assoc. reflexivity.
      + apply is_block_type_nonzero. apply bw_add_all_same in A2. destruct A2 as [A2 _].
        rewrite A2. exact T2.
  Qed.

  (* the shape of a written block, down to entries and restarts *)
  Lemma chunk_shape : forall off k, chunk_at deflate c mn mx off k ->
    exists es rs nxt,
      ck_raw k = (blk_file_hdr c mn mx off ++ ck_typ k :: be24 (N.of_nat nxt)) ++
                 (if ck_typ k =? typ_log
                  then deflate (body_of es ++ rtable rs ++ be16 (N.of_nat (length rs)))
                  else body_of es ++ rtable rs ++ be16 (N.of_nat (length rs))) /\
      nxt = (blk_hdr c off + 4 + length (body_of es) + 3 * length rs + 2)%nat /\
      (nxt <= N.to_nat (c_block_size c))%nat /\
      map e_rec es = ck_recs k /\ es <> [] /\
      chain (hash_size c) [] es /\
      (exists t, rs = (blk_hdr c off + 4)%nat :: t) /\ StronglySorted lt rs /\
      Forall (is_zero_off (blk_hdr c off + 4) es) rs /\ N.of_nat (length rs) <= 65535.
  Proof.
    intros off k (T & NE & (w & A & R) & _).
    unfold fresh_bw in A.
    destruct (bw_add_all_inv (hash_size c) (ck_recs k) _ [] w (winv_new _ _ _ _ _) A) as (es & E & W & S).
    destruct (bw_restarts_shape _ _ _ _ _ _ _ NE A) as (F1 & F2 & F3 & F4 & F5).
    destruct S as (St & Sh & Ss & _). cbn [bw_new bw_typ bw_hdr bw_size] in St, Sh, Ss.
    cbn [app] in W.
    assert (NEes : es <> []) by (intros ->; apply NE; symmetry; exact E).
    pose proof (wi_fit _ _ _ W NEes) as F. unfold bw_next in F.
    rewrite (wi_body _ _ _ W), Sh, Ss in F. unfold bsz in F.
    exists es, (bw_restarts w), (blk_hdr c off + 4 + length (body_of es) + 3 * length (bw_restarts w) + 2)%nat.
    split.
    { rewrite R. rewrite bw_finish_finished by (rewrite Sh; apply blk_file_hdr_length).
      unfold finished. rewrite St, (wi_body _ _ _ W), blk_file_hdr_length.
      destruct (ck_typ k =? typ_log); rewrite <- !app_assoc; reflexivity. }
    split; [reflexivity|]. split; [lia|]. split; [exact E|]. split; [exact NEes|].
    split; [apply W|]. split; [exact F1|]. split; [exact F2|]. split; [|exact F4].
    pose proof (wi_rest _ _ _ W) as Wr. rewrite Sh in Wr. exact Wr.
  Qed.

  Theorem parse_block_chunk : forall fcs tail pre k post data,
    fcs = pre ++ k :: post ->
    chunks_at deflate c mn mx 0 fcs -> last_pad fcs = 0%nat ->
    data = layout fcs ++ tail ->
    strong c k ->
    parse_block (sinfl_of inflate) data (llen fcs) (c_block_size c) (hash_size c) (llen pre)
                (if llen pre =? 0 then header_size c else 0%nat) = inr (sblk c (llen pre) k).
  Proof.
    intros fcs tail pre k post data E Hch Hlast Hdata OK.
    destruct (chunk_split' fcs pre k post E Hch Hlast) as (SK & CA & P0 & PN).
    set (off := llen pre) in *.
    destruct (chunk_shape off k CA) as (es & rs & nxt & RS & Hn & LB & Erec & NEes & Hc & Hfirst & Hsrt & Hzero & Hcnt).
    pose proof CA as (T & NE & _ & PR).
    destruct OK as [Hdom Hso].
    change (if off =? 0 then header_size c else 0%nat) with (blk_hdr c off).
    unfold sblk.
    set (hdr := blk_hdr c off) in *.
    set (fh := blk_file_hdr c mn mx off) in *.
    assert (Lfh : length fh = hdr) by apply blk_file_hdr_length.
    set (hs := hash_size c) in *.
    set (payload := body_of es ++ rtable rs ++ be16 (N.of_nat (length rs))) in *.
    assert (Lp : length payload = (length (body_of es) + 3 * length rs + 2)%nat).
    { unfold payload. rewrite !app_length, rtable_length, be16_length. lia. }
    set (head := fh ++ ck_typ k :: be24 (N.of_nat nxt)) in *.
    assert (R' : exists tlr, tlr = (if ck_typ k =? typ_log then deflate payload else payload) /\
                             ck_raw k = head ++ tlr) by (eexists; split; [reflexivity|exact RS]).
    clear RS. destruct R' as (tlr & Etlr & RS).
    assert (Lh : length head = (hdr + 4)%nat).
    { unfold head. rewrite app_length. cbn [length]. rewrite be24_length. lia. }
    remember (zeros (ck_pad k) ++ layout post) as X eqn:EX.
    assert (Hsm : N.of_nat nxt < 16777216) by lia.
    assert (AV : skipn (N.to_nat off) (firstn (N.to_nat (llen fcs)) data) = head ++ tlr ++ X).
    { rewrite Hdata. unfold llen at 1. rewrite Nat2N.id, firstn_app_len.
      rewrite SK, RS, <- app_assoc. reflexivity. }
    assert (G1 : N.to_nat (be_at 3 (hdr + 1) (ck_raw k)) = nxt).
    { rewrite RS. unfold head. rewrite be_at_head by assumption. apply Nat2N.id. }
    rewrite G1.
    assert (Hdom' : Forall (fun e => rec_dom (ck_typ k) hs (e_rec e)) es).
    { rewrite <- Erec in Hdom. rewrite Forall_map in Hdom. exact Hdom. }
    rewrite <- Erec in Hso.
    pose proof (fun next => pb_tail_spec (ck_typ k) hs off hdr head es rs next nxt hs_pos' Lh NEes Hc Hdom' Hso
                              Hfirst Hsrt Hzero Hcnt Hn Hsm) as TAIL.
    fold payload in TAIL. rewrite Erec in TAIL.
    unfold parse_block. rewrite AV.
    set (avail := head ++ tlr ++ X).
    assert (Lav : length avail = (hdr + 4 + length tlr + length X)%nat).
    { unfold avail. rewrite !app_length. lia. }
    assert (Nav : nth hdr avail 0 = ck_typ k).
    { unfold avail. rewrite app_nth1 by lia. unfold head. rewrite <- Lfh. apply nth_middle. }
    assert (Bav : N.to_nat (be_at 3 (hdr + 1) avail) = nxt).
    { unfold avail, head. rewrite be_at_head by assumption. apply Nat2N.id. }
    assert (F4 : firstn (hdr + 4) avail = head) by (apply firstn_app_len'; auto).
    assert (S4 : skipn (hdr + 4) avail = tlr ++ X) by (apply skipn_app_len'; auto).
    cbv zeta.
    destruct (Nat.ltb_spec (length avail) (hdr + 4)) as [L|_]; [lia|].
    rewrite Nav, T. cbn [negb]. rewrite Bav.
    destruct (Nat.ltb_spec nxt (hdr + 4 + 2)) as [L|_]; [lia|].
    destruct (ck_typ k =? typ_log) eqn:TL.
    - (* log block: inflated *)
      subst tlr. rewrite S4. unfold sinfl_of. rewrite Hz.
      assert (Nat.eqb (hdr + 4 + length payload) nxt = true) as -> by (apply Nat.eqb_eq; lia).
      cbn [negb sbind]. rewrite F4.
      assert (PZ : ck_pad k = 0%nat) by (destruct PR as [Z|[NL _]]; [exact Z|lia]).
      replace (off + N.of_nat (hdr + 4 + length (deflate payload)))
        with (off + N.of_nat (length (ck_bytes k))).
      2:{ unfold ck_bytes. rewrite PZ, RS. cbn [zeros repeat]. rewrite app_nil_r, app_length, Lh. reflexivity. }
      apply TAIL.
    - (* other blocks: cut at the length field, padding rule *)
      subst tlr.
      destruct (Nat.ltb_spec (length avail) nxt) as [L|_]; [lia|].
      assert (FN : firstn nxt avail = head ++ payload).
      { unfold avail. rewrite app_assoc. apply firstn_app_len'. rewrite app_length. lia. }
      assert (SN : skipn nxt avail = X).
      { unfold avail. rewrite app_assoc. apply skipn_app_len'. rewrite app_length. lia. }
      rewrite FN, SN.
      assert (LR : length (ck_raw k) = nxt) by (rewrite RS, app_length; lia).
      destruct (Nat.eq_dec (ck_pad k) 0) as [PZ|PNZ].
      + assert (LK : off + N.of_nat (length (ck_bytes k)) = off + N.of_nat nxt).
        { unfold ck_bytes. rewrite PZ. cbn [zeros repeat]. rewrite app_nil_r, LR. reflexivity. }
        rewrite LK. rewrite PZ in EX. cbn [zeros repeat app] in EX.
        destruct post as [|k2 post2].
        * cbn [layout flat_map] in EX. subst X. cbn [sbind]. apply TAIL.
        * destruct (PN ltac:(discriminate)) as (t & rest & EL & NZ).
          rewrite EL in EX. subst X.
          destruct (N.eqb_spec t 0) as [Z|_]; [congruence|]. cbn [negb sbind]. apply TAIL.
      + destruct PR as [PZ|[_ PB]]; [congruence|]. unfold bsz in PB.
        assert (LK : off + N.of_nat (length (ck_bytes k)) = off + c_block_size c).
        { unfold ck_bytes. rewrite app_length, zeros_length. lia. }
        rewrite LK.
        assert (FX : firstn (ck_pad k) X = zeros (ck_pad k)).
        { rewrite EX. apply firstn_app_len'. rewrite zeros_length. reflexivity. }
        assert (LX : (ck_pad k <= length X)%nat).
        { rewrite EX, app_length, zeros_length. lia. }
        destruct X as [|b X'].
        { cbn [length] in LX. lia. }
        assert (b = 0) as ->.
        { destruct (ck_pad k) as [|m]; [congruence|]. cbn [zeros repeat app] in EX. congruence. }
        change (0 =? 0) with true. cbn [negb].
        destruct (N.eqb_spec (c_block_size c) 0) as [Z|_]; [lia|].
        destruct (N.ltb_spec (c_block_size c) (N.of_nat nxt)) as [Z|_]; [lia|]. cbn [orb].
        replace (N.to_nat (c_block_size c) - nxt)%nat with (ck_pad k) by lia.
        destruct (Nat.ltb_spec (length (0 :: X')) (ck_pad k)) as [Z|_]; [lia|].
        rewrite FX, all_zero_zeros. cbn [negb sbind]. apply TAIL.
  Qed.

  (* ---------------------------------------------------------------- *)
  (* 7. all chunks *)

  Lemma llen_snoc : forall pre k, llen (pre ++ [k]) = llen pre + N.of_nat (length (ck_bytes k)).
  Proof.
    intros. rewrite llen_app, llen_cons. change (llen []) with 0. rewrite N.add_0_r. reflexivity.
  Qed.

  Lemma parse_blocks_gen : forall fcs tail data,
    chunks_at deflate c mn mx 0 fcs -> last_pad fcs = 0%nat ->
    data = layout fcs ++ tail -> Forall (strong c) fcs ->
    forall post pre fuel acc, fcs = pre ++ post -> (length (layout post) < fuel)%nat ->
    parse_blocks (sinfl_of inflate) fuel data (llen fcs) (c_block_size c) (hash_size c) (header_size c)
                 (llen pre) acc
    = inr (rev acc ++ sblks c (llen pre) post).
  Proof.
    intros fcs tail data Hch Hl Hd Hst.
    induction post as [|k post IH]; intros pre fuel acc E Hf.
    - destruct fuel; [lia|]. cbn [parse_blocks sblks]. rewrite app_nil_r in E. rewrite <- E.
      rewrite N.leb_refl, N.eqb_refl, app_nil_r. reflexivity.
    - destruct fuel; [lia|]. cbn [parse_blocks].
      destruct (chunk_split' fcs pre k post E Hch Hl) as (_ & CA & _ & _).
      pose proof (chunk_at_len _ _ _ _ _ _ CA) as L4.
      assert (LK : (4 <= length (ck_bytes k))%nat) by (unfold ck_bytes; rewrite app_length; lia).
      assert (LF : llen fcs = llen pre + N.of_nat (length (ck_bytes k)) + llen post).
      { rewrite E, llen_app, llen_cons. lia. }
      destruct (N.leb_spec (llen fcs) (llen pre)) as [X|_]; [lia|].
      assert (SK : strong c k).
      { rewrite E in Hst. apply Forall_app in Hst. destruct Hst as [_ Hst]. inversion Hst; assumption. }
      rewrite (parse_block_chunk fcs tail pre k post data E Hch Hl Hd SK). cbn [sbind].
      change (sb_next (sblk c (llen pre) k)) with (llen pre + N.of_nat (length (ck_bytes k))).
      destruct (N.leb_spec (llen pre + N.of_nat (length (ck_bytes k))) (llen pre)) as [X|_]; [lia|].
      rewrite <- llen_snoc.
      rewrite (IH (pre ++ [k]) fuel (sblk c (llen pre) k :: acc)).
      + cbn [rev sblks]. rewrite <- app_assoc. cbn [app]. rewrite llen_snoc. reflexivity.
      + rewrite <- app_assoc. exact E.
      + change (layout (k :: post)) with (ck_bytes k ++ layout post) in Hf. rewrite app_length in Hf. lia.
  Qed.

  Theorem parse_blocks_all : forall fcs tail data,
    chunks_at deflate c mn mx 0 fcs -> last_pad fcs = 0%nat ->
    data = layout fcs ++ tail ->
    Forall (strong c) fcs ->
    parse_blocks (sinfl_of inflate) (S (length data)) data (llen fcs) (c_block_size c) (hash_size c) (header_size c) 0 []
    = inr (sblks c 0 fcs).
  Proof.
    intros fcs tail data Hch Hl Hd Hst.
    pose proof (parse_blocks_gen fcs tail data Hch Hl Hd Hst fcs [] (S (length data)) [] eq_refl) as G.
    change (llen []) with 0 in G. cbn [rev app] in G. apply G.
    rewrite Hd, app_length. lia.
  Qed.
End PB.

(* ====================================================================== *)
(* PART 3 (writer side): the final layout with the object section and all footer fields (written3) *)
(* ====================================================================== *)

(* C14, writer side: the final layout of a written table with the object
   section, its index and the footer fields (extends written2 of SeekProofs). *)


(* ------------------------------------------------------------------ *)
(* frame: what does not touch the object statistics *)

Definition keepo (st st' : wstate) : Prop :=
  w_objs st' = w_objs st /\ w_idlen st' = w_idlen st /\ w_obj st' = w_obj st.

Lemma keepo_refl : forall st, keepo st st.
Proof. intros. unfold keepo. auto. Qed.

Lemma keepo_trans : forall a b c, keepo a b -> keepo b c -> keepo a c.
Proof. unfold keepo. intros a b c (A1 & A2 & A3) (B1 & B2 & B3). repeat split; congruence. Qed.

Definition bw_not_obj (st : wstate) : Prop :=
  match w_bw st with Some b => bw_typ b <> typ_obj | None => True end.

Section KeepW.
  Variable deflate : bytes -> bytes.

  Lemma flush_keepo : forall st, bw_not_obj st -> keepo st (flush_block deflate st).
  Proof.
    intros st H. unfold flush_block, bw_not_obj in *. destruct (w_bw st) as [b|]; [|apply keepo_refl].
    destruct (Nat.eqb (bw_entries b) 0); [apply keepo_refl|].
    cbv zeta. unfold keepo. cbn [set_obj upd set_stats w_objs w_idlen w_obj].
    destruct (N.eqb_spec (bw_typ b) typ_obj); [congruence|]. auto.
  Qed.

  Lemma flush_bw : forall st, w_bw (flush_block deflate st) = None \/ flush_block deflate st = st.
  Proof.
    intros st. unfold flush_block. destruct (w_bw st) as [b|]; [|right; reflexivity].
    destruct (Nat.eqb (bw_entries b) 0); [right; reflexivity|]. left. reflexivity.
  Qed.

  Lemma bw_add_typ : forall b r b', bw_add b r = Ok (Some b') -> bw_typ b' = bw_typ b.
  Proof.
    intros b r b' H. apply bw_add_inv in H.
    destruct H as (? & ? & ? & ? & ? & _ & _ & _ & _ & _ & _ & S & _). apply S.
  Qed.

  Lemma index_level_keepo : forall idx st st' b,
    w_bw st = Some b -> bw_typ b = typ_idx ->
    index_level deflate st idx = Ok st' -> keepo st st'.
  Proof.
    induction idx as [|[k off] rest IH]; intros st st' b B T H; cbn [index_level] in H.
    - apply Ok_inj in H. subst. apply keepo_refl.
    - rewrite B in H.
      destruct (bw_add b (RecIdx k off)) as [[b'|]| | |] eqn:A; cbn [bind] in H; try discriminate.
      + apply (IH (set_bw st (Some b')) st' b' eq_refl); [|exact H].
        rewrite (bw_add_typ _ _ _ A). exact T.
      + destruct (bw_add (new_bw (flush_block deflate st) typ_idx) (RecIdx k off)) as [[b2|]| | |] eqn:A2;
          cbn [bind] in H; try discriminate.
        eapply keepo_trans; [apply flush_keepo; unfold bw_not_obj; rewrite B, T; discriminate|].
        apply (IH (set_bw (flush_block deflate st) (Some b2)) st' b2 eq_refl); [|exact H].
        rewrite (bw_add_typ _ _ _ A2). reflexivity.
  Qed.

  Lemma index_level_bw : forall idx st st' b,
    w_bw st = Some b -> bw_typ b = typ_idx ->
    index_level deflate st idx = Ok st' -> exists b', w_bw st' = Some b' /\ bw_typ b' = typ_idx.
  Proof.
    induction idx as [|[k off] rest IH]; intros st st' b B T H; cbn [index_level] in H.
    - apply Ok_inj in H. subst. eauto.
    - rewrite B in H.
      destruct (bw_add b (RecIdx k off)) as [[b'|]| | |] eqn:A; cbn [bind] in H; try discriminate.
      + apply (IH (set_bw st (Some b')) st' b' eq_refl); [|exact H]. rewrite (bw_add_typ _ _ _ A). exact T.
      + destruct (bw_add (new_bw (flush_block deflate st) typ_idx) (RecIdx k off)) as [[b2|]| | |] eqn:A2;
          cbn [bind] in H; try discriminate.
        apply (IH (set_bw (flush_block deflate st) (Some b2)) st' b2 eq_refl); [|exact H]. rewrite (bw_add_typ _ _ _ A2). reflexivity.
  Qed.

  Lemma index_levels_keepo : forall fuel st thr is ml st' is' ml',
    index_levels deflate fuel st thr is ml = Ok (st', is', ml') -> keepo st st'.
  Proof.
    induction fuel as [|f IH]; intros st thr is ml st' is' ml' H; cbn [index_levels] in H; [discriminate|].
    destruct (Nat.ltb thr (length (w_index st))).
    - set (st0 := set_index (set_bw st (Some (new_bw st typ_idx))) []) in *.
      destruct (index_level deflate st0 (w_index st)) as [st1| | |] eqn:IL; cbn [bind] in H; try discriminate.
      assert (K1 : keepo st st1).
      { eapply keepo_trans; [|eapply (index_level_keepo _ st0 st1 (new_bw st typ_idx)); [reflexivity|reflexivity|exact IL]].
        unfold keepo. auto. }
      destruct (index_level_bw _ st0 st1 (new_bw st typ_idx) eq_refl eq_refl IL) as (b1 & B1 & T1).
      assert (K2 : keepo st (flush_block deflate st1)).
      { eapply keepo_trans; [exact K1|]. apply flush_keepo. unfold bw_not_obj. rewrite B1, T1. discriminate. }
      destruct (Nat.leb (length (w_index st)) (length (w_index (flush_block deflate st1)))).
      + apply Ok_inj in H. injection H as <- _ _. exact K2.
      + eapply keepo_trans; [exact K2|]. eapply IH. exact H.
    - apply Ok_inj in H. injection H as <- _ _. apply keepo_refl.
  Qed.

  Lemma finish_section_keepo : forall st st' b, finish_section deflate st = Ok st' -> w_bw st = Some b ->
    bw_typ b <> typ_obj -> keepo st st'.
  Proof.
    intros st st' b H B NT. unfold finish_section in H. rewrite B in H.
    destruct (index_levels deflate (S (length (w_index (flush_block deflate st)))) (flush_block deflate st)
                (if c_unaligned (w_cfg st) then 1%nat else 3%nat) 0 0)
      as [[[st2 is2] ml2]| | |] eqn:IL; cbn [bind] in H; try discriminate.
    apply Ok_inj in H. subst st'. apply index_levels_keepo in IL.
    assert (K1 : keepo st (flush_block deflate st)) by (apply flush_keepo; unfold bw_not_obj; rewrite B; exact NT).
    destruct (keepo_trans _ _ _ K1 IL) as (A1 & A2 & A3).
    unfold keepo. cbn [set_last_key upd set_stats set_index w_objs w_idlen w_obj].
    destruct (N.eqb_spec (bw_typ b) typ_obj); [congruence|]. auto.
  Qed.

  Lemma w_add_keepo : forall st r st', rec_typ r <> typ_obj -> w_add deflate st r = Ok st' -> keepo st st'.
  Proof.
    intros st r st' NT H. apply w_add_ok_core in H; unfold w_add_core in H.
    destruct (negb (bytes_ltb (w_last_key st) (rec_key r))); [discriminate|].
    set (st0 := set_last_key st (rec_key r)) in *.
    set (st1 := match w_bw st0 with None => set_bw st0 (Some (new_bw st0 (rec_typ r))) | Some _ => st0 end) in *.
    assert (K1 : keepo st st1) by (unfold st1; destruct (w_bw st0); unfold keepo; auto).
    clearbody st1.
    destruct (w_bw st1) as [b|] eqn:B; [|discriminate].
    destruct (N.eqb_spec (bw_typ b) (rec_typ r)) as [TB|]; cbn [negb] in H; [|discriminate].
    destruct (bw_add b r) as [[b'|]| | |]; cbn [bind] in H; try discriminate.
    - apply Ok_inj in H. subst. eapply keepo_trans; [exact K1|]. unfold keepo. auto.
    - destruct (bw_add (new_bw (flush_block deflate st1) (rec_typ r)) r) as [[b2|]| | |]; cbn [bind] in H;
        try discriminate.
      apply Ok_inj in H. subst. eapply keepo_trans; [exact K1|].
      eapply keepo_trans; [apply flush_keepo; unfold bw_not_obj; rewrite B; congruence|]. unfold keepo. auto.
  Qed.
End KeepW.

(* ------------------------------------------------------------------ *)
(* the chain of SeekProofs/TableProofs again, now keeping the object index *)

Lemma events_app : forall a b, events (a ++ b) = events a ++ events b.
Proof. intros. unfold events. apply flat_map_app. Qed.

Lemma events_one : forall pos recs, events [(pos, recs)] = blk_events pos recs.
Proof. intros. unfold events. cbn [flat_map fst snd]. apply app_nil_r. Qed.

Lemma blk_events_app : forall pos a b, blk_events pos (a ++ b) = blk_events pos a ++ blk_events pos b.
Proof. intros. unfold blk_events. apply flat_map_app. Qed.

Lemma objs_of_app : forall a b,
  objs_of (a ++ b) = fold_left (fun o e => obj_insert (snd e) (fst e) o) b (objs_of a).
Proof. intros. unfold objs_of. apply fold_left_app. Qed.

Lemma E_unpad : forall cs, E (unpad cs) = E cs.
Proof. intros. unfold E. rewrite unpad_recs. reflexivity. Qed.

Section W3.
  Variable deflate : bytes -> bytes.
  Variable c : config.
  Variable mn mx : N.

  Let SI_ := SI deflate c mn mx.
  Let WI_ := WI deflate c mn mx.

  (* ---- Writer.add, with the exact shape of the new section state ---- *)

  Lemma w_add_SI2 : forall T st cs0 sec cur L r st',
    SI deflate c mn mx T st cs0 sec cur L -> is_block_type T = true -> rec_typ r = T -> T <> typ_obj ->
    w_add deflate st r = Ok st' ->
    exists sec' cur', SI deflate c mn mx T st' cs0 sec' cur' (L ++ [r]) /\ w_bw st' <> None /\ keepo st st' /\
      (T <> typ_log -> w_log st' = w_log st) /\
      ((sec' = sec /\ cur' = cur ++ [r]) \/
       (exists k, sec' = sec ++ [k] /\ ck_recs k = cur /\ cur' = [r])).
  Proof.
    intros T st cs0 sec cur L r st' S HT Hr NO H.
    pose proof (w_add_keepo deflate st r st' ltac:(congruence) H) as K.
    apply w_add_ok_core in H; unfold w_add_core in H.
    destruct (bytes_ltb (w_last_key st) (rec_key r)); cbn [negb] in H; [|discriminate].
    set (st0 := set_last_key st (rec_key r)) in *.
    assert (S0 : SI deflate c mn mx T st0 cs0 sec cur L) by (eapply SI_frame; [..|exact S]; reflexivity).
    assert (G0 : w_log st0 = w_log st) by reflexivity.
    set (st1 := match w_bw st0 with None => set_bw st0 (Some (new_bw st0 (rec_typ r))) | Some _ => st0 end) in *.
    assert (S1 : SI deflate c mn mx T st1 cs0 sec cur L /\ w_log st1 = w_log st /\ w_bw st1 <> None).
    { unfold st1. destruct (w_bw st0) as [b0|] eqn:B0.
      - split; [exact S0|]. split; [exact G0|]. rewrite B0. discriminate.
      - split; [|split; [reflexivity|discriminate]].
        destruct S0 as [W ST SR SX SB]. pose proof (wi_bw _ _ _ _ _ _ _ W) as C. rewrite B0 in C. subst cur.
        constructor.
        + apply WI_new_bw; [exact W|]. rewrite Hr. exact HT.
        + exact ST.
        + exact SR.
        + exact SX.
        + cbn [set_bw upd w_bw]. rewrite (new_bw_fresh c) by apply W. exact Hr. }
    clearbody st1. destruct S1 as (S1 & G1 & N1).
    destruct (w_bw st1) as [b|] eqn:B1; [|congruence].
    pose proof (si_bw _ _ _ _ _ _ _ _ _ _ S1) as TB. rewrite B1 in TB.
    rewrite TB, Hr, N.eqb_refl in H. cbn [negb] in H.
    destruct (bw_add b r) as [a| | |] eqn:Ha; cbn [bind] in H; try discriminate.
    pose proof (add_step deflate c mn mx T st1 cs0 sec cur L r b a S1 HT B1 Ha) as AS.
    destruct a as [b'|].
    - apply Ok_inj in H. subst st'. exists sec, (cur ++ [r]). split; [exact AS|].
      split; [discriminate|]. split; [exact K|]. split; [intros _; exact G1|]. left. auto.
    - cbv zeta in AS.
      destruct (bw_add (new_bw (flush_block deflate st1) T) r) as [a2| | |] eqn:Ha2; cbn [bind] in H; try discriminate.
      specialize (AS a2 eq_refl). destruct a2 as [b2|]; [|discriminate].
      apply Ok_inj in H. subst st'.
      destruct AS as (k & S2 & _ & RK & _ & _ & G2 & NX).
      exists (sec ++ [k]), [r]. split; [exact S2|]. split; [discriminate|]. split; [exact K|].
      split.
      + intros NL. cbn [set_bw upd w_log]. rewrite G2, G1. destruct (N.eqb_spec T typ_log); [congruence|reflexivity].
      + right. exists k. auto.
  Qed.

  (* ---- the object index while refs are added ---- *)

  Definition OI (st : wstate) (sec : list chunk) (cur : list record) : Prop :=
    if c_skip_index_objects c then w_obj st = []
    else w_obj st = objs_of (events (posrecs 0 sec) ++ blk_events (llen sec) cur).

  Lemma ih_fold : forall st hs, w_cfg st = c ->
    let st' := fold_left (fun s h => index_hash s h) hs st in
    w_obj st' = (if c_skip_index_objects c then w_obj st
                 else fold_left (fun o e => obj_insert (snd e) (fst e) o) (map (pair (w_next st)) hs) (w_obj st)) /\
    w_next st' = w_next st /\ w_cfg st' = c /\ w_objs st' = w_objs st /\ w_idlen st' = w_idlen st /\
    w_log st' = w_log st /\ w_bw st' = w_bw st /\
    (forall T cs0 sec cur L, SI deflate c mn mx T st cs0 sec cur L -> SI deflate c mn mx T st' cs0 sec cur L).
  Proof.
    intros st hs. revert st. induction hs as [|h t IH]; intros st CF; cbn [fold_left map].
    - destruct (c_skip_index_objects c); (split; [reflexivity|]); do 6 (split; [auto|]); auto.
    - assert (F : w_cfg (index_hash st h) = c /\ w_next (index_hash st h) = w_next st /\
                  w_objs (index_hash st h) = w_objs st /\ w_idlen (index_hash st h) = w_idlen st /\
                  w_log (index_hash st h) = w_log st /\ w_bw (index_hash st h) = w_bw st /\
                  w_obj (index_hash st h) = (if c_skip_index_objects c then w_obj st
                                             else obj_insert h (w_next st) (w_obj st)) /\
                  (forall T cs0 sec cur L, SI deflate c mn mx T st cs0 sec cur L ->
                                           SI deflate c mn mx T (index_hash st h) cs0 sec cur L)).
      { unfold index_hash. rewrite CF. destruct (c_skip_index_objects c).
        - do 7 (split; [auto|]). auto.
        - do 7 (split; [auto|]). intros. eapply SI_frame; [..|eassumption]; reflexivity. }
      destruct F as (F1 & F2 & F3 & F4 & F5 & F6 & F7 & F8).
      destruct (IH (index_hash st h) F1) as (A1 & A2 & A3 & A4 & A5 & A6 & A7 & A8).
      cbv zeta in *. rewrite A1, A2, A4, A5, A6, A7, F2, F3, F4, F5, F6, F7.
      split; [destruct (c_skip_index_objects c); reflexivity|].
      do 6 (split; [auto|]). intros. apply A8. apply F8. assumption.
  Qed.

  Lemma w_add_ref_SI2 : forall st sec cur L r st',
    SI deflate c mn mx typ_ref st [] sec cur L -> OI st sec cur ->
    w_add_ref deflate st r = Ok st' ->
    exists sec' cur', SI deflate c mn mx typ_ref st' [] sec' cur' (L ++ [RecRef (delta_ref mn r)]) /\
      OI st' sec' cur' /\ w_bw st' <> None /\
      w_log st' = w_log st /\ w_objs st' = w_objs st /\ w_idlen st' = w_idlen st.
  Proof.
    intros st sec cur L r st' HS HO H. unfold w_add_ref in H.
    destruct (Nat.eqb (length (r_name r)) 0); [discriminate|].
    destruct ((r_index r <? w_min st) || (w_max st <? r_index r)); [discriminate|].
    rewrite (wi_min _ _ _ _ _ _ _ (si_wi _ _ _ _ _ _ _ _ _ _ HS)) in H. fold (delta_ref mn r) in H.
    destruct (w_add deflate st (RecRef (delta_ref mn r))) as [st1| | |] eqn:A; cbn [bind] in H; try discriminate.
    destruct (w_add_SI2 typ_ref st [] sec cur L (RecRef (delta_ref mn r)) st1 HS eq_refl eq_refl ltac:(discriminate) A)
      as (sec' & cur' & S1 & B1 & (K1 & K2 & K3) & G1 & SH).
    specialize (G1 ltac:(discriminate)).
    apply Ok_inj in H.
    assert (CF1 : w_cfg st1 = c) by (apply (si_wi _ _ _ _ _ _ _ _ _ _ S1)).
    assert (NX : w_next st1 = llen sec').
    { rewrite (wi_next _ _ _ _ _ _ _ (si_wi _ _ _ _ _ _ _ _ _ _ S1)). reflexivity. }
    assert (EQ : st' = fold_left (fun s h => index_hash s h) (ref_hashes r) st1).
    { rewrite <- H. unfold ref_hashes. destruct (r_val r); reflexivity. }
    destruct (ih_fold st1 (ref_hashes r) CF1) as (A1 & A2 & A3 & A4 & A5 & A6 & A7 & A8).
    cbv zeta in *. rewrite <- EQ in *.
    exists sec', cur'. split; [apply A8; exact S1|]. split.
    { unfold OI in *. rewrite A1. destruct (c_skip_index_objects c); [congruence|].
      rewrite K3, HO, NX.
      assert (EV : events (posrecs 0 sec') ++ blk_events (llen sec') cur' =
                   (events (posrecs 0 sec) ++ blk_events (llen sec) cur) ++ map (pair (llen sec')) (ref_hashes r)).
      { assert (B1' : forall p, blk_events p [RecRef (delta_ref mn r)] = map (pair p) (ref_hashes r)).
        { intros p. unfold blk_events. cbn [flat_map rec_hashes]. apply app_nil_r. }
        destruct SH as [(-> & ->)|(k & -> & RK & ->)].
        - rewrite blk_events_app, B1', <- !app_assoc. reflexivity.
        - rewrite posrecs_app, events_app. cbn [posrecs]. rewrite events_one, RK, N.add_0_l, B1', <- !app_assoc.
          reflexivity. }
      rewrite EV. symmetry. apply objs_of_app. }
    split; [rewrite A7; exact B1|]. split; [congruence|]. split; congruence.
  Qed.

  Lemma add_refs_SI2 : forall refs st sec cur L st',
    SI deflate c mn mx typ_ref st [] sec cur L -> OI st sec cur -> w_bw st <> None ->
    add_refs deflate st refs = Ok st' ->
    exists sec' cur', SI deflate c mn mx typ_ref st' [] sec' cur' (L ++ map RecRef (map (delta_ref mn) refs)) /\
      OI st' sec' cur' /\ w_bw st' <> None /\
      w_log st' = w_log st /\ w_objs st' = w_objs st /\ w_idlen st' = w_idlen st.
  Proof.
    induction refs as [|r t IH]; intros st sec cur L st' HS HO Hb H; cbn [add_refs] in H.
    - apply Ok_inj in H. subst st'. exists sec, cur. cbn [map]. rewrite app_nil_r. auto 10.
    - destruct (w_add_ref deflate st r) as [st1| | |] eqn:A; cbn [bind] in H; try discriminate.
      destruct (w_add_ref_SI2 _ _ _ _ _ _ HS HO A) as (sec1 & cur1 & S1 & O1 & B1 & G1 & G2 & G3).
      destruct (IH _ _ _ _ _ S1 O1 B1 H) as (sec' & cur' & S' & O' & B' & G1' & G2' & G3').
      exists sec', cur'. cbn [map].
      replace (L ++ RecRef (delta_ref mn r) :: map RecRef (map (delta_ref mn) t))
        with ((L ++ [RecRef (delta_ref mn r)]) ++ map RecRef (map (delta_ref mn) t)) by (rewrite <- app_assoc; reflexivity).
      split; [exact S'|]. split; [exact O'|]. split; [exact B'|]. repeat split; congruence.
  Qed.

  (* ---- finishSection of the ref and of the object section ---- *)

  Lemma finish_section3 : forall T st cs0 sec cur L st',
    SI deflate c mn mx T st cs0 sec cur L -> T = typ_ref \/ T = typ_obj -> w_bw st <> None ->
    finish_section deflate st = Ok st' ->
    exists sec1 lv,
      WI deflate c mn mx st' ((cs0 ++ sec1) ++ concat lv) [] /\
      Forall (fun k => ck_typ k = T) sec1 /\ E sec1 = L /\
      lchain (llen cs0) sec1 lv /\ w_index st' = [] /\
      (cur = [] -> sec1 = sec) /\ (cur <> [] -> exists k, sec1 = sec ++ [k] /\ ck_recs k = cur) /\
      w_obj st' = w_obj st /\ w_idlen st' = w_idlen st /\ w_log st' = w_log st /\
      (T = typ_ref -> w_objs st' = w_objs st /\
                      rio st' = (match lv with [] => 0 | _ => top_off (llen cs0) sec1 lv end) /\
                      (lv = [] -> ts_index_blocks (w_ref st') = 0%nat)) /\
      (T = typ_obj -> rio st' = rio st /\
                      let o1 := match cur with [] => w_objs st | _ => bump (w_objs st) (llen (cs0 ++ sec)) end in
                      ts_offset (w_objs st') = ts_offset o1 /\ ts_blocks (w_objs st') = ts_blocks o1 /\
                      ts_index_offset (w_objs st') = (match lv with [] => 0 | _ => top_off (llen cs0) sec1 lv end)).
  Proof.
    intros T st cs0 sec cur L st' HS HT Hb H.
    assert (HT' : is_block_type T = true) by (destruct HT as [-> | ->]; reflexivity).
    pose proof H as H0. unfold finish_section in H.
    destruct (w_bw st) as [b|] eqn:B; [|congruence].
    pose proof (si_bw _ _ _ _ _ _ _ _ _ _ HS) as TB. rewrite B in TB.
    destruct (flush_SI deflate c mn mx T st cs0 sec cur L HS ltac:(left; congruence)) as (sec1 & S1 & _ & C).
    (* what the flush does to the statistics *)
    assert (FS : w_obj (flush_block deflate st) = w_obj st /\ w_idlen (flush_block deflate st) = w_idlen st /\
                 w_objs (flush_block deflate st) =
                   (if T =? typ_obj then match cur with [] => w_objs st | _ => bump (w_objs st) (llen (cs0 ++ sec)) end
                    else w_objs st)).
    { destruct cur as [|x cur'].
      - rewrite (flush_block_nop deflate c mn mx _ _ (si_wi _ _ _ _ _ _ _ _ _ _ HS)).
        destruct (T =? typ_obj); auto.
      - destruct (flush_block_spec deflate c mn mx st (cs0 ++ sec) (x :: cur') b rdummy
                    (si_wi _ _ _ _ _ _ _ _ _ _ HS) B ltac:(discriminate))
          as (_ & _ & _ & _ & F1 & F2 & _ & _ & F3 & _).
        rewrite F1, F2, F3, TB. rewrite (wi_next _ _ _ _ _ _ _ (si_wi _ _ _ _ _ _ _ _ _ _ HS)).
        split; [reflexivity|]. split; [reflexivity|]. reflexivity. }
    set (st1 := flush_block deflate st) in *.
    destruct (index_levels deflate (S (length (w_index st1))) st1 (if c_unaligned (w_cfg st) then 1%nat else 3%nat) 0 0)
      as [[[st2 is2] ml2]| | |] eqn:IL; cbn [bind] in H; try discriminate.
    destruct (index_levels_spec _ _ _ _ _ _ _ _ _ _ _ _ _ _ _ _ S1 IL) as (lv & W2 & LC & G2 & I2 & NIL).
    pose proof (index_levels_keepo _ _ _ _ _ _ _ _ _ IL) as (K1 & K2 & K3).
    pose proof (index_levels_rio _ _ _ _ _ _ _ _ _ IL) as R2.
    destruct FS as (F1 & F2 & F3).
    assert (G1 : w_log st1 = w_log st).
    { destruct C as [(_ & _ & ->)|(k & _ & _ & _ & _ & _ & G)]; [reflexivity|]. rewrite G.
      destruct HT as [-> | ->]; reflexivity. }
    apply Ok_inj in H. subst st'.
    exists sec1, lv.
    split; [eapply WI_frame; [..|exact W2]; reflexivity|].
    split; [apply S1|].
    split; [pose proof (si_recs _ _ _ _ _ _ _ _ _ _ S1) as R; rewrite app_nil_r in R; exact R|].
    split; [exact LC|]. split; [reflexivity|].
    split; [intros ->; destruct C as [(E0 & _)|(k & _ & N & _)]; [exact E0|congruence]|].
    split; [intros N; destruct C as [(_ & E0 & _)|(k & E0 & _ & RK & _)]; [congruence|exists k; auto]|].
    rewrite TB.
    cbn [set_last_key upd set_stats set_index w_obj w_idlen w_log w_objs w_ref w_bw w_out w_pad w_next w_last_key
         w_index w_cfg w_min w_max w_idx w_blocks].
    split; [congruence|]. split; [congruence|].
    split.
    { destruct HT as [-> | ->]; cbn [N.eqb]; (change (typ_ref =? typ_log) with false || change (typ_obj =? typ_log) with false);
        cbv iota; congruence. }
    split.
    - intros ->. change (typ_ref =? typ_obj) with false in *. cbv iota in *.
      split; [congruence|].
      unfold rio. cbn [set_last_key upd set_stats set_index w_ref ts_index_offset ts_index_blocks].
      change (typ_ref =? typ_ref) with true. cbv iota. cbn [ts_index_offset ts_index_blocks].
      split; [exact I2|]. intros ->. rewrite (NIL eq_refl). lia.
    - intros ->. change (typ_obj =? typ_obj) with true in *. cbv iota in *.
      split.
      { unfold rio in *. cbn [set_last_key upd set_stats set_index w_ref].
        change (typ_obj =? typ_ref) with false. cbv iota. rewrite R2. apply flush_rio. }
      cbv zeta. unfold get_stats. cbn [set_index upd w_objs w_ref w_log].
      change (typ_obj =? typ_ref) with false. change (typ_obj =? typ_log) with false.
      change (typ_obj =? typ_obj) with true. cbv iota. cbn [ts_offset ts_blocks ts_index_offset].
      rewrite K1, F3. split; [reflexivity|]. split; [reflexivity|exact I2].
  Qed.

  (* ---- dumpObjectIndex ---- *)

  Definition OS (st : wstate) (cs0 sec : list chunk) : Prop :=
    (sec = [] -> ts_blocks (w_objs st) = 0%nat /\ ts_offset (w_objs st) = 0) /\
    (sec <> [] -> ts_blocks (w_objs st) <> 0%nat /\ ts_offset (w_objs st) = llen cs0).

  Lemma flush_OS : forall st cs0 sec cur L,
    SI deflate c mn mx typ_obj st cs0 sec cur L -> OS st cs0 sec -> w_bw st <> None ->
    exists sec1, SI deflate c mn mx typ_obj (flush_block deflate st) cs0 sec1 [] L /\
      OS (flush_block deflate st) cs0 sec1 /\
      w_log (flush_block deflate st) = w_log st /\ w_idlen (flush_block deflate st) = w_idlen st.
  Proof.
    intros st cs0 sec cur L HS [O1 O2] Hb.
    destruct (w_bw st) as [b|] eqn:B; [|congruence].
    destruct (flush_SI deflate c mn mx typ_obj st cs0 sec cur L HS ltac:(left; congruence)) as (sec1 & S1 & _ & C).
    exists sec1. split; [exact S1|].
    destruct C as [(-> & _ & ->)|(k & -> & NE & _ & _ & _ & G)].
    - split; [split; assumption|]. split; reflexivity.
    - destruct cur as [|x cur']; [congruence|].
      destruct (flush_block_spec deflate c mn mx st (cs0 ++ sec) (x :: cur') b rdummy
                  (si_wi _ _ _ _ _ _ _ _ _ _ HS) B ltac:(discriminate))
        as (_ & _ & _ & _ & _ & F2 & _ & _ & F3 & _).
      pose proof (si_bw _ _ _ _ _ _ _ _ _ _ HS) as TB. rewrite B in TB.
      rewrite TB in F3. change (typ_obj =? typ_obj) with true in F3. cbv iota in F3.
      rewrite (wi_next _ _ _ _ _ _ _ (si_wi _ _ _ _ _ _ _ _ _ _ HS)) in F3. fold (llen (cs0 ++ sec)) in F3.
      split; [|split; [rewrite G; reflexivity|exact F2]].
      split; [intros E0; apply app_eq_nil in E0; destruct E0; discriminate|]. intros _.
      rewrite F3. unfold bump. cbn [ts_blocks ts_offset]. split; [discriminate|].
      destruct sec as [|k0 sec0].
      + destruct (O1 eq_refl) as [Z _]. rewrite Z. cbn [Nat.eqb]. rewrite app_nil_r. reflexivity.
      + destruct (O2 ltac:(discriminate)) as [NZ OO]. destruct (Nat.eqb_spec (ts_blocks (w_objs st)) 0); [congruence|exact OO].
  Qed.

  Lemma dump_objs_SI3 : forall objs st idlen cs0 sec cur L st',
    SI deflate c mn mx typ_obj st cs0 sec cur L -> OS st cs0 sec -> w_bw st <> None ->
    dump_objs deflate st idlen objs = Ok st' ->
    exists sec' cur' L', SI deflate c mn mx typ_obj st' cs0 sec' cur' (L ++ L') /\ OS st' cs0 sec' /\
      Forall2 (fun r kv => obj_rec_of idlen kv r) L' objs /\
      w_bw st' <> None /\ w_log st' = w_log st /\ w_idlen st' = w_idlen st.
  Proof.
    induction objs as [|[k offs] rest IH]; intros st idlen cs0 sec cur L st' HS HO Hb H; cbn [dump_objs] in H.
    - apply Ok_inj in H. subst st'. exists sec, cur, []. rewrite app_nil_r. auto 10.
    - destruct (w_bw st) as [b|] eqn:B; [|congruence].
      destruct (bw_add b (RecObj (firstn idlen k) offs)) as [a| | |] eqn:Ha; cbn [bind] in H; try discriminate.
      destruct a as [b'|].
      + pose proof (add_step deflate c mn mx typ_obj st cs0 sec cur L _ b _ HS eq_refl B Ha) as AS. cbv beta iota in AS.
        destruct (IH _ _ _ _ _ _ _ AS HO ltac:(discriminate) H) as (sec' & cur' & L' & S' & O' & F' & B' & G' & I').
        exists sec', cur', (RecObj (firstn idlen k) offs :: L').
        split; [rewrite <- app_assoc in S'; exact S'|]. split; [exact O'|].
        split; [constructor; [left; reflexivity|exact F']|]. auto.
      + destruct (flush_OS st cs0 sec cur L HS HO ltac:(congruence)) as (sec1 & S1 & O1 & G1 & I1).
        set (st1 := flush_block deflate st) in *.
        destruct (bw_add (new_bw st1 typ_obj) (RecObj (firstn idlen k) offs)) as [a2| | |] eqn:Ha2; cbn [bind] in H;
          try discriminate.
        destruct a2 as [b2|].
        * pose proof (fresh_add_SI deflate c mn mx typ_obj st1 cs0 sec1 L _ b2 S1 eq_refl Ha2) as S2.
          destruct (IH _ _ _ _ _ _ _ S2 O1 ltac:(discriminate) H) as (sec' & cur' & L' & S' & O' & F' & B' & G' & I').
          exists sec', cur', (RecObj (firstn idlen k) offs :: L').
          split; [rewrite <- app_assoc in S'; exact S'|]. split; [exact O'|].
          split; [constructor; [left; reflexivity|exact F']|].
          split; [exact B'|]. split; [rewrite G'; exact G1|rewrite I'; exact I1].
        * destruct (bw_add (new_bw st1 typ_obj) (RecObj (firstn idlen k) [])) as [a3| | |] eqn:Ha3; cbn [bind] in H;
            try discriminate.
          destruct a3 as [b3|]; [|discriminate].
          pose proof (fresh_add_SI deflate c mn mx typ_obj st1 cs0 sec1 L _ b3 S1 eq_refl Ha3) as S2.
          destruct (IH _ _ _ _ _ _ _ S2 O1 ltac:(discriminate) H) as (sec' & cur' & L' & S' & O' & F' & B' & G' & I').
          exists sec', cur', (RecObj (firstn idlen k) [] :: L').
          split; [rewrite <- app_assoc in S'; exact S'|]. split; [exact O'|].
          split; [constructor; [right; reflexivity|exact F']|].
          split; [exact B'|]. split; [rewrite G'; exact G1|rewrite I'; exact I1].
  Qed.

  Lemma dump_object_index_spec3 : forall st cs st',
    WI deflate c mn mx st cs [] -> w_index st = [] -> w_objs st = tstats0 -> w_idlen st = 0%nat ->
    dump_object_index deflate st = Ok st' ->
    exists osec olv, WI deflate c mn mx st' ((cs ++ osec) ++ concat olv) [] /\
      Forall (fun k => ck_typ k = typ_obj) osec /\ lchain (llen cs) osec olv /\
      w_log st' = w_log st /\ w_index st' = [] /\ rio st' = rio st /\
      (w_idlen st' < 32)%nat /\
      ts_offset (w_objs st') = (match osec with [] => 0 | _ => llen cs end) /\
      ts_index_offset (w_objs st') = (match olv with [] => 0 | _ => top_off (llen cs) osec olv end) /\
      (osec <> [] -> w_idlen st' = S (max_common [] (map fst (w_obj st)) 0) /\
                     Forall2 (fun r kv => obj_rec_of (w_idlen st') kv r) (E osec) (w_obj st)).
  Proof.
    intros st cs st' W X Z0 I0 H. unfold dump_object_index in H.
    destruct (Nat.leb_spec 32 (S (max_common [] (map fst (w_obj st)) 0))) as [L32|L32].
    - apply Ok_inj in H. subst st'. exists [], []. cbn [concat]. rewrite !app_nil_r.
      split; [exact W|]. split; [constructor|]. split; [exact I|]. split; [reflexivity|]. split; [exact X|].
      split; [reflexivity|]. split; [rewrite I0; lia|]. rewrite Z0. cbn [tstats0 ts_offset ts_index_offset].
      split; [reflexivity|]. split; [reflexivity|]. congruence.
    - set (mc := S (max_common [] (map fst (w_obj st)) 0)) in *.
      set (st1 := set_obj st (w_obj st) (w_blocks st) mc) in *.
      set (st2 := set_bw st1 (Some (new_bw st1 typ_obj))) in *.
      destruct (dump_objs deflate st2 mc (w_obj st2)) as [st3| | |] eqn:D; cbn [bind] in H; try discriminate.
      assert (W1 : WI deflate c mn mx st1 cs []) by (eapply WI_frame; [..|exact W]; reflexivity).
      assert (S2 : SI deflate c mn mx typ_obj st2 cs [] [] []).
      { constructor.
        - rewrite app_nil_r. apply WI_new_bw; [exact W1|reflexivity].
        - constructor.
        - reflexivity.
        - cbn [st2 st1 set_bw set_obj upd w_index idx_of]. exact X.
        - cbn [st2 set_bw upd w_bw]. rewrite (new_bw_fresh c) by apply W1. reflexivity. }
      assert (O2 : OS st2 cs []).
      { split; [|congruence]. intros _. cbn [st2 st1 set_bw set_obj upd w_objs]. rewrite Z0. split; reflexivity. }
      destruct (dump_objs_SI3 _ _ _ _ _ _ _ _ S2 O2 ltac:(discriminate) D)
        as (sec' & cur' & L' & S3 & O3 & F3 & B3 & G3 & I3).
      cbn [app] in S3.
      destruct (finish_section3 typ_obj st3 cs sec' cur' L' st' S3 ltac:(right; reflexivity) B3 H)
        as (sec1 & lv & W4 & T4 & R4 & LC & X4 & C1 & C2 & _ & I4 & G4 & _ & OB).
      destruct (OB eq_refl) as (R5 & OO & _ & OX). cbv zeta in OO.
      exists sec1, lv. split; [exact W4|]. split; [exact T4|]. split; [exact LC|].
      split; [rewrite G4, G3; reflexivity|]. split; [exact X4|].
      split; [rewrite R5, (dump_objs_rio _ _ _ _ _ D); reflexivity|].
      assert (IL : w_idlen st' = mc) by (rewrite I4, I3; reflexivity).
      split; [rewrite IL; lia|].
      split.
      { rewrite OO. destruct O3 as [O31 O32]. destruct cur' as [|x cur''].
        - rewrite (C1 eq_refl). destruct sec' as [|k0 sec0]; [apply (O31 eq_refl)|apply (O32 ltac:(discriminate))].
        - destruct (C2 ltac:(discriminate)) as (k & -> & _).
          unfold bump. cbn [ts_offset]. destruct sec' as [|k0 sec0].
          + destruct (O31 eq_refl) as [Z _]. rewrite Z. cbn [Nat.eqb app]. rewrite app_nil_r. reflexivity.
          + destruct (O32 ltac:(discriminate)) as [NZ OF]. cbn [app].
            destruct (Nat.eqb_spec (ts_blocks (w_objs st3)) 0); [congruence|exact OF]. }
      split; [exact OX|].
      intros _. rewrite IL. split; [reflexivity|]. rewrite R4. exact F3.
  Qed.

  (* ---- the ref part of the file: ref blocks, their index, the object section, its index ---- *)

  Record rp3 (cs : list chunk) (Lref : list record) (ri oo : N) (idlen : nat) (oi : N) : Prop := {
    rp3_split : exists rsec rlv osec olv,
      cs = ((rsec ++ concat rlv) ++ osec) ++ concat olv /\
      Forall (fun k => ck_typ k = typ_ref) rsec /\ E rsec = Lref /\ lchain 0 rsec rlv /\
      Forall (fun k => ck_typ k = typ_obj) osec /\ lchain (llen (rsec ++ concat rlv)) osec olv /\
      ri = (match rlv with [] => 0 | _ => top_off 0 rsec rlv end) /\
      oo = (match osec with [] => 0 | _ => llen (rsec ++ concat rlv) end) /\
      oi = (match olv with [] => 0 | _ => top_off (llen (rsec ++ concat rlv)) osec olv end) /\
      (idlen < 32)%nat /\ (c_skip_index_objects c = true -> osec = []) /\
      (osec <> [] -> idlen = S (max_common [] (map fst (objs_of (events (posrecs 0 rsec)))) 0) /\
                     Forall2 (fun r kv => obj_rec_of idlen kv r) (E osec) (objs_of (events (posrecs 0 rsec)))) }.

  Lemma fps_ref_spec3 : forall st sec cur L st',
    SI deflate c mn mx typ_ref st [] sec cur L -> OI st sec cur -> w_bw st <> None ->
    w_objs st = tstats0 -> w_idlen st = 0%nat ->
    finish_public_section deflate st = Ok st' ->
    exists cs, WI deflate c mn mx st' cs [] /\ w_bw st' = None /\ w_log st' = w_log st /\ w_index st' = [] /\
      rp3 cs L (rio st') (ts_offset (w_objs st')) (w_idlen st') (ts_index_offset (w_objs st')).
  Proof.
    intros st sec cur L st' HS HO Hb Z0 I0 H. unfold finish_public_section in H.
    destruct (w_bw st) as [b|] eqn:B; [|congruence].
    destruct (finish_section deflate st) as [st1| | |] eqn:FS; cbn [bind] in H; try discriminate.
    destruct (finish_section3 typ_ref st [] sec cur L st1 HS ltac:(left; reflexivity) ltac:(congruence) FS)
      as (sec1 & lv & W1 & T1 & R1 & LC & X1 & C1 & C2 & OB1 & I1 & G1 & RF & _).
    destruct (RF eq_refl) as (Z1 & RI1 & NIL1). cbn [app] in W1. change (llen []) with 0 in LC, RI1.
    assert (CF1 : w_cfg st1 = c) by apply W1.
    assert (EV : events (posrecs 0 sec1) = events (posrecs 0 sec) ++ blk_events (llen sec) cur).
    { destruct cur as [|x cur'].
      - rewrite (C1 eq_refl). unfold blk_events. cbn [flat_map]. rewrite app_nil_r. reflexivity.
      - destruct (C2 ltac:(discriminate)) as (k & -> & RK).
        rewrite posrecs_app, events_app. cbn [posrecs]. rewrite events_one, RK, N.add_0_l. reflexivity. }
    destruct ((bw_typ b =? typ_ref) && negb (c_skip_index_objects (w_cfg st1)) &&
              Nat.ltb 0 (ts_index_blocks (w_ref st1))) eqn:COND.
    - destruct (dump_object_index deflate st1) as [st2| | |] eqn:D; cbn [bind] in H; try discriminate.
      apply Ok_inj in H. subst st'.
      destruct (dump_object_index_spec3 st1 _ st2 W1 X1 ltac:(congruence) ltac:(congruence) D)
        as (osec & olv & W2 & T2 & LC2 & G2 & X2 & R2 & IL2 & OO2 & OI2 & OBJ2).
      exists (((sec1 ++ concat lv) ++ osec) ++ concat olv).
      split; [eapply WI_set_bw_none; exact W2|]. split; [reflexivity|].
      split; [cbn [set_bw upd w_log]; congruence|]. split; [exact X2|].
      unfold rio in *. cbn [set_bw upd w_ref w_objs w_idlen].
      constructor. exists sec1, lv, osec, olv. split; [reflexivity|]. split; [exact T1|]. split; [exact R1|].
      split; [exact LC|]. split; [exact T2|]. split; [exact LC2|].
      split; [rewrite R2; exact RI1|]. split; [exact OO2|]. split; [exact OI2|]. split; [exact IL2|].
      assert (SK : c_skip_index_objects c = false).
      { rewrite CF1 in COND. destruct (c_skip_index_objects c); [|reflexivity].
        rewrite andb_false_r in COND. discriminate. }
      split; [congruence|].
      assert (OBJ : w_obj st1 = objs_of (events (posrecs 0 sec1))).
      { rewrite OB1, EV. unfold OI in HO. rewrite SK in HO. exact HO. }
      rewrite <- OBJ. exact OBJ2.
    - cbn [bind] in H. apply Ok_inj in H. subst st'.
      exists (((sec1 ++ concat lv) ++ []) ++ concat []). cbn [concat]. rewrite !app_nil_r.
      split; [eapply WI_set_bw_none; exact W1|]. split; [reflexivity|].
      split; [exact G1|]. split; [exact X1|].
      unfold rio in *. cbn [set_bw upd w_ref w_objs w_idlen].
      constructor. exists sec1, lv, [], []. cbn [concat]. rewrite !app_nil_r.
      split; [reflexivity|]. split; [exact T1|]. split; [exact R1|].
      split; [exact LC|]. split; [constructor|]. split; [exact I|].
      split; [exact RI1|]. rewrite Z1, Z0, I1, I0. cbn [tstats0 ts_offset ts_index_offset].
      split; [reflexivity|]. split; [reflexivity|]. split; [lia|]. split; [reflexivity|]. congruence.
  Qed.

  Lemma rp3_unpad : forall cs Lref ri oo idlen oi, rp3 cs Lref ri oo idlen oi -> rp3 (unpad cs) Lref ri oo idlen oi.
  Proof.
    intros cs Lref ri oo idlen oi [(rsec & rlv & osec & olv & E0 & T1 & R1 & LC1 & T2 & LC2 & RI & OO & OX & IL & OSK & OBJ)].
    constructor. destruct olv as [|o1 orest].
    - cbn [concat] in E0. rewrite app_nil_r in E0. destruct osec as [|k osec'].
      + rewrite app_nil_r in E0. destruct rlv as [|s1 rest].
        * cbn [concat] in E0. rewrite app_nil_r in E0. subst cs.
          exists (unpad rsec), [], [], []. cbn [concat]. rewrite !app_nil_r.
          split; [reflexivity|]. split; [apply unpad_Forall; auto|].
          split; [rewrite E_unpad; exact R1|]. split; [exact I|]. split; [constructor|]. split; [exact I|].
          split; [exact RI|]. split; [exact OO|]. split; [exact OX|]. split; [exact IL|]. split; [reflexivity|]. congruence.
        * destruct (lchain_unpad _ _ _ LC1 ltac:(discriminate)) as (lv' & CC & LC' & TO & NL).
          exists rsec, lv', [], []. cbn [concat]. rewrite !app_nil_r. split.
          { rewrite E0, CC. apply unpad_app_r.
            destruct LC1 as (_ & _ & N1 & _). cbn [concat]. intros Q. apply app_eq_nil in Q. destruct Q. congruence. }
          split; [exact T1|]. split; [exact R1|]. split; [exact LC'|]. split; [constructor|]. split; [exact I|].
          split; [rewrite RI, <- TO; destruct lv'; [congruence|reflexivity]|].
          split; [exact OO|]. split; [exact OX|]. split; [exact IL|]. split; [reflexivity|]. congruence.
      + exists rsec, rlv, (unpad (k :: osec')), []. cbn [concat]. rewrite !app_nil_r.
        split; [rewrite E0; apply unpad_app_r; discriminate|].
        split; [exact T1|]. split; [exact R1|]. split; [exact LC1|].
        split; [apply unpad_Forall; auto|]. split; [exact I|]. split; [exact RI|].
        assert (U : unpad (k :: osec') <> []) by (rewrite unpad_nil_iff; discriminate).
        split; [rewrite OO; destruct (unpad (k :: osec')); [congruence|reflexivity]|].
        split; [exact OX|]. split; [exact IL|]. split; [intros SK; specialize (OSK SK); discriminate|].
        intros _. rewrite E_unpad. apply OBJ. discriminate.
    - destruct (lchain_unpad _ _ _ LC2 ltac:(discriminate)) as (lv' & CC & LC' & TO & NL).
      exists rsec, rlv, osec, lv'. split.
      { rewrite E0, CC. apply unpad_app_r.
        destruct LC2 as (_ & _ & N1 & _). cbn [concat]. intros Q. apply app_eq_nil in Q. destruct Q. congruence. }
      split; [exact T1|]. split; [exact R1|]. split; [exact LC1|]. split; [exact T2|]. split; [exact LC'|].
      split; [exact RI|]. split; [exact OO|].
      split; [rewrite OX, <- TO; destruct lv'; [congruence|reflexivity]|]. split; [exact IL|]. split; [exact OSK|exact OBJ].
  Qed.

  (* ---- AddLog* ---- *)

  Lemma w_add_log_first3 : forall st sec cur L l st',
    SI deflate c mn mx typ_ref st [] sec cur L -> OI st sec cur -> w_bw st <> None ->
    ts_blocks (w_log st) = 0%nat -> w_objs st = tstats0 -> w_idlen st = 0%nat ->
    w_add_log deflate st l = Ok st' ->
    exists l1 cs0 sec' cur', norm_log (c_exact_log c) l = Some l1 /\
      PL deflate c mn mx st' cs0 sec' cur' [RecLog l1] /\
      rp3 cs0 L (rio st') (ts_offset (w_objs st')) (w_idlen st') (ts_index_offset (w_objs st')).
  Proof.
    intros st sec cur L l st' HS HO Hb Z Z0 I0 H. unfold w_add_log in H.
    destruct (Nat.eqb (length (l_name l)) 0); [discriminate|].
    assert (CF : w_cfg st = c) by (destruct HS as [W _ _ _ _]; apply W).
    rewrite CF in H.
    destruct (norm_log (c_exact_log c) l) as [l1|]; [|discriminate].
    destruct (w_bw st) as [b|] eqn:B; [|congruence].
    assert (TB : bw_typ b = typ_ref).
    { destruct HS as [_ _ _ _ SB]. rewrite B in SB. exact SB. }
    rewrite TB in H.
    change (typ_ref =? typ_ref) with true in H. cbv iota in H.
    destruct (finish_public_section deflate st) as [st1| | |] eqn:F; cbn [bind] in H; try discriminate.
    destruct (fps_ref_spec3 st sec cur L st1 HS HO ltac:(congruence) Z0 I0 F) as (cs & W1 & B1 & G1 & X1 & RP).
    pose proof (take_back deflate c mn mx st1 _ W1 B1) as W2.
    set (st2 := upd st1 (w_out st1) 0 (w_next st1 - w_pad st1) (w_last_key st1) (w_bw st1) (w_index st1)) in *.
    set (cs0 := unpad cs) in *.
    assert (S2 : SI deflate c mn mx typ_log st2 cs0 [] [] []).
    { constructor.
      - rewrite app_nil_r. exact W2.
      - constructor.
      - reflexivity.
      - cbn [st2 upd w_index idx_of]. exact X1.
      - cbn [st2 upd w_bw]. rewrite B1. exact I. }
    destruct (out_unpad deflate c mn mx _ _ _ W1) as (_ & _ & P0 & _).
    assert (H' : w_add deflate (upd st2 (w_out st2) 0 (w_next st2 - w_pad st2) (w_last_key st2) (w_bw st2) (w_index st2))
                   (RecLog l1) = Ok st').
    { cbn [st2 upd w_out w_pad w_next w_last_key w_bw w_index]. rewrite N.sub_0_r. exact H. }
    destruct (w_add_log_core deflate c mn mx st2 _ [] [] [] l1 st' S2 P0) as (sec' & cur' & P'); try exact H'.
    - intros _. cbn [st2 upd w_log]. rewrite G1. exact Z.
    - congruence.
    - exists l1, cs0, sec', cur'. cbn [app] in P'. split; [reflexivity|]. split; [exact P'|].
      pose proof (w_add_rio deflate _ _ _ H) as R.
      pose proof (w_add_keepo deflate _ (RecLog l1) _ ltac:(discriminate) H) as (K1 & K2 & _).
      rewrite R, K1, K2.
      change (rio (upd st1 (w_out st1) 0 (w_next st1 - w_pad st1) (w_last_key st1) (w_bw st1) (w_index st1))) with (rio st1).
      cbn [upd w_objs w_idlen].
      apply rp3_unpad. exact RP.
  Qed.

  Lemma w_add_log_keepo : forall st l st' b, w_add_log deflate st l = Ok st' -> w_bw st = Some b ->
    bw_typ b <> typ_ref -> keepo st st'.
  Proof.
    intros st l st' b H B NT. unfold w_add_log in H.
    destruct (Nat.eqb (length (l_name l)) 0); [discriminate|].
    destruct (norm_log (c_exact_log (w_cfg st)) l) as [l1|]; [|discriminate].
    rewrite B in H. destruct (N.eqb_spec (bw_typ b) typ_ref); [congruence|]. cbn [bind] in H.
    apply w_add_keepo in H; [|discriminate]. exact H.
  Qed.

  Lemma add_logs_keepo : forall logs st cs0 sec cur L st',
    PL deflate c mn mx st cs0 sec cur L -> add_logs deflate st logs = Ok st' -> keepo st st'.
  Proof.
    induction logs as [|l t IH]; intros st cs0 sec cur L st' P H; cbn [add_logs] in H.
    - apply Ok_inj in H. subst. apply keepo_refl.
    - destruct (w_add_log deflate st l) as [st1| | |] eqn:A; cbn [bind] in H; try discriminate.
      destruct (w_add_log_next _ _ _ _ _ _ _ _ _ _ _ P A) as (l1 & sec1 & cur1 & _ & P1).
      eapply keepo_trans; [|eapply IH; [exact P1|exact H]].
      destruct P as [HS Hb _ _ _]. destruct HS as [_ _ _ _ SB].
      destruct (w_bw st) as [b|] eqn:B; [|congruence].
      eapply w_add_log_keepo; [exact A|exact B|]. rewrite SB. discriminate.
  Qed.

  (* ---- the final layout ---- *)

  Definition final_ok3 (fcs : list chunk) (Lref Llog : list record) (ri oo : N) (idlen : nat) (oi lo li : N) : Prop :=
    exists cs0 lsec lv,
      fcs = cs0 ++ lsec ++ concat lv /\ rp3 cs0 Lref ri oo idlen oi /\
      Forall (fun k => ck_typ k = typ_log) lsec /\ E lsec = Llog /\
      lchain (llen cs0) lsec lv /\ (lsec = [] -> lv = []) /\
      lo = (match lsec with [] => 0 | _ => llen cs0 end) /\
      li = (match lv with [] => 0 | _ => top_off (llen cs0) lsec lv end).

  Definition closed_ok3 (data : bytes) (Lref Llog : list record) : Prop :=
    exists fcs st1,
      data = layout fcs ++ footer_st c mn mx st1 ++ be32 (crc32 (footer_st c mn mx st1)) /\ fcs <> [] /\
      chunks_at deflate c mn mx 0 fcs /\ last_pad fcs = 0%nat /\
      final_ok3 fcs Lref Llog (rio st1) (ts_offset (w_objs st1)) (w_idlen st1) (ts_index_offset (w_objs st1))
                (ts_offset (w_log st1)) (ts_index_offset (w_log st1)).

  Lemma w_close_PR3 : forall st sec cur L data,
    SI deflate c mn mx typ_ref st [] sec cur L -> OI st sec cur -> w_bw st <> None -> w_log st = tstats0 ->
    w_objs st = tstats0 -> w_idlen st = 0%nat ->
    w_close deflate st = Ok (false, data) -> closed_ok3 data L [].
  Proof.
    intros st sec cur L data HS HO Hb G Z0 I0 H.
    destruct (finish_public_section deflate st) as [st1| | |] eqn:F;
      try (unfold w_close in H; rewrite F in H; discriminate).
    destruct (fps_ref_spec3 st sec cur L st1 HS HO Hb Z0 I0 F) as (cs & W1 & B1 & G1 & X1 & RP).
    destruct (w_close_out deflate c mn mx _ _ _ _ F W1 H) as (D & NE).
    destruct (out_unpad deflate c mn mx _ _ _ W1) as (_ & C & P & _).
    exists (unpad cs), st1. split; [exact D|].
    split; [rewrite unpad_nil_iff; exact NE|].
    split; [exact C|]. split; [exact P|].
    exists (unpad cs), [], []. cbn [concat app]. rewrite app_nil_r.
    split; [reflexivity|]. split; [apply rp3_unpad; exact RP|].
    split; [constructor|]. split; [reflexivity|]. split; [exact I|]. split; [reflexivity|].
    rewrite G1, G. split; reflexivity.
  Qed.

  Lemma w_close_PL3 : forall st cs0 sec cur Lref L ri oo idlen oi data,
    PL deflate c mn mx st cs0 sec cur L -> L <> [] -> rp3 cs0 Lref ri oo idlen oi ->
    rio st = ri -> ts_offset (w_objs st) = oo -> w_idlen st = idlen -> ts_index_offset (w_objs st) = oi ->
    w_close deflate st = Ok (false, data) -> closed_ok3 data Lref L.
  Proof.
    intros st cs0 sec cur Lref L ri oo idlen oi data [HS Hb P0 Z0 Z1] LNE RP RI OO IL OX H.
    destruct (finish_public_section deflate st) as [st1| | |] eqn:F;
      try (unfold w_close in H; rewrite F in H; discriminate).
    destruct (fps_log_spec deflate c mn mx st _ sec cur L st1 HS Hb F) as (sec1 & lv & W1 & T1 & R1 & LC & C1 & C2 & G1).
    destruct (w_close_out deflate c mn mx _ _ _ _ F W1 H) as (D & NE).
    destruct (out_unpad deflate c mn mx _ _ _ W1) as (_ & C & P & _).
    assert (FR : rio st1 = ri /\ ts_offset (w_objs st1) = oo /\ w_idlen st1 = idlen /\ ts_index_offset (w_objs st1) = oi).
    { rewrite <- RI, <- OO, <- IL, <- OX. unfold finish_public_section in F.
      destruct (w_bw st) as [b|] eqn:B; [|congruence].
      assert (TB : bw_typ b = typ_log).
      { destruct HS as [_ _ _ _ SB]. rewrite B in SB. exact SB. }
      destruct (finish_section deflate st) as [st0| | |] eqn:FS; cbn [bind] in F; try discriminate.
      rewrite TB in F. change (typ_log =? typ_ref) with false in F. cbn [andb bind] in F.
      apply Ok_inj in F. subst st1. unfold rio at 1. cbn [set_bw upd w_ref w_objs w_idlen]. fold (rio st0).
      pose proof (finish_section_keepo deflate _ _ _ FS B ltac:(rewrite TB; discriminate)) as (K1 & K2 & _).
      rewrite K1, K2. split; [|auto].
      eapply finish_section_rio; [exact FS|exact B|]. rewrite TB. discriminate. }
    destruct FR as (RI1 & OO1 & IL1 & OX1).
    assert (NE1 : sec1 <> []).
    { intros ->. cbn [map concat] in R1. congruence. }
    cbv zeta in G1. destruct G1 as (GO & _ & GI).
    assert (LO : ts_offset (w_log st1) = llen cs0).
    { rewrite GO. destruct sec as [|k0 sec0].
      - destruct cur as [|x cur'].
        + exfalso. apply NE1. apply C1. reflexivity.
        + unfold bump. cbn [ts_offset]. rewrite (Z0 eq_refl). cbn [Nat.eqb]. rewrite app_nil_r. reflexivity.
      - destruct (Z1 ltac:(discriminate)) as [NZ O].
        destruct cur as [|x cur']; [exact O|]. unfold bump. cbn [ts_offset].
        destruct (Nat.eqb_spec (ts_blocks (w_log st)) 0); [congruence|exact O]. }
    exists (unpad ((cs0 ++ sec1) ++ concat lv)), st1. split; [exact D|]. split; [rewrite unpad_nil_iff; exact NE|].
    split; [exact C|]. split; [exact P|]. rewrite RI1, OO1, IL1, OX1.
    destruct lv as [|s1 rest].
    - exists cs0, (unpad sec1), []. cbn [concat]. rewrite !app_nil_r.
      split; [apply unpad_app_r; exact NE1|]. split; [exact RP|].
      split; [apply unpad_Forall; auto|]. split; [rewrite E_unpad; exact R1|]. split; [exact I|].
      split; [reflexivity|].
      assert (U : unpad sec1 <> []) by (rewrite unpad_nil_iff; exact NE1).
      split; [|exact GI]. rewrite LO. destruct (unpad sec1); [congruence|reflexivity].
    - destruct (lchain_unpad _ _ _ LC ltac:(discriminate)) as (lv' & CC & LC' & TO & NL).
      exists cs0, sec1, lv'.
      split.
      { rewrite CC. rewrite <- app_assoc. rewrite unpad_app_r.
        - rewrite unpad_app_r; [reflexivity|].
          destruct LC as (_ & _ & N2 & _). cbn [concat]. intros Q. apply app_eq_nil in Q. destruct Q. congruence.
        - intros Q. apply app_eq_nil in Q. destruct Q. congruence. }
      split; [exact RP|].
      split; [exact T1|]. split; [exact R1|]. split; [exact LC'|]. split; [congruence|].
      split; [rewrite LO; destruct sec1; [congruence|reflexivity]|].
      rewrite GI, <- TO. destruct lv'; [congruence|reflexivity].
  Qed.
End W3.

Theorem written3 : forall deflate cfg min max refs logs data,
  write_table deflate cfg min max refs logs = Ok (false, data) ->
  exists nl, norm_logs (c_exact_log cfg) logs = Some nl /\
    c_block_size cfg < 16777216 /\
    closed_ok3 deflate (cfg_defaults cfg) min max data
               (map RecRef (map (delta_ref min) refs)) (map RecLog nl).
Proof.
  intros deflate cfg min max refs logs data H. unfold write_table in H.
  destruct (w_new cfg) as [st0| | |] eqn:N0; cbn [bind] in H; try discriminate.
  destruct (w_new_SI deflate cfg min max st0 N0) as (BS & S0 & B0 & G0). cbv zeta in S0, B0, G0.
  assert (Z0 : w_objs (set_limits st0 min max) = tstats0 /\ w_idlen (set_limits st0 min max) = 0%nat /\
               w_obj (set_limits st0 min max) = []).
  { unfold w_new in N0. destruct (16777216 <=? c_block_size cfg); [discriminate|].
    destruct (block_too_small cfg) eqn:TS; [discriminate|].
    apply Ok_inj in N0. subst st0. auto. }
  destruct Z0 as (Z1 & Z2 & Z3).
  assert (O0 : OI (cfg_defaults cfg) (set_limits st0 min max) [] []).
  { unfold OI. rewrite Z3. destruct (c_skip_index_objects (cfg_defaults cfg)); reflexivity. }
  destruct (add_refs deflate (set_limits st0 min max) refs) as [st1| | |] eqn:AR; cbn [bind] in H; try discriminate.
  destruct (add_refs_SI2 _ _ _ _ _ _ _ _ _ _ S0 O0 B0 AR) as (sec1 & cur1 & S1 & O1 & B1 & G1 & G2 & G3). cbn [app] in S1.
  destruct (add_logs deflate st1 logs) as [st2| | |] eqn:AL; cbn [bind] in H; try discriminate.
  destruct logs as [|l t].
  - cbn [add_logs] in AL. apply Ok_inj in AL. subst st2. exists []. split; [reflexivity|]. split; [exact BS|].
    eapply w_close_PR3; [exact S1|exact O1|exact B1|congruence|congruence|congruence|exact H].
  - cbn [add_logs] in AL.
    destruct (w_add_log deflate st1 l) as [st1'| | |] eqn:A1; cbn [bind] in AL; try discriminate.
    destruct (w_add_log_first3 _ _ _ _ _ _ _ _ _ _ S1 O1 B1 ltac:(rewrite G1, G0; reflexivity)
                ltac:(congruence) ltac:(congruence) A1)
      as (l1 & cs0 & sec' & cur' & N1 & P1 & RP).
    destruct (add_logs_PL _ _ _ _ _ _ _ _ _ _ _ P1 AL) as (nl & sec2 & cur2 & N2 & P2).
    exists (l1 :: nl). cbn [norm_logs]. change (c_exact_log (cfg_defaults cfg)) with (c_exact_log cfg) in N1, N2.
    rewrite N1, N2. split; [reflexivity|]. split; [exact BS|].
    pose proof (add_logs_keepo _ _ _ _ _ _ _ _ _ _ _ P1 AL) as (K1 & K2 & _).
    eapply w_close_PL3; [exact P2|discriminate|exact RP|eapply add_logs_rio; eassumption|congruence|congruence|congruence|exact H].
Qed.

(* ====================================================================== *)
(* PART 4 (L1, L4, L5, L6, L7): envelope, runs, index levels, sections *)
(* ====================================================================== *)

(* C14, judge side: spec_decode on the layout of a written table. *)


(* ------------------------------------------------------------------ *)
(* the judge, cut in three: envelope / runs / sections *)

Definition spec_fin (version block_size min max : N) (sha256 : bool)
  (ref_index obj_off : N) (idlen : nat) (obj_index log_off log_index : N) (blocks : list sblock)
  (ref_run ref_idx obj_run obj_idx log_run log_idx : option (list sblock)) : sres spec_table :=
  let okpos :=
    (match obj_run with Some r => obj_off =? run_pos r | None => obj_off =? 0 end) &&
    (match log_run with
     | Some r => (log_off =? run_pos r) || ((run_pos r =? 0) && (log_off =? 0))
     | None => log_off =? 0 end) in
  if negb okpos then inl (SE_section 4)
  else
    do* _ := section_index (match ref_run with Some r => r | None => [] end) ref_idx ref_index in
    do* _ := section_index (match obj_run with Some r => r | None => [] end) obj_idx obj_index in
    do* _ := section_index (match log_run with Some r => r | None => [] end) log_idx log_index in
    let flat r := flat_map sb_recs (match r with Some x => x | None => [] end) in
    if negb (keys_ascending None (flat ref_run) && keys_ascending None (flat obj_run)
             && keys_ascending None (flat log_run)) then inl (SE_key_order 0)
    else if negb (match obj_run with
                  | Some o => SpecDecoder.check_objs idlen (match ref_run with Some r => r | None => [] end) o
                  | None => true end) then inl SE_objindex
    else
      let refs := map (fun x => {| r_name := r_name x; r_index := r_index x + min; r_val := r_val x |})
                      (refs_of_blocks (match ref_run with Some r => r | None => [] end)) in
      if negb (forallb (fun x => r_index x <=? max) refs) then inl SE_update_index
      else inr {| sp_version := version; sp_block_size := block_size; sp_min := min; sp_max := max;
                  sp_sha256 := sha256; sp_refs := refs;
                  sp_logs := logs_of_blocks (match log_run with Some r => r | None => [] end);
                  sp_nblocks := length blocks;
                  sp_ref_levels := match ref_idx with Some _ => true | None => false end;
                  sp_has_obj := match obj_run with Some _ => true | None => false end;
                  sp_log_levels := match log_idx with Some _ => true | None => false end |}.

Definition spec_tail (version block_size min max : N) (sha256 : bool)
  (ref_index obj_off : N) (idlen : nat) (obj_index log_off log_index : N) (blocks : list sblock)
  : sres spec_table :=
  let rs := runs blocks [] [] in
  let '(ref_run, rs1) := take_run typ_ref rs in
  let '(ref_idx, rs2) := match ref_run with Some _ => take_run typ_idx rs1 | None => (None, rs1) end in
  let '(obj_run, rs3) := take_run typ_obj rs2 in
  let '(obj_idx, rs4) := match obj_run with Some _ => take_run typ_idx rs3 | None => (None, rs3) end in
  let '(log_run, rs5) := take_run typ_log rs4 in
  let '(log_idx, rs6) := match log_run with Some _ => take_run typ_idx rs5 | None => (None, rs5) end in
  match rs6 with
  | _ :: _ => inl (SE_section 3)
  | [] => spec_fin version block_size min max sha256 ref_index obj_off idlen obj_index log_off log_index blocks
                   ref_run ref_idx obj_run obj_idx log_run log_idx
  end.

(* ------------------------------------------------------------------ *)
(* L1: the envelope *)

Lemma be_at_split : forall w off v a b l,
  l = a ++ be_bytes w v ++ b -> length a = off -> v < 256 ^ N.of_nat w -> be_at w off l = v.
Proof.
  intros w off v a b l -> <- H. unfold be_at, slice.
  rewrite skipn_app_len. rewrite firstn_app_len' by (rewrite be_bytes_length; reflexivity).
  apply be_value_be_bytes. exact H.
Qed.

Lemma be_at_mod : forall w off v a b l,
  l = a ++ be_bytes w v ++ b -> length a = off -> be_at w off l = v mod 256 ^ N.of_nat w.
Proof.
  intros w off v a b l -> <-. unfold be_at, slice.
  rewrite skipn_app_len. rewrite firstn_app_len' by (rewrite be_bytes_length; reflexivity).
  apply be_value_be_bytes_mod.
Qed.

Lemma be32_split : forall x, be32 x = be_bytes 1 (x / 16777216) ++ be_bytes 3 x.
Proof.
  intros x. unfold be32. cbn [be_bytes app]. rewrite !N.div_div by lia. reflexivity.
Qed.

Lemma pow256_3 : 256 ^ N.of_nat 3 = 16777216.
Proof. reflexivity. Qed.

Section Envelope.
  Variable inflate : bytes -> sinflate_result.

  Lemma spec_decode_open : forall c min max t body ri oo oi lo li,
    c_block_size c < 16777216 -> min < two64 -> max < two64 ->
    let hb := header_bytes c min max in
    let foot := footer_of c min max ri oo oi lo li in
    let src := (hb ++ t :: body) ++ foot ++ be32 (crc32 foot) in
    spec_decode inflate src =
    sbind (parse_blocks inflate (S (length src)) src (N.of_nat (length (hb ++ t :: body))) (c_block_size c)
                        (hash_size c) (header_size c) 0 [])
          (spec_tail (version_of c) (c_block_size c) min max (c_sha256 c)
                     (ri mod two64) ((oo mod two64) / 32) (N.to_nat ((oo mod two64) mod 32)) (oi mod two64)
                     (lo mod two64) (li mod two64)).
  Proof.
    intros c min max t body ri oo oi lo li Hbs Hmin Hmax hb foot src.
    set (v := version_of c).
    set (X := c_block_size c + v * 16777216).
    set (idb := if c_sha256 c then sha256_id else []).
    set (hs := header_size c).
    assert (Hv : v = 1 \/ v = 2) by (unfold v, version_of; destruct (c_sha256 c); auto).
    assert (HX : X < 256 ^ N.of_nat 4) by (rewrite pow256_4; unfold X; lia).
    assert (Ehb : hb = magic ++ be32 X ++ be64 min ++ be64 max ++ idb).
    { unfold hb, header_bytes, X, v, version_of, idb. destruct (c_sha256 c); reflexivity. }
    assert (Lhb : length hb = hs) by apply header_bytes_length.
    assert (Lidb : length idb = (hs - 24)%nat).
    { unfold idb, hs, header_size. destruct (c_sha256 c); reflexivity. }
    assert (Hhs : hs = (if v =? 1 then 24%nat else 28%nat)).
    { unfold hs, header_size, v, version_of. destruct (c_sha256 c); reflexivity. }
    assert (Lfoot : length foot = (hs + 40)%nat).
    { unfold foot, footer_of. fold hb. unfold be64. rewrite !app_length, !be_bytes_length. lia. }
    assert (Hfs : (hs + 44)%nat = (if v =? 1 then 68%nat else 72%nat)).
    { rewrite Hhs. destruct Hv as [-> | ->]; reflexivity. }
    set (fs := (hs + 44)%nat) in *.
    set (data := hb ++ t :: body).
    assert (Ldata : (hs + 1 <= length data)%nat).
    { unfold data. rewrite app_length. cbn [length]. lia. }
    assert (Lsrc : length src = (length data + fs)%nat).
    { unfold src. fold data. rewrite !app_length, Lfoot. unfold be32. rewrite be_bytes_length. unfold fs. lia. }
    assert (H24 : (24 <= hs <= 28)%nat) by (rewrite Hhs; destruct (v =? 1); lia).
    assert (Ver : nth 4 src 0 = v).
    { unfold src, data. rewrite Ehb. rewrite be32_bytes.
      cbn [magic app nth]. unfold X. rewrite !N.div_div by lia.
      change (256 * 256 * 256) with 16777216. rewrite N.div_add by lia.
      rewrite N.div_small by lia. destruct Hv as [-> | ->]; reflexivity. }
    assert (Mag : firstn 4 src = magic).
    { unfold src, data. rewrite Ehb. rewrite <- !app_assoc. apply firstn_app_len'. reflexivity. }
    assert (Hd : firstn hs src = hb).
    { unfold src, data. rewrite <- !app_assoc. apply firstn_app_len'. auto. }
    set (ft := foot ++ be32 (crc32 foot)) in *.
    assert (Lft : length ft = fs).
    { unfold ft. rewrite app_length, Lfoot. unfold be32. rewrite be_bytes_length. unfold fs. lia. }
    assert (SK : skipn (length src - fs) src = ft).
    { replace (length src - fs)%nat with (length data) by lia. unfold src. fold data. apply skipn_app_len. }
    assert (Fh : firstn hs ft = hb).
    { unfold ft, foot, footer_of. fold hb. rewrite <- !app_assoc. apply firstn_app_len'. auto. }
    assert (Eft : ft = magic ++ be32 X ++ be64 min ++ be64 max ++ idb ++ be64 ri ++ be64 oo ++ be64 oi ++
                       be64 lo ++ be64 li ++ be32 (crc32 foot)).
    { unfold ft, foot, footer_of. fold hb. rewrite Ehb. rewrite <- !app_assoc. reflexivity. }
    assert (Esrc : src = magic ++ be32 X ++ be64 min ++ be64 max ++ idb ++ (t :: body) ++ ft).
    { unfold src, data. rewrite Ehb. rewrite <- !app_assoc. reflexivity. }
    assert (P8 : forall x, x < two64 -> x < 256 ^ N.of_nat 8) by (intros; rewrite pow256_8; assumption).
    assert (G1 : be_at 3 5 src = c_block_size c).
    { rewrite Esrc, be32_split.
      rewrite (be_at_mod 3 5 X (magic ++ be_bytes 1 (X / 16777216)) (be64 min ++ be64 max ++ idb ++ (t :: body) ++ ft));
        [|rewrite <- !app_assoc; reflexivity|reflexivity].
      rewrite pow256_3. unfold X. rewrite N.mod_add by lia. apply N.mod_small. exact Hbs. }
    assert (G2 : be_at 8 8 src = min).
    { eapply (be_at_split 8 8 min (magic ++ be32 X)); [rewrite Esrc, <- !app_assoc; reflexivity|reflexivity|auto]. }
    assert (G3 : be_at 8 16 src = max).
    { eapply (be_at_split 8 16 max (magic ++ be32 X ++ be64 min));
        [rewrite Esrc, <- !app_assoc; reflexivity|reflexivity|auto]. }
    assert (Lpre : length (magic ++ be32 X ++ be64 min ++ be64 max ++ idb) = hs).
    { rewrite <- Ehb. exact Lhb. }
    assert (G4 : be_at 8 hs ft = ri mod two64).
    { rewrite <- pow256_8.
      eapply (be_at_mod 8 hs ri (magic ++ be32 X ++ be64 min ++ be64 max ++ idb));
        [rewrite Eft, <- !app_assoc; reflexivity|exact Lpre]. }
    assert (G5 : be_at 8 (hs + 8) ft = oo mod two64).
    { rewrite <- pow256_8.
      eapply (be_at_mod 8 (hs + 8) oo ((magic ++ be32 X ++ be64 min ++ be64 max ++ idb) ++ be64 ri));
        [rewrite Eft, <- !app_assoc; reflexivity|len_solve]. }
    assert (G6 : be_at 8 (hs + 16) ft = oi mod two64).
    { rewrite <- pow256_8.
      eapply (be_at_mod 8 (hs + 16) oi ((magic ++ be32 X ++ be64 min ++ be64 max ++ idb) ++ be64 ri ++ be64 oo));
        [rewrite Eft, <- !app_assoc; reflexivity|len_solve]. }
    assert (G7 : be_at 8 (hs + 24) ft = lo mod two64).
    { rewrite <- pow256_8.
      eapply (be_at_mod 8 (hs + 24) lo ((magic ++ be32 X ++ be64 min ++ be64 max ++ idb) ++ be64 ri ++ be64 oo ++ be64 oi));
        [rewrite Eft, <- !app_assoc; reflexivity|len_solve]. }
    assert (G8 : be_at 8 (hs + 32) ft = li mod two64).
    { rewrite <- pow256_8.
      eapply (be_at_mod 8 (hs + 32) li ((magic ++ be32 X ++ be64 min ++ be64 max ++ idb) ++ be64 ri ++ be64 oo ++ be64 oi ++ be64 lo));
        [rewrite Eft, <- !app_assoc; reflexivity|len_solve]. }
    assert (G9 : be_at 4 (fs - 4) ft = crc32 (firstn (fs - 4) ft)).
    { assert (F : firstn (fs - 4) ft = foot).
      { unfold ft. apply firstn_app_len'. rewrite Lfoot. unfold fs. clear. lia. }
      rewrite F. unfold be_at, slice, ft. rewrite skipn_app_len' by (rewrite Lfoot; unfold fs; clear; lia).
      rewrite firstn_all2 by (unfold be32; rewrite be_bytes_length; lia).
      unfold be32. apply be_value_be_bytes. rewrite pow256_4.
      apply crc32_lt. unfold foot, footer_of.
      apply wf_bytes_app; [apply header_bytes_wf|]. do 4 (apply wf_bytes_app; [apply be_bytes_wf|]).
      apply be_bytes_wf. }
    assert (Hid : (if v =? 1 then [115; 104; 97; 49] else slice 24 4 src) = (if c_sha256 c then sha256_id else sha1_id)).
    { unfold v, version_of. destruct (c_sha256 c) eqn:S; [|reflexivity]. change (2 =? 1) with false. cbv iota.
      unfold slice.
      replace src with ((magic ++ be32 X ++ be64 min ++ be64 max) ++ idb ++ (t :: body) ++ ft)
        by (rewrite Esrc, <- !app_assoc; reflexivity).
      rewrite skipn_app_len' by reflexivity. unfold idb. reflexivity. }
    unfold spec_decode. cbv zeta.
    assert (L92 : Nat.ltb (length src) 92 = false) by (apply Nat.ltb_ge; unfold fs in *; clear - Lsrc H24 Ldata; lia).
    rewrite L92.
    rewrite Mag. change (bytes_eqb magic [82; 69; 70; 84]) with true. cbn [negb].
    rewrite Ver.
    assert ((v =? 1) || (v =? 2) = true) as -> by (destruct Hv as [-> | ->]; reflexivity).
    cbn [negb].
    rewrite <- Hhs, <- Hfs.
    assert (Lhf : Nat.ltb (length src) (hs + fs) = false) by (apply Nat.ltb_ge; clear - Lsrc Ldata; lia).
    rewrite Lhf.
    rewrite SK, Hd, Fh, bytes_eqb_refl. cbn [negb].
    rewrite G9, N.eqb_refl. cbn [negb].
    rewrite Hid.
    match goal with |- context [bytes_eqb ?x [115; 50; 53; 54]] =>
      assert (SHA : bytes_eqb x [115; 50; 53; 54] = c_sha256 c) by (destruct (c_sha256 c); reflexivity);
      rewrite SHA;
      assert (SHB : c_sha256 c || bytes_eqb x [115; 104; 97; 49] = true) by (destruct (c_sha256 c); reflexivity);
      rewrite SHB
    end.
    cbn [negb].
    assert (Leq : Nat.eqb (length src) (hs + fs) = false) by (apply Nat.eqb_neq; clear - Lsrc Ldata; lia).
    rewrite Leq.
    rewrite G1, G2, G3, G4, G5, G6, G7, G8.
    replace (length src - fs)%nat with (length data) by (clear - Lsrc; lia).
    replace (if c_sha256 c then 32%nat else 20%nat) with (hash_size c) by reflexivity.
    reflexivity.
  Qed.
End Envelope.

(* ------------------------------------------------------------------ *)
(* L4: runs *)

Lemma runs_seg : forall s T rest cur acc,
  Forall (fun b => sb_typ b = T) s ->
  (match cur with [] => True | c0 :: _ => sb_typ c0 = T end) ->
  runs (s ++ rest) cur acc = runs rest (rev s ++ cur) acc.
Proof.
  induction s as [|b t IH]; intros T rest cur acc F HC; [reflexivity|].
  pose proof (Forall_inv F) as Tb. pose proof (Forall_inv_tail F) as Ft.
  cbn [app runs rev]. destruct cur as [|c0 cur'].
  - rewrite (IH T rest [b] acc Ft Tb). rewrite <- app_assoc. reflexivity.
  - rewrite HC, Tb, N.eqb_refl. rewrite (IH T rest (b :: c0 :: cur') acc Ft Tb).
    rewrite <- app_assoc. reflexivity.
Qed.

(* segments: non-empty, of one type each, neighbours of different types *)
Fixpoint segs_ok (prev : N) (segs : list (list sblock)) : Prop :=
  match segs with
  | [] => True
  | s :: r => s <> [] /\ run_typ s <> prev /\ Forall (fun b => sb_typ b = run_typ s) s /\ segs_ok (run_typ s) r
  end.

Lemma runs_from : forall segs s acc,
  s <> [] -> Forall (fun b => sb_typ b = run_typ s) s -> segs_ok (run_typ s) segs ->
  runs (concat segs) (rev s) acc = rev acc ++ s :: segs.
Proof.
  induction segs as [|s' r IH]; intros s acc NE F OK.
  - cbn [concat runs]. destruct (rev s) as [|x l] eqn:E.
    + exfalso. apply NE. rewrite <- (rev_involutive s), E. reflexivity.
    + rewrite <- E, rev_involutive. cbn [rev]. reflexivity.
  - destruct OK as (NE' & NT & F' & OK'). destruct s' as [|b' t']; [congruence|].
    cbn [concat app runs]. cbn [run_typ] in NT, F', OK'.
    destruct (rev s) as [|x l] eqn:E.
    { exfalso. apply NE. rewrite <- (rev_involutive s), E. reflexivity. }
    assert (Tx : sb_typ x = run_typ s).
    { rewrite Forall_forall in F. apply F. apply in_rev. rewrite E. left. reflexivity. }
    rewrite Tx. destruct (N.eqb_spec (run_typ s) (sb_typ b')) as [EQ|_]; [congruence|].
    rewrite <- E, rev_involutive.
    pose proof (Forall_inv_tail F') as Ft.
    rewrite (runs_seg t' (sb_typ b') (concat r) [b'] (s :: acc) Ft eq_refl).
    change (rev t' ++ [b']) with (rev (b' :: t')).
    rewrite (IH (b' :: t') (s :: acc) ltac:(discriminate) F' OK').
    cbn [rev]. rewrite <- app_assoc. reflexivity.
Qed.

Lemma runs_ok : forall segs, segs_ok 0 segs -> runs (concat segs) [] [] = segs.
Proof.
  intros [|s r] OK; [reflexivity|]. destruct OK as (NE & _ & F & OK). cbn [concat].
  rewrite (runs_seg s (run_typ s) (concat r) [] [] F I). rewrite app_nil_r.
  apply (runs_from r s [] NE F OK).
Qed.

Definition ne (s : list sblock) : list (list sblock) := match s with [] => [] | _ => [s] end.
Definition opt (s : list sblock) : option (list sblock) := match s with [] => None | _ => Some s end.

Lemma take_run_hit : forall T b s rs, sb_typ b = T -> take_run T ((b :: s) :: rs) = (Some (b :: s), rs).
Proof. intros T b s rs H. unfold take_run. cbn [run_typ]. rewrite H, N.eqb_refl. reflexivity. Qed.

Lemma take_run_miss : forall T b s rs, sb_typ b <> T -> take_run T ((b :: s) :: rs) = (None, (b :: s) :: rs).
Proof. intros T b s rs H. unfold take_run. cbn [run_typ]. destruct (N.eqb_spec (sb_typ b) T); [congruence|reflexivity]. Qed.

Lemma take_run_nil : forall T, take_run T [] = (None, []).
Proof. reflexivity. Qed.

Ltac six_cases R RI O OI G GI FR FRI FO FOI FG FGI CR CO CG :=
  destruct R as [|?r0 ?R']; [|pose proof (Forall_inv FR)];
  (destruct RI as [|?ri0 ?RI']; [|pose proof (Forall_inv FRI)]);
  (destruct O as [|?o0 ?O']; [|pose proof (Forall_inv FO)]);
  (destruct OI as [|?oi0 ?OI']; [|pose proof (Forall_inv FOI)]);
  (destruct G as [|?g0 ?G']; [|pose proof (Forall_inv FG)]);
  (destruct GI as [|?gi0 ?GI']; [|pose proof (Forall_inv FGI)]);
  try (specialize (CR eq_refl); discriminate);
  try (specialize (CO eq_refl); discriminate);
  try (specialize (CG eq_refl); discriminate);
  cbv beta in *.

(* the six sections *)
Lemma tail_sections : forall version block_size min max sha256 ref_index obj_off idlen obj_index log_off log_index
    R RI O OI G GI,
  Forall (fun b => sb_typ b = typ_ref) R -> Forall (fun b => sb_typ b = typ_idx) RI ->
  Forall (fun b => sb_typ b = typ_obj) O -> Forall (fun b => sb_typ b = typ_idx) OI ->
  Forall (fun b => sb_typ b = typ_log) G -> Forall (fun b => sb_typ b = typ_idx) GI ->
  (R = [] -> RI = []) -> (O = [] -> OI = []) -> (G = [] -> GI = []) ->
  spec_tail version block_size min max sha256 ref_index obj_off idlen obj_index log_off log_index
            (R ++ RI ++ O ++ OI ++ G ++ GI)
  = spec_fin version block_size min max sha256 ref_index obj_off idlen obj_index log_off log_index
             (R ++ RI ++ O ++ OI ++ G ++ GI) (opt R) (opt RI) (opt O) (opt OI) (opt G) (opt GI).
Proof.
  intros version block_size min max sha256 ref_index obj_off idlen obj_index log_off log_index
         R RI O OI G GI FR FRI FO FOI FG FGI CR CO CG.
  unfold spec_tail.
  assert (RUNS : runs (R ++ RI ++ O ++ OI ++ G ++ GI) [] [] = ne R ++ ne RI ++ ne O ++ ne OI ++ ne G ++ ne GI).
  { assert (CC : R ++ RI ++ O ++ OI ++ G ++ GI = concat (ne R ++ ne RI ++ ne O ++ ne OI ++ ne G ++ ne GI)).
    { rewrite !concat_app.
      assert (forall s, concat (ne s) = s) as C1 by (intros [|x l]; [reflexivity|cbn [ne concat]; apply app_nil_r]).
      rewrite !C1. reflexivity. }
    rewrite CC. apply runs_ok.
    six_cases R RI O OI G GI FR FRI FO FOI FG FGI CR CO CG;
    cbn [ne app segs_ok run_typ];
    repeat match goal with H : sb_typ _ = _ |- _ => rewrite H end;
    repeat (split; [discriminate || assumption || exact I|]); try exact I; try discriminate. }
  rewrite RUNS.
  six_cases R RI O OI G GI FR FRI FO FOI FG FGI CR CO CG;
  cbn [ne app opt];
  repeat (first [ rewrite take_run_nil
                | rewrite take_run_hit by assumption
                | rewrite take_run_miss by (match goal with H : sb_typ ?b = _ |- sb_typ ?b <> _ => rewrite H; discriminate end) ];
          cbv beta iota);
  reflexivity.
Qed.

(* ------------------------------------------------------------------ *)
(* L5: the index levels *)

Definition take_fix (want : list (bytes * N)) :=
  fix take (idx : list sblock) (got : list (bytes * N)) (taken : list sblock) (k : nat)
    : option (list sblock * list sblock) :=
    match k with
    | O => None
    | S k' =>
        if Nat.eqb (length got) (length want) then Some (rev taken, idx)
        else match idx with
             | [] => None
             | b :: t => match idx_entries (sb_recs b) with
                         | None => None
                         | Some es => take t (got ++ es) (b :: taken) k'
                         end
             end
    end.

Lemma take_fix_S : forall want idx got taken k',
  take_fix want idx got taken (S k') =
  if Nat.eqb (length got) (length want) then Some (rev taken, idx)
  else match idx with
       | [] => None
       | b :: t => match idx_entries (sb_recs b) with
                   | None => None
                   | Some es => take_fix want t (got ++ es) (b :: taken) k'
                   end
       end.
Proof. intros want [|b t] got taken k'; reflexivity. Qed.

Lemma check_levels_unfold : forall f below index level,
  check_levels (S f) below index level =
  let want := map (fun b => (sb_last b, sb_pos b)) below in
  match take_fix want index [] [] (S (length index)) with
  | None => inl (SE_index level)
  | Some (lvl, rest) =>
      let got := flat_map (fun b => match idx_entries (sb_recs b) with Some es => es | None => [] end) lvl in
      if negb (same_entries got want) then inl (SE_index level)
      else match rest with
           | [] => inr (run_pos lvl, level)
           | _ => check_levels f lvl rest (S level)
           end
  end.
Proof. reflexivity. Qed.

Definition ents_of (recs : list record) : list (bytes * N) :=
  flat_map (fun r => match r with RecIdx k o => [(k, o)] | _ => [] end) recs.
Definition is_idx (r : record) : Prop := match r with RecIdx _ _ => True | _ => False end.

Lemma idx_entries_ents : forall recs, Forall is_idx recs -> idx_entries recs = Some (ents_of recs).
Proof.
  induction recs as [|r t IH]; intros F; [reflexivity|].
  pose proof (Forall_inv F) as Hr. pose proof (Forall_inv_tail F) as Ft.
  destruct r; cbn [is_idx] in Hr; try contradiction.
  cbn [idx_entries]. rewrite (IH Ft). reflexivity.
Qed.

Lemma ents_of_app : forall a b, ents_of (a ++ b) = ents_of a ++ ents_of b.
Proof. intros. unfold ents_of. apply flat_map_app. Qed.

Lemma ents_of_idx_recs : forall l, ents_of (idx_recs l) = l.
Proof.
  induction l as [|[k o] t IH]; [reflexivity|]. unfold idx_recs in *. cbn [map ents_of flat_map fst snd app].
  fold (ents_of (map (fun p => RecIdx (fst p) (snd p)) t)). rewrite IH. reflexivity.
Qed.

Lemma is_idx_idx_recs : forall l, Forall is_idx (idx_recs l).
Proof. intros l. unfold idx_recs. rewrite Forall_map. apply Forall_forall. intros; exact I. Qed.

Lemma rec_read_idx : forall hs recs, Forall is_idx recs -> map (rec_read hs) recs = recs.
Proof.
  intros hs. induction recs as [|r t IH]; intros F; [reflexivity|].
  pose proof (Forall_inv F) as Hr. pose proof (Forall_inv_tail F) as Ft.
  destruct r; cbn [is_idx] in Hr; try contradiction. cbn [map rec_read]. rewrite (IH Ft). reflexivity.
Qed.

Lemma same_entries_refl : forall l, same_entries l l = true.
Proof.
  induction l as [|[k o] t IH]; [reflexivity|]. cbn [same_entries].
  rewrite bytes_eqb_refl, N.eqb_refl, IH. reflexivity.
Qed.

Lemma Forall_concat_map : forall A B (P : B -> Prop) (f : A -> list B) l,
  Forall P (concat (map f l)) -> Forall (fun a => Forall P (f a)) l.
Proof.
  intros A B P f. induction l as [|a t IH]; intros H; [constructor|].
  cbn [map concat] in H. apply Forall_app in H. destruct H as [H1 H2]. constructor; [exact H1|apply IH; exact H2].
Qed.

Section Levels2.
  Variable c : config.
  Let hs := hash_size c.

  Lemma want_idx_of : forall sec off,
    map (fun b => (sb_last b, sb_pos b)) (sblks c off sec) = idx_of off sec.
  Proof.
    induction sec as [|k t IH]; intros off; [reflexivity|].
    cbn [sblks map idx_of sblk sb_last sb_pos]. rewrite IH. reflexivity.
  Qed.

  Lemma take_ok : forall want s1 o1 rest got taken k,
    Forall (fun x => Forall is_idx (ck_recs x) /\ ck_recs x <> []) s1 ->
    (length got + length (ents_of (E s1)) = length want)%nat -> (length s1 < k)%nat ->
    take_fix want (sblks c o1 s1 ++ rest) got taken k = Some (rev taken ++ sblks c o1 s1, rest).
  Proof.
    intros want. induction s1 as [|k0 t IH]; intros o1 rest got taken k F L K.
    - destruct k as [|k']; [cbn [length] in K; lia|]. cbn [sblks app]. rewrite take_fix_S.
      cbn [E] in L. unfold E in L. cbn [map concat ents_of flat_map length] in L.
      destruct (Nat.eqb_spec (length got) (length want)) as [_|NE]; [|lia]. rewrite app_nil_r. reflexivity.
    - destruct k as [|k']; [cbn [length] in K; lia|]. cbn [length] in K.
      pose proof (Forall_inv F) as [I0 N0]. pose proof (Forall_inv_tail F) as Ft.
      rewrite E_cons, ents_of_app, app_length in L.
      assert (P0 : (0 < length (ents_of (ck_recs k0)))%nat).
      { destruct (ck_recs k0) as [|r0 rr]; [congruence|]. pose proof (Forall_inv I0) as Hr.
        destruct r0; cbn [is_idx] in Hr; try contradiction. cbn [ents_of flat_map app length]. lia. }
      cbn [sblks app]. rewrite take_fix_S.
      destruct (Nat.eqb_spec (length got) (length want)) as [EQ|_]; [lia|].
      cbn [sblk sb_recs]. rewrite (rec_read_idx _ _ I0), (idx_entries_ents _ I0).
      rewrite (IH _ rest (got ++ ents_of (ck_recs k0)) (sblk c o1 k0 :: taken) k' Ft); [|rewrite app_length; lia|lia].
      cbn [rev]. rewrite <- app_assoc. reflexivity.
  Qed.

  Lemma got_ents : forall s1 o1,
    Forall (fun x => Forall is_idx (ck_recs x)) s1 ->
    flat_map (fun b => match idx_entries (sb_recs b) with Some es => es | None => [] end) (sblks c o1 s1)
    = ents_of (E s1).
  Proof.
    induction s1 as [|k0 t IH]; intros o1 F; [reflexivity|].
    pose proof (Forall_inv F) as I0. pose proof (Forall_inv_tail F) as Ft.
    cbn [sblks flat_map sblk sb_recs]. rewrite (rec_read_idx _ _ I0), (idx_entries_ents _ I0).
    rewrite IH by exact Ft. rewrite E_cons, ents_of_app. reflexivity.
  Qed.

  Lemma check_levels_ok : forall lv fuel off sec level,
    lv <> [] -> lchain off sec lv -> Forall (fun k => ck_recs k <> []) (concat lv) ->
    (length lv <= fuel)%nat ->
    exists n, check_levels fuel (sblks c off sec) (sblks c (off + llen sec) (concat lv)) level
              = inr (top_off off sec lv, n).
  Proof.
    induction lv as [|s1 rest IH]; intros fuel off sec level NL LC NE FU; [congruence|].
    destruct fuel as [|f]; [cbn [length] in FU; lia|]. cbn [length] in FU.
    destruct LC as (R1 & T1 & N1 & LC).
    cbn [concat] in NE. apply Forall_app in NE. destruct NE as [NE1 NEr].
    rewrite check_levels_unfold. cbv zeta. rewrite want_idx_of.
    cbn [concat]. rewrite sblks_app.
    assert (IX : Forall (fun x => Forall is_idx (ck_recs x)) s1).
    { apply Forall_concat_map. fold (E s1). unfold E. rewrite R1. apply is_idx_idx_recs. }
    assert (EE : ents_of (E s1) = idx_of off sec).
    { unfold E. rewrite R1. apply ents_of_idx_recs. }
    assert (F1 : Forall (fun x => Forall is_idx (ck_recs x) /\ ck_recs x <> []) s1).
    { rewrite Forall_forall in *. intros x Hx. split; [apply IX; exact Hx|apply NE1; exact Hx]. }
    rewrite (take_ok (idx_of off sec) s1 _ _ [] [] _ F1);
      [|rewrite EE; reflexivity|rewrite app_length, !sblks_length; lia].
    cbn [rev app]. rewrite (got_ents _ _ IX), EE, same_entries_refl. cbn [negb].
    destruct rest as [|s2 rest'].
    - cbn [concat sblks]. destruct s1 as [|k1 s1']; [congruence|]. cbn [sblks run_pos sblk sb_pos top_off].
      eexists. reflexivity.
    - assert (N2 : s2 <> []) by (destruct LC as (_ & _ & N2 & _); exact N2).
      destruct (IH f (off + llen sec) s1 (S level) ltac:(discriminate) LC NEr ltac:(lia)) as (n & CL).
      cbn [top_off]. fold (llen sec). rewrite CL.
      destruct s2 as [|k2 s2']; [congruence|]. cbn [concat app sblks]. eexists. reflexivity.
  Qed.

  Lemma section_index_ok : forall off sec lv claimed,
    lchain off sec lv -> Forall (fun k => ck_recs k <> []) (concat lv) ->
    claimed = (match lv with [] => 0 | _ => top_off off sec lv end) ->
    section_index (sblks c off sec) (opt (sblks c (off + llen sec) (concat lv))) claimed = inr tt.
  Proof.
    intros off sec lv claimed LC NE ->. destruct lv as [|s1 rest].
    - cbn [concat sblks opt section_index]. reflexivity.
    - pose proof (lchain_ne _ _ _ LC) as LNE.
      pose proof (length_concat_ne _ _ LNE) as LL.
      destruct (check_levels_ok (s1 :: rest) (S (length (sblks c (off + llen sec) (concat (s1 :: rest))))) off sec 1
                  ltac:(discriminate) LC NE ltac:(rewrite sblks_length; lia)) as (n & CL).
      assert (NN : sblks c (off + llen sec) (concat (s1 :: rest)) <> []).
      { pose proof (Forall_inv LNE) as N1. cbn [concat]. destruct s1; [congruence|]. cbn [app sblks]. discriminate. }
      destruct (sblks c (off + llen sec) (concat (s1 :: rest))) as [|b0 bs] eqn:EB; [congruence|].
      cbn [opt section_index]. rewrite CL. cbn [sbind fst]. rewrite N.eqb_refl. reflexivity.
  Qed.
End Levels2.

(* ------------------------------------------------------------------ *)
(* L6/L7: the sections *)

Lemma opt_get : forall s, match opt s with Some r => r | None => [] end = s.
Proof. intros [|x l]; reflexivity. Qed.

Section Fin.
  Variable c : config.
  Let hs := hash_size c.

  Lemma flat_recs : forall sec off, flat_map sb_recs (sblks c off sec) = map (rec_read hs) (E sec).
  Proof.
    induction sec as [|k t IH]; intros off; [reflexivity|].
    cbn [sblks flat_map sblk sb_recs]. rewrite IH, E_cons, map_app. reflexivity.
  Qed.

  Lemma sblks_typ : forall T sec off, Forall (fun k => ck_typ k = T) sec ->
    Forall (fun b => sb_typ b = T) (sblks c off sec).
  Proof.
    intros T. induction sec as [|k t IH]; intros off F; [constructor|].
    cbn [sblks]. constructor; [exact (Forall_inv F)|apply IH; exact (Forall_inv_tail F)].
  Qed.

  Lemma sblks_nil_iff : forall sec off, sblks c off sec = [] <-> sec = [].
  Proof. intros [|k t] off; cbn [sblks]; split; intros; try reflexivity; discriminate. Qed.

  Lemma run_pos_sblks : forall k t off, run_pos (sblks c off (k :: t)) = off.
  Proof. reflexivity. Qed.

  (* selecting one kind of record commutes with rec_read *)
  Lemma sel_ref_read : forall r,
    match rec_read hs r with RecRef x => [x] | _ => [] end = match r with RecRef x => [x] | _ => [] end.
  Proof. intros [x|l|k o|k o]; reflexivity. Qed.

  Lemma sel_obj_read : forall r,
    match rec_read hs r with RecObj p o => [(p, o)] | _ => [] end = match r with RecObj p o => [(p, o)] | _ => [] end.
  Proof. intros [x|l|k o|k o]; reflexivity. Qed.

  Lemma refs_of_sblks : forall sec off,
    refs_of_blocks (sblks c off sec) = flat_map (fun r => match r with RecRef x => [x] | _ => [] end) (E sec).
  Proof.
    induction sec as [|k t IH]; intros off; [reflexivity|].
    unfold refs_of_blocks in *. cbn [sblks flat_map sblk sb_recs]. rewrite IH, E_cons, flat_map_app. f_equal.
    induction (ck_recs k) as [|r rs IHr]; [reflexivity|]. cbn [map flat_map]. rewrite sel_ref_read, IHr. reflexivity.
  Qed.

  Lemma logs_of_sblks : forall sec off,
    logs_of_blocks (sblks c off sec) =
    flat_map (fun r => match r with RecLog x => [fill_log hs x] | _ => [] end) (E sec).
  Proof.
    induction sec as [|k t IH]; intros off; [reflexivity|].
    unfold logs_of_blocks in *. cbn [sblks flat_map sblk sb_recs]. rewrite IH, E_cons, flat_map_app. f_equal.
    induction (ck_recs k) as [|r rs IHr]; [reflexivity|]. cbn [map flat_map]. rewrite IHr.
    destruct r; reflexivity.
  Qed.

  Lemma flat_sel_refs : forall xs, flat_map (fun r => match r with RecRef x => [x] | _ => [] end) (map RecRef xs) = xs.
  Proof. induction xs as [|x t IH]; [reflexivity|]. cbn [map flat_map app]. rewrite IH. reflexivity. Qed.

  Lemma flat_sel_logs : forall nl,
    flat_map (fun r => match r with RecLog x => [fill_log hs x] | _ => [] end) (map RecLog nl) = map (fill_log hs) nl.
  Proof. induction nl as [|x t IH]; [reflexivity|]. cbn [map flat_map app]. rewrite IH. reflexivity. Qed.

  Lemma existsb_map : forall A B (f : A -> B) (p : B -> bool) l, existsb p (map f l) = existsb (fun a => p (f a)) l.
  Proof. intros A B f p. induction l as [|a t IH]; [reflexivity|]. cbn [map existsb]. rewrite IH. reflexivity. Qed.

  Lemma existsb_ext' : forall A (f g : A -> bool) l, (forall a, f a = g a) -> existsb f l = existsb g l.
  Proof. intros A f g l H. induction l as [|a t IH]; [reflexivity|]. cbn [existsb]. rewrite H, IH. reflexivity. Qed.

  Lemma forallb_ext' : forall A (f g : A -> bool) l, (forall a, f a = g a) -> forallb f l = forallb g l.
  Proof. intros A f g l H. induction l as [|a t IH]; [reflexivity|]. cbn [forallb]. rewrite H, IH. reflexivity. Qed.

  Lemma want_sblks : forall (P : record -> bool), (forall r, P (rec_read hs r) = P r) ->
    forall sec off,
    map sb_pos (filter (fun b => existsb P (sb_recs b)) (sblks c off sec)) =
    map fst (filter (fun b => existsb P (snd b)) (posrecs off sec)).
  Proof.
    intros P HP. induction sec as [|k t IH]; intros off; [reflexivity|].
    cbn [sblks posrecs filter sblk sb_recs snd]. rewrite existsb_map.
    rewrite (existsb_ext' _ (fun a => P (rec_read (hash_size c) a)) P (ck_recs k) HP).
    destruct (existsb P (ck_recs k)); cbn [map sb_pos fst]; rewrite IH; reflexivity.
  Qed.

  Lemma check_objs_cobjs : forall idlen rsec osec off,
    SpecDecoder.check_objs idlen (sblks c 0 rsec) (sblks c off osec) = cobjs idlen (posrecs 0 rsec) (E osec).
  Proof.
    intros idlen rsec osec off. unfold SpecDecoder.check_objs, cobjs.
    assert (OBJS : flat_map (fun b => flat_map (fun r => match r with RecObj p o => [(p, o)] | _ => [] end) (sb_recs b))
                            (sblks c off osec)
                   = flat_map (fun r => match r with RecObj p o => [(p, o)] | _ => [] end) (E osec)).
    { revert off. induction osec as [|k t IH]; intros off; [reflexivity|].
      cbn [sblks flat_map sblk sb_recs]. rewrite IH, E_cons, flat_map_app. f_equal.
      induction (ck_recs k) as [|r rs IHr]; [reflexivity|]. cbn [map flat_map]. rewrite sel_obj_read, IHr. reflexivity. }
    rewrite OBJS.
    assert (REFS : refs_of_blocks (sblks c 0 rsec)
                   = flat_map (fun b => flat_map (fun r => match r with RecRef x => [x] | _ => [] end) (snd b)) (posrecs 0 rsec)).
    { rewrite refs_of_sblks. generalize (0 : N). induction rsec as [|k t IH]; intros o; [reflexivity|].
      cbn [posrecs flat_map snd]. rewrite E_cons, flat_map_app. f_equal. apply IH. }
    rewrite REFS. f_equal.
    apply forallb_ext'. intros [p offs].
    rewrite (want_sblks (fun r => match r with RecRef x => ref_has_prefix p x | _ => false end)
               ltac:(intros [x|l|k o|k o]; reflexivity) rsec 0).
    reflexivity.
  Qed.
End Fin.

Section FinOk.
  Variable c : config.
  Let hs := hash_size c.

  Lemma undelta : forall mn mx refs, Forall (fun r => mn <= r_index r <= mx) refs ->
    map (fun x => {| r_name := r_name x; r_index := r_index x + mn; r_val := r_val x |}) (map (delta_ref mn) refs) = refs.
  Proof.
    intros mn mx refs F. induction F as [|x t Hx F IH]; [reflexivity|].
    cbn [map]. rewrite IH. f_equal. destruct x as [nm ix v]. unfold delta_ref. cbn [r_name r_index r_val] in *.
    f_equal. lia.
  Qed.

  Lemma spec_fin_ok : forall version mn mx sha refs nl rsec rlv osec olv lsec llv idlen ri oo oi lo li
                             o1 o2 o3 o4 o5 blocks,
    o1 = 0 + llen rsec -> o3 = o2 + llen osec -> o5 = o4 + llen lsec ->
    Forall (fun k => ck_recs k <> []) (concat rlv) -> Forall (fun k => ck_recs k <> []) (concat olv) ->
    Forall (fun k => ck_recs k <> []) (concat llv) ->
    E rsec = map RecRef (map (delta_ref mn) refs) -> E lsec = map RecLog nl ->
    lchain 0 rsec rlv -> lchain o2 osec olv -> lchain o4 lsec llv ->
    ri = (match rlv with [] => 0 | _ => top_off 0 rsec rlv end) ->
    oo = (match osec with [] => 0 | _ => o2 end) ->
    oi = (match olv with [] => 0 | _ => top_off o2 osec olv end) ->
    lo = (match lsec with [] => 0 | _ => o4 end) ->
    li = (match llv with [] => 0 | _ => top_off o4 lsec llv end) ->
    sorted_recs (E rsec) -> sorted_recs (E osec) -> sorted_recs (E lsec) ->
    (osec <> [] -> cobjs idlen (posrecs 0 rsec) (E osec) = true) ->
    Forall (fun r => mn <= r_index r <= mx) refs ->
    exists t,
      spec_fin version (c_block_size c) mn mx sha ri oo idlen oi lo li blocks
        (opt (sblks c 0 rsec)) (opt (sblks c o1 (concat rlv)))
        (opt (sblks c o2 osec)) (opt (sblks c o3 (concat olv)))
        (opt (sblks c o4 lsec)) (opt (sblks c o5 (concat llv))) = inr t /\
      sp_refs t = refs /\ sp_logs t = map (fill_log hs) nl /\ sp_min t = mn /\ sp_max t = mx /\ sp_sha256 t = sha.
  Proof.
    intros version mn mx sha refs nl rsec rlv osec olv lsec llv idlen ri oo oi lo li o1 o2 o3 o4 o5 blocks
           -> -> -> NE1 NE2 NE3 ER EL LC1 LC2 LC3 Hri Hoo Hoi Hlo Hli SR SO SL OBJ RNG.
    unfold spec_fin. cbv zeta. rewrite !opt_get.
    assert (OK1 : match opt (sblks c o2 osec) with Some r => oo =? run_pos r | None => oo =? 0 end = true).
    { subst oo. destruct osec as [|k t]; cbn [sblks opt run_pos sblk sb_pos]; apply N.eqb_refl. }
    assert (OK2 : match opt (sblks c o4 lsec) with
                  | Some r => (lo =? run_pos r) || ((run_pos r =? 0) && (lo =? 0))
                  | None => lo =? 0 end = true).
    { subst lo. destruct lsec as [|k t]; cbn [sblks opt run_pos sblk sb_pos]; rewrite N.eqb_refl; reflexivity. }
    rewrite OK1, OK2. cbn [andb negb].
    rewrite (section_index_ok c 0 rsec rlv ri LC1 NE1 Hri).
    rewrite (section_index_ok c o2 osec olv oi LC2 NE2 Hoi).
    rewrite (section_index_ok c o4 lsec llv li LC3 NE3 Hli).
    cbn [sbind]. rewrite !flat_recs.
    rewrite (keys_asc_sorted _ _ None SR I), (keys_asc_sorted _ _ None SO I), (keys_asc_sorted _ _ None SL I).
    cbn [andb negb].
    assert (CO : match opt (sblks c o2 osec) with
                 | Some o => SpecDecoder.check_objs idlen (sblks c 0 rsec) o
                 | None => true end = true).
    { destruct osec as [|k t]; [reflexivity|]. cbn [sblks opt].
      change (sblk c o2 k :: sblks c (o2 + N.of_nat (length (ck_bytes k))) t) with (sblks c o2 (k :: t)).
      rewrite check_objs_cobjs. apply OBJ. discriminate. }
    rewrite CO. cbn [negb].
    rewrite refs_of_sblks, ER, flat_sel_refs, (undelta mn mx refs RNG).
    assert (FB : forallb (fun x => r_index x <=? mx) refs = true).
    { apply forallb_forall. intros x Hx. rewrite Forall_forall in RNG. specialize (RNG x Hx). lia. }
    rewrite FB. cbn [negb].
    eexists. split; [reflexivity|]. cbn [sp_refs sp_logs sp_min sp_max sp_sha256].
    split; [reflexivity|]. split; [|auto]. rewrite logs_of_sblks, EL. apply flat_sel_logs.
  Qed.
End FinOk.

(* ====================================================================== *)
(* PART 5: assembly -- table_wellformed *)
(* ====================================================================== *)

(* C14: every table the writer emits is accepted by the independent format
   judge (Model/SpecDecoder.spec_decode), which decodes exactly the records
   given to the writer. *)


(* ------------------------------------------------------------------ *)
(* positions of the blocks of a section *)

Lemma posrecs_bounds : forall sec off,
  Forall (fun k => (0 < length (ck_bytes k))%nat) sec ->
  StronglySorted N.lt (map fst (posrecs off sec)) /\
  Forall (fun p => off <= p < off + llen sec) (map fst (posrecs off sec)) /\
  N.of_nat (length (posrecs off sec)) <= llen sec.
Proof.
  induction sec as [|k t IH]; intros off F.
  - cbn [posrecs map length]. split; [constructor|]. split; [constructor|]. unfold llen, layout. cbn [flat_map length]. lia.
  - pose proof (Forall_inv F) as Lk. cbv beta in Lk. pose proof (Forall_inv_tail F) as Ft.
    destruct (IH (off + N.of_nat (length (ck_bytes k))) Ft) as (S1 & B1 & C1).
    cbn [posrecs map fst length]. rewrite llen_cons.
    split; [|split].
    + constructor; [exact S1|]. eapply Forall_impl; [|exact B1]. cbv beta. intros; lia.
    + constructor; [lia|]. eapply Forall_impl; [|exact B1]. cbv beta. intros; lia.
    + lia.
Qed.

Lemma chunks_lengths : forall deflate c mn mx cs off, chunks_at deflate c mn mx off cs ->
  Forall (fun k => (0 < length (ck_bytes k))%nat) cs.
Proof.
  intros deflate c mn mx. induction cs as [|k t IH]; intros off H; [constructor|].
  cbn [chunks_at] in H. destruct H as [Hk Ht]. constructor; [|eapply IH; exact Ht].
  apply chunk_at_len in Hk. unfold ck_bytes. rewrite app_length. lia.
Qed.

Lemma Forall_sub : forall A (P : A -> Prop) a s b, Forall P (a ++ s ++ b) -> Forall P s.
Proof. intros A P a s b H. apply Forall_app in H. destruct H as [_ H]. apply Forall_app in H. apply H. Qed.

Lemma filter_len_le : forall A (f : A -> bool) l, (length (filter f l) <= length l)%nat.
Proof. intros A f. induction l as [|a t IH]; [cbn; lia|]. cbn [filter]. destruct (f a); cbn [length]; lia. Qed.

(* the object records are in the domain of the block codec *)
Lemma obj_recs_ok : forall hs rb orecs idlen M,
  StronglySorted N.lt (map fst rb) -> Forall (fun p => p < M) (map fst rb) -> M <= two64 ->
  N.of_nat (length rb) < two64 -> (idlen < 32)%nat ->
  Forall2 (fun r kv => obj_rec_of idlen kv r) orecs (objs_of (events rb)) ->
  Forall (fun r => rec_typ r = typ_obj /\ rec_ok hs r) orecs.
Proof.
  intros hs rb orecs idlen M SS BM HM LN IL F2.
  apply Forall_forall. intros r Hr.
  destruct (Forall2_in_l _ _ _ F2 r Hr) as (kv & Hkv & OR).
  pose proof (lookup_entry _ kv (objs_sorted (events rb)) Hkv) as LE.
  rewrite (lookup_objs rb SS) in LE.
  assert (KL : forall k : bytes, N.of_nat (length (firstn idlen k)) < 2 ^ 60).
  { intros k. pose proof (firstn_le_length idlen k). change (2 ^ 60) with 1152921504606846976. lia. }
  assert (PB : Forall (fun o => o < two64) (snd kv) /\ N.of_nat (length (snd kv)) < two64).
  { rewrite <- LE. split.
    - apply Forall_forall. intros x Hx. apply posof_incl in Hx. rewrite Forall_forall in BM. specialize (BM x Hx). lia.
    - unfold posof. rewrite map_length. pose proof (filter_len_le _ (blk_has (fst kv)) rb). lia. }
  destruct OR as [-> | ->]; (split; [reflexivity|]); unfold rec_ok; cbn [rec_key]; (split; [apply KL|]).
  - exact PB.
  - split; [constructor|]. cbn [length]. unfold two64. lia.
Qed.

Lemma lchain_not_ref' : forall lv off sec, lchain off sec lv -> Forall (fun k => ck_typ k = typ_idx) (concat lv).
Proof.
  induction lv as [|s1 rest IH]; intros off sec H; cbn [concat]; [constructor|].
  destruct H as (_ & T & _ & H). apply Forall_app. split; [exact T|eapply IH; exact H].
Qed.

Lemma good_strong : forall c T lv, Forall (good c T) lv -> Forall (strong c) (concat lv).
Proof.
  intros c T lv F. induction F as [|s t (G1 & _) F IH]; [constructor|]. cbn [concat]. apply Forall_app. split; [|exact IH].
  eapply Forall_impl; [|exact G1]. cbv beta. intros k [_ S]. exact S.
Qed.

Lemma typ_strong : forall c T s, Forall (fun x => ck_typ x = T /\ strong c x) s -> Forall (strong c) s.
Proof. intros c T s F. eapply Forall_impl; [|exact F]. cbv beta. intros k [_ S]. exact S. Qed.

Lemma rgood_idx_of : forall c T sec off, Forall (fun k => ck_recs k <> []) sec -> rgood c T (E sec) ->
  off + llen sec < two64 -> rgood c typ_idx (idx_recs (idx_of off sec)).
Proof. intros c T sec off NE G B. apply (idx_good2 c T sec off NE G B). Qed.

Section Top.
  Variable deflate : bytes -> bytes.
  Variable inflate : bytes -> inflate_result.
  Hypothesis Hz : zlib_ok deflate inflate.

  Definition sinfl : bytes -> sinflate_result := sinfl_of inflate.

  Theorem table_wellformed_gen : forall cfg min max refs logs data logs',
    cfg_ok cfg -> max < two64 -> min <= max -> refs_ok cfg min max refs -> logs_ok cfg logs ->
    N.of_nat (length data) < two64 ->
    (c_skip_index_objects cfg = true \/ N.of_nat (length data) * 32 < two64) ->
    write_table deflate cfg min max refs logs = Ok (false, data) ->
    read_logs cfg logs = Some logs' ->
    exists t, spec_decode sinfl data = inr t /\
      sp_refs t = refs /\ sp_logs t = logs' /\ sp_min t = min /\ sp_max t = max /\ sp_sha256 t = c_sha256 cfg.
  Proof.
    intros cfg min max refs logs data logs' [CB1 CB2] Hmax Hmm [RO RS] [LO LS] Hsz Hobj H RL.
    destruct (written3 deflate cfg min max refs logs data H) as (nl & NL & _ & fcs & st1 & D & NE & CH & LP & FO).
    set (c := cfg_defaults cfg) in *.
    assert (HBS : 64 <= c_block_size c < 16777216).
    { unfold c, cfg_defaults. cbn [c_block_size]. destruct (N.eqb_spec (c_block_size cfg) 0); lia. }
    assert (HS : hash_size c = hash_size cfg) by reflexivity.
    assert (HSP : (0 < hash_size c)%nat) by (unfold hash_size; destruct (c_sha256 c); lia).
    assert (LG : logs' = map (fill_log (hash_size c)) nl).
    { unfold read_logs in RL. rewrite NL in RL. cbn [option_map] in RL. injection RL as <-. reflexivity. }
    destruct fcs as [|k0 rest0]; [congruence|].
    destruct (layout_head _ _ _ _ _ _ CH) as (body & LH).
    set (fcs := k0 :: rest0) in *.
    assert (LF : llen fcs < two64 /\ (c_skip_index_objects c = true \/ llen fcs * 32 < two64)).
    { unfold llen. rewrite D, app_length in Hsz, Hobj. split; [lia|]. destruct Hobj as [SK|B]; [left; exact SK|right; lia]. }
    destruct LF as [LF LF32].
    set (Lref := map RecRef (map (delta_ref min) refs)) in *.
    set (Llog := map RecLog nl) in *.
    (* the records are in the domain of the block codec *)
    assert (GR : Forall (fun x => rec_typ x = typ_ref /\ rec_ok (hash_size c) x) Lref).
    { unfold Lref. rewrite !Forall_map. eapply Forall_impl; [|exact RO]. cbv beta.
      intros x ((I & V) & _ & KL & _). split; [reflexivity|]. split; [exact KL|].
      unfold ref_ok. cbn [delta_ref r_index r_val]. split; [lia|exact V]. }
    assert (SR : sorted_recs Lref).
    { unfold sorted_recs, Lref. apply sorted_map. apply sorted_map. exact RS. }
    pose proof (norm_logs_Forall2 _ _ _ NL) as F2.
    assert (GL : rgood c typ_log Llog).
    { unfold rgood, Llog. clear - F2 LO LS HS. revert LO LS.
      induction F2 as [|l l1 logs nl N1 F2 IH]; intros LO LS.
      - cbn [map]. split; constructor.
      - pose proof (Forall_inv LO) as [OK KL]. pose proof (Forall_inv_tail LO) as LO'.
        inversion LS as [|? ? LS' LF]; subst.
        destruct (IH LO' LS') as (I1 & I2).
        pose proof (norm_log_key _ _ _ N1) as K1. specialize (OK _ N1).
        cbn [map]. split.
        + constructor; [|exact I1]. split; [reflexivity|]. split; [cbn [rec_key]; rewrite K1; exact KL|].
          rewrite HS. exact OK.
        + constructor; [exact I2|]. rewrite Forall_map. cbn [rec_key].
          clear - F2 LF K1. induction F2 as [|a a1 t t1 Na F2 IH]; [constructor|].
          pose proof (Forall_inv LF) as A. pose proof (Forall_inv_tail LF) as LF'.
          constructor; [|apply IH; exact LF'].
          rewrite K1, (norm_log_key _ _ _ Na). exact A. }
    assert (RNG : Forall (fun r => min <= r_index r <= max) refs).
    { eapply Forall_impl; [|exact RO]. cbv beta. intros x (_ & _ & _ & B). exact B. }
    set (ri := rio st1) in *. set (oo := ts_offset (w_objs st1)) in *. set (oi := ts_index_offset (w_objs st1)) in *.
    set (lo := ts_offset (w_log st1)) in *. set (li := ts_index_offset (w_log st1)) in *.
    set (idlen := w_idlen st1) in *.
    (* the layout *)
    destruct FO as (cs0 & lsec & llv & E0 & [(rsec & rlv & osec & olv & E1 & TR & RR & LC1 & TO & LC2 & Hri & Hoo & Hoi & IL & OSK & OBJ)]
                    & TL & RLg & LC3 & LV3 & Hlo & Hli).
    assert (EF : fcs = rsec ++ concat rlv ++ osec ++ concat olv ++ lsec ++ concat llv).
    { rewrite E0, E1, <- !app_assoc. reflexivity. }
    pose proof (chunks_nonempty _ _ _ _ _ _ CH) as NEall.
    pose proof (chunks_lengths _ _ _ _ _ _ CH) as LNall.
    rewrite EF in NEall, LNall.
    assert (NEr : Forall (fun k => ck_recs k <> []) rsec) by (apply Forall_app in NEall; apply NEall).
    assert (NErl : Forall (fun k => ck_recs k <> []) (concat rlv)).
    { apply (Forall_sub _ _ rsec (concat rlv) (osec ++ concat olv ++ lsec ++ concat llv)). exact NEall. }
    assert (NEo : Forall (fun k => ck_recs k <> []) osec).
    { apply (Forall_sub _ _ (rsec ++ concat rlv) osec (concat olv ++ lsec ++ concat llv)).
      rewrite <- !app_assoc. exact NEall. }
    assert (NEol : Forall (fun k => ck_recs k <> []) (concat olv)).
    { apply (Forall_sub _ _ (rsec ++ concat rlv ++ osec) (concat olv) (lsec ++ concat llv)).
      rewrite <- !app_assoc. exact NEall. }
    assert (NEl : Forall (fun k => ck_recs k <> []) lsec).
    { apply (Forall_sub _ _ (rsec ++ concat rlv ++ osec ++ concat olv) lsec (concat llv)).
      rewrite <- !app_assoc. exact NEall. }
    assert (NEll : Forall (fun k => ck_recs k <> []) (concat llv)).
    { apply (Forall_sub _ _ (rsec ++ concat rlv ++ osec ++ concat olv ++ lsec) (concat llv) []).
      rewrite app_nil_r, <- !app_assoc. exact NEall. }
    assert (LNr : Forall (fun k => (0 < length (ck_bytes k))%nat) rsec) by (apply Forall_app in LNall; apply LNall).
    (* offsets *)
    set (o1 := 0 + llen rsec) in *.
    set (o2 := llen (rsec ++ concat rlv)) in *.
    set (o3 := o2 + llen osec) in *.
    set (o4 := llen cs0) in *.
    set (o5 := o4 + llen lsec) in *.
    assert (LLF : llen fcs = llen rsec + llen (concat rlv) + llen osec + llen (concat olv) + llen lsec + llen (concat llv)).
    { rewrite EF, !llen_app. lia. }
    assert (O2 : o2 = o1 + llen (concat rlv)) by (unfold o2, o1; rewrite llen_app; lia).
    assert (O4 : o4 = o3 + llen (concat olv)) by (unfold o4, o3, o2; rewrite E1, !llen_app; lia).
    (* emptiness relations *)
    assert (CR : rsec = [] -> rlv = []).
    { intros ->. eapply lchain_nil_sec; [exact LC1|exact NErl]. }
    assert (CO : osec = [] -> olv = []).
    { intros ->. eapply lchain_nil_sec; [exact LC2|exact NEol]. }
    (* the sections are good *)
    assert (GRr : rgood c typ_ref (E rsec)) by (rewrite RR; split; assumption).
    assert (GLl : rgood c typ_log (E lsec)) by (rewrite RLg; exact GL).
    (* the object section *)
    destruct (posrecs_bounds rsec 0 LNr) as (PS & PB & PC).
    assert (REFOK : Forall (fun b => Forall (fun r => match r with RecRef x => ref_ok (hash_size c) x | _ => False end) (snd b))
                           (posrecs 0 rsec)).
    { assert (G0 : Forall (fun r => match r with RecRef x => ref_ok (hash_size c) x | _ => False end) (E rsec)).
      { rewrite RR. eapply Forall_impl; [|exact GR]. cbv beta. intros r [T [_ OK]].
        destruct r; try discriminate. exact OK. }
      clear - G0. generalize (0 : N). induction rsec as [|k t IH]; intros o; [constructor|].
      rewrite E_cons in G0. apply Forall_app in G0. destruct G0 as [G1 G2].
      cbn [posrecs]. constructor; [exact G1|apply IH; exact G2]. }
    assert (OBJS : osec <> [] -> sorted_recs (E osec) /\ cobjs idlen (posrecs 0 rsec) (E osec) = true /\
                                 Forall (fun r => rec_typ r = typ_obj /\ rec_ok (hash_size c) r) (E osec)).
    { intros NO. destruct (OBJ NO) as (IDL & OF2).
      destruct (objs_check (hash_size c) (posrecs 0 rsec) (E osec) idlen HSP PS REFOK IDL OF2) as (A1 & A2 & _).
      split; [exact A1|]. split; [exact A2|].
      apply (obj_recs_ok (hash_size c) (posrecs 0 rsec) (E osec) idlen (0 + llen rsec) PS); try assumption.
      - eapply Forall_impl; [|exact PB]. cbv beta. intros; lia.
      - lia.
      - lia. }
    assert (GOo : rgood c typ_obj (E osec)).
    { destruct osec as [|ko to]; [split; constructor|].
      destruct (OBJS ltac:(discriminate)) as (A1 & _ & A3). split; assumption. }
    (* every chunk is in the domain of the block codec *)
    assert (STR : Forall (strong c) fcs).
    { rewrite EF. repeat (apply Forall_app; split).
      - eapply typ_strong. apply (strong_of_concat c typ_ref rsec TR); apply GRr.
      - eapply good_strong. apply (levels_good c rlv 0 rsec typ_ref LC1); [apply Forall_app; split; assumption|exact GRr|lia].
      - eapply typ_strong. apply (strong_of_concat c typ_obj osec TO); apply GOo.
      - eapply good_strong. apply (levels_good c olv o2 osec typ_obj LC2); [apply Forall_app; split; assumption|exact GOo|lia].
      - eapply typ_strong. apply (strong_of_concat c typ_log lsec TL); apply GLl.
      - eapply good_strong. apply (levels_good c llv o4 lsec typ_log LC3); [apply Forall_app; split; assumption|exact GLl|lia]. }
    (* the footer fields *)
    assert (Bri : ri <= llen fcs).
    { rewrite Hri. pose proof (top_off_le rlv 0 rsec). destruct rlv; lia. }
    assert (Boo : oo <= llen fcs /\ (osec = [] -> oo = 0)).
    { rewrite Hoo. destruct osec; [split; [lia|reflexivity]|]. split; [lia|discriminate]. }
    assert (Boi : oi <= llen fcs).
    { rewrite Hoi. pose proof (top_off_le olv o2 osec). destruct olv; lia. }
    assert (Blo : lo <= llen fcs).
    { rewrite Hlo. destruct lsec; lia. }
    assert (Bli : li <= llen fcs).
    { rewrite Hli. pose proof (top_off_le llv o4 lsec). destruct llv; lia. }
    assert (WORD : oo * 32 + N.of_nat idlen < two64).
    { destruct LF32 as [SK|B32].
      - destruct Boo as [_ Z]. rewrite (Z (OSK SK)). unfold two64. lia.
      - destruct Boo as [B _]. unfold two64 in *. lia. }
    (* the judge *)
    pose proof (spec_decode_open sinfl c min max (ck_typ k0) body
                  (ts_index_offset (w_ref st1)) ((oo * 32 + N.of_nat idlen) mod two64) oi lo li
                  ltac:(lia) ltac:(lia) Hmax) as OPEN.
    cbv zeta in OPEN. rewrite <- LH in OPEN.
    assert (D' : data = layout fcs ++
                   footer_of c min max (ts_index_offset (w_ref st1)) ((oo * 32 + N.of_nat idlen) mod two64) oi lo li ++
                   be32 (crc32 (footer_of c min max (ts_index_offset (w_ref st1))
                                          ((oo * 32 + N.of_nat idlen) mod two64) oi lo li))) by exact D.
    rewrite <- D' in OPEN. rewrite OPEN.
    fold (llen fcs). unfold sinfl.
    rewrite (parse_blocks_all deflate inflate Hz c min max HBS fcs _ data CH LP D' STR). cbn [sbind].
    change (ts_index_offset (w_ref st1)) with ri.
    rewrite (N.mod_small ri), (N.mod_small oi), (N.mod_small lo), (N.mod_small li), (N.mod_small (oo * 32 + N.of_nat idlen)),
            (N.mod_small (oo * 32 + N.of_nat idlen)) by lia.
    replace ((oo * 32 + N.of_nat idlen) / 32) with oo by (apply N.div_unique with (r := N.of_nat idlen); lia).
    replace (N.to_nat ((oo * 32 + N.of_nat idlen) mod 32)) with idlen
      by (rewrite <- (N.mod_unique (oo * 32 + N.of_nat idlen) 32 oo (N.of_nat idlen)) by lia; lia).
    (* the block list *)
    assert (SB : sblks c 0 fcs = sblks c 0 rsec ++ sblks c o1 (concat rlv) ++ sblks c o2 osec ++
                                 sblks c o3 (concat olv) ++ sblks c o4 lsec ++ sblks c o5 (concat llv)).
    { rewrite EF. rewrite !sblks_app. unfold o1, o3, o5. rewrite O4, O2. unfold o3, o1.
      repeat f_equal; lia. }
    rewrite SB.
    rewrite tail_sections.
    - destruct (spec_fin_ok c (version_of c) min max (c_sha256 c) refs nl rsec rlv osec olv lsec llv idlen
                  ri oo oi lo li o1 o2 o3 o4 o5
                  (sblks c 0 rsec ++ sblks c o1 (concat rlv) ++ sblks c o2 osec ++
                   sblks c o3 (concat olv) ++ sblks c o4 lsec ++ sblks c o5 (concat llv))
                  eq_refl eq_refl eq_refl NErl NEol NEll RR RLg LC1 LC2 LC3 Hri Hoo Hoi Hlo Hli)
        as (t & T1 & T2 & T3 & T4 & T5 & T6).
      + rewrite RR. exact SR.
      + apply GOo.
      + apply GLl.
      + intros NO. apply (OBJS NO).
      + exact RNG.
      + exists t. split; [exact T1|]. rewrite LG. auto.
    - apply sblks_typ. exact TR.
    - apply sblks_typ. eapply lchain_not_ref'. exact LC1.
    - apply sblks_typ. exact TO.
    - apply sblks_typ. eapply lchain_not_ref'. exact LC2.
    - apply sblks_typ. exact TL.
    - apply sblks_typ. eapply lchain_not_ref'. exact LC3.
    - intros EN. apply sblks_nil_iff in EN. rewrite (CR EN). reflexivity.
    - intros EN. apply sblks_nil_iff in EN. rewrite (CO EN). reflexivity.
    - intros EN. apply sblks_nil_iff in EN. rewrite (LV3 EN). reflexivity.
  Qed.

  (* C14.  The bound on the file size is the format's: the footer stores the
     position of the object section in 59 bits (64 - 5 bits of id length). *)
  Theorem table_wellformed : forall cfg min max refs logs data logs',
    cfg_ok cfg -> max < two64 -> min <= max -> refs_ok cfg min max refs -> logs_ok cfg logs ->
    N.of_nat (length data) < 2 ^ 59 ->
    write_table deflate cfg min max refs logs = Ok (false, data) ->
    read_logs cfg logs = Some logs' ->
    exists t, spec_decode sinfl data = inr t /\
      sp_refs t = refs /\ sp_logs t = logs' /\ sp_min t = min /\ sp_max t = max /\ sp_sha256 t = c_sha256 cfg.
  Proof.
    intros cfg min max refs logs data logs' C Hmax Hmm R L Hsz H RL.
    change (2 ^ 59) with 576460752303423488 in Hsz.
    apply (table_wellformed_gen cfg min max refs logs data logs' C Hmax Hmm R L); try assumption.
    - unfold two64. lia.
    - right. unfold two64. lia.
  Qed.

  (* without an object index the statement holds up to the full 64-bit file size *)
  Theorem table_wellformed_noobj : forall cfg min max refs logs data logs',
    c_skip_index_objects cfg = true ->
    cfg_ok cfg -> max < two64 -> min <= max -> refs_ok cfg min max refs -> logs_ok cfg logs ->
    N.of_nat (length data) < two64 ->
    write_table deflate cfg min max refs logs = Ok (false, data) ->
    read_logs cfg logs = Some logs' ->
    exists t, spec_decode sinfl data = inr t /\
      sp_refs t = refs /\ sp_logs t = logs' /\ sp_min t = min /\ sp_max t = max /\ sp_sha256 t = c_sha256 cfg.
  Proof.
    intros cfg min max refs logs data logs' SK C Hmax Hmm R L Hsz H RL.
    apply (table_wellformed_gen cfg min max refs logs data logs' C Hmax Hmm R L); try assumption.
    left. exact SK.
  Qed.
End Top.

(* the hypothesis on the codec is satisfiable: the stored stand-in of BlockProofs *)
Definition table_wellformed_stored := table_wellformed sdeflate sinflate sdeflate_ok.

(* ------------------------------------------------------------------ *)
(* the statement holds by computation on concrete tables (stored codec):
   aligned and unaligned, several index levels, an object section with its
   own index, dropped position lists *)

Definition s_check (c : config) (nr nl : nat) : option (spec_err + (nat * bool * bool * bool)) :=
  let refs := t_refs nr in let logs := t_logs nl in
  match write_table sdeflate c 5 7 refs logs, read_logs c logs with
  | Ok (false, data), Some logs' =>
      match spec_decode (sinfl sinflate) data with
      | inl e => Some (inl e)
      | inr t =>
          if records_eqb (map RecRef (sp_refs t)) (map RecRef refs) && records_eqb (map RecLog (sp_logs t)) (map RecLog logs')
             && (sp_min t =? 5) && (sp_max t =? 7) && Bool.eqb (sp_sha256 t) (c_sha256 c)
          then Some (inr (sp_nblocks t, sp_ref_levels t, sp_has_obj t, sp_log_levels t))
          else None
      end
  | _, _ => None
  end.

Example s_check_refs : s_check (t_cfg false 128 false) 10 0 = Some (inr (3%nat, false, false, false)).
Proof. vm_compute. reflexivity. Qed.
Example s_check_logs : s_check (t_cfg false 128 false) 0 12 = Some (inr (11%nat, false, false, true)).
Proof. vm_compute. reflexivity. Qed.
Example s_check_aligned : s_check (t_cfg false 128 false) 30 30 = Some (inr (38%nat, true, true, true)).
Proof. vm_compute. reflexivity. Qed.
Example s_check_unaligned : s_check (t_cfg true 100 true) 30 40 = Some (inr (51%nat, true, false, true)).
Proof. vm_compute. reflexivity. Qed.
Example s_check_levels_aligned : s_check (t_cfg false 64 false) 40 0 = Some (inr (31%nat, true, true, false)).
Proof. vm_compute. reflexivity. Qed.
Example s_check_levels_unaligned : s_check (t_cfg true 64 false) 60 0 = Some (inr (49%nat, true, true, false)).
Proof. vm_compute. reflexivity. Qed.
Example s_check_log_index : s_check (t_cfg true 120 false) 12 24 = Some (inr (28%nat, true, true, true)).
Proof. vm_compute. reflexivity. Qed.

(* 90 refs pointing at one object in 96-byte blocks: its position list does not fit a block and is dropped *)
Definition same_refs (n : nat) : list ref_record :=
  map (fun i => {| r_name := t_name i; r_index := 5 + N.of_nat (Nat.modulo i 3);
                   r_val := RVal2 (repeat 9 20) (repeat (N.of_nat (Nat.div i 30)) 20) |}) (seq 0 n).
Definition s_check_with (c : config) (refs : list ref_record) (nl : nat) : option (spec_err + (nat * bool * bool * bool)) :=
  let logs := t_logs nl in
  match write_table sdeflate c 5 7 refs logs, read_logs c logs with
  | Ok (false, data), Some logs' =>
      match spec_decode (sinfl sinflate) data with
      | inl e => Some (inl e)
      | inr t =>
          if records_eqb (map RecRef (sp_refs t)) (map RecRef refs) && records_eqb (map RecLog (sp_logs t)) (map RecLog logs')
          then Some (inr (sp_nblocks t, sp_ref_levels t, sp_has_obj t, sp_log_levels t))
          else None
      end
  | _, _ => None
  end.
Example s_check_dropped : s_check_with (t_cfg false 96 false) (same_refs 90) 10 = Some (inr (111%nat, true, true, true)).
Proof. vm_compute. reflexivity. Qed.

Print Assumptions table_wellformed_gen.
Print Assumptions table_wellformed.
Print Assumptions table_wellformed_noobj.
Print Assumptions table_wellformed_stored.
