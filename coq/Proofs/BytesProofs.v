(* Proofs about Model/Bytes.v: bytes_eqb decides equality, bytes_ltb is a
   strict total order (the lexicographic order on byte lists). *)
From Coq Require Import List NArith Bool Lia.
From RT Require Import Model.Bytes.
Import ListNotations.
Local Open Scope N_scope.

Lemma bytes_eqb_eq : forall a b, bytes_eqb a b = true <-> a = b.
Proof.
  induction a as [|x a IH]; intros [|y b]; cbn [bytes_eqb]; split; intros H;
    try reflexivity; try discriminate.
  - apply andb_true_iff in H. destruct H as [H1 H2].
    apply N.eqb_eq in H1. apply IH in H2. subst. reflexivity.
  - inversion H; subst. apply andb_true_iff. split.
    + apply N.eqb_refl.
    + apply IH. reflexivity.
Qed.

Lemma bytes_eqb_refl : forall a, bytes_eqb a a = true.
Proof. intros a. apply bytes_eqb_eq. reflexivity. Qed.

Lemma bytes_eqb_neq : forall a b, bytes_eqb a b = false <-> a <> b.
Proof.
  intros a b. split.
  - intros H E. apply bytes_eqb_eq in E. congruence.
  - intros H. destruct (bytes_eqb a b) eqn:E; [|reflexivity].
    apply bytes_eqb_eq in E. contradiction.
Qed.

Lemma bytes_eqb_spec : forall a b, reflect (a = b) (bytes_eqb a b).
Proof.
  intros a b. destruct (bytes_eqb a b) eqn:E; constructor.
  - apply bytes_eqb_eq. exact E.
  - apply bytes_eqb_neq. exact E.
Qed.

Lemma bytes_eqb_sym : forall a b, bytes_eqb a b = bytes_eqb b a.
Proof.
  intros a b. destruct (bytes_eqb_spec a b) as [->|H].
  - symmetry. apply bytes_eqb_refl.
  - symmetry. apply bytes_eqb_neq. congruence.
Qed.

Lemma bytes_ltb_irrefl : forall a, bytes_ltb a a = false.
Proof.
  induction a as [|x a IH]; cbn [bytes_ltb]; [reflexivity|].
  rewrite N.ltb_irrefl. exact IH.
Qed.

Lemma bytes_ltb_trans : forall a b c,
  bytes_ltb a b = true -> bytes_ltb b c = true -> bytes_ltb a c = true.
Proof.
  induction a as [|x a IH]; intros [|y b] [|z c]; cbn [bytes_ltb]; intros H1 H2;
    try discriminate; try reflexivity.
  destruct (N.ltb_spec x y) as [Hxy|Hxy];
  destruct (N.ltb_spec y z) as [Hyz|Hyz];
  destruct (N.ltb_spec x z) as [Hxz|Hxz]; try reflexivity; try (exfalso; lia).
  - destruct (N.ltb_spec z y); [discriminate|exfalso; lia].
  - destruct (N.ltb_spec y x); [discriminate|exfalso; lia].
  - destruct (N.ltb_spec y x) as [Hyx|Hyx]; [discriminate|].
    destruct (N.ltb_spec z y) as [Hzy|Hzy]; [discriminate|].
    destruct (N.ltb_spec z x) as [Hzx|Hzx]; [exfalso; lia|].
    eapply IH; eassumption.
Qed.

Lemma bytes_ltb_asym : forall a b, bytes_ltb a b = true -> bytes_ltb b a = false.
Proof.
  intros a b H. destruct (bytes_ltb b a) eqn:E; [|reflexivity].
  pose proof (bytes_ltb_trans _ _ _ H E) as H1.
  rewrite bytes_ltb_irrefl in H1. discriminate.
Qed.

Lemma bytes_ltb_total : forall a b,
  bytes_ltb a b = false -> bytes_ltb b a = false -> a = b.
Proof.
  induction a as [|x a IH]; intros [|y b]; cbn [bytes_ltb]; intros H1 H2;
    try discriminate; try reflexivity.
  destruct (N.ltb_spec x y) as [Hxy|Hxy]; [discriminate|].
  destruct (N.ltb_spec y x) as [Hyx|Hyx]; [discriminate|].
  assert (x = y) by lia. subst. f_equal. apply IH; assumption.
Qed.

Lemma bytes_ltb_trichotomy : forall a b,
  {bytes_ltb a b = true} + {a = b} + {bytes_ltb b a = true}.
Proof.
  intros a b. destruct (bytes_ltb a b) eqn:E1.
  - left. left. reflexivity.
  - destruct (bytes_ltb b a) eqn:E2.
    + right. reflexivity.
    + left. right. apply bytes_ltb_total; assumption.
Qed.

Lemma bytes_ltb_neq : forall a b, bytes_ltb a b = true -> a <> b.
Proof.
  intros a b H E. subst. rewrite bytes_ltb_irrefl in H. discriminate.
Qed.

Lemma bytes_ltb_eqb : forall a b, bytes_ltb a b = true -> bytes_eqb a b = false.
Proof. intros a b H. apply bytes_eqb_neq. apply bytes_ltb_neq. exact H. Qed.

(* mixed transitivity with the non-strict order  a <= b  :=  bytes_ltb b a = false *)
Lemma bytes_lt_le_trans : forall a b c,
  bytes_ltb a b = true -> bytes_ltb c b = false -> bytes_ltb a c = true.
Proof.
  intros a b c H1 H2.
  destruct (bytes_ltb_trichotomy b c) as [[H|H]|H].
  - eapply bytes_ltb_trans; eassumption.
  - subst. exact H1.
  - congruence.
Qed.

Lemma bytes_le_lt_trans : forall a b c,
  bytes_ltb b a = false -> bytes_ltb b c = true -> bytes_ltb a c = true.
Proof.
  intros a b c H1 H2.
  destruct (bytes_ltb_trichotomy a b) as [[H|H]|H].
  - eapply bytes_ltb_trans; eassumption.
  - subst. exact H2.
  - congruence.
Qed.

Lemma bytes_le_trans : forall a b c,
  bytes_ltb b a = false -> bytes_ltb c b = false -> bytes_ltb c a = false.
Proof.
  intros a b c H1 H2.
  destruct (bytes_ltb c a) eqn:E; [|reflexivity].
  pose proof (bytes_lt_le_trans _ _ _ E H1) as H3. congruence.
Qed.

Lemma bytes_leb_refl : forall a, bytes_leb a a = true.
Proof. intros a. unfold bytes_leb. rewrite bytes_ltb_irrefl. reflexivity. Qed.
