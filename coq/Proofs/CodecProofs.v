(* Round-trip facts for the byte-level codec: varints, big-endian integers,
   prefix-compressed keys, and the four record types. *)
From Coq Require Import List NArith ZArith Arith Bool Lia ZifyN ZifyNat ZifyBool Sorted.
From RT Require Import Model.Bytes Model.Result Model.Varint Model.KeyCodec Model.Records Model.RecCodec.
Import ListNotations.
Local Open Scope N_scope.

#[local] Arguments N.div : simpl never.
#[local] Arguments N.modulo : simpl never.
#[local] Arguments N.mul : simpl never.
#[local] Arguments N.add : simpl never.
#[local] Arguments N.sub : simpl never.
#[local] Arguments N.pow : simpl never.
#[local] Arguments N.of_nat : simpl never.
#[local] Arguments N.to_nat : simpl never.

Local Ltac Zify.zify_post_hook ::= Z.div_mod_to_equations.

(* ------------------------------------------------------------------ *)
(* generic list helpers *)

Lemma skipn_app_len : forall (A : Type) (a b : list A), skipn (length a) (a ++ b) = b.
Proof. induction a; intros; cbn [length skipn app]; auto. Qed.

Lemma firstn_app_len : forall (A : Type) (a b : list A), firstn (length a) (a ++ b) = a.
Proof. induction a; intros; cbn [length firstn app]; [reflexivity|f_equal; auto]. Qed.

Lemma skipn_app_len' : forall (A : Type) n (a b : list A), n = length a -> skipn n (a ++ b) = b.
Proof. intros; subst; apply skipn_app_len. Qed.

Lemma firstn_app_len' : forall (A : Type) n (a b : list A), n = length a -> firstn n (a ++ b) = a.
Proof. intros; subst; apply firstn_app_len. Qed.

Lemma Ok_inj : forall (A : Type) (a b : A), Ok a = Ok b -> a = b.
Proof. intros A a b H. congruence. Qed.

Lemma app_inj_len : forall (A : Type) (a b c d : list A),
  a ++ c = b ++ d -> length c = length d -> a = b /\ c = d.
Proof.
  induction a as [|x a IH]; intros [|y b] c d H L; cbn [app] in H.
  - auto.
  - subst c. cbn [length] in L. rewrite app_length in L. lia.
  - subst d. cbn [length] in L. rewrite app_length in L. lia.
  - inversion H; subst. destruct (IH _ _ _ H2 L). subst. auto.
Qed.

(* ------------------------------------------------------------------ *)
(* varint *)

Lemma put_varint_aux_app : forall fuel val acc,
  put_varint_aux fuel val acc = put_varint_aux fuel val [] ++ acc.
Proof.
  induction fuel as [|f IH]; intros val acc; cbn [put_varint_aux]; [reflexivity|].
  destruct (val / 128 =? 0); [reflexivity|].
  rewrite IH. rewrite (IH _ [_]). rewrite <- app_assoc. reflexivity.
Qed.

Lemma put_varint_aux_wf : forall fuel val acc, wf_bytes acc -> wf_bytes (put_varint_aux fuel val acc).
Proof.
  induction fuel as [|f IH]; intros val acc H; cbn [put_varint_aux]; [exact H|].
  destruct (val / 128 =? 0); [exact H|].
  apply IH. constructor; [|exact H]. unfold wf_byte. lia.
Qed.

Theorem put_varint_wf : forall v, wf_bytes (put_varint v).
Proof.
  intros v. unfold put_varint. apply put_varint_aux_wf.
  constructor; [|constructor]. unfold wf_byte. lia.
Qed.

Lemma put_varint_aux_len : forall fuel k val,
  val < 128 ^ (N.of_nat k + 1) -> (length (put_varint_aux fuel val []) <= k)%nat.
Proof.
  induction fuel as [|f IH]; intros k val H; cbn [put_varint_aux]; [cbn; lia|].
  destruct (N.eqb_spec (val / 128) 0) as [E|E]; [cbn; lia|].
  rewrite put_varint_aux_app, app_length. cbn [length].
  destruct k as [|k].
  - exfalso. change (128 ^ (N.of_nat 0 + 1)) with 128 in H. lia.
  - assert (length (put_varint_aux f (val / 128 - 1) []) <= k)%nat; [|lia].
    apply IH.
    replace (N.of_nat (S k) + 1) with (N.succ (N.of_nat k + 1)) in H by lia.
    rewrite N.pow_succ_r' in H.
    generalize dependent (128 ^ (N.of_nat k + 1)). intros P HP. lia.
Qed.

Theorem put_varint_len : forall v, v < two64 -> (1 <= length (put_varint v) <= 10)%nat.
Proof.
  intros v H. unfold put_varint. rewrite put_varint_aux_app, app_length. cbn [length].
  assert (length (put_varint_aux 10 v []) <= 9)%nat; [|lia].
  apply put_varint_aux_len.
  change (128 ^ (N.of_nat 9 + 1)) with 1180591620717411303424. unfold two64 in H. lia.
Qed.

Definition vcont (flag : bool) (tl : bytes) (val : N) (n : nat) : option (N * nat) :=
  if flag then get_varint_loop tl val n else Some (val, n).

Lemma get_put_aux : forall fuel val (flag : bool) tl,
  val < 128 ^ (N.of_nat fuel + 1) -> val < two64 ->
  get_varint (put_varint_aux fuel val [] ++ ((if flag then 128 else 0) + val mod 128) :: tl)
  = vcont flag tl val (S (length (put_varint_aux fuel val []))).
Proof.
  assert (BASE : forall val (flag : bool) tl, val / 128 = 0 ->
    get_varint (((if flag then 128 else 0) + val mod 128) :: tl) = vcont flag tl val 1).
  { intros val flag tl E. cbn [get_varint]. unfold vcont.
    assert (((if flag then 128 else 0) + val mod 128) mod 128 = val) as -> by (destruct flag; lia).
    destruct flag.
    - destruct (N.leb_spec 128 (128 + val mod 128)); [reflexivity|lia].
    - destruct (N.leb_spec 128 (0 + val mod 128)); [lia|reflexivity]. }
  induction fuel as [|f IH]; intros val flag tl H H64; cbn [put_varint_aux].
  - cbn [app length]. apply BASE. change (128 ^ (N.of_nat 0 + 1)) with 128 in H. lia.
  - destruct (N.eqb_spec (val / 128) 0) as [E|E].
    + cbn [app length]. apply BASE. exact E.
    + rewrite put_varint_aux_app, <- app_assoc. cbn [app].
      rewrite (IH (val / 128 - 1) true).
      * unfold vcont at 1. cbn [get_varint_loop].
        rewrite app_length. cbn [length]. rewrite Nat.add_1_r.
        assert ((((val / 128 - 1 + 1) mod two64 * 128) mod two64 +
                 ((if flag then 128 else 0) + val mod 128) mod 128) = val) as ->.
        { replace (val / 128 - 1 + 1) with (val / 128) by lia.
          rewrite (N.mod_small (val / 128)) by (unfold two64 in *; lia).
          rewrite (N.mod_small (val / 128 * 128)) by (unfold two64 in *; lia).
          clear - E. destruct flag; rewrite ?N.add_0_l; lia. }
        unfold vcont. destruct flag.
        -- destruct (N.leb_spec 128 (128 + val mod 128)); [reflexivity|lia].
        -- destruct (N.leb_spec 128 (0 + val mod 128)); [lia|reflexivity].
      * replace (N.of_nat (S f) + 1) with (N.succ (N.of_nat f + 1)) in H by lia.
        rewrite N.pow_succ_r' in H.
        clear IH. set (P := 128 ^ (N.of_nat f + 1)) in *. clearbody P. lia.
      * unfold two64 in *. lia.
Qed.

Theorem get_put_varint : forall v rest, v < two64 ->
  get_varint (put_varint v ++ rest) = Some (v, length (put_varint v)).
Proof.
  intros v rest H. unfold put_varint. rewrite put_varint_aux_app, <- app_assoc. cbn [app].
  rewrite app_length, Nat.add_1_r.
  change (v mod 128) with (v mod 128) at 1.
  pose proof (get_put_aux 10 v false rest) as G. cbn [vcont] in G.
  replace (0 + v mod 128) with (v mod 128) in G by lia.
  apply G; [|exact H].
  change (128 ^ (N.of_nat 10 + 1)) with 151115727451828646838272. unfold two64 in H. lia.
Qed.

Lemma put_varint_nonempty : forall v, (1 <= length (put_varint v))%nat.
Proof.
  intros v. unfold put_varint. rewrite put_varint_aux_app, app_length. cbn [length]. lia.
Qed.

(* ------------------------------------------------------------------ *)
(* big-endian integers *)

Theorem be_bytes_length : forall w v, length (be_bytes w v) = w.
Proof.
  induction w as [|w IH]; intros v; cbn [be_bytes]; [reflexivity|].
  rewrite app_length, IH. cbn [length]. lia.
Qed.

Theorem be_bytes_wf : forall w v, wf_bytes (be_bytes w v).
Proof.
  induction w as [|w IH]; intros v; cbn [be_bytes]; [constructor|].
  apply Forall_app. split; [apply IH|]. constructor; [|constructor]. unfold wf_byte. lia.
Qed.

Theorem be_value_app : forall a b acc, be_value (a ++ b) acc = be_value b (be_value a acc).
Proof.
  induction a as [|x a IH]; intros b acc; cbn [app be_value]; [reflexivity|apply IH].
Qed.

Theorem be_value_be_bytes : forall w v, v < 256 ^ N.of_nat w -> be_value (be_bytes w v) 0 = v.
Proof.
  induction w as [|w IH]; intros v H; cbn [be_bytes].
  - change (256 ^ N.of_nat 0) with 1 in H. cbn [be_value]. lia.
  - rewrite be_value_app. cbn [be_value]. rewrite IH; [lia|].
    replace (N.of_nat (S w)) with (N.succ (N.of_nat w)) in H by lia.
    rewrite N.pow_succ_r' in H.
    set (P := 256 ^ N.of_nat w) in *. clearbody P. clear IH. lia.
Qed.

Lemma be_bytes_inj : forall w a b, a < 256 ^ N.of_nat w -> b < 256 ^ N.of_nat w ->
  be_bytes w a = be_bytes w b -> a = b.
Proof.
  intros w a b Ha Hb E. rewrite <- (be_value_be_bytes w a Ha), <- (be_value_be_bytes w b Hb), E.
  reflexivity.
Qed.

Lemma bytes_ltb_app_same : forall p a b, bytes_ltb (p ++ a) (p ++ b) = bytes_ltb a b.
Proof.
  induction p as [|x p IH]; intros a b; cbn [app]; [reflexivity|].
  cbn [bytes_ltb]. rewrite N.ltb_irrefl. apply IH.
Qed.

Lemma bytes_ltb_app_lt : forall x y u v, length x = length y ->
  bytes_ltb x y = true -> bytes_ltb (x ++ u) (y ++ v) = true.
Proof.
  induction x as [|a x IH]; intros [|b y] u v L H; cbn [length] in L; try discriminate.
  cbn [app bytes_ltb] in *. destruct (a <? b); [reflexivity|].
  destruct (b <? a); [discriminate|]. apply IH; [lia|exact H].
Qed.

Lemma be_bytes_lt : forall w a b, a < b -> b < 256 ^ N.of_nat w ->
  bytes_ltb (be_bytes w a) (be_bytes w b) = true.
Proof.
  induction w as [|w IH]; intros a b Hab Hb.
  - change (256 ^ N.of_nat 0) with 1 in Hb. lia.
  - cbn [be_bytes].
    replace (N.of_nat (S w)) with (N.succ (N.of_nat w)) in Hb by lia.
    rewrite N.pow_succ_r' in Hb.
    destruct (N.lt_ge_cases (a / 256) (b / 256)) as [L|G].
    + apply bytes_ltb_app_lt; [rewrite !be_bytes_length; reflexivity|].
      apply IH; [exact L|]. set (P := 256 ^ N.of_nat w) in *. clearbody P. clear IH. lia.
    + assert (a / 256 = b / 256) as -> by (clear IH Hb; lia).
      rewrite bytes_ltb_app_same. cbn [bytes_ltb].
      destruct (N.ltb_spec (a mod 256) (b mod 256)); [reflexivity|]. clear IH Hb. lia.
Qed.

(* ------------------------------------------------------------------ *)
(* keys *)

Theorem common_prefix_spec : forall a b, let p := common_prefix a b in
  (p <= length a)%nat /\ (p <= length b)%nat /\ firstn p a = firstn p b.
Proof.
  induction a as [|x a IH]; intros [|y b]; cbn [common_prefix length firstn];
    try (repeat split; lia).
  destruct (N.eqb_spec x y) as [->|N].
  - destruct (IH b) as (H1 & H2 & H3). cbn [firstn]. repeat split; try lia. f_equal. exact H3.
  - cbn [firstn]. repeat split; lia.
Qed.

Lemma decode_key_general : forall prev prev' key extra rest,
  extra < 8 -> N.of_nat (length key) < 2 ^ 60 ->
  (common_prefix prev key <= length prev')%nat ->
  firstn (common_prefix prev key) prev' = firstn (common_prefix prev key) key ->
  decode_key (fst (encode_key prev key extra) ++ rest) prev'
  = Some (length (fst (encode_key prev key extra)), key, extra).
Proof.
  intros prev prev' key extra rest He Hk Hp Hf.
  destruct (common_prefix_spec prev key) as (_ & P2 & _).
  change (2 ^ 60) with 1152921504606846976 in Hk.
  unfold encode_key. cbn [fst]. set (p := common_prefix prev key) in *.
  set (suffix := skipn p key).
  assert (Ls : length suffix = (length key - p)%nat) by (apply skipn_length).
  unfold decode_key. rewrite <- !app_assoc.
  rewrite get_put_varint by (unfold two64; lia).
  rewrite skipn_app_len.
  rewrite get_put_varint by (unfold two64; lia).
  rewrite skipn_app_len.
  set (X := N.of_nat (length suffix) * 8 + extra).
  assert (X mod 8 = extra) as -> by (unfold X; lia).
  assert (X / 8 = N.of_nat (length suffix)) as -> by (unfold X; lia).
  rewrite app_length.
  destruct (N.ltb_spec (N.of_nat (length suffix + length rest)) (N.of_nat (length suffix))); [lia|].
  destruct (N.ltb_spec (N.of_nat (length prev')) (N.of_nat p)); [lia|].
  rewrite !Nat2N.id. rewrite firstn_app_len. rewrite Hf.
  unfold suffix. rewrite firstn_skipn.
  rewrite !app_length. rewrite Nat.add_assoc. reflexivity.
Qed.

Theorem decode_encode_key : forall prev key extra rest,
  extra < 8 -> N.of_nat (length key) < 2 ^ 60 ->
  let '(kb, restart) := encode_key prev key extra in
  decode_key (kb ++ rest) prev = Some (length kb, key, extra) /\
  (restart = true <-> common_prefix prev key = 0%nat).
Proof.
  intros prev key extra rest He Hk.
  pose proof (decode_key_general prev prev key extra rest He Hk) as G.
  destruct (common_prefix_spec prev key) as (P1 & P2 & P3).
  specialize (G P1 P3).
  destruct (encode_key prev key extra) as [kb restart] eqn:E.
  cbn [fst] in G. split; [exact G|].
  unfold encode_key in E. inversion E. apply Nat.eqb_eq.
Qed.

Theorem decode_encode_key_restart : forall prev key extra rest prev',
  extra < 8 -> N.of_nat (length key) < 2 ^ 60 -> common_prefix prev key = 0%nat ->
  decode_key (fst (encode_key prev key extra) ++ rest) prev'
  = Some (length (fst (encode_key prev key extra)), key, extra).
Proof.
  intros prev key extra rest prev' He Hk H0.
  apply decode_key_general; try assumption; rewrite H0; [lia|reflexivity].
Qed.

Lemma put_varint_0 : put_varint 0 = [0].
Proof. reflexivity. Qed.

Theorem decode_restart_key_spec : forall pre prev key extra rest,
  extra < 8 -> N.of_nat (length key) < 2 ^ 60 -> common_prefix prev key = 0%nat ->
  decode_restart_key (pre ++ fst (encode_key prev key extra) ++ rest) (length pre) = Some key.
Proof.
  intros pre prev key extra rest He Hk H0.
  change (2 ^ 60) with 1152921504606846976 in Hk.
  unfold decode_restart_key, encode_key. cbn [fst]. rewrite H0.
  change (N.of_nat 0) with 0. rewrite put_varint_0.
  cbn [skipn].
  match goal with |- context [Nat.leb ?a ?b] => destruct (Nat.leb_spec a b) as [L|L] end.
  { rewrite !app_length in L. cbn [length] in L. lia. }
  rewrite skipn_app_len. cbn [app]. cbn [N.eqb negb].
  rewrite <- app_assoc.
  rewrite get_put_varint by (unfold two64; lia).
  rewrite skipn_app_len.
  set (X := N.of_nat (length key) * 8 + extra).
  assert (X / 8 = N.of_nat (length key)) as -> by (unfold X; lia).
  rewrite app_length.
  destruct (N.ltb_spec (N.of_nat (length key + length rest)) (N.of_nat (length key))); [lia|].
  rewrite Nat2N.id, firstn_app_len. reflexivity.
Qed.

(* ------------------------------------------------------------------ *)
(* log keys *)

Lemma pow256_8 : 256 ^ N.of_nat 8 = two64.
Proof. reflexivity. Qed.

Lemma rev_int64_lt : forall i, rev_int64 i < two64.
Proof. intros i. unfold rev_int64, u64_max, two64. lia. Qed.

Lemma rev_int64_invol : forall i, i < two64 -> rev_int64 (rev_int64 i) = i.
Proof. intros i. unfold rev_int64, u64_max, two64. lia. Qed.

Theorem decode_log_key_of : forall name idx, name <> [] -> idx < two64 ->
  decode_log_key (log_key_of name idx) = Some (name, idx).
Proof.
  intros name idx Hn Hi. unfold decode_log_key, log_key_of.
  assert (L : length (name ++ [0] ++ be64 (rev_int64 idx)) = (length name + 9)%nat).
  { rewrite !app_length. unfold be64. rewrite be_bytes_length. cbn [length]. lia. }
  rewrite L.
  assert (1 <= length name)%nat by (destruct name; [congruence|cbn [length]; lia]).
  destruct (Nat.ltb_spec (length name + 9) 10); [lia|].
  replace (length name + 9 - 9)%nat with (length name) by lia.
  rewrite skipn_app_len, firstn_app_len. cbn [app N.eqb negb].
  unfold be64. rewrite be_value_be_bytes by (rewrite pow256_8; apply rev_int64_lt).
  rewrite rev_int64_invol by exact Hi. reflexivity.
Qed.

(* log_key_of is injective on 64-bit indices, with no condition on the names:
   the suffix after the name has the fixed length 9, so the key length
   determines the name length (a 0 byte inside a name cannot cause a
   collision). *)
Theorem log_key_of_inj : forall n1 i1 n2 i2, i1 < two64 -> i2 < two64 ->
  log_key_of n1 i1 = log_key_of n2 i2 -> n1 = n2 /\ i1 = i2.
Proof.
  intros n1 i1 n2 i2 H1 H2 E. unfold log_key_of in E.
  apply app_inj_len in E.
  - destruct E as [En Eb]. split; [exact En|].
    apply app_inv_head in Eb. rename Eb into Eb'.
    unfold be64 in Eb'. apply be_bytes_inj in Eb'; try (rewrite pow256_8; apply rev_int64_lt).
    rewrite <- (rev_int64_invol i1 H1), <- (rev_int64_invol i2 H2), Eb'. reflexivity.
  - rewrite !app_length. unfold be64. rewrite !be_bytes_length. reflexivity.
Qed.

(* the bound on the indices is necessary: indices >= 2^64 - 1 all map to 0 *)
Example log_key_of_not_inj_unbounded : log_key_of [] two64 = log_key_of [] u64_max.
Proof. reflexivity. Qed.

Theorem log_key_same_name_order : forall n i1 i2, i1 < two64 -> i2 < two64 -> i2 < i1 ->
  bytes_ltb (log_key_of n i1) (log_key_of n i2) = true.
Proof.
  intros n i1 i2 H1 H2 H. unfold log_key_of. rewrite bytes_ltb_app_same.
  cbn [app bytes_ltb]. rewrite N.ltb_irrefl. unfold be64.
  apply be_bytes_lt; [|rewrite pow256_8; apply rev_int64_lt].
  unfold rev_int64, u64_max, two64 in *. lia.
Qed.

(* ------------------------------------------------------------------ *)
(* records *)

Definition ref_ok (hs : nat) (r : ref_record) : Prop :=
  r_index r < two64 /\
  match r_val r with
  | RDel => True
  | RVal h => length h = hs
  | RVal2 h t => length h = hs /\ length t = hs
  | RSym s => s <> [] /\ N.of_nat (length s) < two64
  end.

Definition body_ok (hs : nat) (b : log_body) : Prop :=
  (match lb_old b with Some h => length h = hs | None => True end) /\
  (match lb_new b with Some h => length h = hs | None => True end) /\
  lb_time b < two64 /\ lb_tz b < 65536 /\
  N.of_nat (length (lb_name b)) < two64 /\ N.of_nat (length (lb_email b)) < two64 /\
  N.of_nat (length (lb_msg b)) < two64.

Definition log_ok (hs : nat) (l : log_record) : Prop :=
  l_name l <> [] /\ l_index l < two64 /\
  match l_body l with None => True | Some b => body_ok hs b end.

(* what a log reads back as: absent hashes become all-zero *)
Definition fill_hash (hs : nat) (o : option bytes) : bytes :=
  match o with Some h => h | None => zeros hs end.
Definition fill_body (hs : nat) (b : log_body) : log_body :=
  {| lb_old := Some (fill_hash hs (lb_old b)); lb_new := Some (fill_hash hs (lb_new b));
     lb_name := lb_name b; lb_email := lb_email b; lb_time := lb_time b; lb_tz := lb_tz b;
     lb_msg := lb_msg b |}.
Definition fill_log (hs : nat) (l : log_record) : log_record :=
  {| l_name := l_name l; l_index := l_index l; l_body := option_map (fill_body hs) (l_body l) |}.

Theorem rec_val_type_lt8 : forall r, rec_val_type r < 8.
Proof.
  intros [r|l|k offs|k off]; cbn [rec_val_type].
  - destruct (r_val r); lia.
  - destruct (l_body l); lia.
  - destruct (Nat.ltb_spec 0 (length offs)); destruct (Nat.ltb_spec (length offs) 8);
      cbn [andb]; lia.
  - lia.
Qed.

Lemma decode_encode_string : forall s rest, N.of_nat (length s) < two64 ->
  decode_string (encode_string s ++ rest) = Some (length (encode_string s), s).
Proof.
  intros s rest H. unfold decode_string, encode_string. rewrite <- app_assoc.
  rewrite get_put_varint by exact H. rewrite skipn_app_len, app_length.
  destruct (N.ltb_spec (N.of_nat (length s + length rest)) (N.of_nat (length s))); [lia|].
  rewrite Nat2N.id, firstn_app_len, app_length. reflexivity.
Qed.

Theorem decode_encode_ref : forall hs r rest vb, (0 < hs)%nat -> ref_ok hs r ->
  rec_encode hs (RecRef r) = Ok vb ->
  rec_decode typ_ref hs (r_name r) (rec_val_type (RecRef r)) (vb ++ rest)
  = Some (length vb, RecRef r).
Proof.
  intros hs [name idx val] rest vb _ [Hi Hv] E. cbn [r_index r_val r_name] in *.
  cbn [rec_encode r_index r_val] in E. inversion E; subst vb; clear E.
  unfold rec_decode. change (typ_ref =? typ_ref) with true. cbv iota.
  rewrite <- app_assoc. rewrite get_put_varint by exact Hi. rewrite skipn_app_len.
  cbn [rec_val_type r_val].
  destruct val as [|h|h t|s]; cbn [N.eqb Pos.eqb orb]; rewrite (app_length (put_varint idx)).
  - cbn [app length]. rewrite Nat.add_0_r. reflexivity.
  - subst hs. rewrite app_length.
    destruct (Nat.ltb_spec (length h + length rest) (length h)); [lia|].
    rewrite firstn_app_len. reflexivity.
  - destruct Hv as [Hh Ht]. rewrite <- app_assoc.
    rewrite app_length.
    destruct (Nat.ltb_spec (length h + length (t ++ rest)) hs); [lia|].
    rewrite (firstn_app_len' _ hs h) by auto. rewrite (skipn_app_len' _ hs h) by auto.
    rewrite app_length.
    destruct (Nat.ltb_spec (length t + length rest) hs); [lia|].
    rewrite (firstn_app_len' _ hs t) by auto.
    rewrite app_length, Nat.add_assoc, Hh, Ht. reflexivity.
  - destruct Hv as [_ Hs]. rewrite decode_encode_string by exact Hs. reflexivity.
Qed.

Lemma zeros_length : forall n, length (zeros n) = n.
Proof. intros n. apply repeat_length. Qed.

Lemma fill_hash_length : forall hs o,
  match o with Some h => length h = hs | None => True end -> length (fill_hash hs o) = hs.
Proof. intros hs [h|] H; cbn [fill_hash]; [exact H|apply zeros_length]. Qed.

Theorem encode_log_ok : forall hs l, log_ok hs l -> exists vb, rec_encode hs (RecLog l) = Ok vb.
Proof.
  intros hs [name idx [b|]] (_ & _ & Hb); cbn [rec_encode l_body] in *; [|eexists; reflexivity].
  unfold body_ok in Hb. destruct Hb as (Ho & Hn & _).
  apply fill_hash_length in Ho, Hn. unfold fill_hash in Ho, Hn.
  rewrite Ho, Hn, Nat.eqb_refl. cbn [negb orb]. eexists; reflexivity.
Qed.

Theorem decode_encode_log : forall hs l rest vb, log_ok hs l ->
  rec_encode hs (RecLog l) = Ok vb ->
  rec_decode typ_log hs (log_key l) (rec_val_type (RecLog l)) (vb ++ rest)
  = Some (length vb, RecLog (fill_log hs l)).
Proof.
  intros hs [name idx body] rest vb (Hname & Hidx & Hb) E.
  cbn [l_name l_index l_body] in *.
  unfold rec_decode. change (typ_log =? typ_ref) with false. change (typ_log =? typ_log) with true.
  cbv iota. unfold log_key. cbn [l_name l_index].
  rewrite decode_log_key_of by assumption.
  cbn [rec_val_type l_body]. unfold fill_log. cbn [l_name l_index l_body].
  destruct body as [b|]; cbn [rec_encode l_body] in E.
  2:{ inversion E; subst vb. reflexivity. }
  destruct b as [old new nm em tm tz msg]. unfold body_ok in Hb.
  cbn [lb_old lb_new lb_name lb_email lb_time lb_tz lb_msg] in *.
  destruct Hb as (Ho & Hn & Htm & Htz & Hnm & Hem & Hmsg).
  apply fill_hash_length in Ho, Hn.
  change (match old with Some h => h | None => zeros hs end) with (fill_hash hs old) in E.
  change (match new with Some h => h | None => zeros hs end) with (fill_hash hs new) in E.
  rewrite Ho, Hn, Nat.eqb_refl in E. cbn [negb orb] in E. apply Ok_inj in E; subst vb.
  cbn [N.eqb]. cbv iota.
  cbn [option_map fill_body lb_old lb_new lb_name lb_email lb_time lb_tz lb_msg].
  set (O := fill_hash hs old) in *. set (W := fill_hash hs new) in *.
  rewrite <- !app_assoc.
  match goal with |- context [Nat.ltb ?a ?b] => destruct (Nat.ltb_spec a b) as [L|L] end.
  { rewrite !app_length in L. lia. }
  clear L.
  rewrite (firstn_app_len' _ hs O) by auto. rewrite (skipn_app_len' _ hs O) by auto.
  rewrite (firstn_app_len' _ hs W) by auto. rewrite (skipn_app_len' _ hs W) by auto.
  rewrite decode_encode_string by exact Hnm. rewrite skipn_app_len.
  rewrite decode_encode_string by exact Hem. rewrite skipn_app_len.
  rewrite get_put_varint by exact Htm. rewrite skipn_app_len.
  assert (L2 : length (be16 tz) = 2%nat) by apply be_bytes_length.
  match goal with |- context [Nat.ltb ?a ?b] => destruct (Nat.ltb_spec a b) as [L|L] end.
  { rewrite !app_length in L. lia. }
  clear L.
  rewrite (firstn_app_len' _ 2%nat (be16 tz)) by auto.
  rewrite (skipn_app_len' _ 2%nat (be16 tz)) by auto.
  unfold be16 at 1. rewrite be_value_be_bytes by exact Htz.
  rewrite decode_encode_string by exact Hmsg.
  f_equal. f_equal. rewrite !app_length. lia.
Qed.

Theorem decode_encode_idx : forall hs k off rest vb, off < two64 ->
  rec_encode hs (RecIdx k off) = Ok vb ->
  rec_decode typ_idx hs k 0 (vb ++ rest) = Some (length vb, RecIdx k off).
Proof.
  intros hs k off rest vb H E. cbn [rec_encode] in E. inversion E; subst vb.
  unfold rec_decode. change (typ_idx =? typ_ref) with false. change (typ_idx =? typ_log) with false.
  change (typ_idx =? typ_obj) with false. change (typ_idx =? typ_idx) with true. cbv iota.
  rewrite get_put_varint by exact H. reflexivity.
Qed.

(* ------------------------------------------------------------------ *)
(* object records *)

Lemma encode_deltas_len : forall offs last, (length offs <= length (encode_deltas last offs))%nat.
Proof.
  induction offs as [|o t IH]; intros last; cbn [encode_deltas length]; [lia|].
  rewrite app_length. pose proof (put_varint_nonempty ((o + two64 - last) mod two64)).
  specialize (IH o). lia.
Qed.

Lemma decode_encode_deltas : forall offs last rest consumed acc,
  Forall (fun o => o < two64) offs -> last < two64 ->
  decode_deltas (length offs) last (encode_deltas last offs ++ rest) consumed acc
  = Some ((consumed + length (encode_deltas last offs))%nat, rev acc ++ offs).
Proof.
  induction offs as [|o t IH]; intros last rest consumed acc HF HL;
    cbn [length encode_deltas decode_deltas app].
  - rewrite Nat.add_0_r, app_nil_r. reflexivity.
  - inversion HF as [|? ? Ho Ht]; subst.
    rewrite <- app_assoc.
    rewrite get_put_varint by (unfold two64; lia).
    rewrite skipn_app_len.
    assert (((o + two64 - last) mod two64 + last) mod two64 = o) as ->.
    { unfold two64 in *. lia. }
    rewrite IH by assumption.
    cbn [rev]. rewrite <- app_assoc. cbn [app]. rewrite app_length, Nat.add_assoc. reflexivity.
Qed.

(* a strictly ascending list of 64-bit values has at most 2^64 elements *)
Lemma sorted_length_bound : forall offs lo M,
  Forall (fun o => lo <= o < M) offs -> StronglySorted N.lt offs ->
  lo + N.of_nat (length offs) <= N.max lo M.
Proof.
  induction offs as [|o t IH]; intros lo M HF HS; cbn [length]; [lia|].
  inversion HF as [|? ? Ho Ht]; subst. inversion HS as [|? ? HS' Hlt]; subst.
  assert (HF' : Forall (fun x => o + 1 <= x < M) t).
  { rewrite Forall_forall in *. intros x Hx. specialize (Ht x Hx). specialize (Hlt x Hx). lia. }
  specialize (IH (o + 1) M HF' HS'). lia.
Qed.

Lemma sorted_offsets_length_le : forall offs,
  Forall (fun o => o < two64) offs -> StronglySorted N.lt offs ->
  N.of_nat (length offs) <= two64.
Proof.
  intros offs HF HS. pose proof (sorted_length_bound offs 0 two64) as B.
  assert (HF' : Forall (fun o => 0 <= o < two64) offs).
  { rewrite Forall_forall in *. intros x Hx. specialize (HF x Hx). lia. }
  specialize (B HF' HS). lia.
Qed.

(* the round trip itself needs no ordering of the offsets (uint64 deltas wrap
   consistently), only that the offsets and the count are 64-bit values *)
Theorem decode_encode_obj_gen : forall hs k offs rest vb,
  Forall (fun o => o < two64) offs -> N.of_nat (length offs) < two64 ->
  rec_encode hs (RecObj k offs) = Ok vb ->
  rec_decode typ_obj hs k (rec_val_type (RecObj k offs)) (vb ++ rest)
  = Some (length vb, RecObj k offs).
Proof.
  intros hs k offs rest vb HF HL E. cbn [rec_encode] in E. apply Ok_inj in E. subst vb.
  unfold rec_decode. change (typ_obj =? typ_ref) with false. change (typ_obj =? typ_log) with false.
  change (typ_obj =? typ_obj) with true. cbv iota. cbn [rec_val_type].
  destruct offs as [|o t].
  - cbn [length Nat.ltb Nat.leb andb Nat.eqb orb]. change (N.of_nat 0) with 0.
    rewrite put_varint_0. reflexivity.
  - inversion HF as [|? ? Ho Ht]; subst. cbn [length] in *.
    set (n := S (length t)) in *.
    (* the part after the count is the same in both layouts *)
    assert (TAIL : forall n0,
      match get_varint (put_varint o ++ encode_deltas o t ++ rest) with
      | None => None
      | Some (o0, n1) =>
          match decode_deltas (N.to_nat (N.of_nat n) - 1) o0
                  (skipn n1 (put_varint o ++ encode_deltas o t ++ rest)) (n0 + n1) [o0] with
          | None => None
          | Some (n', offs) => Some (n', RecObj k offs)
          end
      end = Some ((n0 + length (put_varint o ++ encode_deltas o t))%nat, RecObj k (o :: t))).
    { intros n0. rewrite get_put_varint by exact Ho. rewrite skipn_app_len.
      replace (N.to_nat (N.of_nat n) - 1)%nat with (length t) by (unfold n; lia).
      rewrite decode_encode_deltas by assumption.
      cbn [rev app]. rewrite app_length, Nat.add_assoc. reflexivity. }
    assert (LEN : (n <= length (put_varint o ++ encode_deltas o t ++ rest))%nat).
    { rewrite !app_length. pose proof (put_varint_nonempty o).
      pose proof (encode_deltas_len t o). unfold n. lia. }
    change (Nat.eqb n 0) with false. cbn [orb].
    destruct (Nat.leb_spec 8 n) as [L8|L8].
    + assert (Nat.ltb 0 n && Nat.ltb n 8 = false) as ->.
      { destruct (Nat.ltb_spec n 8); [lia|]. apply andb_false_r. }
      cbn [N.eqb]. cbv iota.
      rewrite <- !app_assoc. rewrite get_put_varint by exact HL. rewrite skipn_app_len.
      destruct (N.eqb_spec (N.of_nat n) 0); [lia|].
      destruct (N.ltb_spec (N.of_nat (length (put_varint o ++ encode_deltas o t ++ rest))) (N.of_nat n)); [lia|].
      rewrite TAIL. rewrite (app_length (put_varint (N.of_nat n))). reflexivity.
    + assert (Nat.ltb 0 n && Nat.ltb n 8 = true) as ->.
      { destruct (Nat.ltb_spec n 8); [|lia]. destruct (Nat.ltb_spec 0 n); [reflexivity|unfold n in *; lia]. }
      destruct (N.eqb_spec (N.of_nat n) 0); [lia|].
      cbn [skipn app]. rewrite <- !app_assoc.
      destruct (N.eqb_spec (N.of_nat n) 0); [lia|].
      destruct (N.ltb_spec (N.of_nat (length (put_varint o ++ encode_deltas o t ++ rest))) (N.of_nat n)); [lia|].
      rewrite TAIL. reflexivity.
Qed.

(* object records: offsets strictly ascending, all < 2^64.  The count itself
   must be a 64-bit value too: see the report for why [< two64] cannot be
   derived (strict ascent only gives [<= two64], sorted_offsets_length_le). *)
Theorem decode_encode_obj : forall hs k offs rest vb,
  Forall (fun o => o < two64) offs -> StronglySorted N.lt offs ->
  N.of_nat (length offs) < two64 ->
  rec_encode hs (RecObj k offs) = Ok vb ->
  rec_decode typ_obj hs k (rec_val_type (RecObj k offs)) (vb ++ rest)
  = Some (length vb, RecObj k offs).
Proof.
  intros hs k offs rest vb HF _ HL E. apply decode_encode_obj_gen; assumption.
Qed.

(* why the count bound is needed: a count of exactly 2^64 (only reachable in
   the model, by the list of all 64-bit values) is written as ten bytes that
   read back as 0 *)
Example varint_two64_wraps : get_varint (put_varint two64) = Some (0, 10%nat).
Proof. vm_compute. reflexivity. Qed.

Print Assumptions put_varint_wf.
Print Assumptions put_varint_len.
Print Assumptions get_put_varint.
Print Assumptions be_bytes_length.
Print Assumptions be_bytes_wf.
Print Assumptions be_value_be_bytes.
Print Assumptions be_value_app.
Print Assumptions common_prefix_spec.
Print Assumptions decode_encode_key.
Print Assumptions decode_encode_key_restart.
Print Assumptions decode_restart_key_spec.
Print Assumptions rec_val_type_lt8.
Print Assumptions decode_encode_ref.
Print Assumptions decode_encode_log.
Print Assumptions encode_log_ok.
Print Assumptions decode_encode_idx.
Print Assumptions decode_encode_obj_gen.
Print Assumptions decode_encode_obj.
Print Assumptions decode_log_key_of.
Print Assumptions log_key_of_inj.
Print Assumptions log_key_same_name_order.
