(* Proofs about Model/Compact.v: compaction preserves what a reader sees,
   keeps tombstones while older tables remain beneath the range, reflog
   expiry removes exactly the entries failing keep_log, update-index ranges
   stay valid, and Merged.RefsFor agrees with the merged view. *)
From Coq Require Import List NArith Arith Bool Lia Sorted.
From RT Require Import Model.Bytes Model.Records Model.Heap Model.Merge Model.Overlay Model.Compact.
From RT Require Import Proofs.BytesProofs Proofs.MergeProofs.
Import ListNotations.

(* ------------------------------------------------------------------ *)
(* generic list facts                                                   *)
(* ------------------------------------------------------------------ *)

Lemma skipn_skipn' : forall A (b a : nat) (l : list A), skipn a (skipn b l) = skipn (a + b) l.
Proof.
  intros A b. induction b as [|b IH]; intros a l.
  - rewrite Nat.add_0_r. reflexivity.
  - rewrite Nat.add_succ_r. destruct l as [|x l].
    + rewrite !skipn_nil. reflexivity.
    + cbn [skipn]. apply IH.
Qed.

Lemma split3 : forall A (first last : nat) (ts : list A),
  first <= last ->
  ts = firstn first ts ++ firstn (last - first + 1) (skipn first ts) ++ skipn (S last) ts.
Proof.
  intros A first last ts H.
  rewrite <- (firstn_skipn first ts) at 1. f_equal.
  rewrite <- (firstn_skipn (last - first + 1) (skipn first ts)) at 1. f_equal.
  rewrite skipn_skipn'. f_equal. lia.
Qed.

Lemma Forall_firstn : forall A (P : A -> Prop) n l, Forall P l -> Forall P (firstn n l).
Proof.
  intros A P n l H. rewrite <- (firstn_skipn n l) in H. apply Forall_app in H. apply H.
Qed.

Lemma Forall_skipn : forall A (P : A -> Prop) n l, Forall P l -> Forall P (skipn n l).
Proof.
  intros A P n l H. rewrite <- (firstn_skipn n l) in H. apply Forall_app in H. apply H.
Qed.

Lemma forallb_firstn : forall A (f : A -> bool) n l, forallb f l = true -> forallb f (firstn n l) = true.
Proof.
  intros A f n l H. rewrite <- (firstn_skipn n l), forallb_app in H.
  apply andb_true_iff in H. apply H.
Qed.

Lemma forallb_skipn : forall A (f : A -> bool) n l, forallb f l = true -> forallb f (skipn n l) = true.
Proof.
  intros A f n l H. rewrite <- (firstn_skipn n l), forallb_app in H.
  apply andb_true_iff in H. apply H.
Qed.

Lemma filter_comm : forall A (f g : A -> bool) l, filter f (filter g l) = filter g (filter f l).
Proof.
  intros A f g l. induction l as [|x l IH]; [reflexivity|].
  cbn [filter]. destruct (g x) eqn:Eg; destruct (f x) eqn:Ef; cbn [filter];
    rewrite ?Eg, ?Ef, IH; reflexivity.
Qed.

Lemma filter_idem : forall A (f : A -> bool) l, filter f (filter f l) = filter f l.
Proof.
  intros A f l. induction l as [|x l IH]; [reflexivity|].
  cbn [filter]. destruct (f x) eqn:Ef; cbn [filter]; rewrite ?Ef, IH; reflexivity.
Qed.

Lemma filter_true : forall A (f : A -> bool) l, (forall x, f x = true) -> filter f l = l.
Proof.
  intros A f l H. induction l as [|x l IH]; [reflexivity|].
  cbn [filter]. rewrite H, IH. reflexivity.
Qed.

(* ------------------------------------------------------------------ *)
(* generic overlay / view facts                                         *)
(* ------------------------------------------------------------------ *)

Section Gen.
  Variable R : Type.
  Variable key : R -> bytes.
  Variable is_del : R -> bool.

  Notation srt := (sorted R key).
  Notation ln := (lookup_newest key).
  Notation lk := (lookup key).

  Lemma lookup_newest_app : forall k a b,
    ln k (a ++ b) = match ln k b with Some r => Some r | None => ln k a end.
  Proof.
    intros k a b. induction a as [|t a IH]; cbn [app lookup_newest].
    - destruct (ln k b); reflexivity.
    - rewrite IH. destruct (ln k b); reflexivity.
  Qed.

  Lemma lookup_newest_single : forall k x, ln k [x] = lk k x.
  Proof. reflexivity. Qed.

  Lemma lookup_newest_none_all : forall k ts,
    ln k ts = None -> forall t, In t ts -> lk k t = None.
  Proof.
    intros k ts. induction ts as [|t0 ts IH]; cbn [lookup_newest]; intros H t Ht.
    - destruct Ht.
    - destruct (ln k ts) eqn:E; [discriminate|].
      destruct Ht as [<-|Ht]; [exact H|]. apply IH; [reflexivity|exact Ht].
  Qed.

  Lemma overlay_ext : forall ts1 ts2,
    Forall srt ts1 -> Forall srt ts2 ->
    (forall k, ln k ts1 = ln k ts2) -> overlay key ts1 = overlay key ts2.
  Proof.
    intros ts1 ts2 H1 H2 H. apply (sorted_lookup_ext R key).
    - apply overlay_sorted; assumption.
    - apply overlay_sorted; assumption.
    - intros k. rewrite !overlay_lookup by assumption. apply H.
  Qed.

  Lemma lookup_filter : forall (f : R -> bool) k l, srt l ->
    lk k (filter f l) = match lk k l with Some r => if f r then Some r else None | None => None end.
  Proof.
    intros f k l. induction l as [|r t IH]; intros Hs; [reflexivity|].
    apply sorted_inv in Hs. destruct Hs as [Hs Hr].
    cbn [filter lookup]. destruct (bytes_eqb (key r) k) eqn:E.
    - destruct (f r) eqn:Ef.
      + cbn [lookup]. rewrite E. reflexivity.
      + apply lookup_none. intros x Hx Hk. apply filter_In in Hx. destruct Hx as [Hx _].
        rewrite Forall_forall in Hr. apply Hr in Hx. unfold key_lt in Hx.
        apply bytes_eqb_eq in E. rewrite Hk, E in Hx. rewrite bytes_ltb_irrefl in Hx. discriminate.
    - destruct (f r); cbn [lookup]; rewrite ?E; apply IH; assumption.
  Qed.

  Definition lv (o : option R) : option R :=
    match o with Some r => if is_del r then None else Some r | None => None end.

  Lemma view_ext : forall ts1 ts2,
    Forall srt ts1 -> Forall srt ts2 ->
    (forall k, lv (ln k ts1) = lv (ln k ts2)) -> view key is_del ts1 = view key is_del ts2.
  Proof.
    intros ts1 ts2 H1 H2 H. unfold view. apply (sorted_lookup_ext R key).
    - apply filter_sorted, overlay_sorted; assumption.
    - apply filter_sorted, overlay_sorted; assumption.
    - intros k. rewrite !lookup_filter by (apply overlay_sorted; assumption).
      rewrite !overlay_lookup by assumption.
      specialize (H k). unfold lv, live in *.
      destruct (ln k ts1) as [r1|]; destruct (ln k ts2) as [r2|];
        try destruct (is_del r1); try destruct (is_del r2); cbn [negb] in *; congruence.
  Qed.

  Lemma overlay_nil_mid : forall a c, overlay key (a ++ [] :: c) = overlay key (a ++ c).
  Proof.
    intros a c. unfold overlay. rewrite !fold_left_app. cbn [fold_left].
    rewrite merge2_nil_r. reflexivity.
  Qed.

  Lemma overlay_single : forall x, overlay key [x] = x.
  Proof. intros x. unfold overlay. cbn [fold_left]. apply merge2_nil_l. Qed.

  (* replacing a run of tables by (anything with the lookups of) its overlay *)
  Lemma overlay_replace : forall A B C x,
    Forall srt A -> Forall srt B -> Forall srt C -> srt x ->
    (forall k, lk k x = ln k B) ->
    overlay key (A ++ x :: C) = overlay key (A ++ B ++ C).
  Proof.
    intros A B C x HA HB HC Hx H. apply overlay_ext.
    - apply Forall_app. split; [assumption|]. constructor; assumption.
    - apply Forall_app. split; [assumption|]. apply Forall_app. split; assumption.
    - intros k. change (x :: C) with ([x] ++ C). rewrite !lookup_newest_app.
      rewrite lookup_newest_single, H. reflexivity.
  Qed.

  (* at the bottom of the stack the tombstones may go *)
  Lemma view_replace_bottom : forall B C x,
    Forall srt B -> Forall srt C -> srt x ->
    (forall k, lv (lk k x) = lv (ln k B)) ->
    view key is_del (x :: C) = view key is_del (B ++ C).
  Proof.
    intros B C x HB HC Hx H. apply view_ext.
    - constructor; assumption.
    - apply Forall_app. split; assumption.
    - intros k. change (x :: C) with ([x] ++ C). rewrite !lookup_newest_app.
      rewrite lookup_newest_single. destruct (ln k C); [reflexivity|]. apply H.
  Qed.

  Lemma lv_filter_live : forall k l, srt l -> lv (lk k (filter (live is_del) l)) = lv (lk k l).
  Proof.
    intros k l Hl. rewrite lookup_filter by assumption. unfold lv, live.
    destruct (lk k l) as [r|]; [|reflexivity].
    destruct (is_del r) eqn:E; cbn [negb]; [reflexivity|]. rewrite E. reflexivity.
  Qed.

  Lemma overlay_in : forall ts r, Forall srt ts -> In r (overlay key ts) ->
    exists t, In t ts /\ In r t.
  Proof.
    intros ts r Hs Hr.
    pose proof (lookup_sorted_in R key _ _ (overlay_sorted R key ts Hs) Hr) as H.
    rewrite overlay_lookup in H by assumption.
    apply lookup_newest_some in H. destruct H as [t [H1 [H2 _]]]. exists t. split; assumption.
  Qed.

  (* the head of a seek is the lookup *)
  Lemma seek_head_lookup : forall k l, srt l ->
    match seek_list key k l with
    | r :: _ => if bytes_eqb (key r) k then Some r else None
    | [] => None
    end = lk k l.
  Proof.
    intros k l. induction l as [|r t IH]; intros Hs; [reflexivity|].
    apply sorted_inv in Hs. destruct Hs as [Hs Hr].
    cbn [seek_list lookup]. destruct (bytes_ltb (key r) k) eqn:E.
    - rewrite (bytes_ltb_eqb _ _ E). apply IH. assumption.
    - destruct (bytes_eqb (key r) k) eqn:E2; [reflexivity|].
      symmetry. apply lookup_none. intros x Hx Hk.
      rewrite Forall_forall in Hr. apply Hr in Hx. unfold key_lt in Hx.
      rewrite Hk in Hx. congruence.
  Qed.

  Definition olist (o : option R) : list R := match o with Some r => [r] | None => [] end.

  Lemma omap_in : forall (h : R -> option R) l y,
    (forall c r, h c = Some r -> key r = key c) ->
    In y (flat_map (fun c => olist (h c)) l) -> exists c, In c l /\ key y = key c.
  Proof.
    intros h l y Hh Hy. apply in_flat_map in Hy. destruct Hy as [c [Hc Hy]].
    exists c. split; [assumption|]. destruct (h c) eqn:E; cbn [olist] in Hy.
    - destruct Hy as [<-|[]]. apply Hh. assumption.
    - destruct Hy.
  Qed.

  Lemma omap_spec : forall (h : R -> option R) l,
    (forall c r, h c = Some r -> key r = key c) -> srt l ->
    srt (flat_map (fun c => olist (h c)) l) /\
    forall k, lk k (flat_map (fun c => olist (h c)) l) =
              match lk k l with Some c => h c | None => None end.
  Proof.
    intros h l Hh. induction l as [|c t IH]; intros Hs.
    - split; [apply sorted_nil|reflexivity].
    - apply sorted_inv in Hs. destruct Hs as [Hs Hc].
      destruct (IH Hs) as [IH1 IH2]. cbn [flat_map].
      assert (Hgt : forall y, In y (flat_map (fun c => olist (h c)) t) ->
                bytes_ltb (key c) (key y) = true).
      { intros y Hy. apply omap_in in Hy; [|assumption]. destruct Hy as [c' [Hc' Hk]].
        rewrite Forall_forall in Hc. apply Hc in Hc'. unfold key_lt in Hc'. rewrite Hk. exact Hc'. }
      destruct (h c) as [r|] eqn:E; cbn [olist app].
      + pose proof (Hh _ _ E) as Hk. split.
        * apply sorted_cons; [assumption|]. apply Forall_forall. intros y Hy.
          unfold key_lt. rewrite Hk. apply Hgt. assumption.
        * intros k. cbn [lookup]. rewrite Hk. destruct (bytes_eqb (key c) k); [symmetry; exact E|].
          apply IH2.
      + split; [assumption|]. intros k. cbn [lookup].
        destruct (bytes_eqb (key c) k) eqn:E2; [|apply IH2].
        rewrite E. apply lookup_none. intros y Hy Hk. apply Hgt in Hy.
        apply bytes_eqb_eq in E2. rewrite Hk, E2, bytes_ltb_irrefl in Hy. discriminate.
  Qed.

  (* RefsFor, generically: candidates from the per-table hits, double-checked against V *)
  Lemma refs_for_gen : forall (pt : R -> bool) T V,
    Forall srt T -> srt V ->
    (forall r, In r V -> exists t, In t T /\ In r t) ->
    flat_map (fun c =>
      match seek_list key (key c) V with
      | r :: _ => if bytes_eqb (key r) (key c) && pt r then [r] else []
      | [] => []
      end) (overlay key (map (filter pt) T)) = filter pt V.
  Proof.
    intros pt T V HT HV Hin.
    set (h := fun c => match lk (key c) V with
                       | Some r => if pt r then Some r else None
                       | None => None end).
    rewrite (flat_map_ext _ (fun c => olist (h c))).
    2:{ intros c. unfold h. rewrite <- (seek_head_lookup (key c) V HV).
        destruct (seek_list key (key c) V) as [|r ?]; [reflexivity|].
        destruct (bytes_eqb (key r) (key c)); [|reflexivity].
        destruct (pt r); reflexivity. }
    assert (Hh : forall c r, h c = Some r -> key r = key c).
    { intros c r. unfold h. destruct (lk (key c) V) as [r'|] eqn:E; [|discriminate].
      destruct (pt r'); [|discriminate]. intros [= <-]. apply lookup_some in E. apply E. }
    assert (Hhits : Forall srt (map (filter pt) T)).
    { apply Forall_forall. intros t Ht. apply in_map_iff in Ht. destruct Ht as [t' [<- Ht']].
      apply filter_sorted. rewrite Forall_forall in HT. apply HT. assumption. }
    pose proof (overlay_sorted R key _ Hhits) as Hc.
    destruct (omap_spec h _ Hh Hc) as [S1 S2].
    apply (sorted_lookup_ext R key); [assumption|apply filter_sorted; assumption|].
    intros k. rewrite S2, lookup_filter by assumption.
    rewrite overlay_lookup by assumption.
    destruct (ln k (map (filter pt) T)) as [c|] eqn:E.
    - apply lookup_newest_some in E. destruct E as [_ [_ [_ Hk]]].
      unfold h. rewrite Hk. reflexivity.
    - destruct (lk k V) as [r|] eqn:E2; [|reflexivity].
      destruct (pt r) eqn:E3; [|reflexivity]. exfalso.
      apply lookup_some in E2. destruct E2 as [Hk Hr].
      destruct (Hin r Hr) as [t [Ht Hrt]].
      assert (Hst : srt t) by (rewrite Forall_forall in HT; apply HT; assumption).
      assert (Hrf : In r (filter pt t)) by (apply filter_In; split; assumption).
      pose proof (lookup_sorted_in R key _ _ (filter_sorted R key pt t Hst) Hrf) as Hl.
      rewrite Hk in Hl.
      rewrite (lookup_newest_none_all k _ E (filter pt t)) in Hl; [discriminate|].
      apply in_map. assumption.
  Qed.

  (* dropping an empty table is invisible *)
  Lemma overlay_maybe_drop : forall A (p : A -> list R) a (c : A) (b : bool) rest,
    (b = true -> p c = []) ->
    overlay key (map p (a ++ (if b then [] else [c]) ++ rest)) =
    overlay key (map p a ++ p c :: map p rest).
  Proof.
    intros A p a c b rest H. destruct b; rewrite !map_app; cbn [map app]; [|reflexivity].
    rewrite H by reflexivity. rewrite overlay_nil_mid. reflexivity.
  Qed.
End Gen.

Arguments lv {R} is_del o.

(* ------------------------------------------------------------------ *)
(* tables_sorted                                                        *)
(* ------------------------------------------------------------------ *)

Definition tables_sorted (ts : list table) : Prop :=
  Forall (sorted ref_record ref_key) (map t_refs ts) /\ Forall (sorted log_record log_key) (map t_logs ts).

Lemma tables_sorted_app : forall a b, tables_sorted (a ++ b) <-> tables_sorted a /\ tables_sorted b.
Proof.
  intros a b. unfold tables_sorted. rewrite !map_app, !Forall_app. tauto.
Qed.

Lemma tables_sorted_nil : tables_sorted [].
Proof. split; constructor. Qed.

Lemma tables_sorted_single : forall c,
  sorted ref_record ref_key (t_refs c) -> sorted log_record log_key (t_logs c) -> tables_sorted [c].
Proof. intros c H1 H2. split; cbn [map]; constructor; auto. Qed.

(* ------------------------------------------------------------------ *)
(* the shape of compact_range                                           *)
(* ------------------------------------------------------------------ *)

Lemma table_empty_refs : forall c, table_empty c = true -> t_refs c = [].
Proof. intros c. unfold table_empty. destruct (t_refs c); [reflexivity|discriminate]. Qed.

Lemma table_empty_logs : forall c, table_empty c = true -> t_logs c = [].
Proof.
  intros c. unfold table_empty. destruct (t_refs c); [|discriminate].
  destruct (t_logs c); [reflexivity|discriminate].
Qed.

Lemma compact_range_split : forall first last e ts,
  first <= last -> last < length ts ->
  exists A B C, ts = A ++ B ++ C /\ (first = 0 -> A = []) /\
    let c := compact_table first last e ts in
    compact_range first last e ts = A ++ (if table_empty c then [] else [c]) ++ C /\
    t_refs c = (let refs := merged_scan ref_key ref_is_del false (map t_refs B) in
                if Nat.eqb first 0 then filter (live ref_is_del) refs else refs) /\
    t_logs c = filter (keep_log e) (merged_scan log_key log_is_del false (map t_logs B)).
Proof.
  intros first last e ts H1 H2.
  exists (firstn first ts), (firstn (last - first + 1) (skipn first ts)), (skipn (S last) ts).
  split; [apply split3; assumption|]. split; [intros ->; reflexivity|].
  cbv zeta. repeat split; reflexivity.
Qed.

(* the refs / logs of the compacted table, in terms of the overlay *)
Lemma compact_pieces : forall first last e ts,
  tables_sorted ts -> first <= last -> last < length ts ->
  exists A B C, ts = A ++ B ++ C /\ (first = 0 -> A = []) /\
    let c := compact_table first last e ts in
    compact_range first last e ts = A ++ (if table_empty c then [] else [c]) ++ C /\
    t_refs c = (if Nat.eqb first 0 then filter (live ref_is_del) (overlay ref_key (map t_refs B))
                else overlay ref_key (map t_refs B)) /\
    t_logs c = filter (keep_log e) (overlay log_key (map t_logs B)).
Proof.
  intros first last e ts Hs H1 H2.
  destruct (compact_range_split first last e ts H1 H2) as [A [B [C [E [H0 H]]]]].
  exists A, B, C. split; [assumption|]. split; [assumption|].
  cbv zeta in *. destruct H as [Hc [Hr Hl]]. split; [assumption|].
  rewrite E in Hs. apply tables_sorted_app in Hs. destruct Hs as [_ Hs].
  apply tables_sorted_app in Hs. destruct Hs as [[HB1 HB2] _].
  rewrite Hr, Hl. rewrite !merged_scan_overlay by assumption. split; reflexivity.
Qed.

(* ------------------------------------------------------------------ *)
(* compact_sorted                                                       *)
(* ------------------------------------------------------------------ *)

Theorem compact_sorted : forall first last e ts,
  tables_sorted ts -> (first <= last)%nat -> (last < length ts)%nat ->
  tables_sorted (compact_range first last e ts).
Proof.
  intros first last e ts Hs H1 H2.
  destruct (compact_pieces first last e ts Hs H1 H2) as [A [B [C [E [H0 H]]]]].
  cbv zeta in H. destruct H as [Hc [Hr Hl]]. rewrite Hc.
  rewrite E in Hs. apply tables_sorted_app in Hs. destruct Hs as [HA Hs].
  apply tables_sorted_app in Hs. destruct Hs as [HB HC].
  apply tables_sorted_app. split; [assumption|].
  apply tables_sorted_app. split; [|assumption].
  destruct (table_empty _); [apply tables_sorted_nil|].
  destruct HB as [HB1 HB2].
  apply tables_sorted_single.
  - rewrite Hr. destruct (Nat.eqb first 0); [apply filter_sorted|]; apply overlay_sorted; assumption.
  - rewrite Hl. apply filter_sorted, overlay_sorted. assumption.
Qed.

(* ------------------------------------------------------------------ *)
(* tombstones retained, view preserved                                  *)
(* ------------------------------------------------------------------ *)

Lemma keep_log_none : forall l, keep_log None l = true.
Proof. reflexivity. Qed.

(* the raw log overlay is unchanged by an expiry-free compaction, whatever the range *)
Lemma compact_logs_overlay : forall first last ts,
  tables_sorted ts -> first <= last -> last < length ts ->
  overlay log_key (map t_logs (compact_range first last None ts)) = overlay log_key (map t_logs ts).
Proof.
  intros first last ts Hs H1 H2.
  destruct (compact_pieces first last None ts Hs H1 H2) as [A [B [C [E [H0 H]]]]].
  cbv zeta in H. destruct H as [Hc [_ Hl]]. rewrite Hc.
  rewrite overlay_maybe_drop by apply table_empty_logs.
  rewrite Hl, (filter_true _ _ _ keep_log_none).
  rewrite E in Hs |- *. destruct Hs as [_ Hs]. rewrite !map_app in *.
  apply Forall_app in Hs. destruct Hs as [HA Hs]. apply Forall_app in Hs. destruct Hs as [HB HC].
  apply overlay_replace; try assumption.
  - apply overlay_sorted. assumption.
  - intros k. apply overlay_lookup. assumption.
Qed.

Lemma compact_refs_overlay : forall first last e ts,
  tables_sorted ts -> 0 < first -> first <= last -> last < length ts ->
  overlay ref_key (map t_refs (compact_range first last e ts)) = overlay ref_key (map t_refs ts).
Proof.
  intros first last e ts Hs Hf H1 H2.
  destruct (compact_pieces first last e ts Hs H1 H2) as [A [B [C [E [H0 H]]]]].
  cbv zeta in H. destruct H as [Hc [Hr _]]. rewrite Hc.
  rewrite overlay_maybe_drop by apply table_empty_refs.
  rewrite Hr. destruct first as [|f]; [lia|]. cbn [Nat.eqb].
  rewrite E in Hs |- *. destruct Hs as [Hs _]. rewrite !map_app in *.
  apply Forall_app in Hs. destruct Hs as [HA Hs]. apply Forall_app in Hs. destruct Hs as [HB HC].
  apply overlay_replace; try assumption.
  - apply overlay_sorted. assumption.
  - intros k. apply overlay_lookup. assumption.
Qed.

Theorem compact_keeps_tombstones : forall first last ts,
  tables_sorted ts -> (0 < first)%nat -> (first <= last)%nat -> (last < length ts)%nat ->
  overlay ref_key (map t_refs (compact_range first last None ts)) = overlay ref_key (map t_refs ts) /\
  overlay log_key (map t_logs (compact_range first last None ts)) = overlay log_key (map t_logs ts).
Proof.
  intros first last ts Hs Hf H1 H2. split.
  - apply compact_refs_overlay; assumption.
  - apply compact_logs_overlay; assumption.
Qed.

(* the reader's view of the refs is unchanged, expiry or not *)
Lemma compact_refs_view : forall first last e ts,
  tables_sorted ts -> first <= last -> last < length ts ->
  stack_refs (compact_range first last e ts) = stack_refs ts.
Proof.
  intros first last e ts Hs H1 H2. unfold stack_refs.
  destruct first as [|f].
  - destruct (compact_pieces 0 last e ts Hs H1 H2) as [A [B [C [E [H0 H]]]]].
    cbv zeta in H. destruct H as [Hc [Hr _]].
    unfold view at 1. rewrite Hc.
    rewrite overlay_maybe_drop by apply table_empty_refs.
    rewrite Hr. cbn [Nat.eqb]. rewrite (H0 eq_refl) in *. cbn [map app] in *.
    rewrite E. destruct Hs as [Hs _]. rewrite E in Hs. cbn [app] in Hs. rewrite !map_app in *.
    apply Forall_app in Hs. destruct Hs as [HB HC].
    apply (view_replace_bottom ref_record ref_key ref_is_del); try assumption.
    + apply filter_sorted, overlay_sorted. assumption.
    + intros k. rewrite lv_filter_live by (apply overlay_sorted; assumption).
      rewrite overlay_lookup by assumption. reflexivity.
  - unfold view. rewrite compact_refs_overlay by (assumption || lia). reflexivity.
Qed.

Theorem compact_preserves_view : forall first last ts,
  tables_sorted ts -> (first <= last)%nat -> (last < length ts)%nat ->
  stack_refs (compact_range first last None ts) = stack_refs ts /\
  stack_logs (compact_range first last None ts) = stack_logs ts.
Proof.
  intros first last ts Hs H1 H2. split.
  - apply compact_refs_view; assumption.
  - unfold stack_logs, view. rewrite compact_logs_overlay by assumption. reflexivity.
Qed.

Inductive compactions : list table -> list table -> Prop :=
| c_refl : forall ts, compactions ts ts
| c_step : forall ts first last ts', (first <= last)%nat -> (last < length ts)%nat ->
    compactions (compact_range first last None ts) ts' -> compactions ts ts'.

Theorem compact_seq_preserves_view : forall ts ts', tables_sorted ts -> compactions ts ts' ->
  stack_refs ts' = stack_refs ts /\ stack_logs ts' = stack_logs ts.
Proof.
  intros ts ts' Hs Hc. induction Hc as [ts|ts first last ts' H1 H2 Hc IH].
  - split; reflexivity.
  - destruct (compact_preserves_view first last ts Hs H1 H2) as [E1 E2].
    destruct (IH (compact_sorted first last None ts Hs H1 H2)) as [I1 I2].
    split; congruence.
Qed.

(* the compactions relation also preserves sortedness *)
Lemma compactions_sorted : forall ts ts', tables_sorted ts -> compactions ts ts' -> tables_sorted ts'.
Proof.
  intros ts ts' Hs Hc. induction Hc as [ts|ts first last ts' H1 H2 Hc IH]; [assumption|].
  apply IH. apply compact_sorted; assumption.
Qed.

(* ------------------------------------------------------------------ *)
(* reflog expiry through CompactAll                                     *)
(* ------------------------------------------------------------------ *)

Theorem expiry_exact : forall e ts, tables_sorted ts -> ts <> [] ->
  stack_logs (compact_range 0 (length ts - 1) (Some e) ts) = filter (keep_log (Some e)) (stack_logs ts) /\
  stack_refs (compact_range 0 (length ts - 1) (Some e) ts) = stack_refs ts.
Proof.
  intros e ts Hs Hne.
  assert (Hlen : 0 < length ts) by (destruct ts; [congruence|cbn; lia]).
  split.
  - unfold stack_logs, view, compact_range.
    rewrite (overlay_maybe_drop log_record log_key) by apply table_empty_logs.
    rewrite (skipn_all2 ts) by lia. cbn [firstn map app].
    rewrite overlay_single. unfold compact_table. cbn [t_logs].
    rewrite skipn_O, firstn_all2 by lia.
    destruct Hs as [_ Hs]. rewrite merged_scan_overlay by assumption.
    apply filter_comm.
  - apply compact_refs_view; [assumption|lia|lia].
Qed.

(* ------------------------------------------------------------------ *)
(* update-index ranges                                                  *)
(* ------------------------------------------------------------------ *)

Local Notation dft := {| t_min := 0; t_max := 0; t_sha256 := false; t_refs := []; t_logs := [] |}.

Definition chk (lm : option N) (x : N) : bool :=
  match lm with Some m => (m <? x)%N | None => true end.

Lemma ranges_ok_cons : forall lm t ts,
  ranges_ok lm (t :: ts) = chk lm (t_min t) && ranges_ok (Some (t_max t)) ts.
Proof. reflexivity. Qed.

Lemma ranges_weaken : forall ts lm lm',
  (forall x, chk lm x = true -> chk lm' x = true) ->
  ranges_ok lm ts = true -> ranges_ok lm' ts = true.
Proof.
  intros [|t ts] lm lm' H; [reflexivity|]. rewrite !ranges_ok_cons.
  intros H0. apply andb_true_iff in H0. destruct H0 as [H1 H2].
  rewrite (H _ H1), H2. reflexivity.
Qed.

Lemma ranges_tail : forall lm t ts,
  ranges_ok lm (t :: ts) = true -> (t_min t <= t_max t)%N -> ranges_ok lm ts = true.
Proof.
  intros lm t ts H Hm. rewrite ranges_ok_cons in H. apply andb_true_iff in H. destruct H as [H1 H2].
  apply (ranges_weaken ts (Some (t_max t))); [|assumption].
  intros x Hx. destruct lm as [m|]; [|reflexivity]. cbn [chk] in *.
  apply N.ltb_lt in H1, Hx. apply N.ltb_lt. lia.
Qed.

Lemma ranges_skip : forall n ts lm,
  ranges_ok lm ts = true -> Forall (fun t => t_min t <= t_max t)%N ts ->
  ranges_ok lm (skipn n ts) = true.
Proof.
  induction n as [|n IH]; intros ts lm H HF; [assumption|].
  destruct ts as [|t ts]; [reflexivity|]. cbn [skipn].
  inversion HF; subst. apply IH; [|assumption]. eapply ranges_tail; eassumption.
Qed.

Lemma ranges_after : forall last ts lm,
  ranges_ok lm ts = true -> last < length ts ->
  ranges_ok (Some (t_max (nth last ts dft))) (skipn (S last) ts) = true.
Proof.
  induction last as [|l IH]; intros ts lm H Hl; destruct ts as [|t ts]; cbn [length] in Hl; try lia;
    rewrite ranges_ok_cons in H; apply andb_true_iff in H; destruct H as [H1 H2].
  - cbn [nth skipn]. assumption.
  - cbn [nth]. rewrite skipn_cons. apply (IH ts (Some (t_max t))); [assumption|lia].
Qed.

Lemma ranges_splice : forall first ts lm last c,
  ranges_ok lm ts = true -> Forall (fun t => t_min t <= t_max t)%N ts ->
  first <= last -> last < length ts ->
  t_min c = t_min (nth first ts dft) -> t_max c = t_max (nth last ts dft) ->
  ranges_ok lm (firstn first ts ++ c :: skipn (S last) ts) = true /\
  ranges_ok lm (firstn first ts ++ skipn (S last) ts) = true.
Proof.
  induction first as [|f IH]; intros ts lm last c H HF H1 H2 Hmin Hmax.
  - cbn [firstn app]. split.
    + rewrite ranges_ok_cons. rewrite Hmax, (ranges_after last ts lm H H2), andb_true_r.
      destruct ts as [|t ts]; [cbn [length] in H2; lia|].
      cbn [nth] in Hmin. rewrite Hmin. rewrite ranges_ok_cons in H.
      apply andb_true_iff in H. apply H.
    + apply ranges_skip; assumption.
  - destruct ts as [|t ts]; [cbn [length] in H2; lia|].
    destruct last as [|l]; [lia|]. cbn [length] in H2.
    cbn [firstn app]. rewrite skipn_cons. rewrite !ranges_ok_cons.
    rewrite ranges_ok_cons in H. apply andb_true_iff in H. destruct H as [Hc H].
    rewrite Hc. cbn [andb]. inversion HF; subst.
    apply IH; try assumption; lia.
Qed.

Theorem compact_ranges_ok : forall sha first last e ts,
  new_merged_ok sha ts = true -> Forall (fun t => t_min t <= t_max t)%N ts ->
  (first <= last)%nat -> (last < length ts)%nat ->
  new_merged_ok sha (compact_range first last e ts) = true.
Proof.
  intros sha first last e ts H HF H1 H2. unfold new_merged_ok in *.
  apply andb_true_iff in H. destruct H as [Hr Hs].
  set (c := compact_table first last e ts).
  destruct (ranges_splice first ts None last c Hr HF H1 H2 eq_refl eq_refl) as [R1 R2].
  assert (Hc : Bool.eqb (t_sha256 c) sha = true).
  { unfold c, compact_table. cbn [t_sha256].
    rewrite forallb_forall in Hs. apply Hs. apply nth_In. lia. }
  unfold compact_range. fold c. apply andb_true_iff.
  destruct (table_empty c); cbn [app]; split; try assumption;
    rewrite !forallb_app; cbn [forallb];
    rewrite (forallb_firstn _ _ first ts Hs), (forallb_skipn _ _ (S last) ts Hs), ?Hc; reflexivity.
Qed.

(* ------------------------------------------------------------------ *)
(* Merged.RefsFor                                                       *)
(* ------------------------------------------------------------------ *)

Theorem merged_refs_for_spec : forall ts oid, tables_sorted ts ->
  merged_refs_for true ts oid = filter (points_to oid) (stack_refs ts) /\
  merged_refs_for false ts oid = filter (points_to oid) (overlay ref_key (map t_refs ts)).
Proof.
  intros ts oid [Hs _].
  assert (Hhits : map (fun t => filter (points_to oid) (t_refs t)) ts =
                  map (filter (points_to oid)) (map t_refs ts)) by (rewrite map_map; reflexivity).
  assert (Hhs : Forall (sorted ref_record ref_key) (map (filter (points_to oid)) (map t_refs ts))).
  { apply Forall_forall. intros t Ht. apply in_map_iff in Ht. destruct Ht as [t' [<- Ht']].
    apply filter_sorted. rewrite Forall_forall in Hs. apply Hs. assumption. }
  pose proof (overlay_sorted _ ref_key _ Hs) as Hov.
  split; unfold merged_refs_for, merged_refs; cbv zeta; rewrite Hhits;
    rewrite (merged_scan_overlay _ ref_key ref_is_del _ Hhs);
    erewrite flat_map_ext.
  - apply (refs_for_gen ref_record ref_key (points_to oid) (map t_refs ts) (stack_refs ts) Hs).
    + unfold stack_refs, view. apply filter_sorted. assumption.
    + intros r Hr. unfold stack_refs, view in Hr. apply filter_In in Hr. destruct Hr as [Hr _].
      apply (overlay_in _ ref_key); assumption.
  - intros c. cbv beta. rewrite merged_seek_spec by assumption.
    rewrite merged_scan_suppress by assumption. reflexivity.
  - apply (refs_for_gen ref_record ref_key (points_to oid) (map t_refs ts) _ Hs Hov).
    intros r Hr. apply (overlay_in _ ref_key); assumption.
  - intros c. cbv beta. rewrite merged_seek_spec by assumption.
    rewrite merged_scan_overlay by assumption. reflexivity.
Qed.

Print Assumptions compact_preserves_view.
Print Assumptions compact_sorted.
Print Assumptions compact_seq_preserves_view.
Print Assumptions compact_keeps_tombstones.
Print Assumptions expiry_exact.
Print Assumptions compact_ranges_ok.
Print Assumptions merged_refs_for_spec.
