(* C04 / C05 for every schedule of the stack protocol model (Model/StackProto.v).

   Structure of the proof
   ----------------------
   S2  A Hoare-style judgement [ok lg p Q] over the free-monad programs: [lg] is
       a handle-local ghost state (does it hold tables.list.lock, which content
       of the list it has validated under the lock, which table files it knows,
       which ids it knows to have been listed / dropped / unlinked, its fresh
       tables (renamed into place, not listed yet: one for Add and for a
       compaction, two for a two-table addition), its temp file, the pending /
       done transaction of its Add).
       [allowed lg q] restricts the requests a program may issue in [lg],
       [possible lg q rs] restricts the responses the directory can give and
       [nxt lg q rs] is the ghost state afterwards.  Proved once for reload,
       compact_range (any range), auto_compact, add, add_multi, clean, close,
       call_prog: ALL api operations.  A table file is unlinked only if it is
       known to be dropped from the list for ever, or, under the list lock, if
       the (validated) list does not name it (Clean; an addition taking back its
       first table).
   S1/S3  A global invariant [GI] of the directory relative to a global ghost
       state (the table every id denotes, the set of ids ever listed), the
       interpretation [interp] of a local ghost state, and the proof that every
       allowed request preserves [GI], the issuer's [interp] (moving to [nxt])
       and every other handle's [interp] (through [frame] / [keeps]; a table
       that was never listed stays in place as long as somebody else holds the
       list lock: [keepsL]).
   S4/S5  The world invariant [WInv], its preservation by [step] and [crash]
       together with the evaluation of [c04_loop] / [c05_loop] on the emitted
       events, and the two theorems. *)
From Coq Require Import List NArith Arith Bool Lia ZifyN ZifyNat ZifyBool.
From RT Require Import Model.StackTrace Model.Segments Model.StackProto.
Import ListNotations.
Local Open Scope nat_scope.

Set Implicit Arguments.

(* ------------------------------------------------------------------ *)
(* generic list facts                                                  *)
(* ------------------------------------------------------------------ *)

Lemma list_nat_eqb_eq : forall a b, list_nat_eqb a b = true <-> a = b.
Proof.
  induction a as [|x a IH]; destruct b as [|y b]; cbn; split; intro H; try discriminate; auto.
  - apply andb_true_iff in H as [H1 H2]. apply Nat.eqb_eq in H1. apply IH in H2. congruence.
  - inversion H; subst. rewrite Nat.eqb_refl. cbn. apply IH. reflexivity.
Qed.

Lemma list_nat_eqb_refl : forall a, list_nat_eqb a a = true.
Proof. intro a. apply list_nat_eqb_eq. reflexivity. Qed.

Lemma mem_nat_In : forall x l, mem_nat x l = true <-> In x l.
Proof.
  intros x l. unfold mem_nat. rewrite existsb_exists. split.
  - intros [y [Hy E]]. apply Nat.eqb_eq in E. subst. exact Hy.
  - intro H. exists x. split; [exact H|apply Nat.eqb_refl].
Qed.

Lemma mem_nat_false : forall x l, mem_nat x l = false <-> ~ In x l.
Proof.
  intros x l. rewrite <- mem_nat_In. destruct (mem_nat x l); split; intro H; try congruence.
Qed.

Lemma lookup_In : forall {A} n (l : list (nat * A)) a, lookup n l = Some a -> In (n, a) l.
Proof.
  induction l as [|[m b] l IH]; cbn; intros a H; [discriminate|].
  destruct (Nat.eqb_spec n m).
  - inversion H; subst. left. reflexivity.
  - right. apply IH. exact H.
Qed.

Lemma lookup_del : forall {A} n x (l : list (nat * A)),
  lookup x (del n l) = if Nat.eqb x n then None else lookup x l.
Proof.
  unfold del. induction l as [|[m b] l IH].
  - cbn. destruct (Nat.eqb x n); reflexivity.
  - cbn [filter fst]. destruct (Nat.eqb_spec n m); cbn [negb lookup].
    + subst. rewrite IH. destruct (Nat.eqb_spec x m); reflexivity.
    + rewrite IH. destruct (Nat.eqb_spec x m); [|reflexivity].
      subst. destruct (Nat.eqb_spec m n); [congruence|reflexivity].
Qed.

Lemma lookup_app : forall {A} x (l l' : list (nat * A)),
  lookup x (l ++ l') = match lookup x l with Some a => Some a | None => lookup x l' end.
Proof.
  induction l as [|[m b] l IH]; cbn; intros; [reflexivity|].
  destruct (Nat.eqb x m); [reflexivity|apply IH].
Qed.

Lemma lookup_nodup : forall {A} (l : list (nat * A)) n a,
  NoDup (map fst l) -> In (n, a) l -> lookup n l = Some a.
Proof.
  induction l as [|[m b] l IH]; cbn; intros n a Hnd Hin; [contradiction|].
  inversion Hnd; subst.
  destruct Hin as [E|Hin].
  - inversion E; subst. rewrite Nat.eqb_refl. reflexivity.
  - destruct (Nat.eqb_spec n m).
    + subst. exfalso. apply H1. apply in_map_iff. exists (m, a). split; [reflexivity|exact Hin].
    + apply IH; assumption.
Qed.

Lemma incl_firstn : forall {A} n (l : list A), incl (firstn n l) l.
Proof.
  induction n; destruct l; cbn; intros x H; try contradiction.
  destruct H; [left; assumption|right; apply IHn; assumption].
Qed.

Lemma incl_skipn : forall {A} n (l : list A), incl (skipn n l) l.
Proof.
  induction n; destruct l; cbn; intros x H; try contradiction; try assumption.
  right. apply IHn. exact H.
Qed.

Lemma incl_range : forall {A} a b (l : list A), incl (range a b l) l.
Proof.
  intros A a b l x H. unfold range in H. apply incl_firstn in H. apply incl_skipn in H. exact H.
Qed.

Lemma incl_map' : forall {A B} (f : A -> B) l l', incl l l' -> incl (map f l) (map f l').
Proof.
  intros A B f l l' H x Hx. apply in_map_iff in Hx as [y [E Hy]]. subst. apply in_map. apply H. exact Hy.
Qed.

Lemma nodup_app_disj : forall {A} (a b : list A) x, NoDup (a ++ b) -> In x a -> In x b -> False.
Proof.
  induction a as [|y a IH]; cbn; intros b x Hnd Ha Hb; [contradiction|].
  inversion Hnd; subst. destruct Ha as [->|Ha].
  - apply H1. apply in_or_app. right. exact Hb.
  - eapply IH; eauto.
Qed.

Lemma nodup_app_r : forall {A} (a b : list A), NoDup (a ++ b) -> NoDup b.
Proof.
  induction a as [|y a IH]; cbn; intros b Hnd; [exact Hnd|].
  inversion Hnd; subst. apply IH. assumption.
Qed.

Lemma nodup_app_l : forall {A} (a b : list A), NoDup (a ++ b) -> NoDup a.
Proof.
  induction a as [|y a IH]; cbn; intros b Hnd; [constructor|].
  inversion Hnd; subst. constructor.
  - intro H. apply H1. apply in_or_app. left. exact H.
  - eapply IH; eauto.
Qed.

Lemma flat_map_ext_in' : forall {A B} (f g : A -> list B) l,
  (forall x, In x l -> f x = g x) -> flat_map f l = flat_map g l.
Proof.
  induction l as [|a l IH]; intros H; cbn; [reflexivity|].
  rewrite H by (left; reflexivity). rewrite IH; [reflexivity|]. intros x Hx. apply H. right. exact Hx.
Qed.

Lemma find_run_spec : forall run cur s k,
  find_run run cur s = Some k ->
  s <= k /\ cur = firstn (k - s) cur ++ run ++ skipn (k - s + length run) cur.
Proof.
  induction cur as [|a t IH]; cbn [find_run]; intros s k H; [discriminate|].
  destruct (names_eqb (firstn (length run) (a :: t)) run) eqn:E.
  - inversion H; subst. split; [lia|]. rewrite Nat.sub_diag. cbn [firstn app Nat.add].
    apply list_nat_eqb_eq in E. rewrite <- E at 1. symmetry. apply firstn_skipn.
  - apply IH in H as [Hle Heq]. split; [lia|].
    replace (k - s) with (S (k - S s)) by lia. cbn [firstn skipn Nat.add app]. f_equal. exact Heq.
Qed.

(* ------------------------------------------------------------------ *)
(* the segment chooser never suggests a range starting beyond the stack *)
(* ------------------------------------------------------------------ *)

Lemma segs_loop_end : forall sizes i cur acc B,
  s_end cur <= B -> (forall g, In g acc -> s_end g <= B) -> i + length sizes <= B ->
  forall g, In g (segs_loop i sizes cur acc) -> s_end g <= B.
Proof.
  induction sizes as [|sz rest IH]; intros i cur acc B Hc Ha Hi g Hg.
  - cbn [segs_loop] in Hg. apply in_rev in Hg. destruct Hg as [<-|Hg]; auto.
  - cbn [segs_loop] in Hg. cbn [length] in Hi.
    destruct (negb (N.eqb (s_log cur) (log2 sz)) && (0 <? s_bytes cur)%N).
    + eapply IH in Hg; eauto; cbn [s_end]; try lia.
      intros g' [<-|Hg']; auto.
    + eapply IH in Hg; eauto; cbn [s_end]; lia.
Qed.

Lemma pick_min_in : forall segs m0,
  let m := fold_left
    (fun m st => if Nat.eqb (seg_size st) 1 then m
                 else if (s_log st <? s_log m)%N then st else m) segs m0 in
  m = m0 \/ In m segs.
Proof.
  induction segs as [|g segs IH]; intros m0; cbn [fold_left]; cbn zeta; [left; reflexivity|].
  match goal with |- context [fold_left ?f segs ?x] => destruct (IH x) as [E|E] end.
  - cbn zeta in E. rewrite E.
    destruct (Nat.eqb (seg_size g) 1); [left; reflexivity|].
    destruct (s_log g <? s_log m0)%N; [right; left; reflexivity|left; reflexivity].
  - right. right. exact E.
Qed.

Lemma extend_le : forall fuel sizes start bytes, fst (extend fuel sizes start bytes) <= start.
Proof.
  induction fuel as [|f IH]; intros; cbn [extend]; [cbn; lia|].
  destruct start as [|prev]; [cbn; lia|].
  destruct (log2 bytes <? log2 (nth prev sizes 0%N))%N; [cbn; lia|].
  specialize (IH sizes prev (bytes + nth prev sizes 0%N)%N). lia.
Qed.

Lemma suggest_start_lt : forall sizes s e, suggest sizes = Some (s, e) -> s < length sizes.
Proof.
  intros sizes s e H. unfold suggest in H.
  set (m := pick_min (sizes_to_segments sizes)) in *.
  destruct (Nat.eqb_spec (seg_size m) 0) as [|Hsz]; [discriminate|].
  destruct (extend (s_start m) sizes (s_start m) (s_bytes m)) as [st b] eqn:Hext.
  inversion H; subst st e; clear H.
  pose proof (extend_le (s_start m) sizes (s_start m) (s_bytes m)) as Hle. rewrite Hext in Hle. cbn in Hle.
  assert (Hend : s_end m <= length sizes).
  { destruct (pick_min_in (sizes_to_segments sizes)
                {| s_start := 0; s_end := 0; s_log := 64; s_bytes := 0 |}) as [E|E].
    - cbn zeta in E. fold (pick_min (sizes_to_segments sizes)) in E. fold m in E.
      rewrite E in Hsz. exfalso. apply Hsz. reflexivity.
    - cbn zeta in E. fold (pick_min (sizes_to_segments sizes)) in E. fold m in E.
      unfold sizes_to_segments in E.
      eapply segs_loop_end in E; eauto; cbn; try lia. }
  unfold seg_size in Hsz. lia.
Qed.

(* ------------------------------------------------------------------ *)
(* S2: the handle-local ghost state and the judgement                  *)
(* ------------------------------------------------------------------ *)

Record lgh := mkL {
  lk : bool;                     (* holds tables.list.lock *)
  vw : option (list nat);        (* under the lock: the content of tables.list *)
  kn : list (nat * tfile);       (* table files it has seen (immutable) *)
  sn : list nat;                 (* ids known to have been listed *)
  dd : list nat;                 (* ids known to be dropped from the list for ever *)
  gn : list nat;                 (* ids known to be unlinked *)
  fr : list nat;                 (* its fresh tables, not listed yet (newest first) *)
  tm : option (nat * bool);      (* its temp file, and whether it certainly exists *)
  pd : option nat;               (* the transaction its next commit publishes *)
  dn : option nat }.             (* the transaction it has published in this call *)

Definition lnames (rs : resp) : list nat := match rs with SNames (Some l) => l | _ => [] end.

(* every table of [m] is of hash type [hh] (what [same_hash] checks) *)
Definition mh (hh : bool) (m : mem) : Prop := forall x, In x m -> tf_hash (snd x) = hh.

Lemma same_hash_mh : forall hh m, same_hash hh m = true <-> mh hh m.
Proof.
  intros hh m. unfold same_hash, mh. rewrite forallb_forall. split; intros H x Hx.
  - apply eqb_prop. apply H. exact Hx.
  - rewrite (H x Hx). apply eqb_reflx.
Qed.

Lemma mh_nil : forall hh, mh hh [].
Proof. intros hh x []. Qed.

Lemma mh_incl : forall hh (a b : mem), incl a b -> mh hh b -> mh hh a.
Proof. intros hh a b Hi Hb x Hx. apply Hb. apply Hi. exact Hx. Qed.

(* a property of every result a program can return, whatever the directory answers *)
Fixpoint leaves {A} (p : prog A) (P : A -> Prop) : Prop :=
  match p with Ret a => P a | Op q k => forall rs, leaves (k rs) P end.

Lemma leaves_bind : forall A B (p : prog A) (f : A -> prog B) P,
  (forall a, leaves (f a) P) -> leaves (pbind p f) P.
Proof.
  induction p as [a|q k IH]; intros f P H; cbn [pbind leaves]; [apply H|]. intro rs. apply IH. exact H.
Qed.

Lemma leaves_bind2 : forall A B (p : prog A) (f : A -> prog B) (Q : A -> Prop) P,
  leaves p Q -> (forall a, Q a -> leaves (f a) P) -> leaves (pbind p f) P.
Proof.
  induction p as [a|q k IH]; intros f Q P Hp H; cbn [pbind leaves] in *; [apply H; exact Hp|].
  intro rs. eapply IH; eauto.
Qed.

Lemma leaves_conseq : forall A (p : prog A) (P P' : A -> Prop),
  leaves p P -> (forall a, P a -> P' a) -> leaves p P'.
Proof.
  induction p as [a|q k IH]; intros P P' H HP; cbn [leaves] in *; [apply HP; exact H|].
  intro rs. eapply IH; eauto.
Qed.

Definition commit_add (lg : lgh) (names : list nat) : Prop :=
  exists tx m n f, pd lg = Some tx /\ vw lg = Some (mnames m) /\ incl m (kn lg) /\
    fr lg = [n] /\ In (n, f) (kn lg) /\
    tf_min f = next_index m /\ tf_max f = next_index m /\ tf_txs f = [tx] /\
    mh (tf_hash f) m /\
    names = mnames m ++ [n].

Definition commit_cmp (lg : lgh) (names : list nat) : Prop :=
  exists sub pre post n f, pd lg = None /\ vw lg = Some (pre ++ mnames sub ++ post) /\
    incl sub (kn lg) /\ sub <> [] /\ fr lg = [n] /\ In (n, f) (kn lg) /\
    tf_min f = (match sub with (_, g) :: _ => tf_min g | [] => 0%N end) /\
    tf_max f = last_max sub /\ tf_txs f = flat_map (fun x => tf_txs (snd x)) sub /\
    mh (tf_hash f) sub /\
    names = pre ++ [n] ++ post.

(* the commit of a two-table addition: the second table holds no transaction *)
Definition commit_add2 (lg : lgh) (names : list nat) : Prop :=
  exists tx m n1 f1 n2 f2, pd lg = Some tx /\ vw lg = Some (mnames m) /\ incl m (kn lg) /\
    fr lg = [n2; n1] /\ n1 <> n2 /\ In (n1, f1) (kn lg) /\ In (n2, f2) (kn lg) /\
    tf_min f1 = next_index m /\ tf_max f1 = next_index m /\ tf_txs f1 = [tx] /\
    tf_min f2 = (next_index m + 1)%N /\ tf_max f2 = (next_index m + 1)%N /\ tf_txs f2 = [] /\
    mh (tf_hash f1) m /\ tf_hash f2 = tf_hash f1 /\
    names = mnames m ++ [n1; n2].

Definition rmv (n : nat) (l : list nat) : list nat := filter (fun x => negb (Nat.eqb x n)) l.

Lemma in_rmv : forall x n l, In x (rmv n l) <-> In x l /\ x <> n.
Proof.
  intros x n l. unfold rmv. rewrite filter_In. split; intros [A B]; (split; [exact A|]).
  - apply negb_true_iff in B. apply Nat.eqb_neq in B. exact B.
  - apply negb_true_iff. apply Nat.eqb_neq. exact B.
Qed.

Definition allowed (lg : lgh) (q : req) : Prop :=
  match q with
  | QRenameTmp t _ _ _ _ => lk lg = true /\ tm lg = Some (t, true)
  | QCommitList names => commit_add lg names \/ commit_cmp lg names \/ commit_add2 lg names
  | QRemove PLL => lk lg = true
  | QRemove (PT n) => In n (dd lg) \/ (lk lg = true /\ exists l, vw lg = Some l /\ ~ In n l)
  | QRemove (PTmp t) => exists b, tm lg = Some (t, b)
  | QRemoveOne cands => cands <> [] /\ incl cands (dd lg)
  | QOpenOne cands => cands <> []
  | _ => True
  end.

Definition possible (lg : lgh) (q : req) (rs : resp) : Prop :=
  match q with
  | QReadList => (exists o, rs = SNames o) /\ NoDup (lnames rs) /\ (forall n, In n (gn lg) -> ~ In n (lnames rs)) /\
                 (forall l, vw lg = Some l -> lnames rs = l)
  | QOpenTab n => (exists f, rs = STab f) \/ rs = SNoEnt
  | QCreateTemp => exists t, rs = STmp t
  | QRenameTmp t mn mx txs hsh =>
      exists n f, rs = SNew n f /\ tf_min f = mn /\ tf_max f = mx /\ tf_txs f = txs /\ ~ In n (sn lg) /\ ~ In n (fr lg) /\
                  tf_hash f = hsh
  | QOpenOne cands => exists n o, rs = SVisited n o /\ In n cands
  | _ => True
  end.

Definition nxt (lg : lgh) (q : req) (rs : resp) : lgh :=
  match q with
  | QCreateExcl PLL =>
      match rs with
      | SOk => mkL true (vw lg) (kn lg) (sn lg) (dd lg) (gn lg) (fr lg) (tm lg) (pd lg) (dn lg)
      | _ => lg
      end
  | QReadList =>
      mkL (lk lg) (if lk lg then Some (lnames rs) else vw lg) (kn lg) (lnames rs ++ sn lg)
          (filter (fun n => negb (mem_nat n (lnames rs))) (sn lg) ++ dd lg) (gn lg) (fr lg) (tm lg) (pd lg) (dn lg)
  | QOpenTab n =>
      match rs with
      | STab f => mkL (lk lg) (vw lg) ((n, f) :: kn lg) (sn lg) (dd lg) (gn lg) (fr lg) (tm lg) (pd lg) (dn lg)
      | _ => mkL (lk lg) (vw lg) (kn lg) (sn lg) (dd lg) (if mem_nat n (sn lg) then n :: gn lg else gn lg)
                 (fr lg) (tm lg) (pd lg) (dn lg)
      end
  | QCreateTemp =>
      match rs with
      | STmp t => mkL (lk lg) (vw lg) (kn lg) (sn lg) (dd lg) (gn lg) (fr lg) (Some (t, true)) (pd lg) (dn lg)
      | _ => lg
      end
  | QRenameTmp t _ _ _ _ =>
      match rs with
      | SNew n f => mkL (lk lg) (vw lg) ((n, f) :: kn lg) (sn lg) (dd lg) (gn lg) (n :: fr lg) (Some (t, false)) (pd lg) (dn lg)
      | _ => lg
      end
  | QCommitList names =>
      mkL false None (kn lg) (sn lg)
          (filter (fun n => negb (mem_nat n names)) (match vw lg with Some l => l | None => [] end) ++ dd lg)
          (gn lg) [] (tm lg) None (match pd lg with Some tx => Some tx | None => dn lg end)
  | QRemove PLL => mkL false None (kn lg) (sn lg) (dd lg) (gn lg) [] (tm lg) (pd lg) (dn lg)
  | QRemove (PT n) =>
      match fr lg with
      | [] => lg
      | _ => mkL (lk lg) (vw lg) (kn lg) (sn lg) (dd lg) (gn lg) (rmv n (fr lg)) (tm lg) (pd lg) (dn lg)
      end
  | QRemove (PTmp t) => mkL (lk lg) (vw lg) (kn lg) (sn lg) (dd lg) (gn lg) (fr lg) (Some (t, false)) (pd lg) (dn lg)
  | _ => lg
  end.

Fixpoint ok {A} (lg : lgh) (p : prog A) (Q : lgh -> A -> Prop) : Prop :=
  match p with
  | Ret a => Q lg a
  | Op q k => allowed lg q /\ forall rs, possible lg q rs -> ok (nxt lg q rs) (k rs) Q
  end.

Lemma ok_bind : forall {A B} (p : prog A) (f : A -> prog B) lg Q Q',
  ok lg p Q -> (forall lg' a, Q lg' a -> ok lg' (f a) Q') -> ok lg (pbind p f) Q'.
Proof.
  induction p as [a|q k IH]; intros f lg Q Q' H Hf; cbn [pbind ok] in *.
  - apply Hf. exact H.
  - destruct H as [Ha Hk]. split; [exact Ha|]. intros rs Hp. eapply IH; eauto.
Qed.

Lemma ok_conseq : forall {A} (p : prog A) lg (Q Q' : lgh -> A -> Prop),
  ok lg p Q -> (forall lg' a, Q lg' a -> Q' lg' a) -> ok lg p Q'.
Proof.
  induction p as [a|q k IH]; intros lg Q Q' H HQ; cbn [ok] in *.
  - apply HQ. exact H.
  - destruct H as [Ha Hk]. split; [exact Ha|]. intros rs Hp. eapply IH; eauto.
Qed.

Lemma ok_op : forall {B} q (f : resp -> prog B) lg Q,
  allowed lg q -> (forall rs, possible lg q rs -> ok (nxt lg q rs) (f rs) Q) ->
  ok lg (pbind (op q) f) Q.
Proof. intros. cbn [pbind op ok]. split; assumption. Qed.

(* knowledge only grows *)
Definition ext (a b : lgh) : Prop :=
  incl (kn a) (kn b) /\ incl (sn a) (sn b) /\ incl (dd a) (dd b) /\ incl (gn a) (gn b).
Definition samep (a b : lgh) : Prop :=
  lk b = lk a /\ vw b = vw a /\ fr b = fr a /\ tm b = tm a /\ pd b = pd a /\ dn b = dn a.

Lemma ext_refl : forall a, ext a a.
Proof. intro a. repeat split; apply incl_refl. Qed.
Lemma ext_trans : forall a b c, ext a b -> ext b c -> ext a c.
Proof.
  intros a b c (A1 & A2 & A3 & A4) (B1 & B2 & B3 & B4).
  repeat split; eapply incl_tran; eauto.
Qed.
Lemma samep_refl : forall a, samep a a.
Proof. intro a. repeat split. Qed.
Lemma samep_trans : forall a b c, samep a b -> samep b c -> samep a c.
Proof.
  intros a b c (A1 & A2 & A3 & A4 & A5 & A6) (B1 & B2 & B3 & B4 & B5 & B6).
  repeat split; congruence.
Qed.

(* ---------------- the small loops ---------------- *)

Lemma remove_tabs_ok : forall l lg, fr lg = [] -> incl l (dd lg) -> ok lg (remove_tabs l) (fun lg' _ => lg' = lg).
Proof.
  induction l as [|n t IH]; intros lg Hfr H; cbn [remove_tabs].
  - cbn. reflexivity.
  - apply ok_op.
    + cbn. left. apply H. left. reflexivity.
    + intros rs _. cbn [nxt]. rewrite Hfr. apply IH; [exact Hfr|]. intros x Hx. apply H. right. exact Hx.
Qed.

Lemma remove_tlocks_ok : forall l lg, ok lg (remove_tlocks l) (fun lg' _ => lg' = lg).
Proof.
  induction l as [|n t IH]; intros lg; cbn [remove_tlocks].
  - cbn. reflexivity.
  - apply ok_op; [exact I|]. intros rs _. cbn [nxt]. apply IH.
Qed.

Lemma remove_any_ok : forall fuel cands lg, incl cands (dd lg) ->
  ok lg (remove_any fuel cands) (fun lg' _ => lg' = lg).
Proof.
  induction fuel as [|f IH]; intros cands lg H.
  - destruct cands; cbn; reflexivity.
  - destruct cands as [|c cands]; [cbn; reflexivity|].
    cbn [remove_any]. apply ok_op.
    + cbn. split; [discriminate|exact H].
    + intros rs _. cbn [nxt]. destruct rs; try (cbn; reflexivity).
      apply IH. intros x Hx. apply filter_In in Hx as [Hx _]. apply H. exact Hx.
Qed.

Lemma lock_tabs_ok : forall todo taken lg, ok lg (lock_tabs todo taken) (fun lg' _ => lg' = lg).
Proof.
  induction todo as [|n t IH]; intros taken lg; cbn [lock_tabs].
  - cbn. reflexivity.
  - apply ok_op; [exact I|]. intros rs _. cbn [nxt].
    destruct rs; try (eapply ok_bind; [apply remove_tlocks_ok|intros lg' _ ->; cbn; reflexivity]).
    apply IH.
Qed.

(* ---------------- open_all, reload ---------------- *)

Lemma open_all_ok : forall reuse old names acc lg,
  incl old (kn lg) -> incl names (sn lg) -> incl acc (kn lg) -> incl (mnames acc) (sn lg) ->
  ok lg (open_all reuse old names acc)
     (fun lg' o => ext lg lg' /\ samep lg lg' /\
        match o with
        | Some m => incl m (kn lg') /\ incl (mnames m) (sn lg')
        | None => exists n, In n names /\ In n (gn lg')
        end).
Proof.
  intros reuse old. induction names as [|n t IH]; intros acc lg Hold Hn Hacc Hacn; cbn [open_all].
  - cbn [ok]. split; [apply ext_refl|]. split; [apply samep_refl|]. split.
    + intros x Hx. apply in_rev in Hx. apply Hacc. exact Hx.
    + intros x Hx. unfold mnames in Hx. rewrite map_rev in Hx. apply in_rev in Hx. apply Hacn. exact Hx.
  - assert (Hnt : incl t (sn lg)) by (intros x Hx; apply Hn; right; exact Hx).
    assert (Hnn : In n (sn lg)) by (apply Hn; left; reflexivity).
    destruct (if reuse then lookup n old else None) as [f|] eqn:E.
    + assert (In (n, f) old) by (destruct reuse; [apply lookup_In; exact E|discriminate]).
      eapply ok_conseq.
      * apply IH; auto.
        -- intros x [<-|Hx]; [apply Hold; assumption|apply Hacc; exact Hx].
        -- intros x [<-|Hx]; [exact Hnn|apply Hacn; exact Hx].
      * cbn beta. intros lg' o (He & Hs & Ho). split; [exact He|]. split; [exact Hs|].
        destruct o; [exact Ho|]. destruct Ho as [x [Hx Hg]]. exists x. split; [right; exact Hx|exact Hg].
    + apply ok_op; [exact I|]. intros rs Hp. cbn in Hp.
      destruct Hp as [[f ->]| ->].
      * cbn [nxt]. eapply ok_conseq.
        -- apply IH; cbn [kn sn].
           ++ intros x Hx. right. apply Hold. exact Hx.
           ++ exact Hnt.
           ++ intros x [<-|Hx]; [left; reflexivity|right; apply Hacc; exact Hx].
           ++ intros x [<-|Hx]; [exact Hnn|apply Hacn; exact Hx].
        -- cbn beta. intros lg' o ((E1 & E2 & E3 & E4) & Hs & Ho). cbn [kn sn dd gn] in *.
           split.
           { repeat split; auto. intros x Hx. apply E1. right. exact Hx. }
           split.
           { destruct Hs as (S1 & S2 & S3 & S4 & S5 & S6). cbn in *. repeat split; assumption. }
           destruct o; [exact Ho|]. destruct Ho as [x [Hx Hg]]. exists x. split; [right; exact Hx|exact Hg].
      * cbn [nxt pbind ok]. split.
        { repeat split; cbn; try apply incl_refl.
          destruct (mem_nat n (sn lg)); [apply incl_tl|]; apply incl_refl. }
        split; [repeat split|].
        exists n. split; [left; reflexivity|]. cbn [gn].
        apply mem_nat_In in Hnn. rewrite Hnn. left. reflexivity.
Qed.

(* a handle that holds the list lock has validated its view *)
Definition vwok (lg : lgh) : Prop := lk lg = true -> exists l, vw lg = Some l.

Lemma readlist_samep : forall lg rs, vwok lg -> possible lg QReadList rs -> samep lg (nxt lg QReadList rs).
Proof.
  intros lg rs Hv (_ & _ & _ & Hvw). unfold samep. cbn [nxt lk vw fr tm pd dn].
  repeat split. destruct (lk lg) eqn:E; [|reflexivity].
  destruct (Hv E) as [l El]. rewrite El. f_equal. apply Hvw. exact El.
Qed.

Lemma vwok_samep : forall a b, samep a b -> vwok a -> vwok b.
Proof. intros a b (A & B & _) H E. rewrite A in E. rewrite B. apply H. exact E. Qed.

Lemma reload_ok_gen : forall attempts hh reuse old lg,
  vwok lg -> incl old (kn lg) -> incl (mnames old) (sn lg) -> mh hh old ->
  ok lg (reload attempts hh reuse old)
     (fun lg' res => ext lg lg' /\ samep lg lg' /\
        incl (fst res) (kn lg') /\ incl (mnames (fst res)) (sn lg') /\
        (snd res <> RlNotExist /\ mh hh (fst res))).
Proof.
  induction attempts as [|a IH]; intros hh reuse old lg Hlk Hold Holdn Hmh; cbn [reload].
  - cbn. split; [apply ext_refl|]. split; [apply samep_refl|]. repeat split; auto. discriminate.
  - apply ok_op; [exact I|]. intros rs Hp.
    change (match rs with SNames (Some l) => l | _ => [] end) with (lnames rs).
    pose proof (readlist_samep Hlk Hp) as S1.
    destruct Hp as (_ & Hnd & Hgn & _).
    set (lg1 := nxt lg QReadList rs) in *.
    assert (E1 : ext lg lg1).
    { unfold ext, lg1. cbn. repeat split; try apply incl_refl; intros x Hx; apply in_or_app; right; exact Hx. }
    eapply ok_bind.
    + apply open_all_ok with (lg := lg1).
      * destruct E1 as (E & _). eapply incl_tran; eauto.
      * unfold lg1. cbn. intros x Hx. apply in_or_app. left. exact Hx.
      * intros x [].
      * intros x [].
    + cbn beta. intros lg2 o (E2 & S2 & Ho).
      destruct o as [m|].
      * destruct Ho as [Hm Hmn].
        destruct (same_hash hh m) eqn:Esh.
        2:{ (* a table of another hash type: the handle keeps what it had *)
            cbn [ok fst snd].
            split; [eapply ext_trans; eauto|]. split; [eapply samep_trans; eauto|].
            assert (E : ext lg lg2) by (eapply ext_trans; eauto).
            split; [destruct E as (E & _); eapply incl_tran; eauto|].
            split; [destruct E as (_ & E & _); eapply incl_tran; eauto|].
            split; [discriminate|exact Hmh]. }
        apply same_hash_mh in Esh.
        eapply ok_bind.
        -- apply remove_any_ok. intros x Hx. apply filter_In in Hx as [Hx1 Hx2].
           destruct E2 as (_ & _ & E2 & _). apply E2. unfold lg1. cbn. apply in_or_app. left.
           apply filter_In. split; [apply Holdn; exact Hx1|exact Hx2].
        -- intros lg3 _ ->. cbn [ok fst snd].
           split; [eapply ext_trans; eauto|]. split; [eapply samep_trans; eauto|].
           split; [exact Hm|]. split; [exact Hmn|]. split; [discriminate|exact Esh].
      * destruct Ho as [n [Hn Hg]].
        assert (V2 : vwok lg2) by (eapply vwok_samep; [exact S2|]; eapply vwok_samep; [exact S1|exact Hlk]).
        apply ok_op; [exact I|]. intros rs2 Hp2.
        change (match rs2 with SNames (Some l) => l | _ => [] end) with (lnames rs2).
        pose proof (readlist_samep V2 Hp2) as S3.
        destruct Hp2 as (_ & _ & Hgn2 & _).
        destruct (names_eqb (lnames rs2) (lnames rs)) eqn:Eq.
        -- exfalso. apply list_nat_eqb_eq in Eq. apply (Hgn2 n Hg). rewrite Eq. exact Hn.
        -- set (lg3 := nxt lg2 QReadList rs2) in *.
           assert (E3 : ext lg2 lg3).
           { unfold ext, lg3. cbn. repeat split; try apply incl_refl; intros x Hx; apply in_or_app; right; exact Hx. }
           assert (E : ext lg lg3) by (eapply ext_trans; [|eauto]; eapply ext_trans; eauto).
           assert (S : samep lg lg3) by (eapply samep_trans; [|eauto]; eapply samep_trans; eauto).
           eapply ok_conseq.
           ++ apply IH.
              ** eapply vwok_samep; [exact S|exact Hlk].
              ** destruct E as (E & _). eapply incl_tran; eauto.
              ** destruct E as (_ & E & _). eapply incl_tran; eauto.
              ** exact Hmh.
           ++ cbn beta. intros lg4 res (E4 & S4 & R).
              split; [eapply ext_trans; eauto|]. split; [eapply samep_trans; eauto|]. exact R.
Qed.

Lemma reload_ok : forall attempts hh reuse old lg,
  lk lg = false -> incl old (kn lg) -> incl (mnames old) (sn lg) -> mh hh old ->
  ok lg (reload attempts hh reuse old)
     (fun lg' res => ext lg lg' /\ samep lg lg' /\
        incl (fst res) (kn lg') /\ incl (mnames (fst res)) (sn lg') /\
        (snd res <> RlNotExist /\ mh hh (fst res))).
Proof.
  intros attempts hh reuse old lg Hlk. apply reload_ok_gen. intro E. congruence.
Qed.

Lemma open_reload_ok : forall attempts hh lg,
  lk lg = false ->
  ok lg (open_reload attempts hh)
     (fun lg' res => ext lg lg' /\ samep lg lg' /\
        match res with Some m => incl m (kn lg') /\ incl (mnames m) (sn lg') /\ mh hh m | None => True end).
Proof.
  induction attempts as [|a IH]; intros hh lg Hlk; cbn [open_reload].
  - cbn. split; [apply ext_refl|]. split; [apply samep_refl|exact I].
  - apply ok_op; [exact I|]. intros rs Hp.
    change (match rs with SNames (Some l) => l | _ => [] end) with (lnames rs).
    set (lg1 := nxt lg QReadList rs).
    assert (E1 : ext lg lg1).
    { unfold ext, lg1. cbn. repeat split; try apply incl_refl; intros x Hx; apply in_or_app; right; exact Hx. }
    assert (S1 : samep lg lg1).
    { unfold samep, lg1. cbn. rewrite Hlk. repeat split. }
    eapply ok_bind.
    + apply open_all_ok with (lg := lg1).
      * intros x [].
      * unfold lg1. cbn. intros x Hx. apply in_or_app. left. exact Hx.
      * intros x [].
      * intros x [].
    + cbn beta. intros lg2 o (E2 & S2 & Ho).
      destruct o as [m|].
      * destruct (same_hash hh m) eqn:Esh; cbn [ok];
          (split; [eapply ext_trans; eauto|]); (split; [eapply samep_trans; eauto|]); [|exact I].
        apply same_hash_mh in Esh. destruct Ho as [Ho1 Ho2]. auto.
      * apply ok_op; [exact I|]. intros rs2 Hp2.
        change (match rs2 with SNames (Some l) => l | _ => [] end) with (lnames rs2).
        set (lg3 := nxt lg2 QReadList rs2).
        assert (E3 : ext lg2 lg3).
        { unfold ext, lg3. cbn. repeat split; try apply incl_refl; intros x Hx; apply in_or_app; right; exact Hx. }
        assert (S3 : samep lg2 lg3).
        { unfold samep, lg3. cbn. destruct S2 as (L2 & _). destruct S1 as (L1 & _).
          rewrite L2, L1, Hlk. repeat split. }
        assert (E : ext lg lg3) by (eapply ext_trans; [|eauto]; eapply ext_trans; eauto).
        assert (S : samep lg lg3) by (eapply samep_trans; [|eauto]; eapply samep_trans; eauto).
        destruct (names_eqb (lnames rs2) (lnames rs)).
        -- cbn [ok]. split; [exact E|]. split; [exact S|exact I].
        -- eapply ok_conseq.
           ++ apply IH. destruct S as (L & _). rewrite L. exact Hlk.
           ++ cbn beta. intros lg4 res (E4 & S4 & R).
              split; [eapply ext_trans; eauto|]. split; [eapply samep_trans; eauto|]. exact R.
Qed.

(* ---------------- close ---------------- *)

Lemma close_ok : forall m lg, fr lg = [] -> incl (mnames m) (sn lg) ->
  ok lg (close m) (fun _ _ => True).
Proof.
  intros m lg Hfr Hm. unfold close. apply ok_op; [exact I|]. intros rs Hp.
  change (match rs with SNames (Some l) => l | _ => [] end) with (lnames rs).
  destruct (lnames rs) as [|a t] eqn:E; [cbn; exact I|].
  eapply ok_conseq.
  - apply remove_tabs_ok; [exact Hfr|]. intros x Hx. apply filter_In in Hx as [Hx1 Hx2].
    cbn [nxt dd]. apply in_or_app. left. apply filter_In. rewrite E. split; [apply Hm; exact Hx1|exact Hx2].
  - intros; exact I.
Qed.

(* ---------------- compact_range ---------------- *)

Definition idle_post (lg : lgh) (lg' : lgh) (m : mem) : Prop :=
  lk lg' = false /\ pd lg' = None /\ dn lg' = dn lg /\ incl m (kn lg') /\ incl (mnames m) (sn lg').
(* (the fresh tables of a call are tracked by the residue judgement of ResidueProofs) *)

Lemma length_mnames : forall m : mem, length (mnames m) = length m.
Proof. intro m. unfold mnames. apply map_length. Qed.

Lemma compact_range_ok : forall attempts hh first last expiry m lg,
  lk lg = false -> pd lg = None -> incl m (kn lg) -> incl (mnames m) (sn lg) -> first < length m -> mh hh m ->
  ok lg (compact_range attempts hh first last expiry m) (fun lg' res => idle_post lg lg' (fst res)).
Proof.
  intros attempts hh first last expiry m lg Hlk Hpd Hm Hmn Hfirst Hmh. unfold compact_range.
  assert (Hdone : forall b : bool, idle_post lg lg (fst (m, b))) by (intro b; repeat split; assumption).
  destruct (Nat.leb last first && negb expiry); [cbn [ok]; apply Hdone|].
  apply ok_op; [exact I|]. intros r _.
  destruct r; try (cbn [nxt ok]; apply Hdone).
  set (lg1 := nxt lg (QCreateExcl PLL) SOk).
  apply ok_op; [exact I|]. intros c Hc.
  change (match c with SNames (Some l) => l | _ => [] end) with (lnames c).
  set (lg2 := nxt lg1 QReadList c).
  assert (L2 : lk lg2 = true) by reflexivity.
  assert (P2 : pd lg2 = None) by exact Hpd.
  assert (D2 : dn lg2 = dn lg) by reflexivity.
  assert (K2 : incl m (kn lg2)) by exact Hm.
  assert (N2 : incl (mnames m) (sn lg2)).
  { unfold lg2, lg1. cbn. intros x Hx. apply in_or_app. right. apply Hmn. exact Hx. }
  (* releasing the lock and giving up *)
  assert (Hrel : forall lgx, lk lgx = true -> pd lgx = None -> dn lgx = dn lg -> incl m (kn lgx) ->
                  incl (mnames m) (sn lgx) ->
                  ok lgx (do! _ := op (QRemove PLL) in Ret (m, false)) (fun lg' res => idle_post lg lg' (fst res))).
  { intros lgx A B C D E. apply ok_op; [exact A|]. intros rs _. cbn [nxt ok]. repeat split; assumption. }
  destruct (negb (names_eqb (lnames c) (mnames m))); [apply Hrel; assumption|].
  set (sub := range first last m).
  assert (Hsub : incl sub m) by apply incl_range.
  assert (Hsubne : sub <> []).
  { unfold sub, range. intro E. apply (f_equal (@length _)) in E. rewrite firstn_length, skipn_length in E.
    cbn in E. lia. }
  eapply ok_bind; [apply lock_tabs_ok|]. cbn beta. intros lg' lkr ->.
  destruct lkr as [locks|]; [|apply Hrel; assumption].
  apply ok_op; [exact L2|]. intros r3 _.
  set (lg3 := nxt lg2 (QRemove PLL) r3).
  apply ok_op; [exact I|]. intros t [tmp ->].
  set (lg4 := nxt lg3 QCreateTemp (STmp tmp)).
  assert (I4 : idle_post lg lg4 m) by (repeat split; assumption).
  assert (T4 : tm lg4 = Some (tmp, true)) by reflexivity.
  apply ok_op; [exact I|]. intros r5 _.
  destruct r5;
    try (cbn [nxt]; apply ok_op; [exists true; exact T4|]; intros ? _;
         eapply ok_bind; [apply remove_tlocks_ok|]; cbn beta; intros ? ? ->; cbn [ok fst nxt]; exact I4).
  set (lg5 := nxt lg4 (QCreateExcl PLL) SOk).
  apply ok_op; [exact I|]. intros c2 Hc2.
  change (match c2 with SNames (Some l) => l | _ => [] end) with (lnames c2).
  destruct Hc2 as (_ & Hnd & _ & _).
  set (lg6 := nxt lg5 QReadList c2).
  assert (L6 : lk lg6 = true) by reflexivity.
  assert (T6 : tm lg6 = Some (tmp, true)) by reflexivity.
  assert (V6 : vw lg6 = Some (lnames c2)) by reflexivity.
  assert (S6 : incl (lnames c2) (sn lg6)).
  { unfold lg6. cbn [nxt sn]. intros x Hx. apply in_or_app. left. exact Hx. }
  assert (N6 : incl (mnames m) (sn lg6)).
  { unfold lg6. cbn [nxt sn]. intros x Hx. apply in_or_app. right. apply N2. exact Hx. }
  destruct (find_run (mnames sub) (lnames c2) 0) as [start|] eqn:Hfr.
  - apply find_run_spec in Hfr as [_ Hfr]. rewrite Nat.sub_0_r, length_mnames in Hfr.
    apply ok_op; [split; [exact L6|exact T6]|]. intros nw (n & f & -> & Fmin & Fmax & Ftx & Hfresh & _ & Fh).
    set (lg7 := nxt lg6 (QRenameTmp tmp (match sub with (_, f0) :: _ => tf_min f0 | [] => 0%N end) (last_max sub)
                          (flat_map (fun x => tf_txs (snd x)) sub) hh) (SNew n f)).
    set (names := firstn start (lnames c2) ++ [n] ++ skipn (start + length sub) (lnames c2)).
    apply ok_op.
    { right. left. exists sub, (firstn start (lnames c2)), (skipn (start + length sub) (lnames c2)), n, f.
      split; [exact Hpd|]. split; [cbn [lg7 nxt vw]; rewrite V6, <- Hfr; reflexivity|].
      split; [intros x Hx; right; apply Hm; apply Hsub; exact Hx|].
      split; [exact Hsubne|]. split; [reflexivity|]. split; [left; reflexivity|].
      split; [exact Fmin|]. split; [exact Fmax|]. split; [exact Ftx|].
      split; [rewrite Fh; eapply mh_incl; [exact Hsub|exact Hmh]|reflexivity]. }
    intros r8 _.
    set (lg8 := nxt lg7 (QCommitList names) r8).
    assert (L8 : lk lg8 = false) by reflexivity.
    assert (K8 : incl m (kn lg8)) by (intros x Hx; right; apply Hm; exact Hx).
    eapply ok_bind.
    { apply remove_tabs_ok; [reflexivity|]. intros x Hx. unfold lg8. cbn [nxt dd lg7 vw]. rewrite V6.
      apply in_or_app. left. apply filter_In.
      assert (Hxc : In x (lnames c2)).
      { rewrite Hfr. apply in_or_app. right. apply in_or_app. left. exact Hx. }
      split; [exact Hxc|].
      apply negb_true_iff. apply mem_nat_false. unfold names. intro Hin.
      rewrite Hfr in Hnd.
      apply in_app_or in Hin as [Hin|Hin].
      - eapply nodup_app_disj; [exact Hnd|exact Hin|]. apply in_or_app. left. exact Hx.
      - apply in_app_or in Hin as [[<-|[]]|Hin].
        + apply Hfresh. apply S6. exact Hxc.
        + apply nodup_app_r in Hnd. eapply nodup_app_disj; [exact Hnd|exact Hx|exact Hin]. }
    cbn beta. intros lg9 _ ->.
    eapply ok_bind.
    { apply reload_ok; [exact L8|exact K8|exact N6|exact Hmh]. }
    cbn beta. intros lg10 rl (E10 & S10 & R1 & R2 & _).
    eapply ok_bind; [apply remove_tlocks_ok|]. cbn beta. intros lg11 _ ->.
    cbn [ok fst]. destruct S10 as (A1 & A2 & A3 & A4 & A5 & A6).
    repeat split; try assumption.
    rewrite A6. unfold lg8. cbn [nxt dn lg7 pd lg6 lg5 lg4 lg3 lg2 lg1]. rewrite Hpd. reflexivity.
  - apply ok_op; [exists true; exact T6|]. intros r7 _.
    eapply ok_bind; [apply remove_tlocks_ok|]. cbn beta. intros lg8 _ ->.
    apply ok_op; [exact L6|]. intros r9 _. cbn [ok fst nxt].
    repeat split; try assumption.
Qed.

Lemma auto_compact_ok : forall attempts hh m lg,
  lk lg = false -> pd lg = None -> incl m (kn lg) -> incl (mnames m) (sn lg) -> mh hh m ->
  ok lg (auto_compact attempts hh m) (fun lg' m' => idle_post lg lg' m').
Proof.
  intros attempts hh m lg Hlk Hpd Hm Hmn Hmh. unfold auto_compact.
  destruct (suggest (map (fun x => tf_size (snd x)) m)) as [[s e]|] eqn:E.
  - apply suggest_start_lt in E. rewrite map_length in E.
    eapply ok_bind; [apply compact_range_ok; eassumption|].
    cbn beta. intros lg' r H. cbn [ok]. exact H.
  - cbn [ok]. repeat split; assumption.
Qed.

(* ---------------- add ---------------- *)

Definition add_res (kind : add_kind) (lg' : lgh) (r : apires) : Prop :=
  match kind with
  | KAdd tx => (r = ROk /\ dn lg' = Some tx) \/ (r = RLockFailure /\ dn lg' = None)
  | KEmpty => r = ROk \/ r = RLockFailure
  | KBad => r = RRejected \/ r = RLockFailure
  end.

Definition add_post (kind : add_kind) (lg' : lgh) (res : mem * apires) : Prop :=
  incl (fst res) (kn lg') /\ incl (mnames (fst res)) (sn lg') /\ add_res kind lg' (snd res).

Lemma add_ok : forall attempts hh kind auto m lg,
  lk lg = false -> incl m (kn lg) -> incl (mnames m) (sn lg) ->
  pd lg = (match kind with KAdd tx => Some tx | _ => None end) -> dn lg = None -> fr lg = [] -> mh hh m ->
  ok lg (add attempts hh kind auto m) (add_post kind).
Proof.
  intros attempts hh kind auto m lg Hlk Hm Hmn Hpd Hdn Hfr0 Hmh. unfold add.
  assert (Hfail : forall lgx, lk lgx = false -> incl m (kn lgx) -> incl (mnames m) (sn lgx) -> dn lgx = None ->
            ok lgx (do! rl := reload attempts hh true m in Ret (fst rl, RLockFailure)) (add_post kind)).
  { intros lgx A B C D. eapply ok_bind; [apply reload_ok; assumption|].
    cbn beta. intros lg' rl (_ & S & R1 & R2 & _). cbn [ok]. split; [exact R1|]. split; [exact R2|].
    destruct S as (_ & _ & _ & _ & _ & S). cbn [snd]. rewrite <- S in D.
    destruct kind; cbn; auto. }
  apply ok_op; [exact I|]. intros r _.
  destruct r; try (cbn [nxt]; apply Hfail; assumption).
  set (lg1 := nxt lg (QCreateExcl PLL) SOk).
  apply ok_op; [exact I|]. intros c Hc.
  change (match c with SNames (Some l) => l | _ => [] end) with (lnames c).
  set (lg2 := nxt lg1 QReadList c).
  assert (L2 : lk lg2 = true) by reflexivity.
  assert (K2 : incl m (kn lg2)) by exact Hm.
  assert (N2 : incl (mnames m) (sn lg2)).
  { unfold lg2, lg1. cbn. intros x Hx. apply in_or_app. right. apply Hmn. exact Hx. }
  destruct (names_eqb (lnames c) (mnames m)) eqn:Eq; cbn [negb].
  2:{ apply ok_op; [exact L2|]. intros r3 _. apply Hfail; try assumption; reflexivity. }
  apply list_nat_eqb_eq in Eq.
  assert (V2 : vw lg2 = Some (mnames m)) by (cbn; rewrite Eq; reflexivity).
  apply ok_op; [exact I|]. intros t [tmp ->].
  set (lg4 := nxt lg2 QCreateTemp (STmp tmp)).
  assert (T4 : tm lg4 = Some (tmp, true)) by reflexivity.
  destruct kind as [tx| |].
  - (* a real transaction *)
    apply ok_op; [exact I|]. intros r5 _. cbn [nxt].
    apply ok_op; [split; [exact L2|exact T4]|]. intros nw (n & f & -> & Fmin & Fmax & Ftx & Hfresh & _ & Fh).
    set (lg6 := nxt lg4 (QRenameTmp tmp (next_index m) (next_index m) [tx] hh) (SNew n f)).
    apply ok_op; [exists false; reflexivity|]. intros r7 _.
    set (lg7 := nxt lg6 (QRemove (PTmp tmp)) r7).
    apply ok_op.
    { left. exists tx, m, n, f. split; [exact Hpd|]. split; [exact V2|].
      split; [intros x Hx; right; apply Hm; exact Hx|].
      split; [cbn [lg7 nxt fr lg6 lg4 lg2 lg1]; rewrite Hfr0; reflexivity|]. split; [left; reflexivity|].
      split; [exact Fmin|]. split; [exact Fmax|]. split; [exact Ftx|].
      split; [rewrite Fh; exact Hmh|reflexivity]. }
    intros r8 _.
    set (lg8 := nxt lg7 (QCommitList (mnames m ++ [n])) r8).
    assert (D8 : dn lg8 = Some tx).
    { unfold lg8. cbn [nxt dn lg7 pd lg6 lg4 lg2 lg1]. rewrite Hpd. reflexivity. }
    eapply ok_bind.
    { apply reload_ok with (lg := lg8); [reflexivity| |exact N2|exact Hmh]. intros x Hx. right. apply Hm. exact Hx. }
    cbn beta. intros lg9 rl (_ & S9 & R1 & R2 & _ & R3).
    destruct S9 as (A1 & A2 & A3 & A4 & A5 & A6).
    destruct auto.
    + eapply ok_bind.
      { apply auto_compact_ok; [rewrite A1; reflexivity|rewrite A5; reflexivity|exact R1|exact R2|exact R3]. }
      cbn beta. intros lg10 m' (B1 & B2 & B3 & B4 & B5). cbn [ok].
      split; [exact B4|]. split; [exact B5|]. left. split; [reflexivity|]. rewrite B3, A6. exact D8.
    + cbn [ok]. split; [exact R1|]. split; [exact R2|]. left. split; [reflexivity|]. rewrite A6. exact D8.
  - (* an empty transaction *)
    apply ok_op; [exists true; exact T4|]. intros r5 _.
    apply ok_op; [exact L2|]. intros r6 _.
    set (lg6 := nxt (nxt lg4 (QRemove (PTmp tmp)) r5) (QRemove PLL) r6).
    destruct auto.
    + eapply ok_bind.
      { apply auto_compact_ok with (lg := lg6); [reflexivity|exact Hpd|exact K2|exact N2|exact Hmh]. }
      cbn beta. intros lg10 m' (B1 & B2 & B3 & B4 & B5). cbn [ok].
      split; [exact B4|]. split; [exact B5|]. left. reflexivity.
    + cbn [ok]. split; [exact K2|]. split; [exact N2|]. left. reflexivity.
  - apply ok_op; [exists true; exact T4|]. intros r5 _.
    apply ok_op; [exact L2|]. intros r6 _.
    cbn [ok]. split; [exact K2|]. split; [exact N2|]. left. reflexivity.
Qed.

(* ---------------- add_multi ---------------- *)

Lemma add_multi_ok : forall attempts hh tx same m lg,
  lk lg = false -> incl m (kn lg) -> incl (mnames m) (sn lg) ->
  pd lg = Some tx -> dn lg = None -> fr lg = [] -> mh hh m ->
  ok lg (add_multi attempts hh tx same m) (add_post (KAdd tx)).
Proof.
  intros attempts hh tx same m lg Hlk Hm Hmn Hpd Hdn Hfr0 Hmh. unfold add_multi.
  assert (Hfail : forall lgx, incl m (kn lgx) -> incl (mnames m) (sn lgx) -> dn lgx = None ->
            add_post (KAdd tx) lgx (m, RLockFailure)).
  { intros lgx A B C. split; [exact A|]. split; [exact B|]. right. split; [reflexivity|exact C]. }
  apply ok_op; [exact I|]. intros r _.
  destruct r; try (cbn [nxt ok]; apply Hfail; assumption).
  set (lg1 := nxt lg (QCreateExcl PLL) SOk).
  apply ok_op; [exact I|]. intros c Hc.
  change (match c with SNames (Some l) => l | _ => [] end) with (lnames c).
  set (lg2 := nxt lg1 QReadList c).
  assert (L2 : lk lg2 = true) by reflexivity.
  assert (K2 : incl m (kn lg2)) by exact Hm.
  assert (N2 : incl (mnames m) (sn lg2)).
  { unfold lg2, lg1. cbn. intros x Hx. apply in_or_app. right. apply Hmn. exact Hx. }
  destruct (names_eqb (lnames c) (mnames m)) eqn:Eq; cbn [negb].
  2:{ apply ok_op; [exact L2|]. intros r3 _. cbn [ok]. apply Hfail; [exact K2|exact N2|exact Hdn]. }
  apply list_nat_eqb_eq in Eq.
  assert (V2 : vw lg2 = Some (mnames m)) by (cbn; rewrite Eq; reflexivity).
  apply ok_op; [exact I|]. intros t [tmp ->].
  set (lg4 := nxt lg2 QCreateTemp (STmp tmp)).
  assert (T4 : tm lg4 = Some (tmp, true)) by reflexivity.
  apply ok_op; [exact I|]. intros r5 _. cbn [nxt].
  apply ok_op; [split; [exact L2|exact T4]|]. intros nw (n1 & f1 & -> & Fmin1 & Fmax1 & Ftx1 & Hfresh1 & _ & Fh1).
  set (lg6 := nxt lg4 (QRenameTmp tmp (next_index m) (next_index m) [tx] hh) (SNew n1 f1)).
  assert (F6 : fr lg6 = [n1]) by (cbn [lg6 nxt fr lg4 lg2 lg1]; rewrite Hfr0; reflexivity).
  apply ok_op; [exists false; reflexivity|]. intros r7 _.
  set (lg7 := nxt lg6 (QRemove (PTmp tmp)) r7).
  apply ok_op; [exact I|]. intros t2 [tmp2 ->].
  set (lg8 := nxt lg7 QCreateTemp (STmp tmp2)).
  assert (T8 : tm lg8 = Some (tmp2, true)) by reflexivity.
  assert (L8 : lk lg8 = true) by reflexivity.
  assert (V8 : vw lg8 = Some (mnames m)) by exact V2.
  assert (F8 : fr lg8 = [n1]) by exact F6.
  assert (K8 : incl m (kn lg8)) by (intros x Hx; right; apply Hm; exact Hx).
  assert (Hn1m : ~ In n1 (mnames m)) by (intro X; apply Hfresh1; apply N2; exact X).
  assert (K8n : In (n1, f1) (kn lg8)) by (cbn [lg8 lg7 lg6 nxt kn]; left; reflexivity).
  destruct same.
  - (* the second table is refused: the first is taken back *)
    apply ok_op; [exists true; exact T8|]. intros r9 _.
    apply ok_op.
    { right. split; [exact L8|]. exists (mnames m). split; [exact V8|exact Hn1m]. }
    intros r10 _.
    apply ok_op.
    { cbn [nxt]. change (fr (nxt lg8 (QRemove (PTmp tmp2)) r9)) with (fr lg8). rewrite F8. reflexivity. }
    intros r11 _. cbn [ok]. apply Hfail.
    + cbn [nxt]. change (fr (nxt lg8 (QRemove (PTmp tmp2)) r9)) with (fr lg8). rewrite F8. exact K8.
    + cbn [nxt]. change (fr (nxt lg8 (QRemove (PTmp tmp2)) r9)) with (fr lg8). rewrite F8. exact N2.
    + cbn [nxt]. change (fr (nxt lg8 (QRemove (PTmp tmp2)) r9)) with (fr lg8). rewrite F8. exact Hdn.
  - apply ok_op; [exact I|]. intros r9 _.
    set (lg9 := nxt lg8 (QOpenTab n1) r9).
    assert (X9 : lk lg9 = true /\ vw lg9 = Some (mnames m) /\ fr lg9 = [n1] /\ tm lg9 = Some (tmp2, true) /\
                 pd lg9 = Some tx /\ dn lg9 = None /\ incl (kn lg8) (kn lg9) /\ sn lg9 = sn lg8).
    { unfold lg9. destruct r9; cbn [nxt lk vw fr tm pd dn kn sn];
        (split; [exact L8|]; split; [exact V8|]; split; [exact F8|]; split; [exact T8|]; split; [exact Hpd|];
         split; [exact Hdn|]; split; [|reflexivity]); try apply incl_refl. apply incl_tl, incl_refl. }
    destruct X9 as (L9 & V9 & F9 & T9 & P9 & D9 & K9 & S9).
    apply ok_op; [exact I|]. intros r10 _. cbn [nxt].
    apply ok_op; [split; [exact L9|exact T9]|]. intros nw2 (n2 & f2 & -> & Fmin2 & Fmax2 & Ftx2 & Hfresh2 & Hnf2 & Fh2).
    rewrite F9 in Hnf2.
    assert (Hne : n1 <> n2) by (intro X; apply Hnf2; left; exact X).
    set (lg11 := nxt lg9 (QRenameTmp tmp2 (next_index m + 1)%N (next_index m + 1)%N [] hh) (SNew n2 f2)).
    apply ok_op; [exists false; reflexivity|]. intros r12 _.
    set (lg12 := nxt lg11 (QRemove (PTmp tmp2)) r12).
    apply ok_op.
    { right. right. exists tx, m, n1, f1, n2, f2.
      split; [exact P9|]. split; [exact V9|].
      split; [intros x Hx; cbn [lg12 lg11 nxt kn]; right; apply K9; apply K8; exact Hx|].
      split; [cbn [lg12 lg11 nxt fr]; rewrite F9; reflexivity|].
      split; [exact Hne|].
      split; [cbn [lg12 lg11 nxt kn]; right; apply K9; exact K8n|].
      split; [cbn [lg12 lg11 nxt kn]; left; reflexivity|].
      split; [exact Fmin1|]. split; [exact Fmax1|]. split; [exact Ftx1|].
      split; [exact Fmin2|]. split; [exact Fmax2|]. split; [exact Ftx2|].
      split; [rewrite Fh1; exact Hmh|]. split; [congruence|reflexivity]. }
    intros r13 _.
    set (lg13 := nxt lg12 (QCommitList (mnames m ++ [n1; n2])) r13).
    assert (D13 : dn lg13 = Some tx).
    { unfold lg13. cbn [nxt dn lg12 lg11 pd]. rewrite P9. reflexivity. }
    eapply ok_bind.
    { apply reload_ok with (lg := lg13); [reflexivity| | |exact Hmh].
      - intros x Hx. cbn [lg13 lg12 lg11 nxt kn]. right. apply K9. apply K8. exact Hx.
      - cbn [lg13 nxt sn lg12 lg11]. rewrite S9. exact N2. }
    cbn beta. intros lg14 rl (_ & S14 & R1 & R2 & _).
    destruct S14 as (A1 & A2 & A3 & A4 & A5 & A6).
    cbn [ok]. split; [exact R1|]. split; [exact R2|]. left. split; [reflexivity|]. rewrite A6. exact D13.
Qed.

(* ---------------- clean ---------------- *)

(* a judgement about the results only (no obligations): to add facts to an [ok] *)
Fixpoint okp {A} (lg : lgh) (p : prog A) (Q : lgh -> A -> Prop) : Prop :=
  match p with
  | Ret a => Q lg a
  | Op q k => forall rs, possible lg q rs -> okp (nxt lg q rs) (k rs) Q
  end.

Lemma okp_bind : forall {A B} (p : prog A) (f : A -> prog B) lg Q Q',
  okp lg p Q -> (forall lg' a, Q lg' a -> okp lg' (f a) Q') -> okp lg (pbind p f) Q'.
Proof.
  induction p as [a|q k IH]; intros f lg Q Q' H Hf; cbn [pbind okp] in *.
  - apply Hf. exact H.
  - intros rs Hp. eapply IH; eauto.
Qed.

Lemma okp_conseq : forall {A} (p : prog A) lg (Q Q' : lgh -> A -> Prop),
  okp lg p Q -> (forall lg' a, Q lg' a -> Q' lg' a) -> okp lg p Q'.
Proof.
  induction p as [a|q k IH]; intros lg Q Q' H HQ; cbn [okp] in *.
  - apply HQ. exact H.
  - intros rs Hp. eapply IH; eauto.
Qed.

Lemma ok_okp : forall {A} (p : prog A) lg (Q1 Q2 : lgh -> A -> Prop),
  ok lg p Q1 -> okp lg p Q2 -> ok lg p (fun lg' a => Q1 lg' a /\ Q2 lg' a).
Proof.
  induction p as [a|q k IH]; intros lg Q1 Q2 H1 H2; cbn [ok okp] in *.
  - split; assumption.
  - destruct H1 as [Ha Hk]. split; [exact Ha|]. intros rs Hp. apply IH; auto.
Qed.

Lemma mnames_rev' : forall m : mem, mnames (rev m) = rev (mnames m).
Proof. intro m. unfold mnames. apply map_rev. Qed.

Lemma open_all_okp : forall reuse old names acc lg,
  okp lg (open_all reuse old names acc)
      (fun lg' o => lk lg' = lk lg /\ vw lg' = vw lg /\
                    forall m, o = Some m -> mnames m = rev (mnames acc) ++ names).
Proof.
  intros reuse old. induction names as [|n t IH]; intros acc lg; cbn [open_all].
  - cbn [okp]. split; [reflexivity|]. split; [reflexivity|].
    intros m E. inversion E; subst. rewrite mnames_rev', app_nil_r. reflexivity.
  - assert (Hstep : forall f lgx, lk lgx = lk lg -> vw lgx = vw lg ->
              okp lgx (open_all reuse old t ((n, f) :: acc))
                (fun lg' o => lk lg' = lk lg /\ vw lg' = vw lg /\
                              forall m, o = Some m -> mnames m = rev (mnames acc) ++ n :: t)).
    { intros f lgx A B. eapply okp_conseq; [apply IH|]. cbn beta. intros lg' o (E1 & E2 & H).
      split; [congruence|]. split; [congruence|].
      intros m Em. rewrite (H m Em). cbn [mnames map fst rev]. rewrite <- app_assoc. reflexivity. }
    destruct (if reuse then lookup n old else None) as [f|]; [apply Hstep; reflexivity|].
    cbn [pbind op okp]. intros rs Hp. destruct Hp as [[f ->]| ->].
    + apply Hstep; reflexivity.
    + cbn [okp nxt lk vw]. split; [reflexivity|]. split; [reflexivity|]. intros m E. discriminate E.
Qed.

Lemma remove_any_okp : forall fuel cands lg, okp lg (remove_any fuel cands) (fun lg' _ => lg' = lg).
Proof.
  induction fuel as [|f IH]; intros cands lg.
  - destruct cands; cbn; reflexivity.
  - destruct cands as [|c cands]; [cbn; reflexivity|].
    cbn [remove_any pbind op okp]. intros rs _. cbn [nxt]. destruct rs; try (cbn; reflexivity). apply IH.
Qed.

Lemma lookup_none_notin : forall (old : mem) n, lookup n old = None -> ~ In n (mnames old).
Proof.
  induction old as [|[k f] old IH]; intros n H; cbn [lookup mnames map fst] in *; [intros []|].
  destruct (Nat.eqb_spec n k); [discriminate|]. intros [X|X]; [congruence|]. apply (IH n H). exact X.
Qed.

(* with reuse, a table whose name the old stack holds is the old stack's table *)
Lemma open_all_okp_old : forall old names acc lg,
  okp lg (open_all true old names acc)
      (fun _ o => forall m, o = Some m -> forall x, In x m -> In x acc \/ In x old \/ ~ In (fst x) (mnames old)).
Proof.
  intros old. induction names as [|n t IH]; intros acc lg; cbn [open_all].
  - cbn [okp]. intros m E x Hx. inversion E; subst. left. apply in_rev. exact Hx.
  - destruct (lookup n old) as [f|] eqn:El.
    + eapply okp_conseq; [apply IH|]. cbn beta. intros lg' o H m E x Hx.
      destruct (H m E x Hx) as [[<-|X]|X]; auto. right. left. apply lookup_In. exact El.
    + cbn [pbind op okp]. intros rs Hp. destruct Hp as [[f ->]| ->].
      * eapply okp_conseq; [apply IH|]. cbn beta. intros lg' o H m E x Hx.
        destruct (H m E x Hx) as [[<-|X]|X]; auto. right. right. cbn [fst]. apply lookup_none_notin. exact El.
      * cbn [okp]. intros m E. discriminate E.
Qed.

Lemma okp_and : forall {A} (p : prog A) lg (Q1 Q2 : lgh -> A -> Prop),
  okp lg p Q1 -> okp lg p Q2 -> okp lg p (fun lg' a => Q1 lg' a /\ Q2 lg' a).
Proof.
  induction p as [a|q k IH]; intros lg Q1 Q2 H1 H2; cbn [okp] in *; [split; assumption|].
  intros rs Hp. apply IH; auto.
Qed.

(* under the list lock, with a validated view, a reload returns the listed stack
   (and, reusing an up-to-date stack of the handle's hash type, finds no foreign table) *)
Lemma reload_okp : forall a hh old lg l,
  lk lg = true -> vw lg = Some l -> mnames old = l -> mh hh old ->
  okp lg (reload a hh true old) (fun _ res => mnames (fst res) = l /\ snd res <> RlBadHash).
Proof.
  induction a as [|a IH]; intros hh old lg l Hlk Hvw Hold Hmh; cbn [reload].
  - cbn [okp fst snd]. split; [exact Hold|discriminate].
  - cbn [pbind op okp]. intros rs Hp.
    change (match rs with SNames (Some l) => l | _ => [] end) with (lnames rs).
    destruct Hp as (_ & _ & _ & Hl). specialize (Hl l Hvw).
    set (lg1 := nxt lg QReadList rs).
    assert (L1 : lk lg1 = true) by exact Hlk.
    assert (V1 : vw lg1 = Some l) by (unfold lg1; cbn [nxt vw]; rewrite Hlk, Hl; reflexivity).
    eapply okp_bind; [apply okp_and; [apply open_all_okp|apply open_all_okp_old]|].
    cbn beta. intros lg2 o ((L2 & V2 & Ho) & Hold2).
    rewrite L1 in L2. rewrite V1 in V2.
    destruct o as [m|].
    + assert (Em : mnames m = l) by (rewrite (Ho m eq_refl); cbn [mnames map rev app]; exact Hl).
      assert (Esh : same_hash hh m = true).
      { apply same_hash_mh. intros x Hx. destruct (Hold2 m eq_refl x Hx) as [[]|[X|X]]; [apply Hmh; exact X|].
        exfalso. apply X. rewrite Hold, <- Em. unfold mnames. apply in_map. exact Hx. }
      rewrite Esh.
      eapply okp_bind; [apply remove_any_okp|]. cbn beta. intros lg3 _ ->. cbn [okp fst snd].
      split; [exact Em|discriminate].
    + cbn [pbind op okp]. intros rs2 Hp2.
      change (match rs2 with SNames (Some l) => l | _ => [] end) with (lnames rs2).
      destruct Hp2 as (_ & _ & _ & Hl2). specialize (Hl2 l V2).
      destruct (names_eqb (lnames rs2) (lnames rs)); [cbn [okp fst snd]; split; [exact Hold|discriminate]|].
      apply IH; [exact L2| |exact Hold|exact Hmh]. cbn [nxt vw]. rewrite L2, Hl2. reflexivity.
Qed.

Lemma clean_loop_ok : forall fuel cands mx lg l,
  lk lg = true -> vw lg = Some l -> fr lg = [] -> (forall n, In n cands -> ~ In n l) ->
  ok lg (clean_loop fuel cands mx) (fun lg' _ => lg' = lg).
Proof.
  induction fuel as [|f IH]; intros cands mx lg l Hlk Hvw Hfr Hc.
  - destruct cands; cbn; reflexivity.
  - destruct cands as [|c cands]; [cbn; reflexivity|].
    cbn [clean_loop]. apply ok_op; [cbn; discriminate|].
    intros rs (n & o & -> & Hin). cbn [nxt].
    assert (Hrest : forall x, In x (filter (fun x => negb (Nat.eqb x n)) (c :: cands)) -> ~ In x l).
    { intros x Hx. apply filter_In in Hx as [Hx _]. apply Hc. exact Hx. }
    destruct o as [tf|]; [|eapply IH; eauto].
    destruct (tf_max tf <=? mx)%N; [|eapply IH; eauto].
    apply ok_op.
    + cbn. right. split; [exact Hlk|]. exists l. split; [exact Hvw|]. apply Hc. exact Hin.
    + intros r2 _. cbn [nxt]. rewrite Hfr. eapply IH; eauto.
Qed.

Definition clean_post (lg' : lgh) (res : mem * apires) : Prop :=
  incl (fst res) (kn lg') /\ incl (mnames (fst res)) (sn lg') /\ (snd res = ROk \/ snd res = RLockFailure).

Lemma clean_ok : forall attempts hh m lg,
  lk lg = false -> incl m (kn lg) -> incl (mnames m) (sn lg) -> fr lg = [] -> mh hh m ->
  ok lg (clean attempts hh m) clean_post.
Proof.
  intros attempts hh m lg Hlk Hm Hmn Hfr0 Hmh. unfold clean.
  assert (Hfail : forall lgx, incl m (kn lgx) -> incl (mnames m) (sn lgx) -> clean_post lgx (m, RLockFailure)).
  { intros lgx A B. split; [exact A|]. split; [exact B|]. right. reflexivity. }
  apply ok_op; [exact I|]. intros r _.
  destruct r; try (cbn [nxt ok]; apply Hfail; assumption).
  set (lg1 := nxt lg (QCreateExcl PLL) SOk).
  apply ok_op; [exact I|]. intros c Hc.
  change (match c with SNames (Some l) => l | _ => [] end) with (lnames c).
  set (lg2 := nxt lg1 QReadList c).
  assert (L2 : lk lg2 = true) by reflexivity.
  assert (K2 : incl m (kn lg2)) by exact Hm.
  assert (N2 : incl (mnames m) (sn lg2)).
  { unfold lg2, lg1. cbn. intros x Hx. apply in_or_app. right. apply Hmn. exact Hx. }
  assert (F2 : fr lg2 = []) by exact Hfr0.
  destruct (names_eqb (lnames c) (mnames m)) eqn:Eq; cbn [negb].
  2:{ apply ok_op; [exact L2|]. intros r3 _. cbn [ok]. apply Hfail; [exact K2|exact N2]. }
  apply list_nat_eqb_eq in Eq.
  assert (V2 : vw lg2 = Some (mnames m)) by (cbn; rewrite Eq; reflexivity).
  eapply ok_bind.
  { apply ok_okp.
    - apply reload_ok_gen with (lg := lg2); [intros _; exists (mnames m); exact V2|exact K2|exact N2|exact Hmh].
    - apply reload_okp with (l := mnames m); [exact L2|exact V2|reflexivity|exact Hmh]. }
  cbn beta. intros lg3 [m1 st] ((E3 & S3 & R1 & R2 & R3 & _) & Hnm & R4). cbn [fst snd] in *.
  destruct st; [|congruence|congruence].
  destruct S3 as (A1 & A2 & A3 & A4 & A5 & A6).
  assert (L3 : lk lg3 = true) by (rewrite A1; exact L2).
  assert (V3 : vw lg3 = Some (mnames m)) by (rewrite A2; exact V2).
  assert (F3 : fr lg3 = []) by (rewrite A3; exact F2).
  assert (Hdone : ok lg3 (do! _ := op (QRemove PLL) in Ret (m1, ROk)) clean_post).
  { apply ok_op; [exact L3|]. intros r9 _. cbn [ok]. split; [exact R1|]. split; [exact R2|]. left. reflexivity. }
  apply ok_op; [exact I|]. intros d _. cbn [nxt].
  destruct m1 as [|x m']; [exact Hdone|].
  eapply ok_bind.
  { apply clean_loop_ok with (l := mnames m); [exact L3|exact V3|exact F3|].
    intros n Hn. apply filter_In in Hn as [_ Hn]. apply negb_true_iff in Hn. apply mem_nat_false in Hn.
    rewrite <- Hnm. exact Hn. }
  cbn beta. intros lg4 _ ->. exact Hdone.
Qed.

(* ---------------- the stack a call returns is of the handle's hash type ---------------- *)

Lemma leaves_reload_mh : forall a hh reuse old, mh hh old ->
  leaves (reload a hh reuse old) (fun res => mh hh (fst res)).
Proof.
  induction a as [|a IH]; intros hh reuse old Hold; cbn [reload]; [exact Hold|].
  cbn [pbind op leaves]. intro rs. apply leaves_bind. intros [m|].
  - destruct (same_hash hh m) eqn:E; [|exact Hold].
    apply leaves_bind. intros _. cbn [leaves fst]. apply same_hash_mh. exact E.
  - cbn [pbind op leaves]. intro rs2. destruct (names_eqb _ _); [exact Hold|apply IH; exact Hold].
Qed.

Lemma leaves_open_reload_mh : forall a hh,
  leaves (open_reload a hh) (fun res => forall m, res = Some m -> mh hh m).
Proof.
  induction a as [|a IH]; intros hh; cbn [open_reload]; [cbn [leaves]; intros m E; discriminate E|].
  cbn [pbind op leaves]. intro rs. apply leaves_bind. intros [m|].
  - destruct (same_hash hh m) eqn:E; cbn [leaves]; intros m' E'; [|discriminate E'].
    inversion E'; subst m'. apply same_hash_mh. exact E.
  - cbn [pbind op leaves]. intro rs2. destruct (names_eqb _ _); [cbn [leaves]; intros m E; discriminate E|apply IH].
Qed.

Ltac lv_extra := fail.
Ltac lvgo :=
  repeat match goal with
  | |- _ => lv_extra
  | |- leaves (Ret _) _ => cbn [leaves fst snd]
  | |- leaves (pbind (op _) _) _ => cbn [pbind op leaves]; intro
  | |- leaves (Op _ _) _ => cbn [leaves]; intro
  | |- forall _ : resp, _ => intro
  | |- leaves (pbind (reload _ _ _ _) _) _ =>
      eapply leaves_bind2; [apply leaves_reload_mh; eassumption|cbn beta; intros [? ?] ?; cbn [fst snd] in *]
  | |- leaves (pbind _ _) _ => apply leaves_bind; intro
  | |- leaves (let _ := _ in _) _ => cbv zeta
  | |- leaves (match ?x with _ => _ end) _ => destruct x
  end.

Lemma leaves_compact_range_mh : forall att hh first last expiry m, mh hh m ->
  leaves (compact_range att hh first last expiry m) (fun res => mh hh (fst res)).
Proof. intros att hh first last expiry m Hm. unfold compact_range. lvgo; assumption. Qed.

Lemma leaves_auto_compact_mh : forall att hh m, mh hh m ->
  leaves (auto_compact att hh m) (fun m' => mh hh m').
Proof.
  intros att hh m Hm. unfold auto_compact. destruct (suggest _) as [[s e]|]; [|exact Hm].
  eapply leaves_bind2; [apply leaves_compact_range_mh; exact Hm|]. cbn beta. intros a Ha. exact Ha.
Qed.

Ltac lv_extra ::=
  match goal with
  | |- leaves (pbind (auto_compact _ _ _) _) _ =>
      eapply leaves_bind2; [apply leaves_auto_compact_mh; eassumption|cbn beta; intros ? ?]
  end.

Lemma leaves_add_mh : forall att hh kind auto m, mh hh m ->
  leaves (add att hh kind auto m) (fun res => mh hh (fst res)).
Proof. intros att hh kind auto m Hm. unfold add. lvgo; assumption. Qed.

Lemma leaves_add_multi_mh : forall att hh tx same m, mh hh m ->
  leaves (add_multi att hh tx same m) (fun res => mh hh (fst res)).
Proof. intros att hh tx same m Hm. unfold add_multi. lvgo; assumption. Qed.

Lemma leaves_clean_mh : forall att hh m, mh hh m ->
  leaves (clean att hh m) (fun res => mh hh (fst res)).
Proof. intros att hh m Hm. unfold clean. lvgo; assumption. Qed.

Lemma leaves_wrap : forall A (p : prog A) f (Q : option mem * apires -> Prop),
  (forall a, Q (f a)) -> leaves (wrap p f) Q.
Proof. intros A p f Q H. unfold wrap. apply leaves_bind. intro a. cbn [leaves]. apply H. Qed.

Lemma leaves_wrap2 : forall A (p : prog A) f (P : A -> Prop) (Q : option mem * apires -> Prop),
  leaves p P -> (forall a, P a -> Q (f a)) -> leaves (wrap p f) Q.
Proof. intros A p f P Q Hp H. unfold wrap. eapply leaves_bind2; [exact Hp|]. intros a Ha. cbn [leaves]. apply H. exact Ha. Qed.

Definition omh (hh : bool) (m : option mem) : Prop := forall mm, m = Some mm -> mh hh mm.

Lemma leaves_call_prog_mh : forall att hh o m, omh hh m ->
  leaves (call_prog att hh o m) (fun res => omh hh (fst res)).
Proof.
  intros att hh o m Hm.
  assert (Hsome : forall (B : Type) (p : prog (mem * B)) (g : mem * B -> apires),
            leaves p (fun res => mh hh (fst res)) ->
            leaves (wrap p (fun r => (Some (fst r), g r))) (fun res => omh hh (fst res))).
  { intros B p g Hp. eapply leaves_wrap2; [exact Hp|]. cbn beta. intros a Ha mm E. cbn [fst] in E. inversion E; subst. exact Ha. }
  assert (Hnone : forall r, omh hh (fst (@None mem, r : apires))) by (intros r mm E; discriminate E).
  destruct o; cbn [call_prog].
  - eapply leaves_wrap2; [apply leaves_open_reload_mh|]. cbn beta. intros [m1|] H1 mm E; cbn [fst] in E; [|discriminate E].
    inversion E; subst. apply H1. reflexivity.
  - destruct m as [mm|]; [|apply Hnone]. apply (Hsome _ _ (fun r => snd r)). apply leaves_add_mh. apply Hm. reflexivity.
  - destruct m as [mm|]; [|apply Hnone]. apply (Hsome _ _ (fun r => snd r)). apply leaves_add_multi_mh. apply Hm. reflexivity.
  - destruct m as [mm|]; [|apply Hnone]. apply (Hsome _ _ (fun r => snd r)). apply leaves_add_mh. apply Hm. reflexivity.
  - destruct m as [mm|]; [|apply Hnone]. apply (Hsome _ _ (fun r => snd r)). apply leaves_add_mh. apply Hm. reflexivity.
  - destruct m as [mm|]; [|apply Hnone]. specialize (Hm mm eq_refl).
    destruct mm as [|x mm]; [cbn [leaves fst]; intros m' E; inversion E; subst; exact Hm|].
    apply (Hsome _ _ (fun _ => ROk)). apply leaves_compact_range_mh. exact Hm.
  - destruct m as [mm|]; [|apply Hnone]. specialize (Hm mm eq_refl).
    destruct (Nat.ltb last (length mm) && Nat.leb first last); [|cbn [leaves fst]; intros m' E; inversion E; subst; exact Hm].
    apply (Hsome _ _ (fun _ => ROk)). apply leaves_compact_range_mh. exact Hm.
  - destruct m as [mm|]; [|apply Hnone]. specialize (Hm mm eq_refl).
    destruct mm as [|x mm]; [cbn [leaves fst]; intros m' E; inversion E; subst; exact Hm|].
    apply (Hsome _ _ (fun _ => ROk)). apply leaves_compact_range_mh. exact Hm.
  - destruct m as [mm|]; [|apply Hnone]. apply leaves_wrap. intros a. apply Hnone.
  - destruct m as [mm|]; [|apply Hnone]. cbn [leaves fst]. intros m' E. inversion E; subst. apply Hm. reflexivity.
  - destruct m as [mm|]; [|apply Hnone]. apply (Hsome _ _ (fun r => snd r)). apply leaves_clean_mh. apply Hm. reflexivity.
Qed.

Lemma ok_leaves : forall {A} (p : prog A) lg (Q : lgh -> A -> Prop) (P : A -> Prop),
  ok lg p Q -> leaves p P -> ok lg p (fun lg' a => Q lg' a /\ P a).
Proof.
  induction p as [a|q k IH]; intros lg Q P H1 H2; cbn [ok leaves] in *; [split; assumption|].
  destruct H1 as [Ha Hk]. split; [exact Ha|]. intros rs Hp. apply IH; auto.
Qed.

(* ---------------- call_prog ---------------- *)

Definition lg_init (o : apiop) (m : option mem) : lgh :=
  mkL false None (match m with Some mm => mm | None => [] end)
      (mnames (match m with Some mm => mm | None => [] end)) [] [] [] None
      (match o with AAdd tx _ | AAddMulti tx _ => Some tx | _ => None end) None.

Definition retchk (o : apiop) (r : apires) (d : option nat) : bool :=
  match o with
  | AAdd tx _ | AAddMulti tx _ =>
      match r with
      | ROk => match d with Some tx' => Nat.eqb tx tx' | None => false end
      | RNoStack => true
      | _ => match d with Some _ => false | None => true end
      end
  | _ => true
  end.

Definition Qcall0 (o : apiop) (lg : lgh) (res : option mem * apires) : Prop :=
  (forall mm, fst res = Some mm -> incl mm (kn lg) /\ incl (mnames mm) (sn lg)) /\
  ret_allowed o (snd res) = true /\ retchk o (snd res) (dn lg) = true.

(* [hh]: the hash type of the handle *)
Definition Qcall (hh : bool) (o : apiop) (lg : lgh) (res : option mem * apires) : Prop :=
  (forall mm, fst res = Some mm -> incl mm (kn lg) /\ incl (mnames mm) (sn lg)) /\
  ret_allowed o (snd res) = true /\ retchk o (snd res) (dn lg) = true /\ omh hh (fst res).

Lemma call_prog_ok0 : forall attempts hh o m, omh hh m ->
  ok (lg_init o m) (call_prog attempts hh o m) (Qcall0 o).
Proof.
  intros attempts hh o m Hmh. change Qcall0 with (fun o' => Qcall0 o').
  set (Qcall := Qcall0).
  assert (Hnone : forall r, ret_allowed o r = true -> retchk o r None = true ->
                   ok (lg_init o m) (Ret (@None mem, r)) (Qcall o)).
  { intros r A B. cbn [ok]. split; [|split; assumption]. cbn. intros mm E. discriminate. }
  assert (Hinc : forall mm, m = Some mm -> incl mm (kn (lg_init o m)) /\ incl (mnames mm) (sn (lg_init o m))).
  { intros mm ->. cbn. split; apply incl_refl. }
  destruct o; cbn [call_prog].
  - (* Open *)
    unfold wrap. eapply ok_bind.
    + apply open_reload_ok with (lg := lg_init AOpen m). reflexivity.
    + cbn beta. intros lg' [mm|] (_ & S & R); cbn [ok]; (split; [|split; reflexivity]).
      * cbn [fst]. intros mm' E. inversion E; subst. split; apply R.
      * cbn [fst]. intros mm' E. discriminate E.
  - (* Add *)
    destruct m as [mm|]; [|apply Hnone; reflexivity].
    destruct (Hinc mm eq_refl) as [I1 I2].
    pose proof (Hmh mm eq_refl) as I3.
    unfold wrap. eapply ok_bind.
    + apply add_ok with (kind := KAdd tx) (lg := lg_init (AAdd tx auto) (Some mm)); try reflexivity; assumption.
    + cbn beta. intros lg' res (R1 & R2 & R3). cbn [ok]. split.
      { cbn [fst]. intros mm' E. inversion E; subst. split; assumption. }
      cbn [snd add_res] in *. destruct R3 as [[-> D]|[-> D]]; rewrite D; cbn.
      * rewrite Nat.eqb_refl. split; reflexivity.
      * split; reflexivity.
  - (* AddMulti *)
    destruct m as [mm|]; [|apply Hnone; reflexivity].
    destruct (Hinc mm eq_refl) as [I1 I2].
    pose proof (Hmh mm eq_refl) as I3.
    unfold wrap. eapply ok_bind.
    + apply add_multi_ok with (lg := lg_init (AAddMulti tx same) (Some mm)); try reflexivity; assumption.
    + cbn beta. intros lg' res (R1 & R2 & R3). cbn [ok]. split.
      { cbn [fst]. intros mm' E. inversion E; subst. split; assumption. }
      cbn [snd add_res] in *. destruct R3 as [[-> D]|[-> D]]; rewrite D; cbn.
      * rewrite Nat.eqb_refl. split; reflexivity.
      * split; reflexivity.
  - (* AddEmpty *)
    destruct m as [mm|]; [|apply Hnone; reflexivity].
    destruct (Hinc mm eq_refl) as [I1 I2].
    pose proof (Hmh mm eq_refl) as I3.
    unfold wrap. eapply ok_bind.
    + apply add_ok with (kind := KEmpty) (lg := lg_init AAddEmpty (Some mm)); try reflexivity; assumption.
    + cbn beta. intros lg' res (R1 & R2 & R3). cbn [ok]. split.
      { cbn [fst]. intros mm' E. inversion E; subst. split; assumption. }
      cbn [snd add_res] in *. destruct R3 as [-> | ->]; split; reflexivity.
  - (* AddBad *)
    destruct m as [mm|]; [|apply Hnone; reflexivity].
    destruct (Hinc mm eq_refl) as [I1 I2].
    pose proof (Hmh mm eq_refl) as I3.
    unfold wrap. eapply ok_bind.
    + apply add_ok with (kind := KBad) (lg := lg_init AAddBad (Some mm)); try reflexivity; assumption.
    + cbn beta. intros lg' res (R1 & R2 & R3). cbn [ok]. split.
      { cbn [fst]. intros mm' E. inversion E; subst. split; assumption. }
      cbn [snd add_res] in *. destruct R3 as [-> | ->]; split; reflexivity.
  - (* CompactAll *)
    destruct m as [mm|]; [|apply Hnone; reflexivity].
    destruct (Hinc mm eq_refl) as [I1 I2].
    pose proof (Hmh mm eq_refl) as I3.
    destruct mm as [|x mm].
    + cbn [ok]. split; [|split; reflexivity]. cbn [fst]. intros mm' E. inversion E; subst. split; assumption.
    + unfold wrap. eapply ok_bind.
      * apply compact_range_ok with (lg := lg_init ACompactAll (Some (x :: mm))); try reflexivity; try assumption.
        cbn. lia.
      * cbn beta. intros lg' res (_ & _ & _ & R1 & R2). cbn [ok]. split; [|split; reflexivity].
        cbn [fst]. intros mm' E. inversion E; subst. split; assumption.
  - (* Compact *)
    destruct m as [mm|]; [|apply Hnone; reflexivity].
    destruct (Hinc mm eq_refl) as [I1 I2].
    pose proof (Hmh mm eq_refl) as I3.
    destruct (Nat.ltb last (length mm) && Nat.leb first last) eqn:Erng.
    + apply andb_true_iff in Erng as [Elt Ele]. apply Nat.ltb_lt in Elt. apply Nat.leb_le in Ele.
      unfold wrap. eapply ok_bind.
      * apply compact_range_ok with (lg := lg_init (ACompact first last) (Some mm)); try reflexivity; try assumption.
        lia.
      * cbn beta. intros lg' res (_ & _ & _ & R1 & R2). cbn [ok]. split; [|split; reflexivity].
        cbn [fst]. intros mm' E. inversion E; subst. split; assumption.
    + cbn [ok]. split; [|split; reflexivity]. cbn [fst]. intros mm' E. inversion E; subst. split; assumption.
  - (* Expire *)
    destruct m as [mm|]; [|apply Hnone; reflexivity].
    destruct (Hinc mm eq_refl) as [I1 I2].
    pose proof (Hmh mm eq_refl) as I3.
    destruct mm as [|x mm].
    + cbn [ok]. split; [|split; reflexivity]. cbn [fst]. intros mm' E. inversion E; subst. split; assumption.
    + unfold wrap. eapply ok_bind.
      * apply compact_range_ok with (lg := lg_init AExpire (Some (x :: mm))); try reflexivity; try assumption.
        cbn. lia.
      * cbn beta. intros lg' res (_ & _ & _ & R1 & R2). cbn [ok]. split; [|split; reflexivity].
        cbn [fst]. intros mm' E. inversion E; subst. split; assumption.
  - (* Close *)
    destruct m as [mm|]; [|apply Hnone; reflexivity].
    destruct (Hinc mm eq_refl) as [I1 I2].
    pose proof (Hmh mm eq_refl) as I3.
    unfold wrap. eapply ok_bind.
    + apply close_ok; [reflexivity|exact I2].
    + cbn beta. intros lg' _ _. cbn [ok]. split; [|split; reflexivity]. cbn. intros mm' E. discriminate.
  - (* Read *)
    destruct m as [mm|]; [|apply Hnone; reflexivity].
    destruct (Hinc mm eq_refl) as [I1 I2].
    pose proof (Hmh mm eq_refl) as I3.
    cbn [ok]. split; [|split; reflexivity]. cbn [fst]. intros mm' E. inversion E; subst. split; assumption.
  - (* Clean *)
    destruct m as [mm|]; [|apply Hnone; reflexivity].
    destruct (Hinc mm eq_refl) as [I1 I2].
    pose proof (Hmh mm eq_refl) as I3.
    unfold wrap. eapply ok_bind.
    + apply clean_ok with (lg := lg_init AClean (Some mm)); try reflexivity; assumption.
    + cbn beta. intros lg' res (R1 & R2 & R3). cbn [ok]. split.
      { cbn [fst]. intros mm' E. inversion E; subst. split; assumption. }
      cbn [snd]. destruct R3 as [-> | ->]; split; reflexivity.
Qed.

Lemma call_prog_ok : forall attempts hh o m, omh hh m ->
  ok (lg_init o m) (call_prog attempts hh o m) (Qcall hh o).
Proof.
  intros attempts hh o m Hmh.
  eapply ok_conseq; [apply ok_leaves; [apply call_prog_ok0; exact Hmh|apply leaves_call_prog_mh; exact Hmh]|].
  cbn beta. intros lg' res ((Q1 & Q2 & Q3) & Q4). exact (conj Q1 (conj Q2 (conj Q3 Q4))).
Qed.

(* ------------------------------------------------------------------ *)
(* S1: update-index ranges                                             *)
(* ------------------------------------------------------------------ *)

Definition info (f : tfile) : tinfo := {| ti_min := tf_min f; ti_max := tf_max f; ti_txs := tf_txs f |}.

Fixpoint lastmax (last : option N) (l : list tinfo) : option N :=
  match l with [] => last | i :: t => lastmax (Some (ti_max i)) t end.

Lemma ri_app : forall a b last,
  ranges_increasing last (a ++ b) = ranges_increasing last a && ranges_increasing (lastmax last a) b.
Proof.
  induction a as [|i a IH]; intros b last; cbn [app ranges_increasing lastmax]; [reflexivity|].
  rewrite IH. rewrite !andb_assoc. reflexivity.
Qed.

Lemma lastmax_app : forall a b last, lastmax last (a ++ b) = lastmax (lastmax last a) b.
Proof. induction a as [|i a IH]; intros; cbn [app lastmax]; [reflexivity|apply IH]. Qed.

Lemma ri_first_le_last : forall t i last,
  ranges_increasing last (i :: t) = true ->
  exists mx, lastmax last (i :: t) = Some mx /\ (ti_min i <= mx)%N /\
             match last with Some x => (x < ti_min i)%N | None => True end.
Proof.
  induction t as [|j t IH]; intros i last H.
  - cbn [ranges_increasing lastmax] in *. exists (ti_max i).
    apply andb_true_iff in H as [H _]. apply andb_true_iff in H as [H1 H2].
    apply N.leb_le in H1. split; [reflexivity|]. split; [exact H1|].
    destruct last; [apply N.ltb_lt; exact H2|exact I].
  - cbn [ranges_increasing] in H. apply andb_true_iff in H as [H H3].
    apply andb_true_iff in H as [H1 H2]. apply N.leb_le in H1.
    change (ranges_increasing (Some (ti_max i)) (j :: t) = true) in H3.
    destruct (IH j (Some (ti_max i)) H3) as [mx [E [Hle Hlt]]].
    exists mx. split; [exact E|]. split; [lia|].
    destruct last; [apply N.ltb_lt; exact H2|exact I].
Qed.

Lemma ri_replace : forall P r R T nw last,
  ranges_increasing last (P ++ (r :: R) ++ T) = true ->
  ti_min nw = ti_min r -> (forall x, lastmax x (r :: R) = Some (ti_max nw)) ->
  ranges_increasing last (P ++ [nw] ++ T) = true.
Proof.
  intros P r R T nw last H Hmin Hmax.
  rewrite ri_app in H. apply andb_true_iff in H as [HP H].
  rewrite ri_app in H. apply andb_true_iff in H as [HR HT].
  rewrite ri_app, HP. cbn [andb]. rewrite ri_app. rewrite Hmax in HT.
  cbn [lastmax]. rewrite HT, andb_true_r.
  destruct (ri_first_le_last _ _ _ HR) as [mx [E [Hle Hlt]]].
  rewrite Hmax in E. inversion E; subst mx.
  cbn [ranges_increasing]. rewrite andb_true_r. apply andb_true_iff. split.
  - apply N.leb_le. lia.
  - destruct (lastmax last P); [apply N.ltb_lt; lia|reflexivity].
Qed.

Lemma lastmax_mem : forall (m : mem) x, m <> [] ->
  lastmax x (map (fun y => info (snd y)) m) = Some (last_max m).
Proof.
  intros m x Hne. destruct (exists_last Hne) as [m' [[n f] ->]].
  rewrite map_app, lastmax_app. cbn [map lastmax snd info ti_max].
  unfold last_max. rewrite rev_unit. reflexivity.
Qed.

(* ------------------------------------------------------------------ *)
(* S1/S3: global ghost state, invariant, interpretation of local ghosts *)
(* ------------------------------------------------------------------ *)

Record ghost := mkG { G : nat -> tfile; seen : nat -> Prop }.

Definition listed_fs (s : fs) : list nat := match f_list s with Some l => l | None => [] end.
Definition txs_of (γ : ghost) (s : fs) : list nat := flat_map (fun n => tf_txs (G γ n)) (listed_fs s).

Record GI (γ : ghost) (s : fs) : Prop := {
  g_tabs : forall n f, lookup n (f_tabs s) = Some f -> n < f_next_tab s /\ G γ n = f;
  g_nodup : NoDup (listed_fs s);
  g_exist : forall n, In n (listed_fs s) -> lookup n (f_tabs s) <> None;
  g_ranges : ranges_increasing None (map (fun n => info (G γ n)) (listed_fs s)) = true;
  g_seen : forall n, In n (listed_fs s) -> seen γ n;
  g_seen_lt : forall n, seen γ n -> n < f_next_tab s;
  g_tmps : forall t h, lookup t (f_tmps s) = Some h -> t < f_next_tmp s;
  (* the listed tables share one hash type *)
  g_hash : exists hsh, forall n, In n (listed_fs s) -> tf_hash (G γ n) = hsh }.

Record interp (γ : ghost) (s : fs) (h : nat) (lg : lgh) : Prop := {
  i_lk : lk lg = true -> f_lock s = Some h;
  i_vw : forall l, vw lg = Some l -> f_lock s = Some h /\ listed_fs s = l;
  i_kn : forall n f, In (n, f) (kn lg) -> n < f_next_tab s /\ G γ n = f;
  i_sn : forall n, In n (sn lg) -> seen γ n;
  i_dd : forall n, In n (dd lg) -> seen γ n /\ ~ In n (listed_fs s);
  i_gn : forall n, In n (gn lg) -> n < f_next_tab s /\ lookup n (f_tabs s) = None;
  i_fr : forall n, In n (fr lg) -> f_lock s = Some h /\ ~ seen γ n /\ lookup n (f_tabs s) = Some (G γ n);
  i_tm : forall t b, tm lg = Some (t, b) ->
           t < f_next_tmp s /\ (forall h', lookup t (f_tmps s) = Some h' -> h' = h) /\
           (b = true -> lookup t (f_tmps s) <> None) }.

(* what any step guarantees to everybody *)
Record frame (γ : ghost) (s : fs) (γ' : ghost) (s' : fs) : Prop := {
  fr_next : f_next_tab s <= f_next_tab s';
  fr_G : forall n, n < f_next_tab s -> G γ' n = G γ n;
  fr_seen : forall n, seen γ n -> seen γ' n;
  fr_dead : forall n, seen γ n -> ~ In n (listed_fs s) -> ~ In n (listed_fs s');
  fr_gone : forall n, n < f_next_tab s -> lookup n (f_tabs s) = None -> lookup n (f_tabs s') = None;
  fr_ntmp : f_next_tmp s <= f_next_tmp s';
  fr_tmp_old : forall t h, t < f_next_tmp s -> lookup t (f_tmps s') = Some h -> lookup t (f_tmps s) = Some h }.

Arguments g_tabs [γ s] _ n f _.
Arguments g_tmps [γ s] _ t h _.
Arguments i_vw [γ s h lg] _ l _.
Arguments i_fr [γ s h lg] _ n _.
Arguments i_tm [γ s h lg] _ t b _.
Arguments fr_tmp_old [γ s γ' s'] _ t h _ _.

(* what a step guarantees to a handle that holds the list lock / owns temp files *)
(* (a table that was never listed is only unlinked by the holder of the list lock: Clean, or the
   owner taking its fresh table back) *)
Definition keepsL (h : nat) (γ : ghost) (s : fs) (γ' : ghost) (s' : fs) : Prop :=
  f_lock s = Some h -> f_lock s' = Some h /\ listed_fs s' = listed_fs s /\ (forall n, seen γ' n -> seen γ n) /\
                       (forall n f, ~ seen γ n -> lookup n (f_tabs s) = Some f -> lookup n (f_tabs s') = Some f).
Definition keepsT (h : nat) (s s' : fs) : Prop :=
  forall t, lookup t (f_tmps s) = Some h -> lookup t (f_tmps s') = Some h.
Definition nolock (lg : lgh) : Prop := lk lg = false /\ vw lg = None /\ fr lg = [].

Lemma interp_stable : forall γ s γ' s' h lg,
  GI γ s -> frame γ s γ' s' ->
  (keepsL h γ s γ' s' \/ nolock lg) -> (keepsT h s s' \/ tm lg = None) ->
  interp γ s h lg -> interp γ' s' h lg.
Proof.
  intros γ s γ' s' h lg HG HF HL HT HI. destruct HF, HI. constructor.
  - intros E. destruct HL as [HL|(A & _)]; [|congruence]. apply HL. auto.
  - intros l E. destruct HL as [HL|(_ & A & _)]; [|congruence].
    destruct (i_vw0 l E) as [A B]. destruct (HL A) as (C & D & _). split; [exact C|congruence].
  - intros n f Hin. destruct (i_kn0 n f Hin) as [A B]. split; [lia|]. rewrite fr_G0; assumption.
  - intros n Hin. auto.
  - intros n Hin. destruct (i_dd0 n Hin) as [A B]. split; auto.
  - intros n Hin. destruct (i_gn0 n Hin) as [A B]. split; [lia|auto].
  - intros n E. destruct HL as [HL|(_ & _ & A)]; [|rewrite A in E; destruct E].
    destruct (i_fr0 n E) as (A & B & C). destruct (HL A) as (D & _ & F & K).
    split; [exact D|]. split; [intro X; apply B; apply F; exact X|].
    rewrite fr_G0; [apply K; assumption|].
    apply (g_tabs HG) in C. apply C.
  - intros t b E. destruct HT as [HT|A]; [|congruence].
    destruct (i_tm0 t b E) as (A & B & C). split; [lia|]. split.
    + intros h' X. apply B. apply fr_tmp_old0; assumption.
    + intros Eb X. specialize (C Eb). destruct (lookup t (f_tmps s)) as [h'|] eqn:Y; [|congruence].
      assert (h' = h) by (apply B; reflexivity). subst h'. apply HT in Y. congruence.
Qed.

Definition memok (γ : ghost) (m : mem) : Prop := forall n f, In (n, f) m -> G γ n = f /\ seen γ n.

Lemma memok_stable : forall γ s γ' s' m, GI γ s -> frame γ s γ' s' -> memok γ m -> memok γ' m.
Proof.
  intros γ s γ' s' m HG HF Hm n f Hin. destruct (Hm n f Hin) as [A B]. split.
  - rewrite (fr_G HF); [exact A|]. apply (g_seen_lt HG). exact B.
  - apply (fr_seen HF). exact B.
Qed.

(* states that differ only in the lock and the table locks *)
Definition dateq (s s' : fs) : Prop :=
  f_list s' = f_list s /\ f_tabs s' = f_tabs s /\ f_tmps s' = f_tmps s /\
  f_next_tab s' = f_next_tab s /\ f_next_tmp s' = f_next_tmp s.

Lemma GI_dateq : forall γ s s', dateq s s' -> GI γ s -> GI γ s'.
Proof.
  intros γ s s' (A & B & C & D & E) H. destruct H. unfold listed_fs in *.
  constructor; unfold listed_fs; rewrite ?A, ?B, ?C, ?D, ?E; assumption.
Qed.

Lemma frame_dateq : forall γ s s', dateq s s' -> frame γ s γ s'.
Proof.
  intros γ s s' (A & B & C & D & E).
  constructor; unfold listed_fs; rewrite ?A, ?B, ?C, ?D, ?E; auto.
Qed.

Lemma txs_dateq : forall γ s s', dateq s s' -> txs_of γ s' = txs_of γ s.
Proof. intros γ s s' (A & _). unfold txs_of, listed_fs. rewrite A. reflexivity. Qed.

Lemma keepsL_dateq : forall h γ s s', dateq s s' -> (f_lock s = Some h -> f_lock s' = Some h) -> keepsL h γ s γ s'.
Proof.
  intros h γ s s' (A & B & _) H E. split; [auto|]. split; [unfold listed_fs; rewrite A; reflexivity|].
  split; [auto|]. intros n f _ X. rewrite B. exact X.
Qed.

Lemma keepsT_dateq : forall h s s', dateq s s' -> keepsT h s s'.
Proof. intros h s s' (_ & _ & C & _) t E. rewrite C. exact E. Qed.

Lemma dateq_refl : forall s, dateq s s.
Proof. intro s. repeat split. Qed.

Lemma frame_refl : forall γ s, frame γ s γ s.
Proof. intros. apply frame_dateq. apply dateq_refl. Qed.

Lemma interp_dateq : forall γ s s' h lg,
  GI γ s -> dateq s s' -> (f_lock s = Some h -> f_lock s' = Some h) -> interp γ s h lg -> interp γ s' h lg.
Proof.
  intros γ s s' h lg HG Hd Hl HI.
  eapply interp_stable; eauto.
  - apply frame_dateq; assumption.
  - left. apply keepsL_dateq; assumption.
  - left. apply keepsT_dateq; assumption.
Qed.

Definition removed (q : req) (rs : resp) : option nat :=
  match q with
  | QRemove (PT n) => Some n
  | QRemoveOne _ => match rs with SRemoved n => Some n | _ => None end
  | _ => None
  end.
Definition is_commit (q : req) : bool := match q with QCommitList _ => true | _ => false end.

Record step_post (h : nat) (γ : ghost) (s : fs) (lg : lgh) (q : req)
                 (γ' : ghost) (s' : fs) (rs : resp) (fr : fres) : Prop := {
  sp_GI : GI γ' s';
  sp_frame : frame γ s γ' s';
  sp_keepL : forall h', h' <> h -> keepsL h' γ s γ' s';
  sp_keepT : forall h', h' <> h -> keepsT h' s s';
  sp_poss : possible lg q rs;
  sp_interp : interp γ' s' h (nxt lg q rs);
  sp_rm : forall n, removed q rs = Some n -> fr = FOk -> ~ In n (listed_fs s);
  sp_commit : is_commit q = true -> fr = FOk;
  sp_txs : txs_of γ' s' = txs_of γ s ++
             (if is_commit q then match pd lg with Some tx => [tx] | None => [] end else []) }.

(* a request that leaves the data alone and does not take a lock away from anybody *)
Lemma sp_same : forall h γ s lg q s' rs fr,
  GI γ s -> dateq s s' -> (forall h', f_lock s = Some h' -> f_lock s' = Some h') ->
  possible lg q rs -> interp γ s' h (nxt lg q rs) ->
  (forall n, removed q rs = Some n -> fr = FOk -> ~ In n (listed_fs s)) ->
  is_commit q = false ->
  step_post h γ s lg q γ s' rs fr.
Proof.
  intros h γ s lg q s' rs fr HG Hd Hl Hp Hi Hr Hc. constructor; auto.
  - eapply GI_dateq; eauto.
  - apply frame_dateq; assumption.
  - intros h' _. apply keepsL_dateq; auto.
  - intros h' _. apply keepsT_dateq; auto.
  - rewrite Hc. discriminate.
  - rewrite Hc, app_nil_r. apply txs_dateq. assumption.
Qed.

(* unlinking a table that the list does not name: a dead one, or, by the holder
   of the list lock, any (Clean; the owner taking back its fresh table) *)
Lemma deltab_facts : forall γ s n s',
  GI γ s -> ~ In n (listed_fs s) ->
  f_list s' = f_list s -> f_tabs s' = del n (f_tabs s) -> f_tmps s' = f_tmps s ->
  f_next_tab s' = f_next_tab s -> f_next_tmp s' = f_next_tmp s ->
  GI γ s' /\ frame γ s γ s'.
Proof.
  intros γ s n s' HG Hn A B C D E. destruct HG. split.
  - constructor; unfold listed_fs in *; rewrite ?A, ?B, ?C, ?D, ?E; auto.
    + intros x f Hx. rewrite lookup_del in Hx. destruct (Nat.eqb x n); [discriminate|auto].
    + intros x Hx. rewrite lookup_del. destruct (Nat.eqb_spec x n); [subst; contradiction|auto].
  - constructor; unfold listed_fs in *; rewrite ?A, ?B, ?C, ?D, ?E; auto.
    intros x _ Hx. rewrite lookup_del. destruct (Nat.eqb x n); auto.
Qed.

Definition same_but_fr (a b : lgh) : Prop :=
  lk b = lk a /\ vw b = vw a /\ kn b = kn a /\ sn b = sn a /\ dd b = dd a /\ gn b = gn a /\ tm b = tm a.

Lemma same_but_fr_refl : forall a, same_but_fr a a.
Proof. intro a. repeat split. Qed.

Lemma nxt_rmtab : forall lg n rs,
  same_but_fr lg (nxt lg (QRemove (PT n)) rs) /\ fr (nxt lg (QRemove (PT n)) rs) = rmv n (fr lg).
Proof.
  intros lg n rs. cbn [nxt]. destruct (fr lg) eqn:E.
  - split; [apply same_but_fr_refl|]. rewrite E. reflexivity.
  - split; [repeat split|reflexivity].
Qed.

Lemma interp_forget_fr : forall γ s h lg lg',
  interp γ s h lg -> same_but_fr lg lg' -> incl (fr lg') (fr lg) -> interp γ s h lg'.
Proof.
  intros γ s h lg lg' HI (A & B & C & D & E & F & T) Hfr. destruct HI.
  constructor; rewrite ?A, ?B, ?C, ?D, ?E, ?F, ?T; auto.
Qed.

Lemma sp_deltab : forall h γ s lg q n s' rs,
  GI γ s -> interp γ s h lg -> ~ In n (listed_fs s) -> (seen γ n \/ f_lock s = Some h) ->
  same_but_fr lg (nxt lg q rs) -> (forall x, In x (fr (nxt lg q rs)) -> In x (fr lg) /\ x <> n) ->
  possible lg q rs ->
  is_commit q = false -> (forall x, removed q rs = Some x -> x = n) ->
  f_list s' = f_list s -> f_lock s' = f_lock s -> f_tabs s' = del n (f_tabs s) -> f_tmps s' = f_tmps s ->
  f_next_tab s' = f_next_tab s -> f_next_tmp s' = f_next_tmp s ->
  step_post h γ s lg q γ s' rs FOk.
Proof.
  intros h γ s lg q n s' rs HG HI Hnl Hwho Hsame Hfr Hp Hc Hrm A L B C D E.
  destruct (@deltab_facts γ s n s' HG Hnl A B C D E) as [HG' HF].
  assert (KL : forall h', h' <> h -> keepsL h' γ s γ s').
  { intros h' Hne X. destruct Hwho as [Hs|Hlock]; [|congruence].
    split; [congruence|]. split; [unfold listed_fs; rewrite A; reflexivity|]. split; [auto|].
    intros x f Hx Hl. rewrite B, lookup_del. destruct (Nat.eqb_spec x n); [subst; contradiction|exact Hl]. }
  assert (KT : forall h', keepsT h' s s') by (intros h' t X; rewrite C; exact X).
  constructor; auto.
  - destruct Hsame as (S1 & S2 & S3 & S4 & S5 & S6 & S7). destruct HI.
    constructor; rewrite ?S1, ?S2, ?S3, ?S4, ?S5, ?S6, ?S7; unfold listed_fs in *; rewrite ?A, ?L, ?D, ?E, ?C; auto.
    + intros x Hx. destruct (i_gn0 x Hx) as [P Q]. split; [exact P|]. rewrite B, lookup_del, Q.
      destruct (Nat.eqb x n); reflexivity.
    + intros x Hx. destruct (Hfr x Hx) as [P Q]. destruct (i_fr0 x P) as (X & Y & Z).
      split; [exact X|]. split; [exact Y|]. rewrite B, lookup_del.
      destruct (Nat.eqb_spec x n); [contradiction|exact Z].
  - intros x Hx _. apply Hrm in Hx. subst x. exact Hnl.
  - rewrite Hc, app_nil_r. unfold txs_of, listed_fs. rewrite A. reflexivity.
Qed.

(* ---------------- a new table (QRenameTmp) ---------------- *)

Lemma interp_weaken : forall γ s h lg lg',
  interp γ s h lg ->
  (lk lg' = true -> lk lg = true) -> (forall l, vw lg' = Some l -> vw lg = Some l) ->
  incl (kn lg') (kn lg) -> incl (sn lg') (sn lg) -> incl (dd lg') (dd lg) -> incl (gn lg') (gn lg) ->
  incl (fr lg') (fr lg) ->
  (forall t b, tm lg' = Some (t, b) -> exists b', tm lg = Some (t, b') /\ (b = true -> b' = true)) ->
  interp γ s h lg'.
Proof.
  intros γ s h lg lg' HI A B C D E F X Y. destruct HI. constructor; auto.
  intros t b Ht. destruct (Y t b Ht) as [b' [Hb Hbb]]. destruct (i_tm0 t b' Hb) as (P & Q & R).
  split; [exact P|]. split; [exact Q|]. intro Eb. apply R. auto.
Qed.

Lemma sp_rename : forall so h γ s lg t mn mx txs hsh hh,
  GI γ s -> interp γ s h lg -> lk lg = true -> tm lg = Some (t, true) ->
  lookup t (f_tmps s) = Some hh ->
  let n := f_next_tab s in
  let f := {| tf_min := mn; tf_max := mx; tf_txs := txs; tf_size := so n; tf_hash := hsh |} in
  let s' := {| f_list := f_list s; f_lock := f_lock s; f_tabs := f_tabs s ++ [(n, f)]; f_tlocks := f_tlocks s;
               f_tmps := del t (f_tmps s); f_next_tab := S n; f_next_tmp := f_next_tmp s |} in
  let γ' := mkG (fun x => if Nat.eqb x n then f else G γ x) (seen γ) in
  step_post h γ s lg (QRenameTmp t mn mx txs hsh) γ' s' (SNew n f) FOk.
Proof.
  intros so h γ s lg t mn mx txs hsh hh HG HI Hlk Htm Hlook n f s' γ'.
  assert (Hhh : hh = h) by (destruct (i_tm HI _ _ Htm) as (_ & X & _); apply X; exact Hlook). subst hh.
  assert (Hnone : lookup n (f_tabs s) = None).
  { destruct (lookup n (f_tabs s)) eqn:E; [|reflexivity]. apply (g_tabs HG) in E. unfold n in E. lia. }
  assert (Hlt : forall x, seen γ x -> x < n) by (intros x Hx; apply (g_seen_lt HG); exact Hx).
  assert (HF : frame γ s γ' s').
  { constructor; unfold s', γ', listed_fs; cbn [f_next_tab f_tabs f_tmps f_next_tmp G seen f_list]; auto.
    - intros x Hx. destruct (Nat.eqb_spec x n); [unfold n in *; lia|reflexivity].
    - intros x Hx E. rewrite lookup_app, E. cbn. destruct (Nat.eqb_spec x n); [unfold n in *; lia|reflexivity].
    - intros t' h' _ E. rewrite lookup_del in E. destruct (Nat.eqb t' t); [discriminate|exact E]. }
  assert (HG' : GI γ' s').
  { destruct HG. unfold listed_fs in *. constructor; unfold s', γ', listed_fs; cbn [f_next_tab f_tabs f_tmps f_next_tmp G seen f_list]; auto.
    - intros x g E. rewrite lookup_app in E. destruct (lookup x (f_tabs s)) as [g0|] eqn:E0.
      + inversion E; subst g0. destruct (g_tabs0 x g E0) as [A B]. fold n in A. split; [lia|].
        destruct (Nat.eqb_spec x n); [lia|exact B].
      + cbn in E. destruct (Nat.eqb_spec x n); [|discriminate]. inversion E; subst. split; [lia|reflexivity].
    - intros x Hx. rewrite lookup_app. specialize (g_exist0 x Hx).
      destruct (lookup x (f_tabs s)); [discriminate|contradiction].
    - rewrite <- g_ranges0. f_equal. apply map_ext_in. intros x Hx.
      destruct (Nat.eqb_spec x n); [|reflexivity]. apply g_seen0 in Hx. apply Hlt in Hx. lia.
    - intros x Hx. apply Hlt in Hx. lia.
    - intros t' h' E. rewrite lookup_del in E. destruct (Nat.eqb t' t); [discriminate|eauto].
    - destruct g_hash0 as [hs0 Hhs]. exists hs0. intros x Hx.
      destruct (Nat.eqb_spec x n); [|apply Hhs; exact Hx]. apply g_seen0 in Hx. apply Hlt in Hx. lia. }
  assert (KL : forall h', keepsL h' γ s γ' s').
  { intros h' E. cbn. split; [exact E|]. split; [reflexivity|]. split; [auto|].
    intros x g _ X. rewrite lookup_app, X. reflexivity. }
  constructor; auto.
  - intros h' Hne t' E. cbn [s' f_tmps]. rewrite lookup_del.
    destruct (Nat.eqb_spec t' t); [|exact E]. subst t'. rewrite Hlook in E. congruence.
  - cbn. exists n, f. repeat split; auto.
    + intro X. apply (i_sn HI) in X. apply Hlt in X. lia.
    + intro X. destruct (i_fr HI _ X) as (_ & _ & Y). rewrite Hnone in Y. discriminate Y.
  - cbn [nxt].
    assert (HW : interp γ' s' h (mkL (lk lg) (vw lg) (kn lg) (sn lg) (dd lg) (gn lg) (fr lg) None (pd lg) (dn lg))).
    { apply interp_stable with (γ := γ) (s := s); auto.
      apply interp_weaken with (lg := lg); cbn; auto using incl_refl. intros; discriminate. }
    destruct HW. cbn [lk vw kn sn dd gn fr tm] in *.
    constructor; cbn [lk vw kn sn dd gn fr tm]; auto.
    + intros x g [E|Hin]; [|auto]. inversion E; subst. cbn. split; [lia|]. rewrite Nat.eqb_refl. reflexivity.
    + intros x [<-|Hx]; [|auto]. split; [cbn; apply (i_lk HI); exact Hlk|].
      split; [cbn; intro X; apply Hlt in X; lia|].
      cbn. rewrite lookup_app, Hnone. cbn. rewrite !Nat.eqb_refl. reflexivity.
    + intros t' b E. inversion E; subst. cbn. split; [apply (i_tm HI _ _ Htm)|].
      rewrite lookup_del, Nat.eqb_refl. split; [intros; discriminate|intros; discriminate].
  - intros x Hx. discriminate.
  - cbn [is_commit]. rewrite app_nil_r. unfold txs_of. cbn [listed_fs f_list s' G γ'].
    apply flat_map_ext_in'. intros x Hx. destruct (Nat.eqb_spec x n); [|reflexivity].
    apply (g_seen HG) in Hx. apply Hlt in Hx. lia.
Qed.

(* ---------------- a commit (QCommitList) ---------------- *)

Lemma map_G_mem : forall {B} γ (g : tfile -> B) (m : mem),
  (forall n f, In (n, f) m -> G γ n = f) ->
  map (fun n => g (G γ n)) (mnames m) = map (fun y => g (snd y)) m.
Proof.
  intros B γ g m H. unfold mnames. rewrite map_map. apply map_ext_in. intros [n f] Hin. cbn.
  rewrite (H n f Hin). reflexivity.
Qed.

Lemma nodup_mid_remove : forall {A} (b a c : list A), NoDup (a ++ b ++ c) -> NoDup (a ++ c).
Proof.
  induction b as [|x b IH]; intros a c H; [exact H|].
  apply IH. cbn in H. apply NoDup_remove_1 in H. exact H.
Qed.

Lemma nodup_insert : forall {A} (a c : list A) n, NoDup (a ++ c) -> ~ In n (a ++ c) -> NoDup (a ++ n :: c).
Proof.
  induction a as [|x a IH]; cbn; intros c n Hnd Hn.
  - constructor; assumption.
  - inversion Hnd; subst. constructor.
    + intro H. apply in_app_or in H as [H|[H|H]].
      * apply H1. apply in_or_app. left. exact H.
      * subst. apply Hn. left. reflexivity.
      * apply H1. apply in_or_app. right. exact H.
    + apply IH; [assumption|]. intro H. apply Hn. right. exact H.
Qed.

Lemma nodup_insert_list : forall {A} (news a c : list A),
  NoDup (a ++ c) -> NoDup news -> (forall x, In x news -> ~ In x (a ++ c)) -> NoDup (a ++ news ++ c).
Proof.
  induction news as [|x news IH]; intros a c Hac Hn Hd; [exact Hac|].
  inversion Hn; subst. cbn [app]. apply nodup_insert.
  - apply IH; [exact Hac|assumption|]. intros y Hy. apply Hd. right. exact Hy.
  - intro X. apply in_app_or in X as [X|X].
    + apply (Hd x (or_introl eq_refl)). apply in_or_app. left. exact X.
    + apply in_app_or in X as [X|X]; [contradiction|].
      apply (Hd x (or_introl eq_refl)). apply in_or_app. right. exact X.
Qed.

Lemma commit_sem : forall h γ s lg names,
  GI γ s -> interp γ s h lg -> allowed lg (QCommitList names) ->
  exists pre run news post,
    listed_fs s = pre ++ run ++ post /\ names = pre ++ news ++ post /\ f_lock s = Some h /\
    NoDup news /\ (forall x, In x news <-> In x (fr lg)) /\ vw lg = Some (listed_fs s) /\
    ranges_increasing None (map (fun x => info (G γ x)) names) = true /\
    flat_map (fun x => tf_txs (G γ x)) names =
      txs_of γ s ++ (match pd lg with Some tx => [tx] | None => [] end) /\
    exists hsh, forall x, In x names -> tf_hash (G γ x) = hsh.
Proof.
  intros h γ s lg names HG HI [H|[H|H]].
  - destruct H as (tx & m & n & f & Hpd & Hvw & Hm & Hfr & Hnf & Fmin & Fmax & Ftx & Fh & ->).
    destruct (i_vw HI _ Hvw) as [Hlock Hl].
    assert (HGm : forall x g, In (x, g) m -> G γ x = g) by (intros x g Hx; apply (i_kn HI); apply Hm; exact Hx).
    assert (HGn : G γ n = f) by (apply (i_kn HI); exact Hnf).
    exists (mnames m), [], [n], []. cbn [app]. rewrite app_nil_r.
    split; [exact Hl|]. split; [reflexivity|]. split; [exact Hlock|].
    split; [repeat constructor; intros []|]. split; [rewrite Hfr; reflexivity|].
    split; [rewrite Hl; exact Hvw|]. split.
    + rewrite map_app, ri_app. apply andb_true_iff. split.
      * rewrite <- Hl. apply (g_ranges HG).
      * cbn [map]. rewrite HGn. rewrite (map_G_mem γ info m HGm).
        destruct m as [|a m'].
        -- cbn. rewrite Fmin, Fmax. rewrite N.leb_refl. reflexivity.
        -- rewrite lastmax_mem by discriminate. cbn [ranges_increasing info ti_min ti_max].
           rewrite Fmin, Fmax. cbn [next_index]. rewrite N.leb_refl. cbn [andb]. rewrite andb_true_r.
           apply N.ltb_lt. lia.
    + split; [rewrite flat_map_app; unfold txs_of; rewrite Hl; f_equal; cbn; rewrite HGn, Ftx, Hpd; reflexivity|].
      exists (tf_hash f). intros x Hx. apply in_app_or in Hx as [Hx|[<-|[]]]; [|rewrite HGn; reflexivity].
      unfold mnames in Hx. apply in_map_iff in Hx as [[x' g] [E Hx]]. cbn [fst] in E. subst x'.
      rewrite (HGm x g Hx). apply (Fh (x, g) Hx).
  - destruct H as (sub & pre & post & n & f & Hpd & Hvw & Hsub & Hne & Hfr & Hnf & Fmin & Fmax & Ftx & Fh & ->).
    destruct (i_vw HI _ Hvw) as [Hlock Hl].
    assert (HGm : forall x g, In (x, g) sub -> G γ x = g) by (intros x g Hx; apply (i_kn HI); apply Hsub; exact Hx).
    assert (HGn : G γ n = f) by (apply (i_kn HI); exact Hnf).
    exists pre, (mnames sub), [n], post.
    split; [exact Hl|]. split; [reflexivity|]. split; [exact Hlock|].
    split; [repeat constructor; intros []|]. split; [rewrite Hfr; reflexivity|].
    split; [rewrite Hl; exact Hvw|]. split.
    + pose proof (g_ranges HG) as Hr. rewrite Hl in Hr. rewrite !map_app in Hr. rewrite !map_app.
      destruct sub as [|[a g] sub']; [congruence|].
      cbn [mnames map fst] in Hr.
      eapply ri_replace; [exact Hr| |].
      * cbn [map info ti_min]. rewrite HGn, Fmin. rewrite (HGm a g) by (left; reflexivity). reflexivity.
      * intro x. change (info (G γ a) :: map (fun x0 => info (G γ x0)) (map fst sub'))
          with (map (fun x0 => info (G γ x0)) (mnames ((a, g) :: sub'))).
        rewrite (map_G_mem γ info _ HGm). rewrite lastmax_mem by discriminate.
        cbn [map info ti_max]. rewrite HGn, Fmax. reflexivity.
    + split.
      { unfold txs_of. rewrite Hl, Hpd, app_nil_r. rewrite !flat_map_app. f_equal. f_equal.
        cbn [flat_map]. rewrite app_nil_r, HGn, Ftx.
        rewrite !flat_map_concat_map. f_equal. symmetry. apply (map_G_mem γ (@tf_txs) sub HGm). }
      (* the replaced tables are listed and of the new table's hash type: so is the whole list *)
      exists (tf_hash f). destruct (g_hash HG) as [hs0 Hhs].
      destruct sub as [|[a g] sub']; [congruence|].
      assert (Ea : hs0 = tf_hash f).
      { rewrite <- (Hhs a).
        - rewrite (HGm a g (or_introl eq_refl)). apply (Fh (a, g)). left. reflexivity.
        - rewrite Hl. apply in_or_app. right. apply in_or_app. left. left. reflexivity. }
      intros x Hx. apply in_app_or in Hx as [Hx|Hx].
      * rewrite <- Ea. apply Hhs. rewrite Hl. apply in_or_app. left. exact Hx.
      * apply in_app_or in Hx as [[<-|[]]|Hx]; [rewrite HGn; reflexivity|].
        rewrite <- Ea. apply Hhs. rewrite Hl. apply in_or_app. right. apply in_or_app. right. exact Hx.
  - destruct H as (tx & m & n1 & f1 & n2 & f2 & Hpd & Hvw & Hm & Hfr & Hne & Hnf1 & Hnf2 &
                   Fmin1 & Fmax1 & Ftx1 & Fmin2 & Fmax2 & Ftx2 & Fh1 & Fh2 & ->).
    destruct (i_vw HI _ Hvw) as [Hlock Hl].
    assert (HGm : forall x g, In (x, g) m -> G γ x = g) by (intros x g Hx; apply (i_kn HI); apply Hm; exact Hx).
    assert (HGn1 : G γ n1 = f1) by (apply (i_kn HI); exact Hnf1).
    assert (HGn2 : G γ n2 = f2) by (apply (i_kn HI); exact Hnf2).
    exists (mnames m), [], [n1; n2], []. cbn [app]. rewrite app_nil_r.
    split; [exact Hl|]. split; [reflexivity|]. split; [exact Hlock|].
    split.
    { constructor; [intros [X|[]]; congruence|]. constructor; [intros []|constructor]. }
    split.
    { intro x. rewrite Hfr. cbn [In]. tauto. }
    split; [rewrite Hl; exact Hvw|]. split.
    + rewrite map_app, ri_app. apply andb_true_iff. split.
      * rewrite <- Hl. apply (g_ranges HG).
      * cbn [map]. rewrite HGn1, HGn2. rewrite (map_G_mem γ info m HGm).
        destruct m as [|a m'].
        -- cbn. rewrite Fmin1, Fmax1, Fmin2, Fmax2. rewrite !N.leb_refl. cbn [andb]. rewrite andb_true_r.
           apply N.ltb_lt. lia.
        -- rewrite lastmax_mem by discriminate. cbn [ranges_increasing info ti_min ti_max].
           rewrite Fmin1, Fmax1, Fmin2, Fmax2. cbn [next_index]. rewrite !N.leb_refl. cbn [andb]. rewrite andb_true_r.
           apply andb_true_iff. split; apply N.ltb_lt; lia.
    + split; [rewrite flat_map_app; unfold txs_of; rewrite Hl; f_equal; cbn; rewrite HGn1, HGn2, Ftx1, Ftx2, Hpd; reflexivity|].
      exists (tf_hash f1). intros x Hx.
      apply in_app_or in Hx as [Hx|[<-|[<-|[]]]]; [|rewrite HGn1; reflexivity|rewrite HGn2; exact Fh2].
      unfold mnames in Hx. apply in_map_iff in Hx as [[x' g] [E Hx]]. cbn [fst] in E. subst x'.
      rewrite (HGm x g Hx). apply (Fh1 (x, g) Hx).
Qed.

Lemma sp_commit_case : forall h γ s lg names,
  GI γ s -> interp γ s h lg -> allowed lg (QCommitList names) ->
  f_lock s = Some h /\
  exists γ', step_post h γ s lg (QCommitList names) γ'
    {| f_list := Some names; f_lock := None; f_tabs := f_tabs s; f_tlocks := f_tlocks s;
       f_tmps := f_tmps s; f_next_tab := f_next_tab s; f_next_tmp := f_next_tmp s |} SOk FOk.
Proof.
  intros h γ s lg names HG HI Hal.
  destruct (commit_sem HG HI Hal) as (pre & run & news & post & Hl & Hnames & Hlock & Hndn & Hnews & Hvw & Hri & Htx & Hhsh).
  split; [exact Hlock|].
  assert (Hfrx : forall x, In x news -> ~ seen γ x /\ lookup x (f_tabs s) = Some (G γ x)).
  { intros x Hx. apply Hnews in Hx. destruct (i_fr HI _ Hx) as (_ & A & B). split; assumption. }
  set (s' := {| f_list := Some names; f_lock := None; f_tabs := f_tabs s; f_tlocks := f_tlocks s;
       f_tmps := f_tmps s; f_next_tab := f_next_tab s; f_next_tmp := f_next_tmp s |}).
  set (γ' := mkG (G γ) (fun x => seen γ x \/ In x news)).
  exists γ'.
  assert (Hsub : forall x, In x names -> In x (listed_fs s) \/ In x news).
  { intros x Hx. rewrite Hnames in Hx. rewrite Hl.
    apply in_app_or in Hx as [Hx|Hx]; [left; apply in_or_app; left; exact Hx|].
    apply in_app_or in Hx as [Hx|Hx]; [right; exact Hx|].
    left. apply in_or_app. right. apply in_or_app. right. exact Hx. }
  assert (Hnin : forall x, In x news -> ~ In x (listed_fs s)).
  { intros x Hx X. apply (proj1 (Hfrx x Hx)). apply (g_seen HG). exact X. }
  assert (HG' : GI γ' s').
  { constructor; unfold s', γ', listed_fs; cbn [f_list f_tabs f_tmps f_next_tab f_next_tmp G seen].
    - apply (g_tabs HG).
    - rewrite Hnames. apply nodup_insert_list.
      + apply nodup_mid_remove with (b := run). rewrite <- Hl. apply (g_nodup HG).
      + exact Hndn.
      + intros x Hx X. apply (Hnin x Hx). rewrite Hl. apply in_app_or in X as [X|X]; apply in_or_app; [left; exact X|].
        right. apply in_or_app. right. exact X.
    - intros x Hx. destruct (Hsub x Hx) as [X|X]; [apply (g_exist HG); exact X|].
      rewrite (proj2 (Hfrx x X)). discriminate.
    - exact Hri.
    - intros x Hx. destruct (Hsub x Hx) as [X|X]; [left; apply (g_seen HG); exact X|right; exact X].
    - intros x [X|X]; [apply (g_seen_lt HG); exact X|].
      pose proof (proj2 (Hfrx x X)) as Y. apply (g_tabs HG) in Y. apply Y.
    - apply (g_tmps HG).
    - exact Hhsh. }
  assert (HF : frame γ s γ' s').
  { constructor; unfold s', γ', listed_fs; cbn [f_list f_tabs f_tmps f_next_tab f_next_tmp G seen]; auto.
    intros x Hx Hnx X. destruct (Hsub x X) as [Y|Y]; [apply Hnx; exact Y|].
    apply (proj1 (Hfrx x Y)). exact Hx. }
  constructor.
  - exact HG'.
  - exact HF.
  - intros h' Hne E. rewrite Hlock in E. congruence.
  - intros h' Hne t E. exact E.
  - cbn. exact I.
  - cbn [nxt].
    assert (HW : interp γ' s' h (mkL false None (kn lg) (sn lg) (dd lg) (gn lg) [] (tm lg) (pd lg) (dn lg))).
    { apply interp_stable with (γ := γ) (s := s); auto.
      - right. repeat split.
      - left. intros t E. exact E.
      - apply interp_weaken with (lg := lg); cbn; auto using incl_refl; try discriminate.
        + intros x [].
        + intros t b E. exists b. auto. }
    destruct HW. cbn [lk vw kn sn dd gn fr tm] in *.
    constructor; cbn [lk vw kn sn dd gn fr tm]; auto.
    intros x Hx. apply in_app_or in Hx as [Hx|Hx]; [|auto].
    apply filter_In in Hx as [Hx1 Hx2]. rewrite Hvw in Hx1.
    split; [left; apply (g_seen HG); exact Hx1|].
    apply negb_true_iff in Hx2. apply mem_nat_false in Hx2. exact Hx2.
  - intros x Hx. discriminate.
  - reflexivity.
  - cbn [is_commit]. rewrite <- Htx. reflexivity.
Qed.

(* ---------------- every allowed request preserves everything ---------------- *)

Ltac rm_trivial := let x := fresh in let A := fresh in let B := fresh in
  intros x A B; first [discriminate A | discriminate B].

Ltac same_tac γ HG HI :=
  exists γ; apply sp_same;
  [ exact HG | apply dateq_refl | auto | cbn; auto | cbn [nxt]; exact HI | rm_trivial | reflexivity ].

Lemma req_step : forall so c h q γ s lg s' rs fr,
  GI γ s -> interp γ s h lg -> allowed lg q -> apply_req so c h q s = (s', rs, fr) ->
  exists γ', step_post h γ s lg q γ' s' rs fr.
Proof.
  intros so c h q γ s lg s' rs fr HG HI Hal H.
  destruct q as [p| |n|t| |t mn mx txs hsh|names|p|cands|cands| ]; cbn [apply_req] in H.
  - (* QCreateExcl *)
    destruct p as [| |n|n|t| |]; try (inversion H; subst; same_tac γ HG HI).
    + destruct (f_lock s) as [o|] eqn:El; inversion H; subst; [same_tac γ HG HI|].
      exists γ. apply sp_same; [exact HG| | | | |rm_trivial|reflexivity].
      * repeat split.
      * intros h' E. congruence.
      * exact I.
      * cbn [nxt].
        assert (HW : interp γ {| f_list := f_list s; f_lock := Some h; f_tabs := f_tabs s; f_tlocks := f_tlocks s;
                                f_tmps := f_tmps s; f_next_tab := f_next_tab s; f_next_tmp := f_next_tmp s |} h lg).
        { apply interp_dateq with (s := s); [exact HG|repeat split|intro E; congruence|exact HI]. }
        destruct HW. constructor; cbn [lk vw kn sn dd gn fr tm]; auto.
    + destruct (lookup n (f_tlocks s)) eqn:El; inversion H; subst; [same_tac γ HG HI|].
      exists γ. apply sp_same; [exact HG| | | | |rm_trivial|reflexivity].
      * repeat split.
      * auto.
      * exact I.
      * cbn [nxt]. apply interp_dateq with (s := s); [exact HG|repeat split|auto|exact HI].
  - (* QReadList *)
    inversion H; subst. exists γ. apply sp_same; [exact HG|apply dateq_refl|auto| | |rm_trivial|reflexivity].
    + cbn. split; [eexists; reflexivity|]. split; [apply (g_nodup HG)|]. split.
      * intros x Hx X. destruct (i_gn HI x Hx) as [_ E]. apply (g_exist HG) in X. contradiction.
      * intros l E. apply (i_vw HI l E).
    + cbn [nxt]. change (lnames (SNames (f_list s'))) with (listed_fs s').
      destruct HI. constructor; cbn [lk vw kn sn dd gn fr tm]; auto.
      * intros l E. destruct (lk lg) eqn:Elk; [|auto]. inversion E; subst. split; auto.
      * intros x Hx. apply in_app_or in Hx as [Hx|Hx]; [apply (g_seen HG); exact Hx|auto].
      * intros x Hx. apply in_app_or in Hx as [Hx|Hx]; [|auto].
        apply filter_In in Hx as [Hx1 Hx2]. split; [auto|].
        apply negb_true_iff in Hx2. apply mem_nat_false in Hx2. exact Hx2.
  - (* QOpenTab *)
    destruct (lookup n (f_tabs s)) as [f|] eqn:El; inversion H; subst.
    + exists γ. apply sp_same; [exact HG|apply dateq_refl|auto| | |rm_trivial|reflexivity].
      * cbn. left. eexists; reflexivity.
      * cbn [nxt]. destruct HI. constructor; cbn [lk vw kn sn dd gn fr tm]; auto.
        intros x g [E|Hin]; [|auto]. inversion E; subst. apply (g_tabs HG). exact El.
    + exists γ. apply sp_same; [exact HG|apply dateq_refl|auto| | |rm_trivial|reflexivity].
      * cbn. right. reflexivity.
      * cbn [nxt]. destruct HI. constructor; cbn [lk vw kn sn dd gn fr tm]; auto.
        intros x Hx. destruct (mem_nat n (sn lg)) eqn:Em; [|auto].
        destruct Hx as [<-|Hx]; [|auto]. apply mem_nat_In in Em. split; [|exact El].
        apply (g_seen_lt HG). auto.
  - (* QOpenTmp *)
    destruct (lookup t (f_tmps s)); inversion H; subst; same_tac γ HG HI.
  - (* QCreateTemp *)
    inversion H; subst. clear H. exists γ.
    set (t := f_next_tmp s).
    set (s' := {| f_list := f_list s; f_lock := f_lock s; f_tabs := f_tabs s; f_tlocks := f_tlocks s;
                  f_tmps := (t, h) :: f_tmps s; f_next_tab := f_next_tab s; f_next_tmp := S t |}).
    assert (Hold : forall t' h', lookup t' (f_tmps s) = Some h' -> Nat.eqb t' t = false).
    { intros t' h' E. apply (g_tmps HG) in E. apply Nat.eqb_neq. unfold t. lia. }
    assert (HF : frame γ s γ s').
    { constructor; unfold s', listed_fs; cbn [f_list f_tabs f_tmps f_next_tab f_next_tmp]; auto.
      intros t' h' Hlt E. cbn [lookup] in E. destruct (Nat.eqb_spec t' t); [unfold t in *; lia|exact E]. }
    assert (HG' : GI γ s').
    { destruct HG. constructor; unfold s', listed_fs in *; cbn [f_list f_tabs f_tmps f_next_tab f_next_tmp]; auto.
      intros t' h' E. cbn [lookup] in E. destruct (Nat.eqb_spec t' t); [lia|]. apply g_tmps0 in E. unfold t. lia. }
    assert (KT : forall h', keepsT h' s s').
    { intros h' t' E. unfold s'. cbn [f_tmps lookup]. rewrite (Hold _ _ E). exact E. }
    constructor.
    + exact HG'.
    + exact HF.
    + intros h' _ E. unfold s', listed_fs. cbn. auto.
    + intros h' _. apply KT.
    + cbn. eexists; reflexivity.
    + cbn [nxt].
      assert (HW : interp γ s' h (mkL (lk lg) (vw lg) (kn lg) (sn lg) (dd lg) (gn lg) (fr lg) None (pd lg) (dn lg))).
      { apply interp_stable with (γ := γ) (s := s); auto.
        - left. intros E. unfold s', listed_fs. cbn. auto.
        - apply interp_weaken with (lg := lg); cbn; auto using incl_refl. intros; discriminate. }
      destruct HW. cbn [lk vw kn sn dd gn fr tm] in *.
      constructor; cbn [lk vw kn sn dd gn fr tm]; auto.
      intros t' b E. inversion E; subst. unfold s'. cbn [f_next_tmp f_tmps lookup]. rewrite Nat.eqb_refl.
      split; [unfold t; lia|]. split; [intros h' X; congruence|intros; discriminate].
    + rm_trivial.
    + discriminate.
    + cbn [is_commit]. rewrite app_nil_r. reflexivity.
  - (* QRenameTmp *)
    destruct Hal as [Hlk Htm].
    destruct (lookup t (f_tmps s)) as [hh|] eqn:El.
    + inversion H; subst. eexists. eapply sp_rename; eauto.
    + exfalso. destruct (i_tm HI _ _ Htm) as (_ & _ & X). apply X; auto.
  - (* QCommitList *)
    destruct (sp_commit_case (names := names) HG HI Hal) as [Hlock [γ' Hsp]].
    rewrite Hlock in H. rewrite Nat.eqb_refl in H. inversion H; subst. exists γ'. exact Hsp.
  - (* QRemove *)
    destruct p as [| |n|n|t| |]; try (inversion H; subst; same_tac γ HG HI).
    + (* the list lock *)
      cbn in Hal. pose proof (i_lk HI Hal) as Hlock. rewrite Hlock in H. inversion H; subst. clear H.
      exists γ.
      set (s' := {| f_list := f_list s; f_lock := None; f_tabs := f_tabs s; f_tlocks := f_tlocks s;
                    f_tmps := f_tmps s; f_next_tab := f_next_tab s; f_next_tmp := f_next_tmp s |}).
      assert (Hd : dateq s s') by (repeat split).
      constructor.
      * eapply GI_dateq; eauto.
      * apply frame_dateq; exact Hd.
      * intros h' Hne E. congruence.
      * intros h' _. apply keepsT_dateq. exact Hd.
      * exact I.
      * cbn [nxt]. apply interp_stable with (γ := γ) (s := s); auto.
        -- apply frame_dateq; exact Hd.
        -- right. repeat split.
        -- left. apply keepsT_dateq. exact Hd.
        -- apply interp_weaken with (lg := lg); cbn; auto using incl_refl; try discriminate; [intros ? []|].
           intros t b E. exists b. auto.
      * rm_trivial.
      * discriminate.
      * cbn [is_commit]. rewrite app_nil_r. apply txs_dateq. exact Hd.
    + (* a table *)
      cbn in Hal. destruct (nxt_rmtab lg n rs) as [Hsame Hfrn].
      destruct (lookup n (f_tabs s)) eqn:El; inversion H; subst.
      2:{ exists γ. apply sp_same; [exact HG|apply dateq_refl|auto|exact I| |rm_trivial|reflexivity].
          eapply interp_forget_fr; [exact HI|exact Hsame|]. rewrite Hfrn. intros x Hx. apply in_rmv in Hx. apply Hx. }
      exists γ. eapply sp_deltab with (n := n); try reflexivity; [exact HG|exact HI| | |exact Hsame| |].
      * destruct Hal as [Hd|(Hlk & l & Hvw & Hnl)]; [apply (i_dd HI n Hd)|].
        destruct (i_vw HI l Hvw) as [_ <-]. exact Hnl.
      * destruct Hal as [Hd|(Hlk & _)]; [left; apply (i_dd HI n Hd)|right; apply (i_lk HI Hlk)].
      * intros x Hx. rewrite Hfrn in Hx. apply in_rmv in Hx. exact Hx.
      * intros x E. cbn in E. congruence.
    + (* a table lock *)
      destruct (lookup n (f_tlocks s)) eqn:El; inversion H; subst; [|same_tac γ HG HI].
      exists γ. apply sp_same; [exact HG| | | | |rm_trivial|reflexivity].
      * repeat split.
      * auto.
      * exact I.
      * cbn [nxt]. apply interp_dateq with (s := s); [exact HG|repeat split|auto|exact HI].
    + (* a temp file *)
      destruct Hal as [b Htm]. destruct (i_tm HI _ _ Htm) as (T1 & T2 & T3).
      destruct (lookup t (f_tmps s)) as [hh|] eqn:El; inversion H; subst; clear H.
      * assert (hh = h) by (apply T2; reflexivity). subst hh.
        exists γ.
        set (s' := {| f_list := f_list s; f_lock := f_lock s; f_tabs := f_tabs s; f_tlocks := f_tlocks s;
                      f_tmps := del t (f_tmps s); f_next_tab := f_next_tab s; f_next_tmp := f_next_tmp s |}).
        assert (HF : frame γ s γ s').
        { constructor; unfold s', listed_fs; cbn [f_list f_tabs f_tmps f_next_tab f_next_tmp]; auto.
          intros t' h' _ E. rewrite lookup_del in E. destruct (Nat.eqb t' t); [discriminate|exact E]. }
        assert (HG' : GI γ s').
        { destruct HG. constructor; unfold s', listed_fs in *; cbn [f_list f_tabs f_tmps f_next_tab f_next_tmp]; auto.
          intros t' h' E. rewrite lookup_del in E. destruct (Nat.eqb t' t); [discriminate|eauto]. }
        constructor.
        -- exact HG'.
        -- exact HF.
        -- intros h' _ E. unfold s', listed_fs. cbn. auto.
        -- intros h' Hne t' E. unfold s'. cbn [f_tmps]. rewrite lookup_del.
           destruct (Nat.eqb_spec t' t); [|exact E]. subst t'. congruence.
        -- exact I.
        -- cbn [nxt].
           assert (HW : interp γ s' h (mkL (lk lg) (vw lg) (kn lg) (sn lg) (dd lg) (gn lg) (fr lg) None (pd lg) (dn lg))).
           { apply interp_stable with (γ := γ) (s := s); auto.
             - left. intros E. unfold s', listed_fs. cbn. auto.
             - apply interp_weaken with (lg := lg); cbn; auto using incl_refl. intros; discriminate. }
           destruct HW. cbn [lk vw kn sn dd gn fr tm] in *.
           constructor; cbn [lk vw kn sn dd gn fr tm]; auto.
           intros t' b' E. inversion E; subst. unfold s'. cbn [f_next_tmp f_tmps]. rewrite lookup_del, Nat.eqb_refl.
           split; [exact T1|]. split; intros; discriminate.
        -- rm_trivial.
        -- discriminate.
        -- cbn [is_commit]. rewrite app_nil_r. reflexivity.
      * exists γ. apply sp_same; [exact HG|apply dateq_refl|auto|exact I| |rm_trivial|reflexivity].
        cbn [nxt]. destruct HI. constructor; cbn [lk vw kn sn dd gn fr tm]; auto.
        intros t' b' E. inversion E; subst. split; [exact T1|]. split; [intros h' X; congruence|intros; discriminate].
  - (* QRemoveOne *)
    destruct Hal as [Hne Hinc].
    set (n := match c with Some c0 => if mem_nat c0 cands then c0 else hd 0 cands | None => hd 0 cands end) in *.
    assert (Hn : In n cands).
    { assert (In (hd 0 cands) cands) by (destruct cands; [congruence|left; reflexivity]).
      unfold n. destruct c as [c0|]; [|assumption].
      destruct (mem_nat c0 cands) eqn:E; [apply mem_nat_In; exact E|assumption]. }
    destruct (lookup n (f_tabs s)) eqn:El; inversion H; subst; [|same_tac γ HG HI].
    destruct (i_dd HI n (Hinc n Hn)) as [Hsn Hnl].
    exists γ. eapply sp_deltab with (n := n); try reflexivity;
      [exact HG|exact HI|exact Hnl|left; exact Hsn|apply same_but_fr_refl| |].
    + cbn [nxt]. intros x Hx. split; [exact Hx|]. intros ->. apply (i_fr HI n Hx). exact Hsn.
    + intros x E. cbn in E. congruence.
  - (* QOpenOne *)
    cbn in Hal.
    set (n := match c with Some c0 => if mem_nat c0 cands then c0 else hd 0 cands | None => hd 0 cands end) in *.
    assert (Hn : In n cands).
    { assert (In (hd 0 cands) cands) by (destruct cands; [congruence|left; reflexivity]).
      unfold n. destruct c as [c0|]; [|assumption].
      destruct (mem_nat c0 cands) eqn:E; [apply mem_nat_In; exact E|assumption]. }
    destruct (lookup n (f_tabs s)); inversion H; subst;
      (exists γ; apply sp_same;
       [ exact HG | apply dateq_refl | auto | cbn; eexists; eexists; split; [reflexivity|exact Hn]
       | cbn [nxt]; exact HI | rm_trivial | reflexivity ]).
  - (* QReadDir *)
    inversion H; subst. same_tac γ HG HI.
Qed.

(* ------------------------------------------------------------------ *)
(* snapshots                                                           *)
(* ------------------------------------------------------------------ *)

Lemma lookup_tab_map : forall (X : nat -> tstate) L n, In n L ->
  lookup_tab n (map (fun n => (n, X n)) L) = Some (X n).
Proof.
  induction L as [|a L IH]; intros n Hin; [destruct Hin|].
  cbn [map lookup_tab]. destruct (Nat.eqb_spec n a); [subst; reflexivity|].
  destruct Hin as [->|Hin]; [congruence|apply IH; exact Hin].
Qed.

Lemma stack_hash_ok : forall γ s n hsh, GI γ s -> In n (listed_fs s) -> stack_hash s = Some hsh ->
  tf_hash (G γ n) = hsh.
Proof.
  intros γ s n hsh HG Hin H. unfold stack_hash in H. destruct (g_hash HG) as [hs0 Hhs].
  unfold listed_fs in *. destruct (f_list s) as [[|n0 l]|]; try discriminate H.
  destruct (lookup n0 (f_tabs s)) as [f0|] eqn:E0; [|discriminate H]. inversion H; subst hsh.
  destruct (g_tabs HG n0 f0 E0) as [_ <-]. rewrite (Hhs n Hin). symmetry. apply Hhs. left. reflexivity.
Qed.

Lemma snap_lookup : forall γ s n, GI γ s -> In n (listed_fs s) ->
  lookup_tab n (sn_tabs (snapshot_of s)) = Some (TGood (info (G γ n))).
Proof.
  intros γ s n HG Hin. cbn [snapshot_of sn_tabs]. fold (listed_fs s).
  rewrite lookup_tab_map by exact Hin.
  pose proof (g_exist HG n Hin) as He. destruct (lookup n (f_tabs s)) as [f|] eqn:E; [|congruence].
  destruct (g_tabs HG n f E) as [_ <-].
  destruct (stack_hash s) as [hsh|] eqn:Eh; [|reflexivity].
  rewrite (@stack_hash_ok _ _ _ _ HG Hin Eh), eqb_reflx. reflexivity.
Qed.

Lemma list_ok_snapshot : forall γ s, GI γ s -> list_ok (snapshot_of s) = true.
Proof.
  intros γ s HG. unfold list_ok. change (listed (snapshot_of s)) with (listed_fs s).
  rewrite (map_ext_in _ (fun n => Some (TGood (info (G γ n))))) by (intros n Hn; apply snap_lookup; assumption).
  apply andb_true_iff. split.
  - clear. induction (listed_fs s); cbn; auto.
  - rewrite <- (g_ranges HG). f_equal. clear. induction (listed_fs s) as [|a l IH]; cbn; [reflexivity|].
    f_equal. exact IH.
Qed.

Lemma snap_txs_snapshot : forall γ s, GI γ s -> snap_txs (snapshot_of s) = txs_of γ s.
Proof.
  intros γ s HG. unfold snap_txs, txs_of. change (listed (snapshot_of s)) with (listed_fs s).
  apply flat_map_ext_in'. intros n Hn. rewrite (@snap_lookup γ s n HG Hn). reflexivity.
Qed.

(* ------------------------------------------------------------------ *)
(* the state of c04_loop along the events of a step                    *)
(* ------------------------------------------------------------------ *)

Lemma assoc_unassoc_eq : forall h l, assoc h (unassoc h l) = None.
Proof.
  induction l as [|[k v] l IH]; cbn; [reflexivity|].
  destruct (Nat.eqb_spec h k); cbn; [exact IH|].
  destruct (Nat.eqb_spec h k); [congruence|exact IH].
Qed.

Lemma assoc_unassoc_neq : forall i h l, i <> h -> assoc i (unassoc h l) = assoc i l.
Proof.
  intros i h l Hne. induction l as [|[k v] l IH]; cbn; [reflexivity|].
  destruct (Nat.eqb_spec h k); cbn.
  - subst k. destruct (Nat.eqb_spec i h); [congruence|exact IH].
  - destruct (Nat.eqb i k); [reflexivity|exact IH].
Qed.

Definition st_commit (h : nat) (st : c04_state) : c04_state :=
  match assoc h (c4_pending st) with
  | Some tx => {| c4_commits := c4_commits st ++ [tx]; c4_pending := unassoc h (c4_pending st);
                  c4_done := (h, tx) :: c4_done st |}
  | None => st
  end.
Definition st_req (q : req) (h : nat) (st : c04_state) : c04_state :=
  if is_commit q then st_commit h st else st.
Definition st_ret (h : nat) (st : c04_state) : c04_state :=
  {| c4_commits := c4_commits st; c4_pending := unassoc h (c4_pending st); c4_done := unassoc h (c4_done st) |}.
Definition st_call (h : nat) (o : apiop) (st : c04_state) : c04_state :=
  match o with
  | AAdd tx _ | AAddMulti tx _ =>
      {| c4_commits := c4_commits st; c4_pending := (h, tx) :: unassoc h (c4_pending st);
         c4_done := unassoc h (c4_done st) |}
  | _ => st
  end.

Lemma c04_call : forall h o st rest,
  c04_loop false st (ECall h o :: rest) = c04_loop false (st_call h o st) rest.
Proof. intros. destruct o; reflexivity. Qed.

Lemma c04_finish : forall h o m r st rest,
  ret_allowed o r = true -> retchk o r (assoc h (c4_done st)) = true ->
  c04_loop false st (finish_events h o m r ++ rest) = c04_loop false (st_ret h st) rest.
Proof.
  intros h o m r st rest Ha Hc. unfold finish_events. cbn [app c04_loop]. rewrite Ha. cbn [andb].
  assert (E : forall b x, b = true -> b && x = x) by (intros; subst; reflexivity).
  destruct o; cbn [retchk] in Hc; cbn [andb]; try rewrite (E _ _ Hc); destruct m; reflexivity.
Qed.

Lemma c05_finish : forall cur h o m r rest,
  c05_loop cur (finish_events h o m r ++ rest) = c05_loop cur rest.
Proof. intros. unfold finish_events. destruct m; reflexivity. Qed.

Lemma c04_req : forall h q rs fr st s' rest,
  (is_commit q = true -> fr = FOk) ->
  snap_txs s' = c4_commits (st_req q h st) ->
  c04_loop false st (req_event h q rs fr :: ESnap s' :: rest) = c04_loop false (st_req q h st) rest.
Proof.
  intros h q rs fr st s' rest Hc Htx.
  assert (Hsn : forall st0, snap_txs s' = c4_commits st0 ->
            c04_loop false st0 (ESnap s' :: rest) = c04_loop false st0 rest).
  { intros st0 E. cbn [c04_loop]. rewrite E, list_nat_eqb_refl. reflexivity. }
  destruct q; cbn [req_event st_req is_commit] in *;
    try (cbn [c04_loop]; apply Hsn; exact Htx).
  - (* rename of a temp file *) destruct rs; cbn [c04_loop]; apply Hsn; exact Htx.
  - (* commit *) rewrite (Hc eq_refl). cbn [c04_loop]. unfold st_commit in *.
    destruct (assoc h (c4_pending st)); apply Hsn; exact Htx.
Qed.

Lemma c05_req : forall cur h q rs fr s' rest,
  (forall n, removed q rs = Some n -> fr = FOk -> ~ In n (listed cur)) ->
  list_ok s' = true ->
  c05_loop cur (req_event h q rs fr :: ESnap s' :: rest) = c05_loop s' rest.
Proof.
  intros cur h q rs fr s' rest Hr Hl.
  destruct q; cbn [req_event c05_loop]; rewrite ?Hl; cbn [andb]; try reflexivity.
  - destruct p; try reflexivity. destruct fr; try reflexivity.
    rewrite (proj2 (mem_nat_false n (listed cur))) by (apply Hr; reflexivity). reflexivity.
  - destruct rs; try reflexivity. destruct fr; try reflexivity.
    rewrite (proj2 (mem_nat_false n (listed cur))) by (apply Hr; reflexivity). reflexivity.
Qed.

Lemma nxt_pd_dn : forall lg q rs, is_commit q = false ->
  pd (nxt lg q rs) = pd lg /\ dn (nxt lg q rs) = dn lg.
Proof.
  intros lg q rs H. destruct q; try discriminate H; cbn [nxt]; auto.
  - destruct p; auto. destruct rs; auto.
  - destruct rs; auto.
  - destruct rs; auto.
  - destruct rs; auto.
  - destruct p; auto. destruct (fr lg); auto.
Qed.

(* ------------------------------------------------------------------ *)
(* S3: the world invariant                                             *)
(* ------------------------------------------------------------------ *)

Definition hinv (γ : ghost) (s : fs) (st : c04_state) (i : nat) (hd : handle) : Prop :=
  (forall m, h_mem hd = Some m -> memok γ m) /\
  omh (h_hash hd) (h_mem hd) /\
  match h_pc hd with
  | HDead => True
  | HIdle => assoc i (c4_pending st) = None /\ assoc i (c4_done st) = None
  | HRun o p => exists lg, interp γ s i lg /\ ok lg p (Qcall (h_hash hd) o) /\
                  assoc i (c4_pending st) = pd lg /\ assoc i (c4_done st) = dn lg
  end.

Definition WInv (γ : ghost) (w : world) (st : c04_state) : Prop :=
  GI γ (w_fs w) /\ c4_commits st = txs_of γ (w_fs w) /\
  forall i hd, nth_error (w_handles w) i = Some hd -> hinv γ (w_fs w) st i hd.

Lemma nth_set_eq : forall (l : list handle) h x y, nth_error (set_handle h x l) h = Some y -> y = x.
Proof.
  induction l as [|a l IH]; intros h x y H; destruct h; cbn in H; try discriminate.
  - inversion H. reflexivity.
  - eapply IH; eauto.
Qed.

Lemma nth_set_neq : forall (l : list handle) h x i, i <> h -> nth_error (set_handle h x l) i = nth_error l i.
Proof.
  induction l as [|a l IH]; intros h x i Hne; destruct h, i; cbn; try reflexivity; try congruence.
  apply IH. congruence.
Qed.

Lemma hinv_other : forall γ s st γ' s' st' i hd,
  GI γ s -> frame γ s γ' s' -> keepsL i γ s γ' s' -> keepsT i s s' ->
  assoc i (c4_pending st') = assoc i (c4_pending st) -> assoc i (c4_done st') = assoc i (c4_done st) ->
  hinv γ s st i hd -> hinv γ' s' st' i hd.
Proof.
  intros γ s st γ' s' st' i hd HG HF KL KT Ep Ed (B & Bh & C). split; [|split; [exact Bh|]].
  - intros m E. eapply memok_stable; eauto.
  - destruct (h_pc hd); auto.
    + rewrite Ep, Ed. exact C.
    + destruct C as (lg & C1 & C2 & C3 & C4). exists lg. split.
      * apply interp_stable with (γ := γ) (s := s); auto.
      * split; [exact C2|]. split; congruence.
Qed.

Lemma winv_set : forall γ' fs' st' hs h x,
  GI γ' fs' -> c4_commits st' = txs_of γ' fs' ->
  (forall i hd, i <> h -> nth_error hs i = Some hd -> hinv γ' fs' st' i hd) ->
  hinv γ' fs' st' h x ->
  WInv γ' {| w_fs := fs'; w_handles := set_handle h x hs |} st'.
Proof.
  intros γ' fs' st' hs h x HG Hc Ho Hx. split; [exact HG|]. split; [exact Hc|].
  cbn [w_fs w_handles]. intros i hd E. destruct (Nat.eq_dec i h) as [->|Hne].
  - apply nth_set_eq in E. subst. exact Hx.
  - rewrite nth_set_neq in E by exact Hne. apply Ho; assumption.
Qed.

Lemma keepsL_refl : forall i γ s, keepsL i γ s γ s.
Proof. intros i γ s E. auto. Qed.
Lemma keepsT_refl : forall i s, keepsT i s s.
Proof. intros i s t E. exact E. Qed.

(* the end of a call *)
Lemma finish_inv : forall γ fs st hs h o m r lg script hh,
  GI γ fs -> c4_commits st = txs_of γ fs ->
  (forall i hd, i <> h -> nth_error hs i = Some hd -> hinv γ fs st i hd) ->
  interp γ fs h lg -> Qcall hh o lg (m, r) -> assoc h (c4_done st) = dn lg ->
  WInv γ {| w_fs := fs; w_handles := set_handle h {| h_mem := m; h_pc := HIdle; h_script := script; h_hash := hh |} hs |}
       (st_ret h st) /\
  (forall rest, c04_loop false st (finish_events h o m r ++ rest) = c04_loop false (st_ret h st) rest) /\
  (forall cur rest, c05_loop cur (finish_events h o m r ++ rest) = c05_loop cur rest).
Proof.
  intros γ fs st hs h o m r lg script hh HG Hc Ho HI (Q1 & Q2 & Q3 & Q4) Hd. cbn [fst snd] in *.
  split; [|split].
  - apply winv_set; auto.
    + intros i hd Hne E. apply hinv_other with (γ := γ) (s := fs) (st := st); auto.
      * apply frame_refl.
      * apply keepsL_refl.
      * apply keepsT_refl.
      * cbn. apply assoc_unassoc_neq. exact Hne.
      * cbn. apply assoc_unassoc_neq. exact Hne.
    + split.
      * cbn [h_mem]. intros mm E. destruct (Q1 mm E) as [A B]. intros n f Hin. split.
        -- apply (i_kn HI). apply A. exact Hin.
        -- apply (i_sn HI). apply B. unfold mnames. apply in_map_iff. exists (n, f). split; [reflexivity|exact Hin].
      * split; [exact Q4|]. cbn. split; apply assoc_unassoc_eq.
  - intros rest. apply c04_finish; [exact Q2|]. rewrite Hd. exact Q3.
  - intros cur rest. apply c05_finish.
Qed.

Lemma interp_init : forall γ s h o m,
  GI γ s -> (forall mm, m = Some mm -> memok γ mm) -> interp γ s h (lg_init o m).
Proof.
  intros γ s h o m HG Hm. unfold lg_init. constructor; cbn [lk vw kn sn dd gn fr tm].
  - discriminate.
  - discriminate.
  - intros n f Hin. destruct m as [mm|]; [|destruct Hin]. destruct (Hm mm eq_refl n f Hin) as [A B].
    split; [apply (g_seen_lt HG); exact B|exact A].
  - intros n Hin. destruct m as [mm|]; [|destruct Hin]. unfold mnames in Hin.
    apply in_map_iff in Hin as [[n' f] [E Hin]]. cbn in E. subst n'. apply (Hm mm eq_refl n f Hin).
  - intros n [].
  - intros n [].
  - intros n [].
  - discriminate.
Qed.

Lemma st_commit_other : forall i h st, i <> h ->
  assoc i (c4_pending (st_commit h st)) = assoc i (c4_pending st) /\
  assoc i (c4_done (st_commit h st)) = assoc i (c4_done st).
Proof.
  intros i h st Hne. unfold st_commit. destruct (assoc h (c4_pending st)); [|auto]. cbn.
  split; [apply assoc_unassoc_neq; exact Hne|]. destruct (Nat.eqb_spec i h); [congruence|reflexivity].
Qed.

Lemma st_call_other : forall i h o st, i <> h ->
  assoc i (c4_pending (st_call h o st)) = assoc i (c4_pending st) /\
  assoc i (c4_done (st_call h o st)) = assoc i (c4_done st).
Proof.
  intros i h o st Hne. destruct o; cbn; auto;
    (split; [destruct (Nat.eqb_spec i h); [congruence|]|]; apply assoc_unassoc_neq; exact Hne).
Qed.

Lemma st_call_commits : forall h o st, c4_commits (st_call h o st) = c4_commits st.
Proof. intros. destruct o; reflexivity. Qed.

Lemma step_inv : forall so att γ w st h c w' evs,
  WInv γ w st -> step so att w h c = (w', evs) ->
  exists γ' st', WInv γ' w' st' /\
    (forall rest, c04_loop false st (evs ++ rest) = c04_loop false st' rest) /\
    (forall rest, c05_loop (snapshot_of (w_fs w)) (evs ++ rest) = c05_loop (snapshot_of (w_fs w')) rest).
Proof.
  intros so att γ w st h c w' evs (HG & Hc & Hh) H. unfold step in H.
  assert (Hnop : (w', evs) = (w, []) ->
            exists γ' st', WInv γ' w' st' /\
              (forall rest, c04_loop false st (evs ++ rest) = c04_loop false st' rest) /\
              (forall rest, c05_loop (snapshot_of (w_fs w)) (evs ++ rest) = c05_loop (snapshot_of (w_fs w')) rest)).
  { intro E. inversion E; subst. exists γ, st. split; [split; [exact HG|split; assumption]|]. split; reflexivity. }
  destruct (nth_error (w_handles w) h) as [hd|] eqn:En; [|apply Hnop; congruence].
  destruct (Hh h hd En) as (Hmem & Hmh & Hpc).
  assert (Hothers : forall i hd', i <> h -> nth_error (w_handles w) i = Some hd' -> hinv γ (w_fs w) st i hd')
    by (intros i hd' _ E; apply Hh; exact E).
  destruct (h_pc hd) as [|o p|] eqn:Epc; [| |apply Hnop; congruence].
  - (* a call starts *)
    destruct (h_script hd) as [|o rest] eqn:Es; [apply Hnop; congruence|].
    pose proof (@call_prog_ok att (h_hash hd) o (h_mem hd) Hmh) as Hok.
    pose proof (@interp_init γ (w_fs w) h o (h_mem hd) HG Hmem) as HI.
    destruct Hpc as [Hp0 Hd0].
    set (st1 := st_call h o st).
    assert (Hp1 : assoc h (c4_pending st1) = pd (lg_init o (h_mem hd))).
    { unfold st1. destruct o; cbn; try exact Hp0; rewrite Nat.eqb_refl; reflexivity. }
    assert (Hd1 : assoc h (c4_done st1) = dn (lg_init o (h_mem hd))).
    { unfold st1. destruct o; cbn; try exact Hd0; apply assoc_unassoc_eq. }
    assert (Hc1 : c4_commits st1 = txs_of γ (w_fs w)) by (unfold st1; rewrite st_call_commits; exact Hc).
    assert (Ho1 : forall i hd', i <> h -> nth_error (w_handles w) i = Some hd' -> hinv γ (w_fs w) st1 i hd').
    { intros i hd' Hne E. destruct (st_call_other o st Hne) as [A B].
      apply hinv_other with (γ := γ) (s := w_fs w) (st := st); auto.
      - apply frame_refl.
      - apply keepsL_refl.
      - apply keepsT_refl. }
    destruct (call_prog att (h_hash hd) o (h_mem hd)) as [[m r]|q k] eqn:Ecp.
    + inversion H; subst w' evs. clear H.
      destruct (@finish_inv γ (w_fs w) st1 (w_handles w) h o m r _ rest (h_hash hd) HG Hc1 Ho1 HI Hok Hd1)
        as (W & C4 & C5).
      exists γ, (st_ret h st1). split; [exact W|]. split.
      * intros rest'. cbn [app]. rewrite c04_call. apply C4.
      * intros rest'. cbn [app c05_loop w_fs]. apply C5.
    + inversion H; subst w' evs. clear H.
      exists γ, st1. split; [|split; [intros; cbn [app]; apply c04_call|reflexivity]].
      apply winv_set; auto.
      split; [exact Hmem|]. split; [exact Hmh|]. cbn [h_pc h_hash].
      exists (lg_init o (h_mem hd)). auto.
  - (* inside a call *)
    destruct Hpc as (lg & HI & Hok & Hp0 & Hd0).
    destruct p as [[m r]|q k].
    + (* the call returns *)
      inversion H; subst w' evs. clear H.
      destruct (@finish_inv γ (w_fs w) st (w_handles w) h o m r lg (h_script hd) (h_hash hd) HG Hc Hothers HI Hok Hd0)
        as (W & C4 & C5).
      exists γ, (st_ret h st). split; [exact W|]. split; [exact C4|]. intros; apply C5.
    + (* one file-system operation *)
      destruct (apply_req so c h q (w_fs w)) as [[s' rs] fr] eqn:Ea.
      cbn [ok] in Hok. destruct Hok as [Hal Hk].
      destruct (@req_step so c h q γ (w_fs w) lg s' rs fr HG HI Hal Ea) as [γ' SP].
      specialize (Hk rs (sp_poss SP)).
      set (st1 := st_req q h st).
      assert (Hc1 : c4_commits st1 = txs_of γ' s').
      { rewrite (sp_txs SP). unfold st1, st_req. destruct (is_commit q).
        - unfold st_commit. rewrite Hp0. destruct (pd lg); cbn; [rewrite Hc; reflexivity|].
          rewrite app_nil_r. exact Hc.
        - rewrite app_nil_r. exact Hc. }
      assert (Hp1 : assoc h (c4_pending st1) = pd (nxt lg q rs) /\ assoc h (c4_done st1) = dn (nxt lg q rs)).
      { unfold st1, st_req. destruct (is_commit q) eqn:Eq.
        - destruct q; try discriminate Eq. cbn [nxt pd dn]. unfold st_commit. rewrite Hp0.
          destruct (pd lg) as [tx|] eqn:Epd; cbn.
          + rewrite Nat.eqb_refl. split; [apply assoc_unassoc_eq|reflexivity].
          + split; [rewrite Hp0; reflexivity|exact Hd0].
        - destruct (@nxt_pd_dn lg q rs Eq) as [A B]. rewrite A, B. auto. }
      destruct Hp1 as [Hp1 Hd1].
      assert (Ho1 : forall i hd', i <> h -> nth_error (w_handles w) i = Some hd' -> hinv γ' s' st1 i hd').
      { intros i hd' Hne E.
        apply hinv_other with (γ := γ) (s := w_fs w) (st := st); auto.
        - apply (sp_frame SP).
        - apply (sp_keepL SP). exact Hne.
        - apply (sp_keepT SP). exact Hne.
        - unfold st1, st_req. destruct (is_commit q); [apply st_commit_other; exact Hne|reflexivity].
        - unfold st1, st_req. destruct (is_commit q); [apply st_commit_other; exact Hne|reflexivity]. }
      assert (E4 : forall rest, c04_loop false st (req_event h q rs fr :: ESnap (snapshot_of s') :: rest)
                                = c04_loop false st1 rest).
      { intros rest. apply c04_req; [apply (sp_commit SP)|].
        rewrite (snap_txs_snapshot (sp_GI SP)). symmetry. exact Hc1. }
      assert (E5 : forall rest, c05_loop (snapshot_of (w_fs w)) (req_event h q rs fr :: ESnap (snapshot_of s') :: rest)
                                = c05_loop (snapshot_of s') rest).
      { intros rest. apply c05_req; [|apply (list_ok_snapshot (sp_GI SP))].
        intros n A B. eapply (sp_rm SP); eauto. }
      destruct (k rs) as [[m r]|q' k'] eqn:Ek.
      * inversion H; subst w' evs. clear H. cbn [ok] in Hk.
        destruct (@finish_inv γ' s' st1 (w_handles w) h o m r _ (h_script hd) (h_hash hd) (sp_GI SP) Hc1 Ho1 (sp_interp SP) Hk Hd1)
          as (W & C4 & C5).
        exists γ', (st_ret h st1). split; [exact W|]. split.
        -- intros rest. cbn [app]. rewrite E4. apply C4.
        -- intros rest. cbn [app w_fs]. rewrite E5. apply C5.
      * inversion H; subst w' evs. clear H.
        exists γ', st1. split; [|split; [intros; cbn [app]; apply E4|intros; cbn [app w_fs]; apply E5]].
        apply winv_set; auto.
        -- apply (sp_GI SP).
        -- split.
           ++ cbn [h_mem]. intros mm E. eapply memok_stable; [exact HG|apply (sp_frame SP)|]. apply Hmem. exact E.
           ++ split; [exact Hmh|]. cbn [h_pc h_hash]. exists (nxt lg q rs). split; [apply (sp_interp SP)|]. auto.
Qed.

Lemma crash_inv : forall γ w st h w' evs,
  WInv γ w st -> crash w h = (w', evs) ->
  WInv γ w' st /\
  (forall rest, c04_loop false st (evs ++ rest) = c04_loop false st rest) /\
  (forall rest, c05_loop (snapshot_of (w_fs w)) (evs ++ rest) = c05_loop (snapshot_of (w_fs w')) rest).
Proof.
  intros γ w st h w' evs (HG & Hc & Hh) H. unfold crash in H.
  destruct (nth_error (w_handles w) h) as [hd|] eqn:En.
  - inversion H; subst w' evs. clear H. split; [|split].
    + apply winv_set; auto.
      destruct (Hh h hd En) as (Hmem & Hmh & _). split; [exact Hmem|]. split; [exact Hmh|exact I].
    + intros rest. cbn [app c04_loop]. destruct st; reflexivity.
    + intros rest. reflexivity.
  - inversion H; subst w' evs. split; [split; [exact HG|split; assumption]|]. split; reflexivity.
Qed.

Lemma run_inv : forall so att sched γ w st w' evs,
  WInv γ w st -> run so att w sched = (w', evs) ->
  c04_loop false st evs = true /\ c05_loop (snapshot_of (w_fs w)) evs = true.
Proof.
  intros so att. induction sched as [|[h c|h] sched IH]; intros γ w st w' evs HW H; cbn [run] in H.
  - inversion H; subst. split; reflexivity.
  - destruct (step so att w h c) as [w1 e1] eqn:E1.
    destruct (run so att w1 sched) as [w2 e2] eqn:E2. inversion H; subst w' evs. clear H.
    destruct (@step_inv so att γ w st h c w1 e1 HW E1) as (γ' & st' & HW' & C4 & C5).
    destruct (IH γ' w1 st' w2 e2 HW' E2) as [A B].
    rewrite C4, C5. split; assumption.
  - destruct (crash w h) as [w1 e1] eqn:E1.
    destruct (run so att w1 sched) as [w2 e2] eqn:E2. inversion H; subst w' evs. clear H.
    destruct (@crash_inv γ w st h w1 e1 HW E1) as (HW' & C4 & C5).
    destruct (IH γ w1 st w2 e2 HW' E2) as [A B].
    rewrite C4, C5. split; assumption.
Qed.

(* ------------------------------------------------------------------ *)
(* the initial world                                                   *)
(* ------------------------------------------------------------------ *)

(* well-formed initial directory: tables 0..k-1, each min <= max, ranges strictly increasing *)
Definition init_ok (tabs : list (nat * tfile)) : Prop :=
  map fst tabs = seq 0 (length tabs) /\
  ranges_increasing None (map (fun x => {| ti_min := tf_min (snd x); ti_max := tf_max (snd x);
                                           ti_txs := tf_txs (snd x) |}) tabs) = true /\
  (* the initial tables are of one hash type *)
  (exists hsh, forall x, In x tabs -> tf_hash (snd x) = hsh).

Definition tfile0 : tfile := {| tf_min := 0; tf_max := 0; tf_txs := []; tf_size := 0; tf_hash := false |}.

Definition ghost0 (tabs : list (nat * tfile)) : ghost :=
  mkG (fun n => match lookup n tabs with Some f => f | None => tfile0 end) (fun n => In n (map fst tabs)).

Lemma listed_init : forall tabs, listed_fs (init_fs tabs) = map fst tabs.
Proof. intros [|x tabs]; reflexivity. Qed.

Lemma GI_init : forall tabs, init_ok tabs -> GI (ghost0 tabs) (init_fs tabs).
Proof.
  intros tabs (Hk & Hr & Hh).
  assert (Hnd : NoDup (map fst tabs)) by (rewrite Hk; apply seq_NoDup).
  assert (Hlt : forall n, In n (map fst tabs) -> n < length tabs).
  { intros n Hn. rewrite Hk in Hn. apply in_seq in Hn. lia. }
  constructor; rewrite ?listed_init; cbn [init_fs f_tabs f_next_tab f_tmps f_next_tmp ghost0 G seen].
  - intros n f E. split; [|rewrite E; reflexivity].
    apply Hlt. apply lookup_In in E. apply in_map_iff. exists (n, f). split; [reflexivity|exact E].
  - exact Hnd.
  - intros n Hn. apply in_map_iff in Hn as [[n' f] [E Hin]]. cbn in E. subst n'.
    rewrite (@lookup_nodup _ tabs n f Hnd Hin). discriminate.
  - rewrite <- Hr. rewrite map_map. f_equal. apply map_ext_in. intros [n f] Hin. cbn [fst snd].
    rewrite (@lookup_nodup _ tabs n f Hnd Hin). reflexivity.
  - auto.
  - exact Hlt.
  - intros t h E. discriminate.
  - destruct Hh as [hsh Hh]. exists hsh. intros n Hn.
    apply in_map_iff in Hn as [[n' f] [E Hin]]. cbn in E. subst n'.
    rewrite (@lookup_nodup _ tabs n f Hnd Hin). apply (Hh (n, f) Hin).
Qed.

Definition st_init (tabs : list (nat * tfile)) : c04_state :=
  {| c4_commits := snap_txs (snapshot_of (init_fs tabs)); c4_pending := []; c4_done := [] |}.

Lemma WInv_init : forall tabs scripts,
  init_ok tabs ->
  WInv (ghost0 tabs) (init_world tabs scripts) (st_init tabs).
Proof.
  intros tabs scripts Hi. pose proof (@GI_init tabs Hi) as HG.
  split; [exact HG|]. split; [apply (snap_txs_snapshot HG)|].
  cbn [init_world w_handles w_fs]. intros i hd E. apply nth_error_In in E.
  apply in_map_iff in E as [s [<- Hin]].
  split; [cbn; intros; discriminate|]. split; [intros mm E; discriminate E|]. cbn. auto.
Qed.

(* ------------------------------------------------------------------ *)
(* S1 (complement): table and temp-file names stay unique, whatever is  *)
(* requested (not needed above: the invariant is stated with [lookup])  *)
(* ------------------------------------------------------------------ *)

Definition keys_ok (s : fs) : Prop :=
  NoDup (map fst (f_tabs s)) /\ (forall n, In n (map fst (f_tabs s)) -> n < f_next_tab s) /\
  NoDup (map fst (f_tmps s)) /\ (forall t, In t (map fst (f_tmps s)) -> t < f_next_tmp s).

Lemma del_keys : forall {A} n (l : list (nat * A)),
  NoDup (map fst l) -> NoDup (map fst (del n l)) /\ incl (map fst (del n l)) (map fst l).
Proof.
  intros A n l. unfold del. induction l as [|[m a] l IH]; cbn [filter map fst]; intro H.
  - split; [constructor|apply incl_refl].
  - inversion H; subst. destruct (IH H3) as [I1 I2].
    destruct (negb (Nat.eqb n m)); cbn [map fst].
    + split.
      * constructor; [|exact I1]. intro X. apply H2. apply I2. exact X.
      * intros x [<-|Hx]; [left; reflexivity|right; apply I2; exact Hx].
    + split; [exact I1|]. intros x Hx. right. apply I2. exact Hx.
Qed.

Lemma apply_req_keys : forall so c h q s s' rs fr,
  apply_req so c h q s = (s', rs, fr) -> keys_ok s -> keys_ok s'.
Proof.
  intros so c h q s s' rs fr H (K1 & K2 & K3 & K4).
  assert (Hdt : forall n, keys_ok {| f_list := f_list s; f_lock := f_lock s; f_tabs := del n (f_tabs s);
                 f_tlocks := f_tlocks s; f_tmps := f_tmps s; f_next_tab := f_next_tab s; f_next_tmp := f_next_tmp s |}).
  { intro n. destruct (del_keys n (f_tabs s) K1) as [A B]. repeat split; cbn; auto. }
  assert (Hdm : forall t lst lck, keys_ok {| f_list := lst; f_lock := lck; f_tabs := f_tabs s;
                 f_tlocks := f_tlocks s; f_tmps := del t (f_tmps s); f_next_tab := f_next_tab s; f_next_tmp := f_next_tmp s |}).
  { intros t lst lck. destruct (del_keys t (f_tmps s) K3) as [A B]. repeat split; cbn; auto. }
  assert (Hsame : forall lst lck tl, keys_ok {| f_list := lst; f_lock := lck; f_tabs := f_tabs s;
                 f_tlocks := tl; f_tmps := f_tmps s; f_next_tab := f_next_tab s; f_next_tmp := f_next_tmp s |}).
  { intros. repeat split; cbn; auto. }
  assert (Hs : keys_ok s) by (repeat split; auto).
  destruct q as [p| |n|t| |t mn mx txs hsh|names|p|cands|cands| ]; cbn [apply_req] in H.
  - destruct p; try (inversion H; subst; exact Hs).
    + destruct (f_lock s); inversion H; subst; [exact Hs|apply Hsame].
    + destruct (lookup n (f_tlocks s)); inversion H; subst; [exact Hs|apply Hsame].
  - inversion H; subst; exact Hs.
  - destruct (lookup n (f_tabs s)); inversion H; subst; exact Hs.
  - destruct (lookup t (f_tmps s)); inversion H; subst; exact Hs.
  - inversion H; subst. repeat split; cbn [f_tabs f_next_tab f_tmps f_next_tmp map fst]; auto.
    + constructor; [|exact K3]. intro X. apply K4 in X. lia.
    + intros t [<-|X]; [lia|]. apply K4 in X. lia.
  - destruct (lookup t (f_tmps s)); inversion H; subst; [|exact Hs].
    destruct (del_keys t (f_tmps s) K3) as [A B].
    repeat split; cbn [f_tabs f_next_tab f_tmps f_next_tmp]; auto.
    + rewrite map_app. cbn [map fst]. apply nodup_insert; rewrite app_nil_r; [exact K1|].
      intro X. apply K2 in X. lia.
    + intros x X. rewrite map_app in X. apply in_app_or in X as [X|[<-|[]]]; [apply K2 in X; lia|cbn [fst]; lia].
  - destruct (f_lock s); inversion H; subst; [apply Hsame|exact Hs].
  - destruct p; try (inversion H; subst; exact Hs).
    + destruct (f_lock s); inversion H; subst; [apply Hsame|exact Hs].
    + destruct (lookup n (f_tabs s)); inversion H; subst; [apply Hdt|exact Hs].
    + destruct (lookup n (f_tlocks s)); inversion H; subst; [apply Hsame|exact Hs].
    + destruct (lookup n (f_tmps s)); inversion H; subst; [apply Hdm|exact Hs].
  - match type of H with context [lookup ?x (f_tabs s)] => destruct (lookup x (f_tabs s)) end;
      inversion H; subst; [apply Hdt|exact Hs].
  - match type of H with context [lookup ?x (f_tabs s)] => destruct (lookup x (f_tabs s)) end;
      inversion H; subst; exact Hs.
  - inversion H; subst; exact Hs.
Qed.

(* ------------------------------------------------------------------ *)
(* S4, S5: the theorems                                                *)
(* ------------------------------------------------------------------ *)

(* property C05: at every instant tables.list names existing tables with strictly
   increasing ranges, and no successful remove ever hits a listed table *)
Theorem c05_all_traces : forall size_oracle attempts tabs scripts sched,
  init_ok tabs ->
  c05_ok (trace_of size_oracle attempts tabs scripts sched) = true.
Proof.
  intros so att tabs scripts sched Hi. unfold c05_ok, trace_of.
  destruct (run so att (init_world tabs scripts) sched) as [w' evs] eqn:E. cbn [snd c05_loop].
  rewrite (@list_ok_snapshot _ _ (@GI_init tabs Hi)). cbn [andb].
  exact (proj2 (@run_inv so att sched _ _ _ _ _ (@WInv_init tabs scripts Hi) E)).
Qed.

(* property C04: the transactions held by the listed tables, in order, are always
   exactly the committed ones in commit order; Add returns success iff its
   transaction committed during the call; no other errors *)
Theorem c04_all_traces : forall size_oracle attempts tabs scripts sched,
  init_ok tabs ->
  c04_ok (trace_of size_oracle attempts tabs scripts sched) = true.
Proof.
  intros so att tabs scripts sched Hi. unfold c04_ok, trace_of.
  destruct (run so att (init_world tabs scripts) sched) as [w' evs] eqn:E. cbn [snd c04_loop].
  exact (proj1 (@run_inv so att sched _ _ _ _ _ (@WInv_init tabs scripts Hi) E)).
Qed.

Print Assumptions c05_all_traces.
Print Assumptions c04_all_traces.
