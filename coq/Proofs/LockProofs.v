(* Lock ownership of the stack protocol (properties C08 and the ownership part
   of C16), for ALL schedules of Model/StackProto.v.

   1. An ownership logic for the programs of the free monad: [wp p Q o] says
      that program [p], started by a handle whose ownership state is [o] (does
      it own tables.list.lock, which table locks, which temporary files, which
      temporary files it has consumed), only releases what it owns, whatever
      the file system answers, and ends in an ownership state satisfying [Q].
      The judgement mentions no other handle.
   2. Every API program (Add, the two-table addition, compactions, Clean, ...)
      is typed from the empty ownership to the empty ownership ([wp_call_prog]).
   3. A world invariant ties the ghost owners recorded in the abstract file
      system to the ownership state of each handle's remaining program; every
      step and every crash preserves it ([winv_step], [winv_crash]).
   4. The C08 oracle's owner map is the ghost owner map of the file system, so
      the oracle accepts every trace ([c08_all_traces]); an idle handle owns
      nothing ([idle_owns_nothing]). *)
From Coq Require Import List NArith Arith Bool Lia.
From RT Require Import Model.StackTrace Model.Segments Model.StackProto.
Import ListNotations.
Local Open Scope nat_scope.

(* ------------------------------------------------------------------ *)
(* 1. the ownership logic                                               *)
(* ------------------------------------------------------------------ *)

Record own := mk_own {
  o_ll : bool;              (* owns tables.list.lock *)
  o_tl : list nat;          (* owned table locks *)
  o_tm : list nat;          (* owned temporary files *)
  o_dead : list nat }.      (* temporary files it created and consumed: gone for ever *)

Definition rm (n : nat) (l : list nat) : list nat := remove Nat.eq_dec n l.

Lemma rm_single : forall t, rm t [t] = [].
Proof. intro t. unfold rm. cbn [remove]. destruct (Nat.eq_dec t t); [reflexivity|congruence]. Qed.

Definition set_ll (b : bool) (o : own) : own := mk_own b (o_tl o) (o_tm o) (o_dead o).
Definition add_tl (n : nat) (o : own) : own := mk_own (o_ll o) (n :: o_tl o) (o_tm o) (o_dead o).
Definition rem_tl (n : nat) (o : own) : own := mk_own (o_ll o) (rm n (o_tl o)) (o_tm o) (o_dead o).
Definition add_tm (t : nat) (o : own) : own := mk_own (o_ll o) (o_tl o) (t :: o_tm o) (o_dead o).
Definition kill_tm (t : nat) (o : own) : own := mk_own (o_ll o) (o_tl o) (rm t (o_tm o)) (t :: o_dead o).

(* The responses listed for a request are exactly those [apply_req] can give
   to a handle in ownership state [o] (see [apply_sound]); the conjuncts that
   are equations / memberships are the obligations of the program: it removes
   or renames a lock or a temporary file only if it owns it (a temporary file
   may also be removed once more after it was consumed: the deferred
   os.Remove of the Go code, which can only get ENOENT). *)
Fixpoint wp {A} (p : prog A) (Q : A -> own -> Prop) (o : own) : Prop :=
  match p with
  | Ret a => Q a o
  | Op q k =>
      match q with
      | QCreateExcl pa =>
          match pa with
          | PLL => (o_ll o = false -> wp (k SOk) Q (set_ll true o)) /\ wp (k SExist) Q o
          | PTL n => (~ In n (o_tl o) -> wp (k SOk) Q (add_tl n o)) /\ wp (k SExist) Q o
          | _ => wp (k SExist) Q o
          end
      | QReadList => forall l, wp (k (SNames l)) Q o
      | QOpenTab _ => (forall f, wp (k (STab f)) Q o) /\ wp (k SNoEnt) Q o
      | QOpenTmp _ => wp (k SOk) Q o /\ wp (k SNoEnt) Q o
      | QCreateTemp => forall t, ~ In t (o_tm o) -> ~ In t (o_dead o) -> wp (k (STmp t)) Q (add_tm t o)
      | QRenameTmp t _ _ _ _ => In t (o_tm o) /\ forall n f, wp (k (SNew n f)) Q (kill_tm t o)
      | QCommitList _ => o_ll o = true /\ wp (k SOk) Q (set_ll false o)
      | QRemove pa =>
          match pa with
          | PLL => o_ll o = true /\ wp (k SOk) Q (set_ll false o)
          | PTL n => In n (o_tl o) /\ wp (k SOk) Q (rem_tl n o)
          | PTmp t => (In t (o_tm o) /\ wp (k SOk) Q (kill_tm t o)) \/ (In t (o_dead o) /\ wp (k SNoEnt) Q o)
          | PT _ => wp (k SOk) Q o /\ wp (k SNoEnt) Q o
          | _ => wp (k SNoEnt) Q o
          end
      | QRemoveOne _ => forall n, wp (k (SRemoved n)) Q o
      | QOpenOne _ => forall n f, wp (k (SVisited n f)) Q o
      | QReadDir => forall tabs, wp (k (SDir tabs)) Q o
      end
  end.

Ltac osimpl := unfold kill_tm, add_tm, set_ll, add_tl, rem_tl; cbn [o_ll o_tl o_tm o_dead]; rewrite ?rm_single.
Ltac wpsimpl := cbn [wp pbind op]; osimpl.
Ltac wpsimpl_in H := cbn [wp pbind op set_ll add_tl rem_tl add_tm kill_tm o_ll o_tl o_tm o_dead] in H.

Ltac wp_struct :=
  repeat match goal with
         | H : _ /\ _ |- _ => destruct H
         | H : _ \/ _ |- _ => destruct H
         | |- _ /\ _ => split
         | |- forall _, _ => intro
         end.

Lemma wp_mono : forall A (p : prog A) (Q Q' : A -> own -> Prop) o,
  (forall a o, Q a o -> Q' a o) -> wp p Q o -> wp p Q' o.
Proof.
  induction p as [a|q k IH]; intros Q Q' o HQ H.
  - cbn [wp] in *. auto.
  - destruct q as [pa| | | | | | |pa| | |]; try destruct pa; cbn [wp] in *; wp_struct; eauto 6.
Qed.

Lemma wp_bind : forall A B (p : prog A) (f : A -> prog B) (Q : B -> own -> Prop) o,
  wp p (fun a o' => wp (f a) Q o') o -> wp (pbind p f) Q o.
Proof.
  induction p as [a|q k IH]; intros f Q o H.
  - cbn [wp pbind] in *. auto.
  - destruct q as [pa| | | | | | |pa| | |]; try destruct pa; cbn [wp pbind] in *; wp_struct; eauto 6.
Qed.

(* programs that neither need nor change any ownership *)
Definition neutral {A} (p : prog A) : Prop :=
  forall (Q : A -> own -> Prop) o, (forall a, Q a o) -> wp p Q o.

Lemma neutral_ret : forall A (a : A), neutral (Ret a).
Proof. intros A a Q o H. apply H. Qed.

Lemma neutral_bind : forall A B (p : prog A) (f : A -> prog B),
  neutral p -> (forall a, neutral (f a)) -> neutral (pbind p f).
Proof.
  intros A B p f Hp Hf Q o H. apply wp_bind. apply Hp. intro a. apply Hf. exact H.
Qed.

Lemma wp_bind_neutral : forall A B (p : prog A) (f : A -> prog B) (Q : B -> own -> Prop) o,
  neutral p -> (forall a, wp (f a) Q o) -> wp (pbind p f) Q o.
Proof. intros. apply wp_bind. apply H. exact H0. Qed.

Definition neutral_req (q : req) : Prop :=
  match q with
  | QReadList | QOpenTab _ | QOpenTmp _ | QRemove (PT _) | QRemoveOne _ | QOpenOne _ | QReadDir => True
  | _ => False
  end.

Lemma neutral_op_bind : forall A q (f : resp -> prog A),
  neutral_req q -> (forall r, neutral (f r)) -> neutral (pbind (op q) f).
Proof.
  intros A q f Hq Hf Q o H.
  destruct q as [pa| | | | | | |pa| | |]; try destruct pa; try contradiction; wpsimpl; wp_struct; apply Hf; exact H.
Qed.

Lemma neutral_open_all : forall reuse old names acc, neutral (open_all reuse old names acc).
Proof.
  intros reuse old names. induction names as [|n t IH]; intro acc; cbn [open_all].
  - apply neutral_ret.
  - destruct (if reuse then lookup n old else None).
    + apply IH.
    + apply neutral_op_bind; [exact I|]. intro r. destruct r; try apply neutral_ret. apply IH.
Qed.

Lemma neutral_remove_tabs : forall l, neutral (remove_tabs l).
Proof.
  induction l as [|n t IH]; cbn [remove_tabs].
  - apply neutral_ret.
  - apply neutral_op_bind; [exact I|]. intros _. exact IH.
Qed.

Lemma neutral_remove_any : forall fuel cands, neutral (remove_any fuel cands).
Proof.
  induction fuel as [|f IH]; intro cands; cbn [remove_any].
  - destruct cands; apply neutral_ret.
  - destruct cands as [|c cs]; [apply neutral_ret|].
    apply neutral_op_bind; [exact I|]. intro r. destruct r; try apply neutral_ret. apply IH.
Qed.

Lemma neutral_reload : forall attempts hh reuse old, neutral (reload attempts hh reuse old).
Proof.
  induction attempts as [|a IH]; intros hh reuse old; cbn [reload].
  - apply neutral_ret.
  - apply neutral_op_bind; [exact I|]. intro r.
    apply neutral_bind; [apply neutral_open_all|]. intros [m|].
    + destruct (same_hash hh m); [|apply neutral_ret].
      apply neutral_bind; [apply neutral_remove_any|]. intros _. apply neutral_ret.
    + apply neutral_op_bind; [exact I|]. intro r2.
      destruct (names_eqb _ _); [apply neutral_ret|apply IH].
Qed.

Lemma neutral_open_reload : forall attempts hh, neutral (open_reload attempts hh).
Proof.
  induction attempts as [|a IH]; intro hh; cbn [open_reload].
  - apply neutral_ret.
  - apply neutral_op_bind; [exact I|]. intro r.
    apply neutral_bind; [apply neutral_open_all|]. intros [m|].
    + destruct (same_hash hh m); apply neutral_ret.
    + apply neutral_op_bind; [exact I|]. intro r2.
      destruct (names_eqb _ _); [apply neutral_ret|apply IH].
Qed.

Lemma neutral_close : forall m, neutral (close m).
Proof.
  intro m. unfold close. apply neutral_op_bind; [exact I|]. intro c.
  destruct (match c with SNames (Some l) => l | _ => [] end); [apply neutral_ret|apply neutral_remove_tabs].
Qed.

(* ---- table locks ---- *)

Definition rms (l : list nat) (tl : list nat) : list nat := fold_left (fun acc n => rm n acc) l tl.

Lemma rms_nil : forall l tl, incl tl l -> rms l tl = [].
Proof.
  induction l as [|n l IH]; intros tl H.
  - destruct tl as [|x tl]; [reflexivity|]. exfalso. apply (H x). left. reflexivity.
  - cbn [rms fold_left]. apply IH. intros x Hx. apply in_remove in Hx. destruct Hx as [Hx Hne].
    destruct (H x Hx) as [E|E]; [congruence|exact E].
Qed.

Lemma wp_remove_tlocks : forall l ll tl tm d (Q : unit -> own -> Prop),
  NoDup l -> incl l tl -> Q tt (mk_own ll (rms l tl) tm d) ->
  wp (remove_tlocks l) Q (mk_own ll tl tm d).
Proof.
  induction l as [|n l IH]; intros ll tl tm d Q Hnd Hin HQ; cbn [remove_tlocks].
  - exact HQ.
  - wpsimpl. split.
    + apply Hin. left. reflexivity.
    + apply IH.
      * inversion Hnd; assumption.
      * intros x Hx. apply in_in_remove.
        -- inversion Hnd; subst. intro E. subst. contradiction.
        -- apply Hin. right. exact Hx.
      * exact HQ.
Qed.

Lemma wp_remove_tlocks_all : forall l ll tm d (Q : unit -> own -> Prop),
  NoDup l -> Q tt (mk_own ll [] tm d) -> wp (remove_tlocks l) Q (mk_own ll (rev l) tm d).
Proof.
  intros l ll tm d Q Hnd HQ. apply wp_remove_tlocks.
  - exact Hnd.
  - intros x Hx. apply in_rev in Hx. exact Hx.
  - rewrite rms_nil; [exact HQ|]. intros x Hx. apply in_rev. exact Hx.
Qed.

Lemma wp_lock_tabs : forall todo taken ll tm d (Q : option (list nat) -> own -> Prop),
  NoDup taken ->
  (forall locks, NoDup locks -> Q (Some locks) (mk_own ll (rev locks) tm d)) ->
  Q None (mk_own ll [] tm d) ->
  wp (lock_tabs todo taken) Q (mk_own ll taken tm d).
Proof.
  induction todo as [|n t IH]; intros taken ll tm d Q Hnd HS HN; cbn [lock_tabs].
  - wpsimpl. specialize (HS (rev taken)). rewrite rev_involutive in HS. apply HS. apply NoDup_rev. exact Hnd.
  - wpsimpl. split.
    + intro Hnin. apply IH; [constructor; assumption|exact HS|exact HN].
    + apply wp_bind. replace taken with (rev (rev taken)) at 2 by apply rev_involutive.
      apply wp_remove_tlocks_all; [apply NoDup_rev; exact Hnd|]. wpsimpl. exact HN.
Qed.

Definition final (o : own) : Prop := o_ll o = false /\ o_tl o = [] /\ o_tm o = [].

Lemma final_mk : forall d, final (mk_own false [] [] d).
Proof. intro d. repeat split. Qed.

(* ------------------------------------------------------------------ *)
(* 2. every API program goes from the empty ownership to the empty one  *)
(* ------------------------------------------------------------------ *)

Ltac fin := unfold final; wpsimpl; repeat split.

Lemma wp_compact_range : forall attempts hh first last expiry m d,
  wp (compact_range attempts hh first last expiry m) (fun _ o => final o) (mk_own false [] [] d).
Proof.
  intros attempts hh first last expiry m d. unfold compact_range.
  destruct (Nat.leb last first && negb expiry); [apply final_mk|].
  wpsimpl. split; [intros _|apply final_mk].
  intro c. destruct (negb (names_eqb _ (mnames m))).
  { wpsimpl. split; [reflexivity|apply final_mk]. }
  apply wp_bind. apply wp_lock_tabs; [constructor| |].
  2:{ wpsimpl. split; [reflexivity|apply final_mk]. }
  intros locks Hnd. wpsimpl. split; [reflexivity|].
  intros tmp _ _. split.
  2:{ (* the second lock attempt fails *)
      left. split; [left; reflexivity|]. apply wp_bind. wpsimpl. apply wp_remove_tlocks_all; [exact Hnd|]. fin. }
  intros _ c2.
  destruct (find_run _ _ 0) as [start|].
  - wpsimpl. split; [left; reflexivity|]. intros n f. wpsimpl. split; [reflexivity|].
    apply wp_bind_neutral; [apply neutral_remove_tabs|]. intros _.
    apply wp_bind_neutral; [apply neutral_reload|]. intro rl.
    apply wp_bind. apply wp_remove_tlocks_all; [exact Hnd|]. fin.
  - wpsimpl. left. split; [left; reflexivity|].
    apply wp_bind. wpsimpl. apply wp_remove_tlocks_all; [exact Hnd|].
    wpsimpl. split; [reflexivity|fin].
Qed.

Lemma wp_auto_compact : forall attempts hh m d,
  wp (auto_compact attempts hh m) (fun _ o => final o) (mk_own false [] [] d).
Proof.
  intros attempts hh m d. unfold auto_compact. destruct (suggest _) as [[s e]|]; [|apply final_mk].
  apply wp_bind. eapply wp_mono; [|apply wp_compact_range]. intros a o H. exact H.
Qed.

Lemma wp_add : forall attempts hh kind auto m d,
  wp (add attempts hh kind auto m) (fun _ o => final o) (mk_own false [] [] d).
Proof.
  intros attempts hh kind auto m d. unfold add. wpsimpl. split.
  2:{ apply wp_bind_neutral; [apply neutral_reload|]. intro rl. apply final_mk. }
  intros _ c. destruct (negb (names_eqb _ (mnames m))).
  { wpsimpl. split; [reflexivity|]. apply wp_bind_neutral; [apply neutral_reload|]. intro rl. apply final_mk. }
  wpsimpl. intros tmp _ _. destruct kind as [tx| |].
  - wpsimpl. assert (G : In tmp [tmp] /\
      (forall (n : nat) (f : tfile),
       wp (do! _ := op (QRemove (PTmp tmp)) in
           do! _ := op (QCommitList (mnames m ++ [n])) in
           do! rl := reload attempts hh true m in
           if auto then do! m' := auto_compact attempts hh (fst rl) in Ret (m', ROk) else Ret (fst rl, ROk))
          (fun (_ : mem * apires) (o : own) => final o)
          (mk_own true [] [] (tmp :: d)))).
    { split; [left; reflexivity|]. intros n f. wpsimpl. right. split; [left; reflexivity|].
      split; [reflexivity|]. apply wp_bind_neutral; [apply neutral_reload|]. intro rl.
      destruct auto; [|fin]. apply wp_bind. eapply wp_mono; [|apply wp_auto_compact]. intros a o H. exact H. }
    split; exact G.
  - wpsimpl. left. split; [left; reflexivity|]. split; [reflexivity|].
    destruct auto; [|fin]. apply wp_bind. eapply wp_mono; [|apply wp_auto_compact]. intros a o H. exact H.
  - wpsimpl. left. split; [left; reflexivity|]. split; [reflexivity|]. fin.
Qed.

Lemma wp_add_multi : forall attempts hh tx same m d,
  wp (add_multi attempts hh tx same m) (fun _ o => final o) (mk_own false [] [] d).
Proof.
  intros attempts hh tx same m d. unfold add_multi. wpsimpl. split; [|apply final_mk].
  intros _ c. destruct (negb (names_eqb _ (mnames m))).
  { wpsimpl. split; [reflexivity|apply final_mk]. }
  wpsimpl. intros tmp _ _. wpsimpl.
  assert (G : In tmp [tmp] /\
      (forall (n1 : nat) (f : tfile),
       wp (do! _ := op (QRemove (PTmp tmp)) in
           do! t2 := op QCreateTemp in
           match t2 with
           | STmp tmp2 =>
               if same
               then
                do! _ := op (QRemove (PTmp tmp2)) in
                do! _ := op (QRemove (PT n1)) in
                do! _ := op (QRemove PLL) in Ret (m, RLockFailure)
               else
                do! _ := op (QOpenTab n1) in
                do! _ := op (QOpenTmp tmp2) in
                do! nw2 := op (QRenameTmp tmp2 (next_index m + 1) (next_index m + 1) [] hh) in
                match nw2 with
                | SNew n2 _ =>
                    do! _ := op (QRemove (PTmp tmp2)) in
                    do! _ := op (QCommitList (mnames m ++ [n1; n2])) in
                    do! rl := reload attempts hh true m in
                    Ret (fst rl, ROk)
                | _ => do! _ := op (QRemove (PT n1)) in do! _ := op (QRemove PLL) in Ret (m, RErr)
                end
           | _ => do! _ := op (QRemove (PT n1)) in do! _ := op (QRemove PLL) in Ret (m, RErr)
           end)
          (fun (_ : mem * apires) (o : own) => final o)
          (mk_own true [] [] (tmp :: d)))).
  { split; [left; reflexivity|]. intros n1 f. wpsimpl. right. split; [left; reflexivity|].
    intros tmp2 _ Hd2. destruct same.
    - wpsimpl. left. split; [left; reflexivity|]. split; (split; [reflexivity|fin]).
    - wpsimpl.
      assert (T : forall dd, wp (do! rl := reload attempts hh true m in Ret (fst rl, ROk))
                           (fun (_ : mem * apires) (o : own) => final o) (mk_own false [] [] dd)).
      { intro dd. apply wp_bind_neutral; [apply neutral_reload|]. intro rl. fin. }
      repeat match goal with |- _ /\ _ => split | |- forall _, _ => intro end; try (left; reflexivity);
        (right; split; [left; reflexivity|]; split; [reflexivity|apply T]). }
  split; exact G.
Qed.

Lemma neutral_clean_loop : forall fuel cands mx, neutral (clean_loop fuel cands mx).
Proof.
  induction fuel as [|f IH]; intros cands mx; cbn [clean_loop].
  - destruct cands; apply neutral_ret.
  - destruct cands as [|c cs]; [apply neutral_ret|].
    apply neutral_op_bind; [exact I|]. intro r. destruct r as [| | | | | | | |n o|]; try apply neutral_ret.
    destruct o as [tf|]; [|apply IH].
    destruct (tf_max tf <=? mx)%N; [|apply IH].
    apply neutral_op_bind; [exact I|]. intros _. apply IH.
Qed.

Lemma wp_clean : forall attempts hh m d,
  wp (clean attempts hh m) (fun _ o => final o) (mk_own false [] [] d).
Proof.
  intros attempts hh m d. unfold clean. wpsimpl. split; [|apply final_mk].
  intros _ c. destruct (negb (names_eqb _ (mnames m))).
  { wpsimpl. split; [reflexivity|apply final_mk]. }
  apply wp_bind_neutral; [apply neutral_reload|]. intro rl.
  destruct (snd rl).
  - wpsimpl. intro tabs. destruct (fst rl) as [|x m'].
    + wpsimpl. split; [reflexivity|fin].
    + apply wp_bind_neutral; [apply neutral_clean_loop|]. intros _.
      wpsimpl. split; [reflexivity|fin].
  - wpsimpl. split; [reflexivity|fin].
  - wpsimpl. split; [reflexivity|fin].
Qed.

Lemma wp_wrap : forall A (p : prog A) f o,
  wp p (fun _ o' => final o') o -> wp (wrap p f) (fun _ o' => final o') o.
Proof. intros A p f o H. unfold wrap. apply wp_bind. eapply wp_mono; [|exact H]. intros a o' H'. exact H'. Qed.

Lemma wp_neutral_final : forall A (p : prog A) d, neutral p -> wp p (fun _ o' => final o') (mk_own false [] [] d).
Proof. intros A p d H. apply H. intros _. apply final_mk. Qed.

Theorem wp_call_prog : forall attempts hh o m d,
  wp (call_prog attempts hh o m) (fun _ o' => final o') (mk_own false [] [] d).
Proof.
  intros attempts hh o m d.
  destruct o; destruct m as [mm|]; cbn [call_prog]; try apply final_mk;
    try (apply wp_wrap; first [apply wp_add | apply wp_add_multi | apply wp_clean | apply wp_neutral_final; first [apply neutral_reload | apply neutral_open_reload | apply neutral_close]]).
  - destruct mm; [apply final_mk|]. apply wp_wrap. apply wp_compact_range.
  - destruct (Nat.ltb last (length mm) && Nat.leb first last); [|apply final_mk]. apply wp_wrap. apply wp_compact_range.
  - destruct mm; [apply final_mk|]. apply wp_wrap. apply wp_compact_range.
Qed.

(* ------------------------------------------------------------------ *)
(* 3. the world invariant                                               *)
(* ------------------------------------------------------------------ *)

Lemma lookup_del : forall A x n (l : list (nat * A)),
  lookup x (del n l) = if Nat.eqb x n then None else lookup x l.
Proof.
  intros A x n l. unfold del. induction l as [|[m a] l IH]; cbn [filter lookup fst].
  - destruct (Nat.eqb x n); reflexivity.
  - destruct (Nat.eqb_spec n m) as [E|E]; cbn [negb].
    + subst m. rewrite IH. destruct (Nat.eqb_spec x n); reflexivity.
    + cbn [lookup]. rewrite IH. destruct (Nat.eqb_spec x n) as [E1|E1]; [|reflexivity].
      subst x. destruct (Nat.eqb_spec n m); [contradiction|reflexivity].
Qed.

Lemma in_rm : forall x n l, In x (rm n l) <-> In x l /\ x <> n.
Proof.
  intros x n l. unfold rm. split.
  - apply in_remove.
  - intros [H1 H2]. apply in_in_remove; assumption.
Qed.

(* handle [h], in ownership state [o], and the ghost owners of the directory agree *)
Definition agree (s : fs) (h : nat) (o : own) : Prop :=
  (f_lock s = Some h <-> o_ll o = true) /\
  (forall n, lookup n (f_tlocks s) = Some h <-> In n (o_tl o)) /\
  (forall t, lookup t (f_tmps s) = Some h <-> In t (o_tm o)) /\
  (forall t, In t (o_dead o) -> lookup t (f_tmps s) = None /\ t < f_next_tmp s).

(* temporary-file names are fresh *)
Definition fs_inv (s : fs) : Prop := forall t h, lookup t (f_tmps s) = Some h -> t < f_next_tmp s.

Definition own0 : own := mk_own false [] [] [].

Lemma agree_final : forall s h o, agree s h o -> final o -> agree s h own0.
Proof.
  intros s h o (H1 & H2 & H3 & H4) (F1 & F2 & F3). unfold own0, agree; cbn [o_ll o_tl o_tm o_dead].
  rewrite F1 in H1. rewrite F2 in H2. rewrite F3 in H3.
  split; [exact H1|]. split; [exact H2|]. split; [exact H3|]. intros t [].
Qed.

(* one file-system operation of handle [h] whose remaining program is typed:
   the answer is one the typing covers, [h]'s new ownership state agrees with the new
   directory, and nothing another handle owns changes *)
Lemma apply_sound : forall so ch h A q (k : resp -> prog A) (Q : A -> own -> Prop) s o s' r fr,
  fs_inv s -> agree s h o -> wp (Op q k) Q o -> apply_req so ch h q s = (s', r, fr) ->
  fs_inv s' /\
  (exists o', agree s' h o' /\ wp (k r) Q o') /\
  (forall h' o2, h' <> h -> agree s h' o2 -> agree s' h' o2).
Proof.
  intros so ch h A q k Q s o s' r fr Hinv Hag Hwp Hap.
  destruct Hag as (L1 & L2 & L3 & L4).
  destruct q as [pa| | | | | | |pa| | |].
  - (* QCreateExcl *)
    destruct pa; cbn [apply_req] in Hap; cbn [wp] in Hwp;
      try (inversion Hap; subst; split; [exact Hinv|]; split; [exists o; split; [exact (conj L1 (conj L2 (conj L3 L4)))|exact Hwp]|auto]).
    + (* PLL *)
      destruct (f_lock s) as [c|] eqn:El; inversion Hap; subst; clear Hap.
      * split; [exact Hinv|]. split; [|auto]. exists o. split; [|apply Hwp].
        unfold agree. rewrite El. exact (conj L1 (conj L2 (conj L3 L4))).
      * destruct Hwp as [Hwp _].
        assert (Hll : o_ll o = false).
        { destruct (o_ll o); [|reflexivity]. destruct L1 as [_ L1]. discriminate (L1 eq_refl). }
        split; [exact Hinv|]. split.
        -- exists (set_ll true o). split; [|apply Hwp; exact Hll].
           unfold agree, set_ll; cbn [f_lock f_tlocks f_tmps f_next_tmp o_ll o_tl o_tm o_dead].
           split; [tauto|]. split; [exact L2|]. split; [exact L3|exact L4].
        -- intros h' o2 Hne (M1 & M2 & M3 & M4).
           unfold agree; cbn [f_lock f_tlocks f_tmps f_next_tmp].
           split; [|split; [exact M2|split; [exact M3|exact M4]]].
           split; intro E.
           ++ inversion E. congruence.
           ++ apply M1 in E. congruence.
    + (* PTL *)
      destruct (lookup n (f_tlocks s)) as [c|] eqn:El; inversion Hap; subst; clear Hap.
      * split; [exact Hinv|]. split; [|auto]. exists o. split; [|apply Hwp].
        exact (conj L1 (conj L2 (conj L3 L4))).
      * destruct Hwp as [Hwp _].
        assert (Hn : ~ In n (o_tl o)).
        { intro Hi. apply L2 in Hi. congruence. }
        split; [exact Hinv|]. split.
        -- exists (add_tl n o). split; [|apply Hwp; exact Hn].
           unfold agree, add_tl; cbn [f_lock f_tlocks f_tmps f_next_tmp o_ll o_tl o_tm o_dead lookup].
           split; [exact L1|]. split; [|split; [exact L3|exact L4]].
           intro x. destruct (Nat.eqb_spec x n) as [E|E].
           ++ subst x. split; [intros _; left; reflexivity|reflexivity].
           ++ rewrite L2. split; [intro; right; assumption|intros [E'|E']; [congruence|exact E']].
        -- intros h' o2 Hne (M1 & M2 & M3 & M4).
           unfold agree; cbn [f_lock f_tlocks f_tmps f_next_tmp lookup].
           split; [exact M1|]. split; [|split; [exact M3|exact M4]].
           intro x. destruct (Nat.eqb_spec x n) as [E|E]; [|apply M2].
           subst x. split; intro E.
           ++ inversion E. congruence.
           ++ apply M2 in E. congruence.
  - (* QReadList *)
    cbn [apply_req] in Hap. inversion Hap; subst. split; [exact Hinv|]. split; [|auto].
    exists o. split; [exact (conj L1 (conj L2 (conj L3 L4)))|apply Hwp].
  - (* QOpenTab *)
    cbn [apply_req] in Hap. destruct Hwp as [W1 W2].
    destruct (lookup n (f_tabs s)); inversion Hap; subst; (split; [exact Hinv|]); (split; [|auto]);
      exists o; (split; [exact (conj L1 (conj L2 (conj L3 L4)))|]); [apply W1|exact W2].
  - (* QOpenTmp *)
    cbn [apply_req] in Hap. destruct Hwp as [W1 W2].
    destruct (lookup t (f_tmps s)); inversion Hap; subst; (split; [exact Hinv|]); (split; [|auto]);
      exists o; (split; [exact (conj L1 (conj L2 (conj L3 L4)))|]); [exact W1|exact W2].
  - (* QCreateTemp *)
    cbn [apply_req] in Hap. inversion Hap; subst; clear Hap. cbn [wp] in Hwp.
    assert (N1 : ~ In (f_next_tmp s) (o_tm o)).
    { intro Hi. apply L3 in Hi. apply Hinv in Hi. lia. }
    assert (N2 : ~ In (f_next_tmp s) (o_dead o)).
    { intro Hi. apply L4 in Hi. lia. }
    split; [|split].
    + intros t h0. cbn [f_tmps f_next_tmp lookup]. destruct (Nat.eqb_spec t (f_next_tmp s)); [lia|].
      intro E. apply Hinv in E. lia.
    + exists (add_tm (f_next_tmp s) o). split; [|apply Hwp; assumption].
      unfold agree, add_tm; cbn [f_lock f_tlocks f_tmps f_next_tmp o_ll o_tl o_tm o_dead lookup].
      split; [exact L1|]. split; [exact L2|]. split.
      * intro x. destruct (Nat.eqb_spec x (f_next_tmp s)) as [E|E].
        -- subst x. split; [intros _; left; reflexivity|reflexivity].
        -- rewrite L3. split; [intro; right; assumption|intros [E'|E']; [congruence|exact E']].
      * intros x Hx. destruct (L4 x Hx) as [E1 E2]. destruct (Nat.eqb_spec x (f_next_tmp s)); [lia|]. split; [exact E1|lia].
    + intros h' o2 Hne (M1 & M2 & M3 & M4).
      unfold agree; cbn [f_lock f_tlocks f_tmps f_next_tmp lookup].
      split; [exact M1|]. split; [exact M2|]. split.
      * intro x. destruct (Nat.eqb_spec x (f_next_tmp s)) as [E|E]; [|apply M3].
        subst x. split; intro E.
        -- inversion E. congruence.
        -- apply M3 in E. apply Hinv in E. lia.
      * intros x Hx. destruct (M4 x Hx) as [E1 E2]. destruct (Nat.eqb_spec x (f_next_tmp s)); [lia|]. split; [exact E1|lia].
  - (* QRenameTmp *)
    cbn [apply_req] in Hap. cbn [wp] in Hwp. destruct Hwp as [Hin Hwp].
    assert (El : lookup t (f_tmps s) = Some h) by (apply L3; exact Hin).
    rewrite El in Hap. inversion Hap; subst; clear Hap.
    split; [|split].
    + intros x h0. cbn [f_tmps f_next_tmp]. rewrite lookup_del. destruct (Nat.eqb x t); [discriminate|apply Hinv].
    + exists (kill_tm t o). split; [|apply Hwp].
      unfold agree, kill_tm; cbn [f_lock f_tlocks f_tmps f_next_tmp o_ll o_tl o_tm o_dead].
      split; [exact L1|]. split; [exact L2|]. split.
      * intro x. rewrite lookup_del, in_rm. destruct (Nat.eqb_spec x t) as [E|E].
        -- split; [discriminate|tauto].
        -- rewrite L3. tauto.
      * intros x [Hx|Hx]; rewrite lookup_del.
        -- subst x. rewrite Nat.eqb_refl. split; [reflexivity|]. apply (Hinv t h). exact El.
        -- destruct (L4 x Hx) as [E1 E2]. destruct (Nat.eqb x t); auto.
    + intros h' o2 Hne (M1 & M2 & M3 & M4).
      unfold agree; cbn [f_lock f_tlocks f_tmps f_next_tmp].
      split; [exact M1|]. split; [exact M2|]. split.
      * intro x. rewrite lookup_del. destruct (Nat.eqb_spec x t) as [E|E]; [|apply M3].
        subst x. split; [discriminate|]. intro E. apply M3 in E. congruence.
      * intros x Hx. destruct (M4 x Hx) as [E1 E2]. rewrite lookup_del. destruct (Nat.eqb x t); auto.
  - (* QCommitList *)
    cbn [apply_req] in Hap. cbn [wp] in Hwp. destruct Hwp as [Hll Hwp].
    assert (El : f_lock s = Some h) by (apply L1; exact Hll).
    rewrite El in Hap. inversion Hap; subst; clear Hap.
    split; [exact Hinv|]. split.
    + exists (set_ll false o). split; [|exact Hwp].
      unfold agree, set_ll; cbn [f_lock f_tlocks f_tmps f_next_tmp o_ll o_tl o_tm o_dead].
      split; [split; discriminate|]. split; [exact L2|]. split; [exact L3|exact L4].
    + intros h' o2 Hne (M1 & M2 & M3 & M4).
      unfold agree; cbn [f_lock f_tlocks f_tmps f_next_tmp].
      split; [|split; [exact M2|split; [exact M3|exact M4]]].
      split; [discriminate|]. intro E. apply M1 in E. congruence.
  - (* QRemove *)
    destruct pa; cbn [apply_req] in Hap; cbn [wp] in Hwp;
      try (inversion Hap; subst; split; [exact Hinv|]; split; [exists o; split; [exact (conj L1 (conj L2 (conj L3 L4)))|exact Hwp]|auto]).
    + (* PLL *)
      destruct Hwp as [Hll Hwp].
      assert (El : f_lock s = Some h) by (apply L1; exact Hll).
      rewrite El in Hap. inversion Hap; subst; clear Hap.
      split; [exact Hinv|]. split.
      * exists (set_ll false o). split; [|exact Hwp].
        unfold agree, set_ll; cbn [f_lock f_tlocks f_tmps f_next_tmp o_ll o_tl o_tm o_dead].
        split; [split; discriminate|]. split; [exact L2|]. split; [exact L3|exact L4].
      * intros h' o2 Hne (M1 & M2 & M3 & M4).
        unfold agree; cbn [f_lock f_tlocks f_tmps f_next_tmp].
        split; [|split; [exact M2|split; [exact M3|exact M4]]].
        split; [discriminate|]. intro E. apply M1 in E. congruence.
    + (* PT *)
      destruct Hwp as [W1 W2].
      destruct (lookup n (f_tabs s)); inversion Hap; subst; (split; [exact Hinv|]); (split; [|auto]);
        exists o; (split; [exact (conj L1 (conj L2 (conj L3 L4)))|]); [exact W1|exact W2].
    + (* PTL *)
      destruct Hwp as [Hin Hwp].
      assert (El : lookup n (f_tlocks s) = Some h) by (apply L2; exact Hin).
      rewrite El in Hap. inversion Hap; subst; clear Hap.
      split; [exact Hinv|]. split.
      * exists (rem_tl n o). split; [|exact Hwp].
        unfold agree, rem_tl; cbn [f_lock f_tlocks f_tmps f_next_tmp o_ll o_tl o_tm o_dead].
        split; [exact L1|]. split; [|split; [exact L3|exact L4]].
        intro x. rewrite lookup_del, in_rm. destruct (Nat.eqb_spec x n) as [E|E].
        -- split; [discriminate|tauto].
        -- rewrite L2. tauto.
      * intros h' o2 Hne (M1 & M2 & M3 & M4).
        unfold agree; cbn [f_lock f_tlocks f_tmps f_next_tmp].
        split; [exact M1|]. split; [|split; [exact M3|exact M4]].
        intro x. rewrite lookup_del. destruct (Nat.eqb_spec x n) as [E|E]; [|apply M2].
        subst x. split; [discriminate|]. intro E. apply M2 in E. congruence.
    + (* PTmp *)
      destruct Hwp as [[Hin Hwp]|[Hin Hwp]].
      * assert (El : lookup n (f_tmps s) = Some h) by (apply L3; exact Hin).
        rewrite El in Hap. inversion Hap; subst; clear Hap.
        split; [|split].
        -- intros x h0. cbn [f_tmps f_next_tmp]. rewrite lookup_del. destruct (Nat.eqb x n); [discriminate|apply Hinv].
        -- exists (kill_tm n o). split; [|apply Hwp].
           unfold agree, kill_tm; cbn [f_lock f_tlocks f_tmps f_next_tmp o_ll o_tl o_tm o_dead].
           split; [exact L1|]. split; [exact L2|]. split.
           ++ intro x. rewrite lookup_del, in_rm. destruct (Nat.eqb_spec x n) as [E|E].
              ** split; [discriminate|tauto].
              ** rewrite L3. tauto.
           ++ intros x [Hx|Hx]; rewrite lookup_del.
              ** subst x. rewrite Nat.eqb_refl. split; [reflexivity|]. apply (Hinv n h). exact El.
              ** destruct (L4 x Hx) as [E1 E2]. destruct (Nat.eqb x n); auto.
        -- intros h' o2 Hne (M1 & M2 & M3 & M4).
           unfold agree; cbn [f_lock f_tlocks f_tmps f_next_tmp].
           split; [exact M1|]. split; [exact M2|]. split.
           ++ intro x. rewrite lookup_del. destruct (Nat.eqb_spec x n) as [E|E]; [|apply M3].
              subst x. split; [discriminate|]. intro E. apply M3 in E. congruence.
           ++ intros x Hx. destruct (M4 x Hx) as [E1 E2]. rewrite lookup_del. destruct (Nat.eqb x n); auto.
      * destruct (L4 n Hin) as [El _]. rewrite El in Hap. inversion Hap; subst; clear Hap.
        split; [exact Hinv|]. split; [|auto]. exists o. split; [exact (conj L1 (conj L2 (conj L3 L4)))|exact Hwp].
  - (* QRemoveOne *)
    cbn [apply_req] in Hap. cbn [wp] in Hwp.
    destruct (lookup _ (f_tabs s)); inversion Hap; subst; (split; [exact Hinv|]); (split; [|auto]);
      exists o; (split; [exact (conj L1 (conj L2 (conj L3 L4)))|apply Hwp]).
  - (* QOpenOne *)
    cbn [apply_req] in Hap. cbn [wp] in Hwp.
    destruct (lookup _ (f_tabs s)); inversion Hap; subst; (split; [exact Hinv|]); (split; [|auto]);
      exists o; (split; [exact (conj L1 (conj L2 (conj L3 L4)))|apply Hwp]).
  - (* QReadDir *)
    cbn [apply_req] in Hap. inversion Hap; subst. split; [exact Hinv|]. split; [|auto].
    exists o. split; [exact (conj L1 (conj L2 (conj L3 L4)))|apply Hwp].
Qed.

Definition hinv (s : fs) (h : nat) (hd : handle) : Prop :=
  match h_pc hd with
  | HIdle => agree s h own0
  | HRun _ p => exists o, agree s h o /\ wp p (fun _ o' => final o') o
  | HDead => True
  end.

Definition winv (w : world) : Prop :=
  fs_inv (w_fs w) /\ forall h hd, nth_error (w_handles w) h = Some hd -> hinv (w_fs w) h hd.

Lemma nth_set_handle : forall l i x j y,
  nth_error (set_handle i x l) j = Some y ->
  (j = i /\ y = x) \/ (j <> i /\ nth_error l j = Some y).
Proof.
  induction l as [|a l IH]; intros i x j y H.
  - destruct i; cbn [set_handle] in H; destruct j; discriminate.
  - destruct i as [|i]; cbn [set_handle] in H.
    + destruct j as [|j]; cbn [nth_error] in *.
      * left. split; [reflexivity|congruence].
      * right. split; [discriminate|exact H].
    + destruct j as [|j]; cbn [nth_error] in *.
      * right. split; [discriminate|exact H].
      * destruct (IH i x j y H) as [[E1 E2]|[E1 E2]]; [left|right]; split; auto.
Qed.

Lemma hinv_frame : forall s s' j hd,
  (forall o2, agree s j o2 -> agree s' j o2) -> hinv s j hd -> hinv s' j hd.
Proof.
  intros s s' j hd F H. unfold hinv in *. destruct (h_pc hd).
  - apply F. exact H.
  - destruct H as (o & H1 & H2). exists o. split; [apply F; exact H1|exact H2].
  - exact I.
Qed.

Lemma winv_update : forall w s' h x,
  fs_inv s' ->
  (forall j o2, j <> h -> agree (w_fs w) j o2 -> agree s' j o2) ->
  hinv s' h x ->
  winv w -> winv {| w_fs := s'; w_handles := set_handle h x (w_handles w) |}.
Proof.
  intros w s' h x Hi F Hx [_ Hw]. split; cbn [w_fs w_handles]; [exact Hi|].
  intros j hd Hn. apply nth_set_handle in Hn. destruct Hn as [[E1 E2]|[E1 E2]].
  - subst. exact Hx.
  - eapply hinv_frame; [|apply Hw; exact E2]. intros o2. apply F. exact E1.
Qed.

(* ------------------------------------------------------------------ *)
(* 4. the C08 oracle                                                    *)
(* ------------------------------------------------------------------ *)

Lemma path_eqb_true : forall a b, path_eqb a b = true -> a = b.
Proof.
  intros a b H. destruct a, b; cbn [path_eqb] in H; try discriminate; try reflexivity;
    apply Nat.eqb_eq in H; congruence.
Qed.

Lemma path_eqb_refl : forall a, path_eqb a a = true.
Proof. intro a. destruct a; cbn [path_eqb]; try reflexivity; apply Nat.eqb_refl. Qed.

Lemma owner_drop_same : forall p ow, owner_of p (drop_owner p ow) = None.
Proof.
  intros p ow. unfold drop_owner. induction ow as [|[q h] ow IH]; cbn [filter owner_of fst]; [reflexivity|].
  destruct (path_eqb p q) eqn:E; cbn [negb]; [exact IH|]. cbn [owner_of]. rewrite E. exact IH.
Qed.

Lemma owner_drop_other : forall p q ow, path_eqb q p = false -> owner_of q (drop_owner p ow) = owner_of q ow.
Proof.
  intros p q ow Hne. unfold drop_owner. induction ow as [|[q0 h] ow IH]; cbn [filter owner_of fst]; [reflexivity|].
  destruct (path_eqb p q0) eqn:E; cbn [negb].
  - apply path_eqb_true in E. subst q0. rewrite Hne. exact IH.
  - cbn [owner_of]. rewrite IH. reflexivity.
Qed.

(* the oracle's owner map is the ghost owner map of the directory *)
Definition owners_ok (ow : list (path * nat)) (s : fs) : Prop :=
  owner_of PLL ow = f_lock s /\ forall n, owner_of (PTL n) ow = lookup n (f_tlocks s).

Lemma c08_req : forall so ch h A q (k : resp -> prog A) (Q : A -> own -> Prop) s o s' r fr ow,
  agree s h o -> wp (Op q k) Q o -> apply_req so ch h q s = (s', r, fr) -> owners_ok ow s ->
  exists ow', owners_ok ow' s' /\
              forall rest, c08_loop ow (req_event h q r fr :: rest) = c08_loop ow' rest.
Proof.
  intros so ch h A q k Q s o s' r fr ow Hag Hwp Hap [O1 O2].
  destruct Hag as (L1 & L2 & L3 & L4).
  destruct q as [pa| | | | | | |pa| | |].
  - destruct pa; cbn [apply_req] in Hap;
      try (inversion Hap; subst; exists ow; split; [split; assumption|intro rest; reflexivity]).
    + destruct (f_lock s) as [c|] eqn:El; inversion Hap; subst; clear Hap.
      * exists ow. split; [split; [congruence|exact O2]|intro rest; reflexivity].
      * exists ((PLL, h) :: ow). split.
        -- split; cbn [owner_of path_eqb f_lock f_tlocks]; [reflexivity|exact O2].
        -- intro rest. cbn [req_event c08_loop is_lock]. rewrite O1. reflexivity.
    + destruct (lookup n (f_tlocks s)) as [c|] eqn:El; inversion Hap; subst; clear Hap.
      * exists ow. split; [split; assumption|intro rest; reflexivity].
      * exists ((PTL n, h) :: ow). split.
        -- split; cbn [owner_of path_eqb f_lock f_tlocks lookup]; [exact O1|].
           intro x. destruct (Nat.eqb x n); [reflexivity|apply O2].
        -- intro rest. cbn [req_event c08_loop is_lock]. rewrite O2, El. reflexivity.
  - cbn [apply_req] in Hap. inversion Hap; subst. exists ow. split; [split; assumption|].
    intro rest. cbn [req_event c08_loop]. destruct (f_list s'); reflexivity.
  - cbn [apply_req] in Hap. exists ow.
    destruct (lookup n (f_tabs s)); inversion Hap; subst; (split; [split; assumption|intro rest; reflexivity]).
  - cbn [apply_req] in Hap. exists ow.
    destruct (lookup t (f_tmps s)); inversion Hap; subst; (split; [split; assumption|intro rest; reflexivity]).
  - cbn [apply_req] in Hap. inversion Hap; subst. exists ow. split; [split; assumption|intro rest; reflexivity].
  - cbn [apply_req] in Hap. exists ow.
    destruct (lookup t (f_tmps s)); inversion Hap; subst; (split; [split; assumption|intro rest; reflexivity]).
  - cbn [apply_req] in Hap. cbn [wp] in Hwp. destruct Hwp as [Hll _].
    assert (El : f_lock s = Some h) by (apply L1; exact Hll).
    rewrite El in Hap. inversion Hap; subst; clear Hap.
    exists (drop_owner PLL ow). split.
    + split; cbn [f_lock f_tlocks]; [apply owner_drop_same|].
      intro x. rewrite owner_drop_other; [apply O2|reflexivity].
    + intro rest. cbn [req_event c08_loop is_lock]. rewrite O1, El, Nat.eqb_refl. reflexivity.
  - destruct pa; cbn [apply_req] in Hap; cbn [wp] in Hwp;
      try (inversion Hap; subst; exists ow; split; [split; assumption|intro rest; reflexivity]).
    + destruct Hwp as [Hll _].
      assert (El : f_lock s = Some h) by (apply L1; exact Hll).
      rewrite El in Hap. inversion Hap; subst; clear Hap.
      exists (drop_owner PLL ow). split.
      * split; cbn [f_lock f_tlocks]; [apply owner_drop_same|].
        intro x. rewrite owner_drop_other; [apply O2|reflexivity].
      * intro rest. cbn [req_event c08_loop is_lock]. rewrite O1, El, Nat.eqb_refl. reflexivity.
    + exists ow.
      destruct (lookup n (f_tabs s)); inversion Hap; subst; (split; [split; assumption|intro rest; reflexivity]).
    + destruct Hwp as [Hin _].
      assert (El : lookup n (f_tlocks s) = Some h) by (apply L2; exact Hin).
      rewrite El in Hap. inversion Hap; subst; clear Hap.
      exists (drop_owner (PTL n) ow). split.
      * split; cbn [f_lock f_tlocks]; [rewrite owner_drop_other; [exact O1|reflexivity]|].
        intro x. rewrite lookup_del. destruct (Nat.eqb_spec x n) as [E|E].
        -- subst x. apply owner_drop_same.
        -- rewrite owner_drop_other; [apply O2|]. cbn [path_eqb]. apply Nat.eqb_neq. exact E.
      * intro rest. cbn [req_event c08_loop is_lock]. rewrite O2, El, Nat.eqb_refl. reflexivity.
    + exists ow.
      destruct (lookup n (f_tmps s)); inversion Hap; subst; (split; [split; assumption|intro rest; reflexivity]).
  - cbn [apply_req] in Hap. exists ow.
    destruct (lookup _ (f_tabs s)); inversion Hap; subst; (split; [split; assumption|intro rest; reflexivity]).
  - cbn [apply_req] in Hap. exists ow.
    destruct (lookup _ (f_tabs s)); inversion Hap; subst; (split; [split; assumption|intro rest; reflexivity]).
  - cbn [apply_req] in Hap. inversion Hap; subst. exists ow. split; [split; assumption|intro rest; reflexivity].
Qed.

Lemma c08_finish : forall ow h o m r rest,
  c08_loop ow (finish_events h o m r ++ rest) = c08_loop ow rest.
Proof. intros ow h o m r rest. unfold finish_events. destruct m; reflexivity. Qed.

Lemma hinv_idle : forall s h m sc hh, agree s h own0 -> hinv s h {| h_mem := m; h_pc := HIdle; h_script := sc; h_hash := hh |}.
Proof. intros. exact H. Qed.

Lemma winv_step : forall so att w h c w' evs ow,
  winv w -> owners_ok ow (w_fs w) -> step so att w h c = (w', evs) ->
  winv w' /\ exists ow', owners_ok ow' (w_fs w') /\
                         forall rest, c08_loop ow (evs ++ rest) = c08_loop ow' rest.
Proof.
  intros so att w h c w' evs ow Hw Ho Hs. unfold step in Hs.
  destruct (nth_error (w_handles w) h) as [hd|] eqn:En.
  2:{ inversion Hs; subst. split; [exact Hw|]. exists ow. split; [exact Ho|reflexivity]. }
  assert (Hh := proj2 Hw h hd En). unfold hinv in Hh.
  destruct (h_pc hd) as [|o p|] eqn:Epc.
  - (* idle: a call starts *)
    destruct (h_script hd) as [|o rest].
    { inversion Hs; subst. split; [exact Hw|]. exists ow. split; [exact Ho|reflexivity]. }
    assert (Hcp := wp_call_prog att (h_hash hd) o (h_mem hd) []). fold own0 in Hcp.
    destruct (call_prog att (h_hash hd) o (h_mem hd)) as [[m r]|q k]; inversion Hs; subst; clear Hs.
    + split.
      * apply winv_update; [apply Hw|auto| |exact Hw]. apply hinv_idle. exact Hh.
      * exists ow. split; [exact Ho|]. intro rest0. cbn [app c08_loop w_fs]. apply c08_finish.
    + split.
      * apply winv_update; [apply Hw|auto| |exact Hw]. unfold hinv; cbn [h_pc]. exists own0. split; assumption.
      * exists ow. split; [exact Ho|]. intro rest0. reflexivity.
  - (* inside a call *)
    destruct Hh as (ob & Hag & Hwp).
    destruct p as [[m r]|q k].
    + inversion Hs; subst; clear Hs. split.
      * apply winv_update; [apply Hw|auto| |exact Hw]. apply hinv_idle. eapply agree_final; [exact Hag|exact Hwp].
      * exists ow. split; [exact Ho|]. intro rest0. apply c08_finish.
    + destruct (apply_req so c h q (w_fs w)) as [[s' rs] fr] eqn:Hap.
      destruct (apply_sound so c h _ q k _ (w_fs w) ob s' rs fr (proj1 Hw) Hag Hwp Hap) as (Hi' & (o' & Hag' & Hwp') & Hfr).
      destruct (c08_req so c h _ q k _ (w_fs w) ob s' rs fr ow Hag Hwp Hap Ho) as (ow' & Ho' & Hc).
      destruct (k rs) as [[m r]|q' k'] eqn:Ek; inversion Hs; subst; clear Hs.
      * split.
        -- apply winv_update; [exact Hi'|exact Hfr| |exact Hw]. apply hinv_idle. eapply agree_final; [exact Hag'|exact Hwp'].
        -- exists ow'. split; [exact Ho'|]. intro rest0. cbn [app]. rewrite Hc. cbn [c08_loop]. apply c08_finish.
      * split.
        -- apply winv_update; [exact Hi'|exact Hfr| |exact Hw]. unfold hinv; cbn [h_pc]. exists o'. split; assumption.
        -- exists ow'. split; [exact Ho'|]. intro rest0. cbn [app]. rewrite Hc. reflexivity.
  - inversion Hs; subst. split; [exact Hw|]. exists ow. split; [exact Ho|reflexivity].
Qed.

Lemma winv_crash : forall w h w' evs ow,
  winv w -> owners_ok ow (w_fs w) -> crash w h = (w', evs) ->
  winv w' /\ owners_ok ow (w_fs w') /\ forall rest, c08_loop ow (evs ++ rest) = c08_loop ow rest.
Proof.
  intros w h w' evs ow Hw Ho Hc. unfold crash in Hc.
  destruct (nth_error (w_handles w) h) as [hd|]; inversion Hc; subst; clear Hc.
  - split; [|split; [exact Ho|reflexivity]].
    apply winv_update; [apply Hw|auto| |exact Hw]. exact I.
  - split; [exact Hw|]. split; [exact Ho|reflexivity].
Qed.

Lemma winv_run : forall so att sched w w' evs ow,
  winv w -> owners_ok ow (w_fs w) -> run so att w sched = (w', evs) ->
  winv w' /\ c08_loop ow evs = true.
Proof.
  intros so att sched. induction sched as [|it t IH]; intros w w' evs ow Hw Ho Hr; cbn [run] in Hr.
  - inversion Hr; subst. split; [exact Hw|reflexivity].
  - destruct it as [h c|h].
    + destruct (step so att w h c) as [w1 e1] eqn:Es.
      destruct (run so att w1 t) as [w2 e2] eqn:Er. inversion Hr; subst; clear Hr.
      destruct (winv_step _ _ _ _ _ _ _ _ Hw Ho Es) as (Hw1 & ow1 & Ho1 & Hc).
      destruct (IH _ _ _ _ Hw1 Ho1 Er) as [Hw2 Hc2].
      split; [exact Hw2|]. rewrite Hc. exact Hc2.
    + destruct (crash w h) as [w1 e1] eqn:Es.
      destruct (run so att w1 t) as [w2 e2] eqn:Er. inversion Hr; subst; clear Hr.
      destruct (winv_crash _ _ _ _ _ Hw Ho Es) as (Hw1 & Ho1 & Hc).
      destruct (IH _ _ _ _ Hw1 Ho1 Er) as [Hw2 Hc2].
      split; [exact Hw2|]. rewrite Hc. exact Hc2.
Qed.

Lemma winv_init : forall tabs scripts, winv (init_world tabs scripts).
Proof.
  intros tabs scripts. split; cbn [init_world w_fs w_handles].
  - intros t h H. discriminate.
  - intros h hd Hn. apply nth_error_In in Hn. apply in_map_iff in Hn. destruct Hn as (sc & E & _). subst hd.
    unfold hinv; cbn [h_pc]. unfold agree, own0; cbn.
    split; [split; discriminate|]. split; [intro; split; [discriminate|contradiction]|].
    split; [intro; split; [discriminate|contradiction]|]. intros t [].
Qed.

Lemma owners_init : forall tabs, owners_ok [] (init_fs tabs).
Proof. intro tabs. split; [reflexivity|]. intro n. reflexivity. Qed.

(* property C08: locks are exclusive and only released (removed or renamed) by the handle that created them *)
Theorem c08_all_traces : forall size_oracle attempts tabs scripts sched,
  c08_ok (trace_of size_oracle attempts tabs scripts sched) = true.
Proof.
  intros so att tabs scripts sched. unfold c08_ok, trace_of. cbn [c08_loop].
  destruct (run so att (init_world tabs scripts) sched) as [w evs] eqn:Er. cbn [snd].
  exact (proj2 (winv_run so att sched _ _ _ [] (winv_init tabs scripts) (owners_init tabs) Er)).
Qed.

(* part of property C16: a handle that is not inside a call owns no lock file and no temporary file *)
Definition owns_nothing (s : fs) (h : nat) : Prop :=
  f_lock s <> Some h /\ (forall n, lookup n (f_tlocks s) <> Some h) /\ (forall t, lookup t (f_tmps s) <> Some h).

Theorem idle_owns_nothing : forall size_oracle attempts tabs scripts sched w evs h hd,
  run size_oracle attempts (init_world tabs scripts) sched = (w, evs) ->
  nth_error (w_handles w) h = Some hd -> h_pc hd = HIdle -> owns_nothing (w_fs w) h.
Proof.
  intros so att tabs scripts sched w evs h hd Hr Hn Hpc.
  destruct (winv_run so att sched _ _ _ [] (winv_init tabs scripts) (owners_init tabs) Hr) as [[_ Hw] _].
  specialize (Hw h hd Hn). unfold hinv in Hw. rewrite Hpc in Hw. destruct Hw as (H1 & H2 & H3 & _).
  unfold own0 in *; cbn [o_ll o_tl o_tm] in *.
  split; [|split].
  - intro E. apply H1 in E. discriminate.
  - intros n E. apply H2 in E. exact E.
  - intros t E. apply H3 in E. exact E.
Qed.

Print Assumptions wp_call_prog.
Print Assumptions c08_all_traces.
Print Assumptions idle_owns_nothing.
