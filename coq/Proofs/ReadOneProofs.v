(* ReadRef / ReadLogAt (reftable.go): corollaries of the seek theorems. *)
From Coq Require Import List NArith Arith Bool Lia Sorted.
From RT Require Import Proofs.BytesProofs Proofs.BlockProofs Proofs.TableProofs Proofs.SeekProofs.
From RT Require Import Model.Bytes Model.Result Model.Records Model.RecCodec Model.Block Model.Writer Model.Reader.
Import ListNotations.
Local Open Scope N_scope.

(* the specification: the record carrying the name, if any *)
Definition find_ref (name : bytes) (refs : list ref_record) : option ref_record :=
  find (fun x => bytes_eqb (r_name x) name) refs.

(* the newest entry of [name] whose update index is <= idx: the first entry of the
   (key-sorted, newest first) reflog with that name and index <= idx *)
Definition find_log_at (name : bytes) (idx : N) (logs : list log_record) : option log_record :=
  match seek_logs (log_key_of name idx) logs with
  | l :: _ => if bytes_eqb (l_name l) name then Some l else None
  | [] => None
  end.

Lemma find_none_all : forall A (f : A -> bool) l, (forall y, In y l -> f y = false) -> find f l = None.
Proof.
  intros A f l. induction l as [|a t IH]; intros H; cbn [find]; [reflexivity|].
  rewrite (H a (or_introl eq_refl)). apply IH. intros y Hy. apply H. right. exact Hy.
Qed.

Lemma seek_refs_find : forall name refs,
  StronglySorted (fun a b => bytes_ltb (r_name a) (r_name b) = true) refs ->
  match seek_refs name refs with
  | x :: _ => if bytes_eqb (r_name x) name then Some x else None
  | [] => None
  end = find_ref name refs.
Proof.
  intros name refs. unfold find_ref. induction refs as [|r t IH]; intros HS; cbn [seek_refs find].
  - reflexivity.
  - inversion HS as [|? ? HS' HF]; subst.
    destruct (bytes_ltb (r_name r) name) eqn:Hlt.
    + rewrite (bytes_ltb_eqb _ _ Hlt). apply IH; assumption.
    + destruct (bytes_eqb (r_name r) name) eqn:He; [reflexivity|].
      (* name < r_name r <= everything behind: nothing equal further on *)
      symmetry. apply find_none_all. intros y Hy.
      rewrite Forall_forall in HF. specialize (HF y Hy).
      apply bytes_eqb_neq. intros Heq. subst name.
      rewrite HF in Hlt. discriminate Hlt.
Qed.

Section ReadOne.
  Variable deflate : bytes -> bytes.
  Variable inflate : bytes -> inflate_result.
  Hypothesis Hz : zlib_ok deflate inflate.
  Hypothesis Htrunc : forall x n, (n < length (deflate x))%nat -> inflate (firstn n (deflate x)) = ITrunc.
  Hypothesis Hbound : forall x, N.of_nat (length x) < 16777216 -> N.of_nat (length (deflate x)) < 1073741824.

  Theorem table_read_ref : forall cfg min max refs logs data,
    cfg_ok cfg -> max < two64 -> min <= max -> refs_ok cfg min max refs -> logs_ok cfg logs ->
    N.of_nat (length data) < two64 ->
    write_table deflate cfg min max refs logs = Ok (false, data) ->
    exists r, rd_open data = Ok r /\
      forall name, read_ref inflate r name = Ok (find_ref name refs).
  Proof.
    intros cfg mn mx refs logs data C Hmx Hmm R L Hsz H.
    destruct (table_seek_ref deflate inflate Hz Htrunc Hbound cfg mn mx refs logs data C Hmx Hmm R L Hsz H)
      as (r & Ho & Hs).
    exists r. split; [exact Ho|]. intros name. unfold read_ref. rewrite Hs. cbn [bind].
    f_equal. rewrite <- (seek_refs_find name refs (proj2 R)).
    destruct (seek_refs name refs) as [|x t]; reflexivity.
  Qed.

  Theorem table_read_log_at : forall cfg min max refs logs data logs',
    cfg_ok cfg -> max < two64 -> min <= max -> refs_ok cfg min max refs -> logs_ok cfg logs ->
    N.of_nat (length data) < two64 ->
    write_table deflate cfg min max refs logs = Ok (false, data) ->
    read_logs cfg logs = Some logs' ->
    exists r, rd_open data = Ok r /\
      forall name idx, read_log_at inflate r name idx = Ok (find_log_at name idx logs').
  Proof.
    intros cfg mn mx refs logs data logs' C Hmx Hmm R L Hsz H RL.
    destruct (table_seek_log deflate inflate Hz Htrunc Hbound cfg mn mx refs logs data logs' C Hmx Hmm R L Hsz H RL)
      as (r & Ho & Hs).
    exists r. split; [exact Ho|]. intros name idx. unfold read_log_at, find_log_at. rewrite Hs. cbn [bind].
    f_equal. destruct (seek_logs (log_key_of name idx) logs') as [|x t]; reflexivity.
  Qed.
End ReadOne.
