(* Block-level round trip and seek: what the block writer (bw_new / bw_add /
   bw_finish) produces, the block reader (br_init / bi_next / br_seek) reads
   back. *)
From Coq Require Import List NArith ZArith Arith Bool Lia ZifyN ZifyNat ZifyBool Sorted.
From RT Require Import Proofs.BlockInitEq.
From RT Require Import Model.Bytes Model.Result Model.Varint Model.KeyCodec Model.Records Model.RecCodec Model.Block.
From RT Require Import Proofs.BytesProofs Proofs.CodecProofs.
Import ListNotations.
Local Open Scope N_scope.

#[local] Arguments N.div : simpl never.
#[local] Arguments N.modulo : simpl never.
#[local] Arguments N.mul : simpl never.
#[local] Arguments N.add : simpl never.
#[local] Arguments N.sub : simpl never.
#[local] Arguments N.pow : simpl never.
#[local] Arguments N.of_nat : simpl never.
#[local] Arguments N.to_nat : simpl never.
#[local] Arguments Nat.div : simpl never.
#[local] Arguments Nat.modulo : simpl never.

(* ------------------------------------------------------------------ *)
(* statements' vocabulary *)

(* zlib as used here: deflate then inflate gives the data back and reports
   exactly the bytes consumed, whatever follows the stream *)
Definition zlib_ok (deflate : bytes -> bytes) (inflate : bytes -> inflate_result) : Prop :=
  forall x rest, inflate (deflate x ++ rest) = IOk x (length (deflate x)).

(* adding a list of records in order; None = some record did not fit *)
Fixpoint bw_add_all (w : bw) (recs : list record) : res (option bw) :=
  match recs with
  | [] => Ok (Some w)
  | r :: t =>
      let* o := bw_add w r in
      match o with
      | Some w' => bw_add_all w' t
      | None => Ok None
      end
  end.

(* the record as it reads back: logs have absent hashes filled with zeros *)
Definition rec_read (hs : nat) (r : record) : record :=
  match r with RecLog l => RecLog (fill_log hs l) | _ => r end.

(* domain of one block: one type, encodable records, strictly ascending keys *)
Definition rec_ok (hs : nat) (r : record) : Prop :=
  N.of_nat (length (rec_key r)) < 2 ^ 60 /\
  match r with
  | RecRef x => ref_ok hs x
  | RecLog l => log_ok hs l
  | RecObj _ offs => Forall (fun o => o < two64) offs /\ N.of_nat (length offs) < two64
  | RecIdx _ off => off < two64
  end.

Definition block_recs_ok (typ : N) (hs : nat) (recs : list record) : Prop :=
  Forall (fun r => rec_typ r = typ /\ rec_ok hs r) recs /\
  StronglySorted (fun a b => bytes_ltb (rec_key a) (rec_key b) = true) recs.

(* all records of a block from position p on; None on error or fuel exhaustion *)
Fixpoint bi_all (fuel : nat) (b : br) (p : bpos) : option (list record) :=
  match fuel with
  | O => None
  | S f =>
      match bi_next b p with
      | None => None
      | Some None => Some []
      | Some (Some (r, p')) =>
          match bi_all f b p' with
          | None => None
          | Some l => Some (r :: l)
          end
      end
  end.

(* the suffix of recs starting at the first record with key >= k *)
Fixpoint seek_recs (k : bytes) (recs : list record) : list record :=
  match recs with
  | [] => []
  | r :: t => if bytes_ltb (rec_key r) k then seek_recs k t else recs
  end.

(* ------------------------------------------------------------------ *)
(* a concrete "stored" zlib stand-in and concrete blocks, to test the
   statements by computation *)

(* every byte b is stored as [1; b]; a 0 byte terminates the stream *)
Definition sdeflate (x : bytes) : bytes := flat_map (fun b => [1; b]) x ++ [0].
Fixpoint sinflate (s : bytes) : inflate_result :=
  match s with
  | [] => ITrunc
  | N0 :: _ => IOk [] 1
  | _ :: [] => ITrunc
  | _ :: b :: t => match sinflate t with IOk o c => IOk (b :: o) (2 + c) | e => e end
  end.

(* ------------------------------------------------------------------ *)
(* one record: decode (encode r) = rec_read r *)

Lemma rec_key_read : forall hs r, rec_key (rec_read hs r) = rec_key r.
Proof. intros hs [x|l|k o|k o]; reflexivity. Qed.

Lemma rec_encode_ok : forall hs r, rec_ok hs r -> exists vb, rec_encode hs r = Ok vb.
Proof.
  intros hs [x|l|k o|k o] [_ H].
  - eexists; reflexivity.
  - apply encode_log_ok; exact H.
  - eexists; reflexivity.
  - eexists; reflexivity.
Qed.

Lemma decode_encode_rec : forall hs r rest vb, (0 < hs)%nat ->
  rec_ok hs r -> rec_encode hs r = Ok vb ->
  rec_decode (rec_typ r) hs (rec_key r) (rec_val_type r) (vb ++ rest)
  = Some (length vb, rec_read hs r).
Proof.
  intros hs [x|l|k o|k o] rest vb Hs [_ H] E; cbn [rec_typ rec_key rec_read].
  - apply decode_encode_ref; assumption.
  - apply decode_encode_log; assumption.
  - destruct H. apply decode_encode_obj_gen; assumption.
  - apply decode_encode_idx; assumption.
Qed.

(* ------------------------------------------------------------------ *)
(* the layout of a block body: a list of entries *)

Record ent := { e_rec : record; e_kb : bytes; e_vb : bytes; e_zero : bool }.

Definition e_bytes (e : ent) : bytes := e_kb e ++ e_vb e.
Definition body_of (es : list ent) : bytes := flat_map e_bytes es.

(* entry e is what the writer emits for e_rec e when the reader's previous
   key is prev: the key is compressed against prev, or has prefix length 0 *)
Definition ent_wf (hs : nat) (prev : bytes) (e : ent) : Prop :=
  exists prevw,
    encode_key prevw (rec_key (e_rec e)) (rec_val_type (e_rec e)) = (e_kb e, e_zero e) /\
    (e_zero e = true \/ prevw = prev) /\
    rec_encode hs (e_rec e) = Ok (e_vb e).

Fixpoint chain (hs : nat) (prev : bytes) (es : list ent) : Prop :=
  match es with
  | [] => True
  | e :: t => ent_wf hs prev e /\ chain hs (rec_key (e_rec e)) t
  end.

Definition lastk (prev : bytes) (es : list ent) : bytes :=
  fold_left (fun _ e => rec_key (e_rec e)) es prev.

Lemma lastk_app : forall es prev e, lastk prev (es ++ [e]) = rec_key (e_rec e).
Proof. intros. unfold lastk. rewrite fold_left_app. reflexivity. Qed.

Lemma chain_app : forall hs es1 es2 prev,
  chain hs prev (es1 ++ es2) <-> chain hs prev es1 /\ chain hs (lastk prev es1) es2.
Proof.
  induction es1 as [|e t IH]; intros es2 prev; cbn [app chain].
  - unfold lastk; cbn [fold_left]. tauto.
  - rewrite IH. unfold lastk; cbn [fold_left]. tauto.
Qed.

Lemma body_of_app : forall a b, body_of (a ++ b) = body_of a ++ body_of b.
Proof. intros. unfold body_of. apply flat_map_app. Qed.

Lemma encode_key_zero : forall prevw key vt kb z,
  encode_key prevw key vt = (kb, z) ->
  kb = fst (encode_key prevw key vt) /\ (z = true -> common_prefix prevw key = 0%nat).
Proof.
  intros prevw key vt kb z E. split; [rewrite E; reflexivity|].
  intros ->. unfold encode_key in E. inversion E as [[E1 E2]]. apply Nat.eqb_eq. exact E2.
Qed.

Lemma encode_key_nonempty : forall prevw key vt, (1 <= length (fst (encode_key prevw key vt)))%nat.
Proof.
  intros. unfold encode_key. cbn [fst]. rewrite app_length.
  pose proof (put_varint_nonempty (N.of_nat (common_prefix prevw key))). lia.
Qed.

Lemma ent_wf_len : forall hs prev e, ent_wf hs prev e -> (1 <= length (e_bytes e))%nat.
Proof.
  intros hs prev e (pw & E & _). apply encode_key_zero in E. destruct E as [E _].
  unfold e_bytes. rewrite app_length, E. pose proof (encode_key_nonempty pw (rec_key (e_rec e)) (rec_val_type (e_rec e))). lia.
Qed.

Lemma chain_len : forall hs es prev, chain hs prev es -> (length es <= length (body_of es))%nat.
Proof.
  induction es as [|e t IH]; intros prev H; cbn [length]; [lia|].
  destruct H as [H1 H2]. apply ent_wf_len in H1. apply IH in H2.
  unfold body_of in *. cbn [flat_map]. rewrite app_length. lia.
Qed.

(* an entry with prefix length 0 is well-formed after any key *)
Lemma ent_wf_zero : forall hs prev prev' e, ent_wf hs prev e -> e_zero e = true -> ent_wf hs prev' e.
Proof. intros hs prev prev' e (pw & E & _ & V) Z. exists pw. auto. Qed.

(* ------------------------------------------------------------------ *)
(* reader: one step *)

Definition rec_dom (typ : N) (hs : nat) (r : record) : Prop := rec_typ r = typ /\ rec_ok hs r.

Lemma bi_next_ent : forall b hs pre prev e rest,
  (0 < hs)%nat -> br_hash b = hs ->
  br_block b = pre ++ e_bytes e ++ rest ->
  ent_wf hs prev e -> rec_dom (br_typ b) hs (e_rec e) ->
  bi_next b (length pre, prev)
  = Some (Some (rec_read hs (e_rec e), ((length pre + length (e_bytes e))%nat, rec_key (e_rec e)))).
Proof.
  intros b hs pre prev e rest Hs Hh Hb (pw & E & Hz & V) [Ht [Hk Hok]].
  pose proof (conj Hk Hok : rec_ok hs (e_rec e)) as Hok'.
  apply encode_key_zero in E. destruct E as [Ekb Ez].
  unfold bi_next. rewrite Hb.
  pose proof (encode_key_nonempty pw (rec_key (e_rec e)) (rec_val_type (e_rec e))) as NE.
  rewrite <- Ekb in NE.
  destruct (Nat.leb_spec (length (pre ++ e_bytes e ++ rest)) (length pre)) as [L|L].
  { unfold e_bytes in L. rewrite !app_length in L. lia. }
  rewrite skipn_app_len. unfold e_bytes. rewrite <- app_assoc.
  assert (DK : decode_key (e_kb e ++ e_vb e ++ rest) prev
               = Some (length (e_kb e), rec_key (e_rec e), rec_val_type (e_rec e))).
  { rewrite Ekb. destruct Hz as [Z| ->].
    - apply decode_encode_key_restart; [apply rec_val_type_lt8|exact Hk|auto].
    - pose proof (decode_encode_key prev (rec_key (e_rec e)) (rec_val_type (e_rec e)) (e_vb e ++ rest)
                    (rec_val_type_lt8 _) Hk) as D.
      destruct (encode_key prev (rec_key (e_rec e)) (rec_val_type (e_rec e))) as [kb z].
      cbn [fst]. apply D. }
  rewrite DK. rewrite skipn_app_len.
  rewrite <- Ht, Hh. rewrite (decode_encode_rec hs (e_rec e) rest (e_vb e) Hs Hok' V).
  rewrite rec_key_read, app_length, Nat.add_assoc. reflexivity.
Qed.

Lemma bi_next_end : forall b pre prev, br_block b = pre -> bi_next b (length pre, prev) = Some None.
Proof.
  intros b pre prev H. unfold bi_next. rewrite H. rewrite Nat.leb_refl. reflexivity.
Qed.

Lemma bi_all_chain : forall b hs es pre prev fuel,
  (0 < hs)%nat -> br_hash b = hs ->
  br_block b = pre ++ body_of es ->
  chain hs prev es -> Forall (fun e => rec_dom (br_typ b) hs (e_rec e)) es ->
  (length es < fuel)%nat ->
  bi_all fuel b (length pre, prev) = Some (map (rec_read hs) (map e_rec es)).
Proof.
  intros b hs es. induction es as [|e t IH]; intros pre prev fuel Hs Hh Hb Hc Hd Hf.
  - destruct fuel; [cbn [length] in Hf; lia|]. cbn [bi_all].
    rewrite bi_next_end; [reflexivity|]. rewrite Hb. unfold body_of. cbn [flat_map]. apply app_nil_r.
  - destruct fuel; [lia|]. cbn [length] in Hf. cbn [bi_all].
    destruct Hc as [Hw Hc]. inversion Hd as [|? ? Hd1 Hd2]; subst.
    unfold body_of in Hb. cbn [flat_map] in Hb. fold (body_of t) in Hb.
    rewrite (bi_next_ent b (br_hash b) pre prev e (body_of t)); auto.
    rewrite <- app_length.
    rewrite (IH (pre ++ e_bytes e) (rec_key (e_rec e)) fuel); try assumption.
    + reflexivity.
    + reflexivity.
    + rewrite <- app_assoc. exact Hb.
    + lia.
Qed.

(* ------------------------------------------------------------------ *)
(* writer invariant *)

(* o is the offset of an entry written with prefix length 0 *)
Definition is_zero_off (base : nat) (es : list ent) (o : nat) : Prop :=
  exists es1 e es2, es = es1 ++ e :: es2 /\ o = (base + length (body_of es1))%nat /\ e_zero e = true.

Record winv (hs : nat) (w : bw) (es : list ent) : Prop := {
  wi_hash : bw_hash w = hs;
  wi_body : bw_body w = body_of es;
  wi_last : bw_last w = lastk [] es;
  wi_chain : chain hs [] es;
  wi_rest : Forall (is_zero_off (bw_hdr w + 4) es) (bw_restarts w);
  wi_cnt : N.of_nat (length (bw_restarts w)) <= 65535;
  wi_fit : es <> [] -> (bw_next w + 2 + 3 * length (bw_restarts w) <= bw_size w)%nat }.

Lemma winv_new : forall typ hdr size interval hs, winv hs (bw_new typ hdr size interval hs) [].
Proof.
  intros. constructor; cbn [bw_new bw_hash bw_body bw_last bw_restarts bw_hdr length]; auto.
  - exact I.
  - lia.
  - congruence.
Qed.

Definition bw_same (w w' : bw) : Prop :=
  bw_typ w' = bw_typ w /\ bw_hdr w' = bw_hdr w /\ bw_size w' = bw_size w /\
  bw_interval w' = bw_interval w /\ bw_hash w' = bw_hash w.

Lemma bw_add_inv : forall w r w', bw_add w r = Ok (Some w') ->
  exists last kb restart vb restart',
    (last = [] \/ last = bw_last w) /\
    (Nat.modulo (bw_entries w) (bw_interval w) = 0%nat -> last = []) /\
    encode_key last (rec_key r) (rec_val_type r) = (kb, restart) /\
    rec_encode (bw_hash w) r = Ok vb /\
    restart' = (if max_restarts <=? N.of_nat (length (bw_restarts w)) then false else restart) /\
    (bw_next w + (length kb + length vb) + 2 +
       3 * (if restart' then S (length (bw_restarts w)) else length (bw_restarts w)) <= bw_size w)%nat /\
    bw_same w w' /\
    bw_body w' = bw_body w ++ kb ++ vb /\
    bw_restarts w' = (if restart' then bw_restarts w ++ [bw_next w] else bw_restarts w) /\
    bw_last w' = rec_key r /\ bw_entries w' = S (bw_entries w).
Proof.
  intros w r w' H. unfold bw_add in H.
  set (last := if Nat.eqb (Nat.modulo (bw_entries w) (bw_interval w)) 0 then [] else bw_last w) in *.
  assert (HL : last = [] \/ last = bw_last w).
  { unfold last. destruct (Nat.eqb _ 0); auto. }
  assert (HL0 : Nat.modulo (bw_entries w) (bw_interval w) = 0%nat -> last = []).
  { intros M. unfold last. rewrite M. reflexivity. }
  destruct (encode_key last (rec_key r) (rec_val_type r)) as [kb restart] eqn:EK.
  destruct (Nat.ltb_spec (bw_size w - bw_next w) (length kb)) as [L1|L1]; [discriminate|].
  destruct (rec_encode (bw_hash w) r) as [vb| | |] eqn:ER; cbn [bind] in H; try discriminate.
  destruct (Nat.ltb_spec (bw_size w - bw_next w - length kb) (length vb)) as [L2|L2]; [discriminate|].
  set (restart' := if max_restarts <=? N.of_nat (length (bw_restarts w)) then false else restart) in *.
  match type of H with (if Nat.ltb ?a ?b then _ else _) = _ => destruct (Nat.ltb_spec a b) as [L3|L3] end;
    [discriminate|].
  apply Ok_inj in H. injection H as H. subst w'.
  exists last, kb, restart, vb, restart'.
  cbn [bw_typ bw_hdr bw_size bw_interval bw_hash bw_body bw_restarts bw_last bw_entries].
  unfold bw_same. cbn [bw_typ bw_hdr bw_size bw_interval bw_hash].
  repeat split; auto.
  destruct restart'; lia.
Qed.

(* what a full block looks like to the writer: an accepted record leaves room
   for the restart table and its count *)
Theorem bw_add_fits : forall w r w', bw_add w r = Ok (Some w') ->
  (bw_next w' + 2 + 3 * length (bw_restarts w') <= bw_size w')%nat.
Proof.
  intros w r w' H. apply bw_add_inv in H.
  destruct H as (last & kb & restart & vb & restart' & _ & _ & _ & _ & _ & Hfit & Hs & Hb & Hr & _).
  destruct Hs as (_ & Hh & Hsz & _). unfold bw_next in *. rewrite Hh, Hsz, Hb, Hr.
  rewrite !app_length. destruct restart'; [rewrite app_length; cbn [length]|]; lia.
Qed.

Lemma bw_add_step : forall hs w es r w',
  winv hs w es -> bw_add w r = Ok (Some w') ->
  exists e, e_rec e = r /\ winv hs w' (es ++ [e]) /\ bw_same w w'.
Proof.
  intros hs w es r w' I H. pose proof (bw_add_fits _ _ _ H) as FIT.
  apply bw_add_inv in H.
  destruct H as (last & kb & restart & vb & restart' & HL & _ & EK & ER & ER' & Hfit & Hs & Hb & Hr & Hl & _).
  destruct I as [Ih Ib Il Ic Ir In If].
  destruct Hs as (Ht & Hh & Hsz & Hi & Hha).
  exists {| e_rec := r; e_kb := kb; e_vb := vb; e_zero := restart |}.
  split; [reflexivity|]. split; [|unfold bw_same; auto].
  assert (NX : bw_next w = (bw_hdr w + 4 + length (body_of es))%nat) by (unfold bw_next; rewrite Ib; reflexivity).
  constructor.
  - congruence.
  - rewrite Hb, Ib, body_of_app. unfold body_of at 3. cbn [flat_map e_bytes e_kb e_vb].
    rewrite app_nil_r. reflexivity.
  - rewrite Hl, lastk_app. reflexivity.
  - apply chain_app. split; [exact Ic|]. cbn [chain]. split; [|exact I].
    exists last. cbn [e_rec e_kb e_vb e_zero]. split; [exact EK|]. split; [|congruence].
    destruct HL as [->| ->].
    + left. unfold encode_key in EK. cbn [common_prefix] in EK. inversion EK. reflexivity.
    + right. exact Il.
  - rewrite Hr, Hh.
    assert (OLD : Forall (is_zero_off (bw_hdr w + 4) (es ++ [{| e_rec := r; e_kb := kb; e_vb := vb; e_zero := restart |}])) (bw_restarts w)).
    { eapply Forall_impl; [|exact Ir]. intros o (es1 & e & es2 & E1 & E2 & E3).
      exists es1, e, (es2 ++ [{| e_rec := r; e_kb := kb; e_vb := vb; e_zero := restart |}]).
      split; [|auto]. rewrite E1, <- app_assoc. reflexivity. }
    destruct restart' eqn:R; [|exact OLD].
    apply Forall_app. split; [exact OLD|]. constructor; [|constructor].
    exists es, {| e_rec := r; e_kb := kb; e_vb := vb; e_zero := restart |}, [].
    split; [reflexivity|]. split; [exact NX|]. cbn [e_zero].
    destruct (max_restarts <=? N.of_nat (length (bw_restarts w))); [discriminate|]. congruence.
  - rewrite Hr. destruct restart' eqn:R; [|exact In]. rewrite app_length. cbn [length].
    unfold max_restarts in ER'.
    destruct (N.leb_spec 65535 (N.of_nat (length (bw_restarts w)))); [discriminate|]. lia.
  - intros _. exact FIT.
Qed.

Lemma bw_same_refl : forall w, bw_same w w.
Proof. intros. unfold bw_same. auto. Qed.
Lemma bw_same_trans : forall a b c, bw_same a b -> bw_same b c -> bw_same a c.
Proof. unfold bw_same. intros a b c (A1&A2&A3&A4&A5) (B1&B2&B3&B4&B5). repeat split; congruence. Qed.

Lemma bw_add_all_inv : forall hs recs w es w',
  winv hs w es -> bw_add_all w recs = Ok (Some w') ->
  exists es', map e_rec es' = recs /\ winv hs w' (es ++ es') /\ bw_same w w'.
Proof.
  intros hs. induction recs as [|r t IH]; intros w es w' I H; cbn [bw_add_all] in H.
  - apply Ok_inj in H. injection H as <-. exists []. rewrite app_nil_r.
    split; [reflexivity|]. split; [exact I|apply bw_same_refl].
  - destruct (bw_add w r) as [[w1|]| | |] eqn:A; cbn [bind] in H; try discriminate.
    destruct (bw_add_step hs w es r w1 I A) as (e & E1 & I1 & S1).
    destruct (IH w1 (es ++ [e]) w' I1 H) as (es' & E2 & I2 & S2).
    exists (e :: es'). cbn [map]. rewrite E1, E2. split; [reflexivity|].
    rewrite <- app_assoc in I2. cbn [app] in I2. split; [exact I2|].
    eapply bw_same_trans; eassumption.
Qed.

(* ------------------------------------------------------------------ *)
(* shape of the restart list: the first record is a restart, offsets are
   strictly ascending and lie inside the body, at most 65535 of them *)

Record winv2 (w : bw) : Prop := {
  w2_sorted : StronglySorted lt (bw_restarts w);
  w2_below : Forall (fun o => (bw_hdr w + 4 <= o < bw_next w)%nat) (bw_restarts w);
  w2_first : (0 < bw_entries w)%nat -> exists t, bw_restarts w = (bw_hdr w + 4)%nat :: t;
  w2_empty : bw_entries w = 0%nat -> bw_body w = [] /\ bw_restarts w = [] }.

Lemma sorted_snoc : forall l x, StronglySorted lt l -> Forall (fun o => (o < x)%nat) l ->
  StronglySorted lt (l ++ [x]).
Proof.
  induction l as [|a t IH]; intros x S F; cbn [app].
  - constructor; constructor.
  - inversion S as [|? ? S1 F1]; subst. inversion F as [|? ? Fa Ft]; subst.
    constructor; [apply IH; assumption|]. apply Forall_app. split; [exact F1|]. constructor; [exact Fa|constructor].
Qed.

Lemma bw_add_step2 : forall w r w', winv2 w -> bw_add w r = Ok (Some w') ->
  winv2 w' /\ bw_entries w' = S (bw_entries w).
Proof.
  intros w r w' [Is Ib If Ie] H. apply bw_add_inv in H.
  destruct H as (last & kb & restart & vb & restart' & _ & HL0 & EK & _ & ER' & _ & Hs & Hb & Hr & _ & Hen).
  destruct Hs as (_ & Hh & _).
  pose proof (encode_key_zero _ _ _ _ _ EK) as [EK1 _].
  pose proof (encode_key_nonempty last (rec_key r) (rec_val_type r)) as NE. rewrite <- EK1 in NE.
  assert (NX : (bw_next w < bw_next w')%nat).
  { unfold bw_next. rewrite Hh, Hb, !app_length. lia. }
  split; [|exact Hen]. constructor.
  - rewrite Hr. destruct restart'; [|exact Is]. apply sorted_snoc; [exact Is|].
    eapply Forall_impl; [|exact Ib]. cbv beta. intros; lia.
  - rewrite Hr, Hh.
    assert (OLD : Forall (fun o => (bw_hdr w + 4 <= o < bw_next w')%nat) (bw_restarts w)).
    { eapply Forall_impl; [|exact Ib]. cbv beta. intros; lia. }
    destruct restart'; [|exact OLD]. apply Forall_app. split; [exact OLD|].
    constructor; [|constructor]. unfold bw_next in *. lia.
  - intros _. rewrite Hr, Hh. destruct (Nat.eq_dec (bw_entries w) 0) as [Z|Z].
    + destruct (Ie Z) as [B0 R0]. rewrite R0 in *.
      assert (last = []) as -> by (apply HL0; rewrite Z; destruct (bw_interval w); [reflexivity|apply Nat.mod_0_l; lia]).
      unfold encode_key in EK. cbn [common_prefix] in EK. inversion EK as [[E1 E2]].
      rewrite <- E2 in ER'. cbn [length] in ER'. change (max_restarts <=? N.of_nat 0) with false in ER'.
      cbn [Nat.eqb] in ER'. subst restart'. cbn [app]. exists [].
      unfold bw_next. rewrite B0. cbn [length]. rewrite Nat.add_0_r. reflexivity.
    + destruct If as [t Et]; [lia|]. rewrite Et. destruct restart'; eexists; reflexivity.
  - intros Z. lia.
Qed.
Lemma bw_add_all_inv2 : forall recs w w', winv2 w -> bw_add_all w recs = Ok (Some w') ->
  winv2 w' /\ bw_entries w' = (bw_entries w + length recs)%nat.
Proof.
  induction recs as [|r t IH]; intros w w' I H; cbn [bw_add_all] in H.
  - apply Ok_inj in H. injection H as <-. cbn [length]. split; [exact I|lia].
  - destruct (bw_add w r) as [[w1|]| | |] eqn:A; cbn [bind] in H; try discriminate.
    destruct (bw_add_step2 w r w1 I A) as [I1 E1].
    destruct (IH w1 w' I1 H) as [I2 E2]. split; [exact I2|]. cbn [length]. lia.
Qed.

Theorem bw_restarts_shape : forall typ hdr size interval hs recs w,
  recs <> [] -> bw_add_all (bw_new typ hdr size interval hs) recs = Ok (Some w) ->
  (exists t, bw_restarts w = (hdr + 4)%nat :: t) /\
  StronglySorted lt (bw_restarts w) /\
  Forall (fun o => (hdr + 4 <= o < bw_next w)%nat) (bw_restarts w) /\
  N.of_nat (length (bw_restarts w)) <= 65535 /\
  bw_entries w = length recs.
Proof.
  intros typ hdr size interval hs recs w NE A.
  assert (I0 : winv2 (bw_new typ hdr size interval hs)).
  { constructor; cbn [bw_new bw_restarts bw_entries bw_body bw_hdr]; try constructor; auto. lia. }
  destruct (bw_add_all_inv2 recs _ w I0 A) as [[Is Ib If Ie] En].
  destruct (bw_add_all_inv hs recs _ [] w (winv_new typ hdr size interval hs) A) as (es & _ & W & S).
  destruct S as (_ & Sh & _). cbn [bw_new bw_hdr bw_entries] in Sh, En. rewrite Sh in *.
  cbn [Nat.add] in En.
  assert (0 < length recs)%nat by (destruct recs; [congruence|cbn [length]; lia]).
  split; [apply If; lia|]. split; [exact Is|]. split; [exact Ib|]. split; [apply W|exact En].
Qed.

(* ------------------------------------------------------------------ *)
(* br_init on a finished block *)

Lemma be24_value : forall n, n < 16777216 -> be_value (be24 n) 0 = n.
Proof. intros n H. unfold be24. apply be_value_be_bytes. exact H. Qed.

Lemma be16_value : forall n, n < 65536 -> be_value (be16 n) 0 = n.
Proof. intros n H. unfold be16. apply be_value_be_bytes. exact H. Qed.

Lemma be24_length : forall n, length (be24 n) = 3%nat.
Proof. intros. apply be_bytes_length. Qed.
Lemma be16_length : forall n, length (be16 n) = 2%nat.
Proof. intros. apply be_bytes_length. Qed.

Definition rtable (rs : list nat) : bytes := flat_map (fun r => be24 (N.of_nat r)) rs.

Lemma rtable_length : forall rs, length (rtable rs) = (3 * length rs)%nat.
Proof.
  induction rs as [|r t IH]; [reflexivity|].
  unfold rtable in *. cbn [flat_map length]. rewrite app_length, be24_length, IH. lia.
Qed.

Lemma skipn_add_app : forall (A : Type) n m (a b : list A), length a = n ->
  skipn (n + m) (a ++ b) = skipn m b.
Proof.
  intros A n m a b H. rewrite skipn_app. rewrite skipn_all2 by lia.
  replace (n + m - length a)%nat with m by lia. reflexivity.
Qed.

Lemma rtable_nth : forall rs i rest, (i < length rs)%nat ->
  firstn 3 (skipn (3 * i) (rtable rs ++ rest)) = be24 (N.of_nat (nth i rs 0%nat)).
Proof.
  induction rs as [|r t IH]; intros i rest H; cbn [length] in H; [lia|].
  unfold rtable. cbn [flat_map]. fold (rtable t). rewrite <- app_assoc.
  destruct i as [|i].
  - cbn [Nat.mul skipn nth]. apply firstn_app_len'. rewrite be24_length. reflexivity.
  - replace (3 * S i)%nat with (3 + 3 * i)%nat by lia.
    rewrite skipn_add_app by (apply be24_length).
    cbn [nth]. apply IH. lia.
Qed.

(* the second half of br_init *)
Definition br_tail (typ : N) (hdr hash sz : nat) (blk : bytes) (full : nat) : br_err + br :=
  if Nat.ltb (length blk) sz || Nat.ltb sz (hdr + 4 + 2) then inl BrFormat
  else
    let blk1 := firstn sz blk in
    let count := N.to_nat (be_value (skipn (sz - 2) blk1) 0) in
    if Nat.ltb sz (2 + 3 * count + (hdr + 4)) then inl BrFormat
    else
      let rstart := (sz - 2 - 3 * count)%nat in
      inr {| br_typ := typ; br_hdr := hdr; br_block := firstn rstart blk1;
             br_restarts := skipn rstart blk1; br_count := count;
             br_full := full; br_hash := hash |}.

Lemma br_tail_spec : forall typ hdr hash head body rs rest full,
  length head = (hdr + 4)%nat -> N.of_nat (length rs) <= 65535 ->
  br_tail typ hdr hash (hdr + 4 + length body + 3 * length rs + 2)
          (head ++ body ++ rtable rs ++ be16 (N.of_nat (length rs)) ++ rest) full
  = inr {| br_typ := typ; br_hdr := hdr; br_block := head ++ body;
           br_restarts := rtable rs ++ be16 (N.of_nat (length rs)); br_count := length rs;
           br_full := full; br_hash := hash |}.
Proof.
  intros typ hdr hash head body rs rest full Hh Hc. unfold br_tail.
  set (sz := (hdr + 4 + length body + 3 * length rs + 2)%nat).
  set (c16 := be16 (N.of_nat (length rs))).
  assert (Lc : length c16 = 2%nat) by apply be16_length.
  pose proof (rtable_length rs) as Lr.
  destruct (Nat.ltb_spec (length (head ++ body ++ rtable rs ++ c16 ++ rest)) sz) as [L|L].
  { rewrite !app_length in L. unfold sz in L. lia. }
  destruct (Nat.ltb_spec sz (hdr + 4 + 2)) as [L2|L2]; [unfold sz in L2; lia|].
  cbn [orb].
  assert (B1 : firstn sz (head ++ body ++ rtable rs ++ c16 ++ rest) = head ++ body ++ rtable rs ++ c16).
  { replace (head ++ body ++ rtable rs ++ c16 ++ rest) with ((head ++ body ++ rtable rs ++ c16) ++ rest)
      by (rewrite <- !app_assoc; reflexivity).
    apply firstn_app_len'. rewrite !app_length. unfold sz. lia. }
  rewrite B1.
  assert (B2 : skipn (sz - 2) (head ++ body ++ rtable rs ++ c16) = c16).
  { replace (head ++ body ++ rtable rs ++ c16) with ((head ++ body ++ rtable rs) ++ c16)
      by (rewrite <- !app_assoc; reflexivity).
    apply skipn_app_len'. rewrite !app_length. unfold sz. lia. }
  rewrite B2. replace (N.to_nat (be_value c16 0)) with (length rs)
    by (unfold c16; rewrite be16_value by lia; rewrite Nat2N.id; reflexivity).
  destruct (Nat.ltb_spec sz (2 + 3 * length rs + (hdr + 4))) as [L3|L3]; [unfold sz in L3; lia|].
  replace (head ++ body ++ rtable rs ++ c16) with ((head ++ body) ++ rtable rs ++ c16)
    by (rewrite <- !app_assoc; reflexivity).
  rewrite (firstn_app_len' _ _ (head ++ body)) by (rewrite !app_length; unfold sz; lia).
  rewrite (skipn_app_len' _ _ (head ++ body)) by (rewrite !app_length; unfold sz; lia).
  reflexivity.
Qed.

Definition finished (deflate : bytes -> bytes) (typ : N) (file_hdr body : bytes) (rs : list nat) : bytes :=
  let nxt := (length file_hdr + 4 + length body + 3 * length rs + 2)%nat in
  let head := file_hdr ++ [typ] ++ be24 (N.of_nat nxt) in
  let payload := body ++ rtable rs ++ be16 (N.of_nat (length rs)) in
  if typ =? typ_log then head ++ deflate payload else head ++ payload.

Lemma bw_finish_finished : forall deflate file_hdr w, length file_hdr = bw_hdr w ->
  bw_finish deflate file_hdr w = finished deflate (bw_typ w) file_hdr (bw_body w) (bw_restarts w).
Proof.
  intros deflate file_hdr w H. unfold bw_finish, finished, bw_next, rtable. rewrite H. reflexivity.
Qed.

Definition full_of (typ : N) (tbs : nat) (raw rest : bytes) : nat :=
  if typ =? typ_log then length raw
  else if Nat.eqb tbs 0 then length raw
  else if Nat.ltb (length raw) tbs && Nat.ltb (length raw) (length (raw ++ rest))
          && negb (nth (length raw) (raw ++ rest) 0 =? 0)
       then length raw else tbs.

Lemma br_init_finished : forall deflate inflate typ tbs hs file_hdr body rs rest,
  zlib_ok deflate inflate -> is_block_type typ = true ->
  N.of_nat (length file_hdr + 4 + length body + 3 * length rs + 2) < 16777216 ->
  N.of_nat (length rs) <= 65535 ->
  let raw := finished deflate typ file_hdr body rs in
  let nxt := (length file_hdr + 4 + length body + 3 * length rs + 2)%nat in
  br_init inflate (raw ++ rest) (length file_hdr) tbs hs
  = inr {| br_typ := typ; br_hdr := length file_hdr;
           br_block := (file_hdr ++ [typ] ++ be24 (N.of_nat nxt)) ++ body;
           br_restarts := rtable rs ++ be16 (N.of_nat (length rs)); br_count := length rs;
           br_full := full_of typ tbs raw rest; br_hash := hs |}.
Proof.
  intros deflate inflate typ tbs hs file_hdr body rs rest Z T Hn Hc raw nxt.
  set (hdr := length file_hdr) in *.
  set (head := file_hdr ++ [typ] ++ be24 (N.of_nat nxt)).
  set (payload := body ++ rtable rs ++ be16 (N.of_nat (length rs))).
  assert (Lh : length head = (hdr + 4)%nat).
  { unfold head. rewrite !app_length, be24_length. cbn [length]. unfold hdr. lia. }
  assert (Lp : length payload = (length body + 3 * length rs + 2)%nat).
  { unfold payload. rewrite !app_length, rtable_length, be16_length. lia. }
  assert (R : exists tl, raw = head ++ tl /\
                         tl = if typ =? typ_log then deflate payload else payload).
  { unfold raw, finished. fold hdr nxt head payload. destruct (typ =? typ_log); eexists; split; reflexivity. }
  destruct R as (tl & Rraw & Rtl).
  rewrite br_init_eq. unfold br_init_ref.
  assert (LB : (hdr + 4 <= length (raw ++ rest))%nat).
  { rewrite Rraw, !app_length. lia. }
  destruct (Nat.ltb_spec (length (raw ++ rest)) (hdr + 4)) as [L|_]; [lia|].
  assert (NT : nth hdr (raw ++ rest) 0 = typ).
  { rewrite Rraw. unfold head. rewrite <- !app_assoc. rewrite app_nth2 by (unfold hdr; lia).
    unfold hdr. rewrite Nat.sub_diag. reflexivity. }
  rewrite NT, T. cbn [negb].
  assert (SZ : N.to_nat (be_value (firstn 3 (skipn (hdr + 1) (raw ++ rest))) 0) = nxt).
  { rewrite Rraw. unfold head.
    replace ((file_hdr ++ [typ] ++ be24 (N.of_nat nxt)) ++ tl) with
      ((file_hdr ++ [typ]) ++ be24 (N.of_nat nxt) ++ tl) by (rewrite <- !app_assoc; reflexivity).
    rewrite <- app_assoc.
    rewrite skipn_app_len' by (rewrite app_length; cbn [length]; reflexivity).
    rewrite <- app_assoc.
    rewrite firstn_app_len' by (rewrite be24_length; reflexivity).
    rewrite be24_value by exact Hn. apply Nat2N.id. }
  rewrite SZ.
  assert (H4 : firstn (hdr + 4) (raw ++ rest) = head /\ skipn (hdr + 4) (raw ++ rest) = tl ++ rest).
  { rewrite Rraw, <- app_assoc. split; [apply firstn_app_len'|apply skipn_app_len']; auto. }
  destruct H4 as [F4 S4].
  unfold full_of.
  destruct (typ =? typ_log) eqn:TL.
  - rewrite S4, Rtl, Z, F4.
    assert (Nat.eqb (length (head ++ payload)) nxt = true) as ->.
    { apply Nat.eqb_eq. rewrite app_length, Lh, Lp. unfold nxt, hdr. lia. }
    cbn [negb].
    replace (hdr + 4 + length (deflate payload))%nat with (length raw)
      by (rewrite Rraw, Rtl, app_length; lia).
    pose proof (br_tail_spec typ hdr hs head body rs [] (length raw) Lh Hc) as BT.
    unfold br_tail in BT. rewrite app_nil_r in BT. fold payload in BT.
    unfold nxt, hdr. exact BT.
  - assert (LR : length raw = nxt).
    { rewrite Rraw, Rtl, app_length, Lh, Lp. unfold nxt, hdr. lia. }
    rewrite LR.
    pose proof (fun full => br_tail_spec typ hdr hs head body rs rest full Lh Hc) as BT.
    unfold br_tail in BT.
    assert (RW : raw ++ rest = head ++ body ++ rtable rs ++ be16 (N.of_nat (length rs)) ++ rest).
    { rewrite Rraw, Rtl. unfold payload. rewrite <- !app_assoc. reflexivity. }
    rewrite <- RW in BT. fold hdr nxt in BT.
    destruct (Nat.eqb tbs 0); [apply BT|].
    destruct (Nat.ltb nxt tbs && Nat.ltb nxt (length (raw ++ rest)) && negb (nth nxt (raw ++ rest) 0 =? 0));
      apply BT.
Qed.

(* ------------------------------------------------------------------ *)
(* what the reader knows about a block written by the writer *)

Record rinv (hs : nat) (b : br) (es : list ent) (rs : list nat) : Prop := {
  ri_hs : (0 < hs)%nat;
  ri_hash : br_hash b = hs;
  ri_block : exists head, length head = (br_hdr b + 4)%nat /\ br_block b = head ++ body_of es;
  ri_chain : chain hs [] es;
  ri_dom : Forall (fun e => rec_dom (br_typ b) hs (e_rec e)) es;
  ri_rtab : exists tl, br_restarts b = rtable rs ++ tl;
  ri_count : br_count b = length rs;
  ri_zero : Forall (is_zero_off (br_hdr b + 4) es) rs;
  ri_small : N.of_nat (br_hdr b + 4 + length (body_of es)) < 16777216 }.

Lemma rinv_len : forall hs b es rs, rinv hs b es rs -> (length es <= length (br_block b))%nat.
Proof.
  intros hs b es rs I. destruct (ri_block _ _ _ _ I) as (head & _ & E). rewrite E, app_length.
  pose proof (chain_len _ _ _ (ri_chain _ _ _ _ I)). lia.
Qed.

Lemma rinv_all : forall hs b es rs, rinv hs b es rs ->
  bi_all (S (length (br_block b))) b (br_start b) = Some (map (rec_read hs) (map e_rec es)).
Proof.
  intros hs b es rs I. pose proof (rinv_len _ _ _ _ I) as L.
  destruct (ri_block _ _ _ _ I) as (head & Lh & E).
  unfold br_start. rewrite <- Lh.
  apply bi_all_chain; try apply I; try assumption. lia.
Qed.

(* ---- linear scan ---- *)

Lemma seek_scan_chain : forall b hs k es pre prev fuel,
  (0 < hs)%nat -> br_hash b = hs ->
  br_block b = pre ++ body_of es ->
  chain hs prev es -> Forall (fun e => rec_dom (br_typ b) hs (e_rec e)) es ->
  (length es < fuel)%nat ->
  exists p, seek_scan fuel b k (length pre, prev) = Some p /\
    forall fuel', (length es < fuel')%nat ->
      bi_all fuel' b p = Some (map (rec_read hs) (seek_recs k (map e_rec es))).
Proof.
  intros b hs k es. induction es as [|e t IH]; intros pre prev fuel Hs Hh Hb Hc Hd Hf.
  - destruct fuel; [cbn [length] in Hf; lia|]. cbn [seek_scan].
    rewrite bi_next_end by (rewrite Hb; unfold body_of; cbn [flat_map]; apply app_nil_r).
    eexists; split; [reflexivity|]. intros fuel' Hf'.
    apply (bi_all_chain b hs [] pre prev fuel'); assumption.
  - destruct fuel; [lia|]. cbn [length] in Hf. cbn [seek_scan].
    pose proof Hc as Hc0. pose proof Hd as Hd0.
    destruct Hc as [Hw Hc]. inversion Hd as [|? ? Hd1 Hd2]; subst.
    pose proof Hb as Hb0.
    unfold body_of in Hb. cbn [flat_map] in Hb. fold (body_of t) in Hb.
    rewrite (bi_next_ent b (br_hash b) pre prev e (body_of t)); auto.
    rewrite rec_key_read. cbn [map seek_recs].
    destruct (bytes_ltb (rec_key (e_rec e)) k) eqn:LT; cbn [negb].
    + rewrite <- app_length.
      destruct (IH (pre ++ e_bytes e) (rec_key (e_rec e)) fuel) as (p & P1 & P2); try assumption.
      * reflexivity.
      * rewrite <- app_assoc. exact Hb.
      * lia.
      * exists p. split; [exact P1|]. intros fuel' Hf'. apply P2. cbn [length] in Hf'. lia.
    + eexists; split; [reflexivity|]. intros fuel' Hf'.
      apply (bi_all_chain b (br_hash b) (e :: t) pre prev fuel'); auto.
Qed.

(* ---- binary search ---- *)

Local Ltac Zify.zify_post_hook ::= Z.div_mod_to_equations.

Definition below (f : nat -> option bool) (r : nat) : Prop :=
  match r with O => True | S r' => f r' = Some false end.

Lemma search_loop_spec : forall f n,
  (forall h, (h < n)%nat -> exists v, f h = Some v) ->
  forall fuel i j, (j <= n)%nat -> (i <= j)%nat -> (j - i < fuel)%nat -> below f i ->
  exists r, search_loop fuel f i j false = (r, false) /\ (r <= n)%nat /\ below f r.
Proof.
  intros f n D. induction fuel as [|fu IH]; intros i j Hj Hij Hf Hb; [lia|].
  cbn [search_loop].
  destruct (Nat.ltb_spec i j) as [L|L].
  - set (h := Nat.div (i + j) 2).
    assert (Hh : (i <= h < j)%nat) by (unfold h; lia).
    destruct (D h) as [v Hv]; [lia|]. rewrite Hv. destruct v.
    + apply IH; try lia. exact Hb.
    + apply IH; try lia. exact Hv.
  - exists i. split; [reflexivity|]. split; [lia|exact Hb].
Qed.

(* ---- restart table ---- *)

Lemma rinv_restart : forall hs b es rs h, rinv hs b es rs -> (h < length rs)%nat ->
  exists es1 e es2, es = es1 ++ e :: es2 /\ e_zero e = true /\
    restart_offset b h = (br_hdr b + 4 + length (body_of es1))%nat.
Proof.
  intros hs b es rs h I Hh.
  pose proof (ri_zero _ _ _ _ I) as Z. rewrite Forall_forall in Z.
  destruct (Z (nth h rs 0%nat) (nth_In _ _ Hh)) as (es1 & e & es2 & E1 & E2 & E3).
  exists es1, e, es2. split; [exact E1|]. split; [exact E3|].
  unfold restart_offset. destruct (ri_rtab _ _ _ _ I) as (tl & ->).
  rewrite rtable_nth by exact Hh. rewrite be24_value; [rewrite Nat2N.id; exact E2|].
  pose proof (ri_small _ _ _ _ I) as S. rewrite E2. rewrite E1, body_of_app, app_length in S. lia.
Qed.

Lemma seek_recs_app : forall k l1 l2, Forall (fun r => bytes_ltb (rec_key r) k = true) l1 ->
  seek_recs k (l1 ++ l2) = seek_recs k l2.
Proof.
  intros k l1 l2 H. induction H as [|r t Hr Ht IH]; [reflexivity|].
  cbn [app seek_recs]. rewrite Hr. exact IH.
Qed.

Lemma sorted_app_mid : forall (A : Type) (R : A -> A -> Prop) l1 x l2,
  StronglySorted R (l1 ++ x :: l2) -> Forall (fun a => R a x) l1.
Proof.
  intros A R. induction l1 as [|a t IH]; intros x l2 H; [constructor|].
  cbn [app] in H. inversion H as [|? ? S F]; subst. constructor.
  - rewrite Forall_forall in F. apply F. apply in_or_app. right. left. reflexivity.
  - eapply IH. exact S.
Qed.

Lemma rinv_seek : forall hs b es rs k, rinv hs b es rs ->
  StronglySorted (fun x y => bytes_ltb (rec_key x) (rec_key y) = true) (map e_rec es) ->
  exists p, br_seek b k = Some p /\
    bi_all (S (length (br_block b))) b p = Some (map (rec_read hs) (seek_recs k (map e_rec es))).
Proof.
  intros hs b es rs k I SS. pose proof (rinv_len _ _ _ _ I) as LEN.
  destruct (ri_block _ _ _ _ I) as (head & Lh & EB).
  unfold br_seek.
  set (f := fun i => match decode_restart_key (br_block b) (restart_offset b i) with
                     | Some rk => Some (bytes_ltb k rk)
                     | None => None
                     end).
  (* the restart keys *)
  assert (RK : forall h, (h < br_count b)%nat ->
            exists es1 e es2, es = es1 ++ e :: es2 /\ e_zero e = true /\
              restart_offset b h = (br_hdr b + 4 + length (body_of es1))%nat /\
              f h = Some (bytes_ltb k (rec_key (e_rec e)))).
  { intros h Hh. rewrite (ri_count _ _ _ _ I) in Hh.
    destruct (rinv_restart _ _ _ _ h I Hh) as (es1 & e & es2 & E1 & E2 & E3).
    exists es1, e, es2. repeat (split; [assumption|]).
    unfold f. rewrite E3.
    pose proof (ri_chain _ _ _ _ I) as C. rewrite E1 in C. apply chain_app in C.
    destruct C as [_ [(pw & EK & _ & _) _]].
    apply encode_key_zero in EK. destruct EK as [EK1 EK2]. specialize (EK2 E2).
    pose proof (ri_dom _ _ _ _ I) as D. rewrite E1 in D. apply Forall_app in D.
    destruct D as [_ D]. inversion D as [|? ? [_ [Dk _]] _]; subst.
    rewrite EB, body_of_app. unfold body_of at 2. cbn [flat_map]. fold (body_of es2).
    unfold e_bytes. rewrite EK1.
    replace (head ++ body_of es1 ++ (fst (encode_key pw (rec_key (e_rec e)) (rec_val_type (e_rec e))) ++ e_vb e) ++ body_of es2)
      with ((head ++ body_of es1) ++ fst (encode_key pw (rec_key (e_rec e)) (rec_val_type (e_rec e))) ++ (e_vb e ++ body_of es2))
      by (rewrite <- !app_assoc; reflexivity).
    replace (br_hdr b + 4 + length (body_of es1))%nat with (length (head ++ body_of es1))
      by (rewrite app_length; lia).
    rewrite decode_restart_key_spec; [reflexivity|apply rec_val_type_lt8|exact Dk|exact EK2]. }
  assert (DEF : forall h, (h < br_count b)%nat -> exists v, f h = Some v).
  { intros h Hh. destruct (RK h Hh) as (? & e & ? & _ & _ & _ & ->). eexists; reflexivity. }
  destruct (search_loop_spec f (br_count b) DEF (S (br_count b)) 0 (br_count b)) as (j & SL & Hj & Bj);
    try lia; [exact Logic.I|].
  rewrite SL.
  destruct j as [|j'].
  - (* from the start of the block *)
    rewrite <- Lh.
    destruct (seek_scan_chain b hs k es head [] (S (length (br_block b)))) as (p & P1 & P2);
      try apply I; try assumption; try lia.
    exists p. split; [exact P1|]. apply P2. lia.
  - cbn [below] in Bj.
    destruct (RK j') as (es1 & e & es2 & E1 & E2 & E3 & E4); [lia|].
    rewrite E4 in Bj. injection Bj as Bj.
    rewrite E3.
    replace (br_hdr b + 4 + length (body_of es1))%nat with (length (head ++ body_of es1))
      by (rewrite app_length; lia).
    pose proof (ri_chain _ _ _ _ I) as C. rewrite E1 in C. apply chain_app in C.
    destruct C as [_ [Cw Ct]].
    pose proof (ri_dom _ _ _ _ I) as D. rewrite E1 in D. apply Forall_app in D. destruct D as [_ D].
    assert (LE : (length (e :: es2) <= length es)%nat) by (rewrite E1, app_length; lia).
    destruct (seek_scan_chain b hs k (e :: es2) (head ++ body_of es1) [] (S (length (br_block b))))
      as (p & P1 & P2); try apply I; try assumption; try lia.
    + rewrite EB, E1, body_of_app, <- app_assoc. reflexivity.
    + split; [|exact Ct]. eapply ent_wf_zero; eassumption.
    + exists p. split; [exact P1|]. rewrite P2 by lia.
      rewrite E1, map_app. rewrite seek_recs_app; [reflexivity|].
      rewrite E1, map_app in SS. cbn [map] in SS. apply sorted_app_mid in SS.
      eapply Forall_impl; [|exact SS]. cbv beta. intros r Hr.
      eapply bytes_lt_le_trans; eassumption.
Qed.

(* ------------------------------------------------------------------ *)
(* writer + reader *)

Lemma block_written : forall deflate inflate typ hdr size interval hs recs w file_hdr rest tbs,
  zlib_ok deflate inflate -> is_block_type typ = true -> (0 < hs)%nat ->
  N.of_nat size < 16777216 -> length file_hdr = hdr -> recs <> [] -> block_recs_ok typ hs recs ->
  bw_add_all (bw_new typ hdr size interval hs) recs = Ok (Some w) ->
  let raw := bw_finish deflate file_hdr w in
  exists b es rs, br_init inflate (raw ++ rest) hdr tbs hs = inr b /\
    br_typ b = typ /\ br_hdr b = hdr /\ br_hash b = hs /\
    br_full b = full_of typ tbs raw rest /\
    map e_rec es = recs /\ rinv hs b es rs /\
    (typ =? typ_log = false -> (length raw <= size)%nat).
Proof.
  intros deflate inflate typ hdr size interval hs recs w file_hdr rest tbs Z T Hs Hsz Hl Hne [Hok Hso] A raw.
  destruct (bw_add_all_inv hs recs _ [] w (winv_new typ hdr size interval hs) A) as (es & E & W & S).
  cbn [app] in W. destruct S as (St & Sh & Ss & _ & _). cbn [bw_new bw_typ bw_hdr bw_size] in St, Sh, Ss.
  destruct W as [Wh Wb Wl Wc Wr Wn Wf].
  assert (NE : es <> []) by (intros ->; apply Hne; symmetry; exact E).
  specialize (Wf NE). unfold bw_next in Wf. rewrite Sh, Ss in Wf.
  assert (RAW : raw = finished deflate typ file_hdr (bw_body w) (bw_restarts w)).
  { unfold raw. rewrite bw_finish_finished by congruence. rewrite St. reflexivity. }
  assert (SM : N.of_nat (length file_hdr + 4 + length (bw_body w) + 3 * length (bw_restarts w) + 2) < 16777216) by lia.
  pose proof (br_init_finished deflate inflate typ tbs hs file_hdr (bw_body w) (bw_restarts w) rest Z T SM Wn) as BI.
  cbv zeta in BI. rewrite <- RAW, Hl in BI.
  eexists. exists es, (bw_restarts w). split; [exact BI|].
  cbn [br_typ br_hdr br_hash br_full]. repeat (split; [reflexivity|]).
  split; [exact E|]. split.
  - constructor; cbn [br_typ br_hdr br_hash br_block br_restarts br_count].
    + exact Hs.
    + reflexivity.
    + eexists. split; [|rewrite Wb; reflexivity].
      rewrite !app_length, be24_length. cbn [length]. lia.
    + exact Wc.
    + rewrite <- E in Hok. rewrite Forall_map in Hok. exact Hok.
    + eexists; reflexivity.
    + reflexivity.
    + rewrite Sh in Wr. exact Wr.
    + rewrite <- Wb. lia.
  - intros TL. rewrite RAW. unfold finished. rewrite TL.
    rewrite !app_length, be24_length, rtable_length, be16_length. cbn [length]. lia.
Qed.

Theorem block_roundtrip : forall deflate inflate typ hdr size interval hs recs w file_hdr rest tbs,
  zlib_ok deflate inflate -> is_block_type typ = true -> (0 < interval)%nat -> (0 < hs)%nat ->
  N.of_nat size < 16777216 -> length file_hdr = hdr -> recs <> [] -> block_recs_ok typ hs recs ->
  bw_add_all (bw_new typ hdr size interval hs) recs = Ok (Some w) ->
  let raw := bw_finish deflate file_hdr w in
  exists b, br_init inflate (raw ++ rest) hdr tbs hs = inr b /\
    br_typ b = typ /\ br_hdr b = hdr /\ br_hash b = hs /\
    bi_all (S (length (br_block b))) b (br_start b) = Some (map (rec_read hs) recs) /\
    (* where the next block starts *)
    br_full b = (if typ =? typ_log then length raw
                 else if Nat.eqb tbs 0 then length raw
                 else if Nat.ltb (length raw) tbs && Nat.ltb (length raw) (length (raw ++ rest))
                         && negb (nth (length raw) (raw ++ rest) 0 =? 0)
                      then length raw else tbs) /\
    (typ =? typ_log = false -> (length raw <= size)%nat).
Proof.
  intros deflate inflate typ hdr size interval hs recs w file_hdr rest tbs Z T _ Hs Hsz Hl Hne Hok A raw.
  destruct (block_written deflate inflate typ hdr size interval hs recs w file_hdr rest tbs
              Z T Hs Hsz Hl Hne Hok A) as (b & es & rs & BI & B1 & B2 & B3 & B4 & E & RI & F).
  exists b. repeat (split; [assumption|]). split; [|split; [exact B4|exact F]].
  rewrite <- E. eapply rinv_all. exact RI.
Qed.

(* seek never fails, and the iterator lands just before the first record
   with key >= k *)
Theorem block_seek : forall deflate inflate typ hdr size interval hs recs w file_hdr rest tbs b k,
  zlib_ok deflate inflate -> is_block_type typ = true -> (0 < interval)%nat -> (0 < hs)%nat ->
  N.of_nat size < 16777216 -> length file_hdr = hdr -> recs <> [] -> block_recs_ok typ hs recs ->
  bw_add_all (bw_new typ hdr size interval hs) recs = Ok (Some w) ->
  br_init inflate (bw_finish deflate file_hdr w ++ rest) hdr tbs hs = inr b ->
  exists p, br_seek b k = Some p /\
    bi_all (S (length (br_block b))) b p = Some (map (rec_read hs) (seek_recs k recs)).
Proof.
  intros deflate inflate typ hdr size interval hs recs w file_hdr rest tbs b k Z T _ Hs Hsz Hl Hne Hok A BI.
  destruct (block_written deflate inflate typ hdr size interval hs recs w file_hdr rest tbs
              Z T Hs Hsz Hl Hne Hok A) as (b' & es & rs & BI' & _ & _ & _ & _ & E & RI & _).
  cbv zeta in BI'. rewrite BI in BI'. injection BI' as <-.
  rewrite <- E. eapply rinv_seek; [exact RI|]. rewrite E. apply Hok.
Qed.

(* ------------------------------------------------------------------ *)
(* the statements hold by computation on concrete blocks (and the stored
   codec satisfies zlib_ok) *)

Lemma sdeflate_ok : zlib_ok sdeflate sinflate.
Proof.
  intros x rest. unfold sdeflate. induction x as [|b t IH].
  - reflexivity.
  - cbn [flat_map app sinflate]. rewrite IH. cbn [length]. reflexivity.
Qed.

Definition mkref (n : bytes) (i : N) (v : ref_value) : record :=
  RecRef {| r_name := n; r_index := i; r_val := v |}.
Definition refs1 : list record :=
  [ mkref [97;97] 1 (RVal (repeat 1 20)); mkref [97;97;98] 2 RDel;
    mkref [97;98] 3 (RVal2 (repeat 2 20) (repeat 3 20)); mkref [98] 4 (RSym [97;97]);
    mkref [98;99] 5 (RVal (repeat 7 20)); mkref [99] 5 (RVal (repeat 7 20)) ].
Definition body1 : log_body :=
  {| lb_old := None; lb_new := Some (repeat 5 20); lb_name := [65]; lb_email := [66;67];
     lb_time := 1000; lb_tz := 65000; lb_msg := [77;10] |}.
Definition mklog (n : bytes) (i : N) (b : option log_body) : record :=
  RecLog {| l_name := n; l_index := i; l_body := b |}.
Definition logs1 : list record :=
  [ mklog [97] 5 (Some body1); mklog [97] 4 None; mklog [97;98] 9 (Some body1) ].
Definition objs1 : list record :=
  [ RecObj [1;2] [5;9]; RecObj [1;3] []; RecObj [2;0] [1;2;3;4;5;6;7;8;9] ].
Definition idxs1 : list record := [ RecIdx [1;2] 0; RecIdx [1;3] 700; RecIdx [2;0] 70000 ].

Fixpoint records_eqb (a b : list record) : bool :=
  match a, b with
  | [], [] => true
  | x :: a', y :: b' =>
      bytes_eqb (rec_key x) (rec_key y) && (rec_val_type x =? rec_val_type y) &&
      match rec_encode 20 x, rec_encode 20 y with Ok u, Ok v => bytes_eqb u v | _, _ => false end &&
      records_eqb a' b'
  | _, _ => false
  end.

(* the conclusions of block_roundtrip and block_seek, as a boolean *)
Definition check_block (typ : N) (recs : list record) (hdr size interval tbs : nat)
           (rest k : bytes) : bool :=
  match bw_add_all (bw_new typ hdr size interval 20) recs with
  | Ok (Some w) =>
      let raw := bw_finish sdeflate (repeat 9 hdr) w in
      match br_init sinflate (raw ++ rest) hdr tbs 20 with
      | inr b =>
          (br_typ b =? typ) && Nat.eqb (br_hdr b) hdr && Nat.eqb (br_hash b) 20 &&
          Nat.eqb (br_full b) (full_of typ tbs raw rest) &&
          match bi_all (S (length (br_block b))) b (br_start b) with
          | Some l => records_eqb l (map (rec_read 20) recs)
          | None => false
          end &&
          match br_seek b k with
          | Some p =>
              match bi_all (S (length (br_block b))) b p with
              | Some l => records_eqb l (map (rec_read 20) (seek_recs k recs))
              | None => false
              end
          | None => false
          end
      | inl _ => false
      end
  | _ => false
  end.

Example check_refs_a : check_block typ_ref refs1 24 256 2 256 [0;0;0] [97;98] = true.
Proof. vm_compute. reflexivity. Qed.
Example check_refs_b : check_block typ_ref refs1 24 256 2 256 [1;0;0] [98;97] = true.
Proof. vm_compute. reflexivity. Qed.
Example check_refs_c : check_block typ_ref refs1 0 4096 16 0 [1] [97] = true.
Proof. vm_compute. reflexivity. Qed.
Example check_refs_d : check_block typ_ref refs1 0 4096 1 100 [] [100] = true.
Proof. vm_compute. reflexivity. Qed.
Example check_logs_a : check_block typ_log logs1 0 4096 16 0 [1;2;3] (log_key_of [97] 4) = true.
Proof. vm_compute. reflexivity. Qed.
Example check_logs_b : check_block typ_log logs1 24 4096 2 300 [] (log_key_of [97] 3) = true.
Proof. vm_compute. reflexivity. Qed.
Example check_objs : check_block typ_obj objs1 0 4096 16 0 [] [1;3] = true.
Proof. vm_compute. reflexivity. Qed.
Example check_idxs : check_block typ_idx idxs1 0 4096 16 0 [] [1;3;0] = true.
Proof. vm_compute. reflexivity. Qed.

(* the hypotheses of the theorems are satisfiable: a concrete instance *)
Lemma refs1_ok : block_recs_ok typ_ref 20 refs1.
Proof.
  split.
  - unfold refs1, mkref. repeat constructor; cbn; try lia; try discriminate.
  - unfold refs1, mkref. repeat constructor.
Qed.

Example roundtrip_instance :
  exists w, bw_add_all (bw_new typ_ref 24 256 2 20) refs1 = Ok (Some w) /\
    exists b, br_init sinflate (bw_finish sdeflate (repeat 9 24) w ++ [0;0;0]) 24 256 20 = inr b /\
      bi_all (S (length (br_block b))) b (br_start b) = Some refs1 /\
      exists p, br_seek b [98] = Some p /\
        bi_all (S (length (br_block b))) b p = Some (skipn 3 refs1).
Proof.
  destruct (bw_add_all (bw_new typ_ref 24 256 2 20) refs1) as [[w|]| | |] eqn:A;
    try (vm_compute in A; discriminate).
  exists w. split; [reflexivity|].
  assert (NE : refs1 <> []) by discriminate.
  assert (SZ : N.of_nat 256 < 16777216) by (vm_compute; reflexivity).
  destruct (block_roundtrip sdeflate sinflate typ_ref 24 256 2 20 refs1 w (repeat 9 24) [0;0;0] 256
              sdeflate_ok eq_refl ltac:(lia) ltac:(lia) SZ eq_refl NE refs1_ok A)
    as (b & BI & _ & _ & _ & ALL & _).
  exists b. split; [exact BI|]. split; [exact ALL|].
  destruct (block_seek sdeflate sinflate typ_ref 24 256 2 20 refs1 w (repeat 9 24) [0;0;0] 256 b [98]
              sdeflate_ok eq_refl ltac:(lia) ltac:(lia) SZ eq_refl NE refs1_ok A BI) as (p & P1 & P2).
  exists p. split; [exact P1|exact P2].
Qed.

Print Assumptions bw_add_fits.
Print Assumptions bw_restarts_shape.
Print Assumptions block_roundtrip.
Print Assumptions block_seek.
Print Assumptions roundtrip_instance.

(* why block sizes must stay below 2^24: the block length field has 3 bytes *)
Example be24_wraps : be24 16777216 = [0; 0; 0].
Proof. vm_compute. reflexivity. Qed.
