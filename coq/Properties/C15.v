(* C15 -- the Go and C implementations agree on tables.  The Coq development
   cannot contain the C code; it contributes the judge of every C-written file
   (Model/SpecDecoder.v) and the reader model that says what the Go reader
   returns on it.  See Properties/C14.v for the judge's lemmas. *)
From Coq Require Import List NArith.
From RT Require Import Model.Bytes Model.SpecDecoder Proofs.SpecProofs.
Import ListNotations.
Local Open Scope N_scope.

Theorem C15_judge_envelope : forall inflate data t,
  spec_decode inflate data = inr t ->
  firstn 4 data = [82; 69; 70; 84] /\ (sp_version t = 1 \/ sp_version t = 2) /\ (92 <= length data)%nat.
Proof. exact spec_decode_envelope. Qed.
Print Assumptions C15_judge_envelope.
