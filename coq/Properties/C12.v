(* C12 -- live ref names never conflict.  Statements only. *)
From Coq Require Import List NArith Arith Bool Sorted.
From RT Require Import Model.Bytes Model.Refname Proofs.RefnameProofs.
Import ListNotations.
Local Open Scope N_scope.

(* the boolean oracle evaluated on the implementation's states is the
   proposition of the theorems *)
Theorem C12_oracle_spec : forall names, conflict_free_b names = true <-> conflict_free names.
Proof. exact conflict_free_b_spec. Qed.
Print Assumptions C12_oracle_spec.

(* a transaction is rejected exactly when committing it would create a conflict *)
Theorem C12_sound_complete : forall view t,
  asc view -> conflict_free view -> tx_ok t ->
  (validate_addition view t = true <-> conflict_free (apply_tx view t)).
Proof. exact validate_sound_complete. Qed.
Print Assumptions C12_sound_complete.

(* after any history of transactions submitted through Add with name checking *)
Theorem C12_invariant : forall txs view,
  asc view -> conflict_free view -> Forall tx_ok txs ->
  asc (fold_left add_checked txs view) /\ conflict_free (fold_left add_checked txs view).
Proof. exact add_checked_invariant. Qed.
Print Assumptions C12_invariant.

(* multi-table Addition: each table validated against the view that includes
   the Addition's earlier tables *)
Theorem C12_addition : forall ts view view',
  asc view -> conflict_free view -> Forall tx_ok ts ->
  addition_seq view ts = Some view' -> asc view' /\ conflict_free view'.
Proof. exact addition_seq_invariant. Qed.
Print Assumptions C12_addition.

(* a legal transaction that deletes a and creates a/b together is never refused *)
Theorem C12_delete_and_create : forall view a b,
  asc view -> conflict_free view -> In a view ->
  validate_refname (a ++ [slash] ++ b) = true ->
  tx_ok [(a, true); (a ++ [slash] ++ b, false)] /\
  validate_addition view [(a, true); (a ++ [slash] ++ b, false)] = true.
Proof. exact delete_and_create_accepted_strong. Qed.
Print Assumptions C12_delete_and_create.

(* regression statement about the pinned multi-table Addition (every table
   checked against the OLD view only): it can commit a and a/b together *)
Theorem C12_addition_pinned_refuted : exists view ts,
  asc view /\ conflict_free view /\ Forall tx_ok ts /\ ~ conflict_free (addition_pinned view ts).
Proof. exact addition_pinned_refuted. Qed.
Print Assumptions C12_addition_pinned_refuted.

(* non-vacuity *)
Example C12_ex : let a := [97] in let ab := [97; 47; 98] in
  validate_addition [a] [(a, true); (ab, false)] = true /\
  validate_addition [a] [(ab, false)] = false /\
  apply_tx [a] [(a, true); (ab, false)] = [ab] /\ conflict_free_b [ab] = true.
Proof. vm_compute. auto. Qed.
