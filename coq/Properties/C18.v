(* C18 -- reading damaged or hostile table bytes fails cleanly.  Statements only.
   [safe x]: x is a value or an error return -- not a Go panic (Panic) and not
   an exhausted loop bound (Fuel = the loop might not terminate).  [inflate]
   is an arbitrary function: for hostile input zlib may return anything. *)
From Coq Require Import List NArith Arith Bool.
From RT Require Import Model.Bytes Model.Result Model.Block Model.Reader Proofs.ReaderSafety.
Import ListNotations.
Local Open Scope N_scope.

(* opening arbitrary bytes *)
Theorem C18_open : forall src, safe (rd_open src).
Proof. exact rd_open_safe. Qed.
Print Assumptions C18_open.

(* every query on every byte string that opens *)
Theorem C18_seek_ref : forall inflate src r name,
  rd_open src = Ok r -> N.of_nat (length src) < 2 ^ 31 -> safe (seek_ref inflate r name).
Proof. exact seek_ref_safe. Qed.
Print Assumptions C18_seek_ref.

Theorem C18_seek_log : forall inflate src r name idx,
  rd_open src = Ok r -> N.of_nat (length src) < 2 ^ 31 -> safe (seek_log inflate r name idx).
Proof. exact seek_log_safe. Qed.
Print Assumptions C18_seek_log.

Theorem C18_refs_for : forall inflate src r oid,
  rd_open src = Ok r -> N.of_nat (length src) < 2 ^ 31 -> safe (refs_for inflate r oid).
Proof. exact refs_for_safe. Qed.
Print Assumptions C18_refs_for.

Theorem C18_scans : forall inflate src r,
  rd_open src = Ok r -> N.of_nat (length src) < 2 ^ 31 ->
  safe (scan_refs inflate r) /\ safe (scan_logs inflate r).
Proof. intros; split; [eapply scan_refs_safe|eapply scan_logs_safe]; eassumption. Qed.
Print Assumptions C18_scans.

(* non-vacuity: the index-cycle table found while proving termination (two
   index blocks pointing at each other) opens, and every query on it is an
   error, not a hang; on the tree before the last fix: commit it looped. *)
Definition cyc_header : bytes := Writer.magic ++ [1; 0; 0; 0] ++ be64 0 ++ be64 0.
Definition cyc_foot : bytes := cyc_header ++ be64 42 ++ be64 961 ++ be64 42 ++ be64 30 ++ be64 42.
Definition cyc_src : bytes :=
  cyc_header ++ [114; 0; 0; 30; 0; 0]
  ++ [105; 0; 0; 12; 0; 0; 0; 0; 0; 4; 0; 1]
  ++ [105; 0; 0; 13; 0; 8; 122; 30; 0; 0; 4; 0; 1]
  ++ cyc_foot ++ be32 (Crc32.crc32 cyc_foot).
Example C18_ex : forall inflate,
  (exists r, rd_open cyc_src = Ok r /\ seek_ref inflate r [109] = Err /\ seek_log inflate r [109] 0 = Err).
Proof. intros. eexists. split; [vm_compute; reflexivity|]. split; vm_compute; reflexivity. Qed.
