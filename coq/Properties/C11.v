(* C11 -- RefsFor returns exactly the live refs that point at an object.
   Statements only.  Proved so far: the stack level (Merged.RefsFor with its
   double check) over decoded tables, for all stacks and all object ids. *)
From Coq Require Import List NArith Arith Bool Sorted.
From RT Require Import Model.Bytes Model.Records Model.Merge Model.Overlay Model.Compact
  Proofs.MergeProofs Proofs.CompactProofs.
Import ListNotations.

(* through the stack's view: exactly the live refs whose value or peeled value
   is oid, each once, in name order, with the fields a seek of that name
   returns -- never a ref deleted or re-pointed in a newer table; through the
   raw view: the same over the raw overlay *)
Theorem C11_merged : forall ts oid, tables_sorted ts ->
  merged_refs_for true ts oid = filter (points_to oid) (stack_refs ts) /\
  merged_refs_for false ts oid = filter (points_to oid) (overlay ref_key (map t_refs ts)).
Proof. exact merged_refs_for_spec. Qed.
Print Assumptions C11_merged.

Local Open Scope N_scope.
Example C11_ex :
  let r n i v := {| r_name := n; r_index := i; r_val := v |} in
  let t mn mx rs := {| t_min := mn; t_max := mx; t_sha256 := false; t_refs := rs; t_logs := [] |} in
  let ts := [t 1 1 [r [1] 1 (RVal [7]); r [2] 1 (RVal [7]); r [3] 1 (RVal2 [8] [7])]; t 2 2 [r [1] 2 RDel; r [2] 2 (RVal [9])]] in
  tables_sorted ts /\ merged_refs_for true ts [7] = [r [3] 1 (RVal2 [8] [7])].
Proof. cbv zeta. split; [split; repeat constructor|vm_compute; reflexivity]. Qed.
