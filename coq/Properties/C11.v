(* C11 -- RefsFor returns exactly the live refs that point at an object.
   Statements only.  Proved so far: the stack level (Merged.RefsFor with its
   double check) over decoded tables, for all stacks and all object ids. *)
From Coq Require Import List NArith Arith Bool Sorted.
From RT Require Import Model.Bytes Model.Records Model.Merge Model.Overlay Model.Compact
  Proofs.MergeProofs Proofs.CompactProofs.
Import ListNotations.

(* through the stack's view: exactly the live refs whose value or peeled value
   is oid, each once, in name order, with the fields a seek of that name
   returns -- never a ref deleted or re-pointed in a newer table; through the
   raw view: the same over the raw overlay *)
Theorem C11_merged : forall ts oid, tables_sorted ts ->
  merged_refs_for true ts oid = filter (points_to oid) (stack_refs ts) /\
  merged_refs_for false ts oid = filter (points_to oid) (overlay ref_key (map t_refs ts)).
Proof. exact merged_refs_for_spec. Qed.
Print Assumptions C11_merged.

Local Open Scope N_scope.
Example C11_ex :
  let r n i v := {| r_name := n; r_index := i; r_val := v |} in
  let t mn mx rs := {| t_min := mn; t_max := mx; t_sha256 := false; t_refs := rs; t_logs := [] |} in
  let ts := [t 1 1 [r [1] 1 (RVal [7]); r [2] 1 (RVal [7]); r [3] 1 (RVal2 [8] [7])]; t 2 2 [r [1] 2 RDel; r [2] 2 (RVal [9])]] in
  tables_sorted ts /\ merged_refs_for true ts [7] = [r [3] 1 (RVal2 [8] [7])].
Proof. cbv zeta. split; [split; repeat constructor|vm_compute; reflexivity]. Qed.

(* ---- single tables: the whole of C11's table part ---- *)
From RT Require Import Model.Result Model.RecCodec Model.Block Model.Writer Model.Reader
  Proofs.BlockProofs Proofs.TableProofs Proofs.RefsForProofs.
Local Open Scope N_scope.

(* For every table the writer produces -- with an object index, without one
   (few ref blocks, SkipIndexObjects, abbreviated id of 32 bytes), or with an
   index whose position lists were dropped because they did not fit -- and for
   EVERY object id (occurring, absent, sharing the abbreviated prefix with an
   occurring one, shorter than the abbreviation): RefsFor(oid) returns exactly
   the refs whose value or peeled value equals oid, each once, in name order,
   with the fields a scan returns (absolute update index). *)
Theorem C11_table : forall deflate inflate,
  zlib_ok deflate inflate ->
  (forall x n, (n < length (deflate x))%nat -> inflate (firstn n (deflate x)) = ITrunc) ->
  (forall x, N.of_nat (length x) < 16777216 -> N.of_nat (length (deflate x)) < 1073741824) ->
  forall cfg min max refs logs data,
  cfg_ok cfg -> max < two64 -> min <= max -> refs_ok cfg min max refs -> logs_ok cfg logs ->
  N.of_nat (length data) < two59 ->
  write_table deflate cfg min max refs logs = Ok (false, data) ->
  exists r, rd_open data = Ok r /\
    forall oid, refs_for inflate r oid = Ok (map RecRef (filter (points_to oid) refs)).
Proof. exact table_refs_for_all. Qed.
Print Assumptions C11_table.

Definition C11_nonvacuous := table_refs_for_stored.
