(* C13 -- reflog expiry removes exactly the expired entries.  Statements only. *)
From Coq Require Import List NArith Arith Bool Sorted.
From RT Require Import Proofs.BlockProofs Proofs.TableProofs.
From RT Require Import Model.Bytes Model.Result Model.Records Model.Block Model.Merge Model.Overlay Model.Compact
  Model.Writer Model.StackSeq Proofs.MergeProofs Proofs.CompactProofs Proofs.ExpiryProofs Proofs.ExpiryCorollaries Proofs.StackSeqProofs.
Import ListNotations.
Local Open Scope N_scope.

(* CompactAll with an expiry configuration: the reflog seen through the stack
   afterwards is exactly the old one minus the entries failing keep_log, every
   kept entry unchanged; refs are untouched *)
Theorem C13_exact : forall e ts, tables_sorted ts -> ts <> [] ->
  stack_logs (compact_range 0 (length ts - 1) (Some e) ts) = filter (keep_log (Some e)) (stack_logs ts) /\
  stack_refs (compact_range 0 (length ts - 1) (Some e) ts) = stack_refs ts.
Proof. exact expiry_exact. Qed.
Print Assumptions C13_exact.

(* keep_log is the documented rule: an entry is removed iff its time is older
   than the (set) time limit or its update index lies outside the (set) window *)
Theorem C13_keep_rule : forall e l b, l_body l = Some b ->
  keep_log (Some e) l = true <->
  (e_time e = 0 \/ e_time e <= lb_time b) /\
  (e_max_index e = 0 \/ l_index l <= e_max_index e) /\
  (e_min_index e = 0 \/ e_min_index e <= l_index l).
Proof. exact keep_log_rule. Qed.
Print Assumptions C13_keep_rule.

(* every limit unset ("each limit unset" of the quantifier): nothing is removed *)
Theorem C13_unset_identity : forall ts, tables_sorted ts -> ts <> [] ->
  stack_logs (compact_range 0 (length ts - 1) (Some {| e_time := 0; e_max_index := 0; e_min_index := 0 |}) ts) = stack_logs ts /\
  stack_refs (compact_range 0 (length ts - 1) (Some {| e_time := 0; e_max_index := 0; e_min_index := 0 |}) ts) = stack_refs ts.
Proof. exact expiry_unset_identity. Qed.
Print Assumptions C13_unset_identity.

(* two expiries in a row: the second filters what the first left, refs still untouched; hence
   (C13_idempotent, C13_commute) repeating a configuration removes nothing more and the order of
   two configurations does not matter *)
Theorem C13_twice : forall e1 e2 ts, tables_sorted ts -> ts <> [] ->
  let ts1 := compact_range 0 (length ts - 1) (Some e1) ts in
  ts1 <> [] ->
  stack_logs (compact_range 0 (length ts1 - 1) (Some e2) ts1) =
    filter (keep_log (Some e2)) (filter (keep_log (Some e1)) (stack_logs ts)) /\
  stack_refs (compact_range 0 (length ts1 - 1) (Some e2) ts1) = stack_refs ts.
Proof. exact expiry_twice. Qed.
Print Assumptions C13_twice.

Theorem C13_idempotent : forall e L,
  filter (keep_log (Some e)) (filter (keep_log (Some e)) L) = filter (keep_log (Some e)) L.
Proof. exact expiry_idempotent_view. Qed.
Print Assumptions C13_idempotent.

Theorem C13_commute : forall e1 e2 L,
  filter (keep_log (Some e2)) (filter (keep_log (Some e1)) L) =
  filter (keep_log (Some e1)) (filter (keep_log (Some e2)) L).
Proof. exact expiry_commute_view. Qed.
Print Assumptions C13_commute.

(* byte level: CompactAll(expiry) as the Go code composes it (merge, filter, write the bytes,
   read them back; Model/StackSeq.v, tied to the real Stack on every run) *)
Theorem C13_bytes_exact : forall deflate inflate,
  zlib_ok deflate inflate ->
  (forall x n, (n < length (deflate x))%nat -> inflate (firstn n (deflate x)) = ITrunc) ->
  (forall x, N.of_nat (length x) < 16777216 -> N.of_nat (length (deflate x)) < 1073741824) ->
  forall cfg e st st' s,
  cfg_ok cfg -> stack_wf cfg st -> compact_all_size_ok deflate cfg (Some e) st ->
  stack_compact_all deflate inflate cfg (Some e) st = (st', s) ->
  stack_wf cfg st' /\ s <> SRejected /\ (s = SErr -> st' = st) /\
  (s = SOk -> stack_refs (tables st') = stack_refs (tables st) /\
              stack_logs (tables st') = filter (keep_log (Some e)) (stack_logs (tables st))).
Proof. exact stack_expire_spec. Qed.
Print Assumptions C13_bytes_exact.

Example C13_ex :
  let lg n i tm := {| l_name := n; l_index := i; l_body := Some {| lb_old := None; lb_new := None; lb_name := []; lb_email := []; lb_time := tm; lb_tz := 0; lb_msg := [] |} |} in
  let t mn mx ls := {| t_min := mn; t_max := mx; t_sha256 := false; t_refs := []; t_logs := ls |} in
  let ts := [t 1 2 [lg [1] 2 50; lg [1] 1 10]; t 3 3 [lg [1] 3 60; {| l_name := [1]; l_index := 1; l_body := None |}]] in
  tables_sorted ts /\
  stack_logs ts = [lg [1] 3 60; lg [1] 2 50] /\
  stack_logs (compact_range 0 1 (Some {| e_time := 55; e_max_index := 0; e_min_index := 0 |}) ts) = [lg [1] 3 60].
Proof.
  cbv zeta. split; [split; repeat constructor|]. vm_compute. auto.
Qed.
