(* C01 -- a written table reads back exactly the records that were written.
   Statements only.  Proved so far: every codec layer up to whole blocks, for
   all inputs; the table-level statement is in Properties/C01Table.v once its
   proof (Proofs/TableProofs.v) is in the build. *)
From Coq Require Import List NArith Arith Bool Sorted.
From RT Require Import Model.Bytes Model.Result Model.Varint Model.KeyCodec Model.Records Model.RecCodec
  Model.Block Proofs.CodecProofs Proofs.BlockProofs.
Import ListNotations.
Local Open Scope N_scope.

(* offset varints: every uint64 *)
Theorem C01_varint : forall v rest, v < two64 ->
  get_varint (put_varint v ++ rest) = Some (v, length (put_varint v)).
Proof. exact get_put_varint. Qed.
Print Assumptions C01_varint.

(* prefix-compressed keys with the 3-bit value type *)
Theorem C01_key : forall prev key extra rest,
  extra < 8 -> N.of_nat (length key) < 2 ^ 60 ->
  let '(kb, restart) := encode_key prev key extra in
  decode_key (kb ++ rest) prev = Some (length kb, key, extra) /\
  (restart = true <-> common_prefix prev key = 0%nat).
Proof. exact decode_encode_key. Qed.
Print Assumptions C01_key.

(* the four record types *)
Theorem C01_ref_record : forall hs r rest vb, (0 < hs)%nat -> ref_ok hs r ->
  rec_encode hs (RecRef r) = Ok vb ->
  rec_decode typ_ref hs (r_name r) (rec_val_type (RecRef r)) (vb ++ rest) = Some (length vb, RecRef r).
Proof. exact decode_encode_ref. Qed.
Print Assumptions C01_ref_record.

(* reflog records read back with absent hashes as all-zero (documented), everything else unchanged *)
Theorem C01_log_record : forall hs l rest vb, log_ok hs l ->
  rec_encode hs (RecLog l) = Ok vb ->
  rec_decode typ_log hs (log_key l) (rec_val_type (RecLog l)) (vb ++ rest) = Some (length vb, RecLog (fill_log hs l)).
Proof. exact decode_encode_log. Qed.
Print Assumptions C01_log_record.

Theorem C01_obj_record : forall hs k offs rest vb,
  Forall (fun o => o < two64) offs -> N.of_nat (length offs) < two64 ->
  rec_encode hs (RecObj k offs) = Ok vb ->
  rec_decode typ_obj hs k (rec_val_type (RecObj k offs)) (vb ++ rest) = Some (length vb, RecObj k offs).
Proof. exact decode_encode_obj_gen. Qed.
Print Assumptions C01_obj_record.

Theorem C01_idx_record : forall hs k off rest vb, off < two64 ->
  rec_encode hs (RecIdx k off) = Ok vb -> rec_decode typ_idx hs k 0 (vb ++ rest) = Some (length vb, RecIdx k off).
Proof. exact decode_encode_idx. Qed.
Print Assumptions C01_idx_record.

(* whole blocks: any list of records the block writer accepted -- any block
   size, restart interval, hash size, first block or not, ref / log (zlib) /
   obj / index -- followed by ANY bytes, is read back record for record, and the
   reader knows where the next block starts *)
Theorem C01_block : forall deflate inflate typ hdr size interval hs recs w file_hdr rest tbs,
  zlib_ok deflate inflate -> is_block_type typ = true -> (0 < interval)%nat -> (0 < hs)%nat ->
  N.of_nat size < 16777216 -> length file_hdr = hdr -> recs <> [] -> block_recs_ok typ hs recs ->
  bw_add_all (bw_new typ hdr size interval hs) recs = Ok (Some w) ->
  let raw := bw_finish deflate file_hdr w in
  exists b, br_init inflate (raw ++ rest) hdr tbs hs = inr b /\
    br_typ b = typ /\ br_hdr b = hdr /\ br_hash b = hs /\
    bi_all (S (length (br_block b))) b (br_start b) = Some (map (rec_read hs) recs) /\
    br_full b = (if typ =? typ_log then length raw else if Nat.eqb tbs 0 then length raw
                 else if Nat.ltb (length raw) tbs && Nat.ltb (length raw) (length (raw ++ rest))
                         && negb (nth (length raw) (raw ++ rest) 0 =? 0) then length raw else tbs) /\
    (typ =? typ_log = false -> (length raw <= size)%nat).
Proof. exact block_roundtrip. Qed.
Print Assumptions C01_block.

(* ---- the table level: the whole of C01 ---- *)
From RT Require Import Model.Writer Model.Reader Proofs.WriterGuard Proofs.TableProofs.

(* For any sorted set of ref records and reflog records in the writer's
   documented domain, under any write configuration (block size, restart
   interval, padded or unaligned, with or without the object index, both hash
   sizes, exact or normalised messages) and any limits: if the writer accepts
   them, opening the produced bytes and scanning returns exactly those refs and
   exactly those log entries (absent hashes as zeros, messages normalised), in
   key order -- whatever sections, index levels and object index the table has.
   zlib enters through three hypotheses about the oracle pair (deflate, inflate):
   round trip with exact stream length, a truncated stream reports truncation,
   deflate does not blow a block up beyond 2^30 bytes. *)
Theorem C01_roundtrip : forall deflate inflate,
  zlib_ok deflate inflate ->
  (forall x n, (n < length (deflate x))%nat -> inflate (firstn n (deflate x)) = ITrunc) ->
  (forall x, N.of_nat (length x) < 16777216 -> N.of_nat (length (deflate x)) < 1073741824) ->
  forall cfg min max refs logs data,
  cfg_ok cfg -> max < two64 -> min <= max -> refs_ok cfg min max refs -> logs_ok cfg logs ->
  N.of_nat (length data) < two64 ->
  write_table deflate cfg min max refs logs = Ok (false, data) ->
  exists r, rd_open data = Ok r /\ rd_min r = min /\ rd_max r = max /\ rd_sha256 r = c_sha256 cfg /\
    scan_refs inflate r = Ok (map RecRef refs) /\
    exists logs', read_logs cfg logs = Some logs' /\ scan_logs inflate r = Ok (map RecLog logs').
Proof. exact table_roundtrip. Qed.
Print Assumptions C01_roundtrip.

(* the hypotheses are jointly satisfiable: a concrete codec (a "stored" stream
   format defined in Gallina) meets all three, so the theorem is not vacuous *)
Definition C01_nonvacuous := table_roundtrip_stored.
Print Assumptions C01_nonvacuous.

(* "accepts" means accepts: once every AddRef / AddLog has succeeded, writing the index of
   the ref section and of the log section cannot hit the writer's "fail on fresh block"
   panic (the pinned writer accepted records whose index entry could not fit a block and
   panicked in Close; fix W7 + model guard index_entry_fits).  index_room: the table stays
   below 2^64 bytes, so that a block position needs at most the 10 bytes the guard reserves *)
Theorem C01_index_emission_never_panics : forall deflate cfg mn mx refs logs st0 st1 st2,
  w_new cfg = Ok st0 -> add_refs deflate (set_limits st0 mn mx) refs = Ok st1 ->
  (index_room deflate st1 -> finish_section deflate st1 <> Panic site_idx_fresh) /\
  (add_logs deflate st1 logs = Ok st2 -> index_room deflate st2 ->
     finish_section deflate st2 <> Panic site_idx_fresh).
Proof.
  intros deflate cfg mn mx refs logs st0 st1 st2 HN HA. split.
  - exact (ref_section_index_no_panic deflate cfg mn mx refs st0 st1 HN HA).
  - intros HL. exact (log_section_index_no_panic deflate cfg mn mx refs logs st0 st1 st2 HN HA HL).
Qed.
Print Assumptions C01_index_emission_never_panics.
