(* C04 -- the stack is a linearizable transactional store.  Statements only.
   [trace_of] = the observable trace of the protocol model (Model/StackProto.v)
   for any initial directory, any handles (each configured with either hash
   type, whatever the hash type of the directory: [scripts] pairs a handle's
   hash type with its script), any scripts, any schedule (interleaving at the
   granularity of single file-system operations, crashes included), any table
   sizes (auto-compaction decisions) and any bound on reload retries.
   [c04_ok] (Model/StackTrace.v): after EVERY file-system operation the
   transactions held by the tables that tables.list names, in list order, are
   exactly the initial ones followed by the committed ones in commit order
   (nothing lost, duplicated, reordered or altered by additions, compactions,
   reloads, Close); Add returns success exactly when its transaction was
   committed during the call; the only failures are lock contention and
   rejection of the transaction's own content. *)
From Coq Require Import List NArith Arith Bool.
From RT Require Import Model.StackTrace Model.StackProto Proofs.StackInvProofs.
Import ListNotations.

Theorem C04_linearizable : forall size_oracle attempts tabs (scripts : list (bool * list apiop)) sched,
  init_ok tabs ->
  c04_ok (trace_of size_oracle attempts tabs scripts sched) = true.
Proof. exact c04_all_traces. Qed.
Print Assumptions C04_linearizable.

(* non-vacuity: the schedule on which the pinned tree lost an update (a
   compaction that released the list lock, an Add committing meanwhile, the
   compaction then committing) run through the model *)
Local Open Scope N_scope.
Definition c04_tabs : list (nat * tfile) :=
  [(0%nat, {| tf_min := 1; tf_max := 1; tf_txs := [100%nat]; tf_size := 100; tf_hash := false |});
   (1%nat, {| tf_min := 2; tf_max := 2; tf_txs := [101%nat]; tf_size := 100; tf_hash := false |})].
Definition c04_sched : list sched_item :=
  (* h0: open, then CompactAll up to the point where it has released the list lock and made its temp file *)
  map (fun _ => Step 0 None) (seq 0 10) ++
  (* h1: open and a complete Add *)
  map (fun _ => Step 1 None) (seq 0 16) ++
  (* h0 finishes its compaction *)
  map (fun _ => Step 0 None) (seq 0 20).
Example C04_ex :
  let tr := trace_of (fun _ => 100) 50 c04_tabs [(false, [AOpen; ACompactAll]); (false, [AOpen; AAdd 7 false; ARead])] c04_sched in
  c04_ok tr = true /\
  existsb (fun e => match e with ERet 1 ARead (RView txs _) => list_nat_eqb txs [100; 101; 7]%nat | _ => false end) tr = true /\
  existsb (fun e => match e with ERet 0 ACompactAll ROk => true | _ => false end) tr = true.
Proof. vm_compute. auto. Qed.

(* non-vacuity for the operations added to the model: a two-table addition that
   commits, one that is refused (the second table claims the update index of
   the first) and takes its first table back, a compaction of a range through a
   stale handle, and a Clean *)
Example C04_ex_multi :
  let sched := map (fun _ => Step 0 None) (seq 0 40) ++ map (fun _ => Step 1 None) (seq 0 40) ++
               map (fun _ => Step 0 None) (seq 0 40) in
  let tr := trace_of (fun _ => 100) 50 c04_tabs
              [(false, [AOpen; AAddMulti 7 false; ARead; ACompact 1 3; ARead]);
               (false, [AOpen; AAddMulti 8 true; AAddMulti 9 false; AClean; ARead])] sched in
  c04_ok tr = true /\
  existsb (fun e => match e with ERet 0 (AAddMulti 7 false) ROk => true | _ => false end) tr = true /\
  existsb (fun e => match e with ERet 1 (AAddMulti 8 true) RLockFailure => true | _ => false end) tr = true /\
  existsb (fun e => match e with ERet 1 ARead (RView txs _) => list_nat_eqb txs [100; 101; 7; 9]%nat | _ => false end) tr = true /\
  existsb (fun e => match e with ERet 0 (ACompact 1 3) ROk => true | _ => false end) tr = true /\
  existsb (fun e => match e with ERet 1 AClean ROk => true | _ => false end) tr = true.
Proof. vm_compute. repeat split. Qed.
