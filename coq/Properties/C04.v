(* C04 placeholder: statements follow with Model/StackProto.v *)
From RT Require Import Model.StackTrace.
