(* C02 -- seeking lands on the first record at or after the requested key.
   Statements only.  Proved so far: the block level (binary search over the
   restart table + linear scan) for all blocks and all keys. *)
From Coq Require Import List NArith Arith Bool Sorted.
From RT Require Import Model.Bytes Model.Result Model.Records Model.RecCodec Model.Block
  Proofs.CodecProofs Proofs.BlockProofs.
Import ListNotations.
Local Open Scope N_scope.

(* within any block the writer produced, for EVERY key (present, absent, a
   prefix, before the first, after the last): the seek never fails and the
   iteration from the position it returns yields exactly the records >= key *)
Theorem C02_block_seek : forall deflate inflate typ hdr size interval hs recs w file_hdr rest tbs b k,
  zlib_ok deflate inflate -> is_block_type typ = true -> (0 < interval)%nat -> (0 < hs)%nat ->
  N.of_nat size < 16777216 -> length file_hdr = hdr -> recs <> [] -> block_recs_ok typ hs recs ->
  bw_add_all (bw_new typ hdr size interval hs) recs = Ok (Some w) ->
  br_init inflate (bw_finish deflate file_hdr w ++ rest) hdr tbs hs = inr b ->
  exists p, br_seek b k = Some p /\
    bi_all (S (length (br_block b))) b p = Some (map (rec_read hs) (seek_recs k recs)).
Proof. exact block_seek. Qed.
Print Assumptions C02_block_seek.

(* entries of one ref come newest first: the log key order *)
Theorem C02_log_order : forall n i1 i2, i1 < two64 -> i2 < two64 -> i2 < i1 ->
  bytes_ltb (log_key_of n i1) (log_key_of n i2) = true.
Proof. exact log_key_same_name_order. Qed.
Print Assumptions C02_log_order.

Theorem C02_log_key_injective : forall n1 i1 n2 i2, i1 < two64 -> i2 < two64 ->
  log_key_of n1 i1 = log_key_of n2 i2 -> n1 = n2 /\ i1 = i2.
Proof. exact log_key_of_inj. Qed.
Print Assumptions C02_log_key_injective.

(* ---- the table level: the whole of C02 ---- *)
From RT Require Import Model.Writer Model.Reader Proofs.TableProofs Proofs.SeekProofs Proofs.ReadOneProofs Proofs.LogKeyOrder.

(* For every table the writer produces -- no index, one or several index
   levels, a multi-block top level, any block size / padding / restart
   interval -- and for EVERY ref name k (present, absent, a prefix of a name,
   the empty name, beyond the last): SeekRef(k) followed by iteration yields
   exactly the records of a full scan whose name is >= k; it never fails. *)
Theorem C02_seek_ref : forall deflate inflate,
  zlib_ok deflate inflate ->
  (forall x n, (n < length (deflate x))%nat -> inflate (firstn n (deflate x)) = ITrunc) ->
  (forall x, N.of_nat (length x) < 16777216 -> N.of_nat (length (deflate x)) < 1073741824) ->
  forall cfg min max refs logs data,
  cfg_ok cfg -> max < two64 -> min <= max -> refs_ok cfg min max refs -> logs_ok cfg logs ->
  N.of_nat (length data) < two64 ->
  write_table deflate cfg min max refs logs = Ok (false, data) ->
  exists r, rd_open data = Ok r /\
    forall k, seek_ref inflate r k = Ok (map RecRef (seek_refs k refs)).
Proof. exact table_seek_ref. Qed.
Print Assumptions C02_seek_ref.

(* SeekLog(name, u): exactly the scan suffix from the first entry whose key is
   >= (name, u) -- entries of one ref come newest first, so that is the newest
   entry of that ref with update index <= u -- for every name and every u *)
Theorem C02_seek_log : forall deflate inflate,
  zlib_ok deflate inflate ->
  (forall x n, (n < length (deflate x))%nat -> inflate (firstn n (deflate x)) = ITrunc) ->
  (forall x, N.of_nat (length x) < 16777216 -> N.of_nat (length (deflate x)) < 1073741824) ->
  forall cfg min max refs logs data logs',
  cfg_ok cfg -> max < two64 -> min <= max -> refs_ok cfg min max refs -> logs_ok cfg logs ->
  N.of_nat (length data) < two64 ->
  write_table deflate cfg min max refs logs = Ok (false, data) ->
  read_logs cfg logs = Some logs' ->
  exists r, rd_open data = Ok r /\
    forall name idx,
      seek_log inflate r name idx = Ok (map RecLog (seek_logs (log_key_of name idx) logs')).
Proof. exact table_seek_log. Qed.
Print Assumptions C02_seek_log.

(* the point lookups of reftable.go (ReadRef / ReadLogAt = seek, take the first record,
   compare its name): the record carrying the name, resp. the newest entry of the ref at or
   below the update index -- or nothing *)
Theorem C02_read_ref : forall deflate inflate,
  zlib_ok deflate inflate ->
  (forall x n, (n < length (deflate x))%nat -> inflate (firstn n (deflate x)) = ITrunc) ->
  (forall x, N.of_nat (length x) < 16777216 -> N.of_nat (length (deflate x)) < 1073741824) ->
  forall cfg min max refs logs data,
  cfg_ok cfg -> max < two64 -> min <= max -> refs_ok cfg min max refs -> logs_ok cfg logs ->
  N.of_nat (length data) < two64 ->
  write_table deflate cfg min max refs logs = Ok (false, data) ->
  exists r, rd_open data = Ok r /\
    forall name, read_ref inflate r name = Ok (find (fun x => bytes_eqb (r_name x) name) refs).
Proof. exact table_read_ref. Qed.
Print Assumptions C02_read_ref.

Theorem C02_read_log_at : forall deflate inflate,
  zlib_ok deflate inflate ->
  (forall x n, (n < length (deflate x))%nat -> inflate (firstn n (deflate x)) = ITrunc) ->
  (forall x, N.of_nat (length x) < 16777216 -> N.of_nat (length (deflate x)) < 1073741824) ->
  forall cfg min max refs logs data logs',
  cfg_ok cfg -> max < two64 -> min <= max -> refs_ok cfg min max refs -> logs_ok cfg logs ->
  N.of_nat (length data) < two64 ->
  write_table deflate cfg min max refs logs = Ok (false, data) ->
  read_logs cfg logs = Some logs' ->
  exists r, rd_open data = Ok r /\
    forall name idx, read_log_at inflate r name idx = Ok (find_log_at name idx logs').
Proof. exact table_read_log_at. Qed.
Print Assumptions C02_read_log_at.

(* "the newest entry of that ref whose update index is <= u": for ref names without a zero
   byte (Git's never have one) the key order IS (name ascending, update index descending),
   and the record the seek lands on is that newest entry -- or, if it carries another name,
   the ref has no entry at or below u at all.  With a zero byte in a name the reading fails
   (LogKeyOrder.nul_name_breaks_newest). *)
Theorem C02_log_key_order : forall n1 i1 n2 i2, nul_free n1 -> nul_free n2 -> i1 < two64 -> i2 < two64 ->
  (bytes_ltb (log_key_of n1 i1) (log_key_of n2 i2) = true <->
   (bytes_ltb n1 n2 = true \/ (n1 = n2 /\ i2 < i1))).
Proof. exact log_key_order. Qed.
Print Assumptions C02_log_key_order.

Theorem C02_seek_log_newest : forall name u logs,
  nul_free name -> u < two64 ->
  Forall (fun l => nul_free (l_name l) /\ l_index l < two64) logs ->
  StronglySorted (fun a b => bytes_ltb (log_key a) (log_key b) = true) logs ->
  match find_log_at name u logs with
  | Some l => In l logs /\ l_name l = name /\ l_index l <= u /\
              (forall l', In l' logs -> l_name l' = name -> l_index l' <= u -> l_index l' <= l_index l)
  | None => forall l', In l' logs -> l_name l' = name -> u < l_index l'
  end.
Proof. exact seek_logs_newest. Qed.
Print Assumptions C02_seek_log_newest.

Definition C02_nonvacuous := (table_seek_ref_stored, table_seek_log_stored).
