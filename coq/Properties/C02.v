(* C02 -- seeking lands on the first record at or after the requested key.
   Statements only.  Proved so far: the block level (binary search over the
   restart table + linear scan) for all blocks and all keys. *)
From Coq Require Import List NArith Arith Bool Sorted.
From RT Require Import Model.Bytes Model.Result Model.Records Model.RecCodec Model.Block
  Proofs.CodecProofs Proofs.BlockProofs.
Import ListNotations.
Local Open Scope N_scope.

(* within any block the writer produced, for EVERY key (present, absent, a
   prefix, before the first, after the last): the seek never fails and the
   iteration from the position it returns yields exactly the records >= key *)
Theorem C02_block_seek : forall deflate inflate typ hdr size interval hs recs w file_hdr rest tbs b k,
  zlib_ok deflate inflate -> is_block_type typ = true -> (0 < interval)%nat -> (0 < hs)%nat ->
  N.of_nat size < 16777216 -> length file_hdr = hdr -> recs <> [] -> block_recs_ok typ hs recs ->
  bw_add_all (bw_new typ hdr size interval hs) recs = Ok (Some w) ->
  br_init inflate (bw_finish deflate file_hdr w ++ rest) hdr tbs hs = inr b ->
  exists p, br_seek b k = Some p /\
    bi_all (S (length (br_block b))) b p = Some (map (rec_read hs) (seek_recs k recs)).
Proof. exact block_seek. Qed.
Print Assumptions C02_block_seek.

(* entries of one ref come newest first: the log key order *)
Theorem C02_log_order : forall n i1 i2, i1 < two64 -> i2 < two64 -> i2 < i1 ->
  bytes_ltb (log_key_of n i1) (log_key_of n i2) = true.
Proof. exact log_key_same_name_order. Qed.
Print Assumptions C02_log_order.

Theorem C02_log_key_injective : forall n1 i1 n2 i2, i1 < two64 -> i2 < two64 ->
  log_key_of n1 i1 = log_key_of n2 i2 -> n1 = n2 /\ i1 = i2.
Proof. exact log_key_of_inj. Qed.
Print Assumptions C02_log_key_injective.
