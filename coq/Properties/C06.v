(* C06 -- a crash at any point leaves the previous or the next committed state.
   Statements only.  A crash is a transition of the protocol model ([Crash h] in
   a schedule kills handle h before its next file-system operation, wherever it
   is: inside Add, a compaction with or without expiry, a reload, Close; any
   number of other handles continue).  [c06_ok] = c04_ok && c05_ok && c10_ok:
   after every operation of every schedule the list names complete tables in
   increasing ranges holding exactly the committed transactions in commit order
   (so the state is the one before or the one after each commit, never a
   mixture), nothing listed is ever removed, Add's success means committed, and
   the survivors' reads keep working. *)
From Coq Require Import List NArith Arith Bool.
From RT Require Import Model.StackTrace Model.StackProto Proofs.StackInvProofs Proofs.SnapshotProofs.
Import ListNotations.

Theorem C06_crash_atomic : forall size_oracle attempts tabs (scripts : list (bool * list apiop)) sched,
  init_ok tabs ->
  c06_ok (trace_of size_oracle attempts tabs scripts sched) = true.
Proof. exact c06_all_traces. Qed.
Print Assumptions C06_crash_atomic.

(* non-vacuity: a compaction killed right after its commit, a second handle carrying on *)
Local Open Scope N_scope.
Definition c06_tabs : list (nat * tfile) :=
  [(0%nat, {| tf_min := 1; tf_max := 1; tf_txs := [100%nat]; tf_size := 100; tf_hash := false |});
   (1%nat, {| tf_min := 2; tf_max := 2; tf_txs := [101%nat]; tf_size := 100; tf_hash := false |})].
Example C06_ex :
  let sched := map (fun _ => Step 0 None) (seq 0 15) ++ [Crash 0] ++ map (fun _ => Step 1 None) (seq 0 30) in
  let tr := trace_of (fun _ => 100) 50 c06_tabs [(false, [AOpen; ACompactAll]); (false, [AOpen; AAdd 7 false; ARead])] sched in
  c06_ok tr = true /\ existsb (fun e => match e with ECrash 0 => true | _ => false end) tr = true /\
  existsb (fun e => match e with ERet 1 ARead (RView _ (Some 7%nat)) => true | _ => false end) tr = true.
Proof. vm_compute. auto. Qed.
