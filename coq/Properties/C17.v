(* C17 -- auto-compaction picks a valid range, makes progress, keeps the stack shallow.
   Statements only; every proof is `exact <lemma of Proofs/SegmentsProofs.v>`. *)
From Coq Require Import List NArith Arith Lia.
From RT Require Import Model.Segments Proofs.SegmentsProofs.
Import ListNotations.
Local Open Scope N_scope.

(* the chooser's loop is N.log2 on every uint64 *)
Theorem C17_log2 : forall sz, sz < 2 ^ 64 -> log2_go sz = log2 sz.
Proof. exact log2_go_eq. Qed.
Print Assumptions C17_log2.

(* a suggested range is contiguous, inside the stack and holds >= 2 tables *)
Theorem C17_valid : forall sizes s e,
  Forall (fun x => 1 <= x) sizes ->
  suggest sizes = Some (s, e) -> (s + 2 <= e /\ e <= length sizes)%nat.
Proof. exact suggest_valid. Qed.
Print Assumptions C17_valid.

(* nothing to do exactly when no two adjacent tables share a size class *)
Theorem C17_none_iff : forall sizes,
  Forall (fun x => 1 <= x) sizes -> Forall (fun x => x < 2 ^ 64) sizes ->
  (suggest sizes = None <-> adj_eq sizes = false).
Proof. exact suggest_none_iff. Qed.
Print Assumptions C17_none_iff.

(* a compaction that runs replaces e - s >= 2 tables by one: strictly fewer tables *)
Theorem C17_progress : forall f sizes s e,
  Forall (fun x => 1 <= x) sizes -> suggest sizes = Some (s, e) ->
  (2 <= e - s)%nat /\ (length (auto_compact f sizes) + (e - s) = length sizes + 1)%nat /\
  (length (auto_compact f sizes) < length sizes)%nat.
Proof. exact auto_compact_progress. Qed.
Print Assumptions C17_progress.

(* every table taken into a compaction ends up in a strictly higher size class
   (the "2048" argument; no hypothesis on the stack shape) *)
Theorem C17_class_increase : forall sizes s e,
  Forall (fun x => 1 <= x) sizes -> suggest sizes = Some (s, e) ->
  exists a1 r c, sizes = a1 ++ r ++ c /\ s = length a1 /\ e = (length a1 + length r)%nat /\
    forall x, In x r -> log2 x + 1 <= log2 (sumN r).
Proof.
  intros sizes s e Hge H.
  destruct (suggest_spec sizes s e Hge H) as [a1 [a2 [b [c [Hall [Hs [He [Hb [[cl Hcl] [Hext _]]]]]]]]]].
  exists a1, (a2 ++ b), c. rewrite <- app_assoc. repeat split; auto.
  - rewrite app_length. lia.
  - apply (class_increase a2 b cl); auto.
    rewrite Hall in Hge. apply Forall_app in Hge as [_ G]. rewrite app_assoc in G.
    apply Forall_app in G as [G _]. exact G.
Qed.
Print Assumptions C17_class_increase.

(* single writer, N transactions of u bytes each; the merged table's size f is
   any function with  max inputs <= f inputs <= sum inputs  (measured on the
   real writer by the check; see DESIGN.md C17).  After every completed Add the
   stack is at most log2 N + 1 deep -- hence <= 2*log2 N for N >= 2 -- and
   between an Add and its compaction at most one deeper. *)
Theorem C17_depth : forall (f : list N -> N) (u : N),
  1 <= u ->
  (forall l x, In x l -> x <= f l) -> (forall l, f l <= sumN l) ->
  forall n, (1 <= n)%nat -> N.of_nat (S n) * u < 2 ^ 64 ->
  N.of_nat (length (run_adds f u n)) <= log2 (N.of_nat n) + 1 /\
  N.of_nat (length (run_adds f u n ++ [u])) <= log2 (N.of_nat n) + 2.
Proof.
  intros f u Hu H1 H2 n Hn Hb. split.
  - apply depth_stable; auto. lia.
  - apply depth_transient; auto.
Qed.
Print Assumptions C17_depth.

Corollary C17_depth_2log : forall (f : list N -> N) (u : N),
  1 <= u ->
  (forall l x, In x l -> x <= f l) -> (forall l, f l <= sumN l) ->
  forall n, (2 <= n)%nat -> N.of_nat (S n) * u < 2 ^ 64 ->
  N.of_nat (length (run_adds f u n)) <= 2 * log2 (N.of_nat n).
Proof.
  intros f u Hu H1 H2 n Hn Hb.
  destruct (C17_depth f u Hu H1 H2 n ltac:(lia) Hb) as [A _].
  assert (1 <= log2 (N.of_nat n)).
  { unfold log2. apply N.log2_le_pow2; [lia|]. change (2 ^ 1) with 2. lia. }
  lia.
Qed.
Print Assumptions C17_depth_2log.

(* additive sizes, unit = one transaction: total units rewritten by all
   compactions of the first n transactions <= n * log2 n *)
Theorem C17_cost_additive : forall n, run_cost sumN 1 n <= N.of_nat n * log2 (N.of_nat n).
Proof. exact cost_bound. Qed.
Print Assumptions C17_cost_additive.

(* non-vacuity: concrete states meeting the hypotheses, evaluated by the kernel *)
Example C17_ex_suggest : suggest [512; 40; 17; 17; 130] = Some (1, 4)%nat.
Proof. vm_compute. reflexivity. Qed.
Example C17_ex_none : suggest [512; 64; 17; 8; 1] = None /\ adj_eq [512; 64; 17; 8; 1] = false.
Proof. vm_compute. auto. Qed.
Example C17_ex_run : run_adds sumN 3 11 = [24; 6; 3] /\ run_cost sumN 1 11 = 18.
Proof. vm_compute. auto. Qed.
