(* C03 -- the merged view is a newest-table-wins overlay in key order.
   Statements only.  Generic in the record type; instantiated for refs and logs. *)
From Coq Require Import List NArith Arith Bool Sorted.
From RT Require Import Model.Bytes Model.Records Model.Heap Model.Merge Model.Overlay Proofs.MergeProofs.
Import ListNotations.

Section Generic.
  Variable R : Type.
  Variable key : R -> bytes.
  Variable is_del : R -> bool.

  (* the raw view (compaction) exposes deletions, the stack's view hides them *)
  Theorem C03_scan : forall ts, Forall (sorted R key) ts ->
    merged_scan key is_del false ts = overlay key ts /\
    merged_scan key is_del true ts = view key is_del ts.
  Proof.
    intros ts H. split; [apply merged_scan_overlay | apply merged_scan_suppress]; exact H.
  Qed.

  (* the overlay holds, for each key, the record of the newest table containing it *)
  Theorem C03_newest_wins : forall ts k, Forall (sorted R key) ts ->
    lookup key k (overlay key ts) = lookup_newest key k ts.
  Proof. exact (overlay_lookup R key). Qed.

  (* strictly increasing keys: every key exactly once *)
  Theorem C03_strict : forall s ts, Forall (sorted R key) ts ->
    sorted R key (merged_scan key is_del s ts).
  Proof. exact (merged_scan_sorted R key is_del). Qed.

  (* seeking yields exactly the suffix of the merged sequence from the key on *)
  Theorem C03_seek : forall s ts k, Forall (sorted R key) ts ->
    merged_seek key is_del s ts k = seek_list key k (merged_scan key is_del s ts).
  Proof. exact (merged_seek_spec R key is_del). Qed.
End Generic.

Print Assumptions C03_scan.
Print Assumptions C03_newest_wins.
Print Assumptions C03_strict.
Print Assumptions C03_seek.

(* instances *)
Theorem C03_refs : forall ts : list (list ref_record), Forall (sorted ref_record ref_key) ts ->
  merged_scan ref_key ref_is_del true ts = view ref_key ref_is_del ts /\
  forall k, merged_seek ref_key ref_is_del true ts k = seek_list ref_key k (view ref_key ref_is_del ts).
Proof.
  intros ts H. split.
  - apply merged_scan_suppress; exact H.
  - intros k. rewrite merged_seek_spec by exact H. rewrite merged_scan_suppress by exact H. reflexivity.
Qed.
Print Assumptions C03_refs.

Theorem C03_logs : forall ts : list (list log_record), Forall (sorted log_record log_key) ts ->
  merged_scan log_key log_is_del true ts = view log_key log_is_del ts /\
  forall k, merged_seek log_key log_is_del true ts k = seek_list log_key k (view log_key log_is_del ts).
Proof.
  intros ts H. split.
  - apply merged_scan_suppress; exact H.
  - intros k. rewrite merged_seek_spec by exact H. rewrite merged_scan_suppress by exact H. reflexivity.
Qed.
Print Assumptions C03_logs.

(* non-vacuity: three overlapping tables with updates, a deletion and a re-creation *)
Local Open Scope N_scope.
Example C03_ex :
  let r n i v := {| r_name := n; r_index := i; r_val := v |} in
  let t1 := [r [1] 1 (RVal [7]); r [2] 1 (RVal [7]); r [5] 1 (RSym [9])] in
  let t2 := [r [2] 2 RDel; r [3] 2 (RVal [8]); r [5] 2 RDel] in
  let t3 := [r [0] 3 (RVal [1]); r [5] 3 (RVal [2])] in
  Forall (sorted ref_record ref_key) [t1; t2; t3] /\
  merged_scan ref_key ref_is_del true [t1; t2; t3] =
    [r [0] 3 (RVal [1]); r [1] 1 (RVal [7]); r [3] 2 (RVal [8]); r [5] 3 (RVal [2])] /\
  map r_name (merged_scan ref_key ref_is_del false [t1; t2; t3]) = [[0]; [1]; [2]; [3]; [5]].
Proof.
  cbv zeta. split; [|split; vm_compute; reflexivity].
  repeat constructor.
Qed.
