(* C07 -- compaction never changes what readers see.  Statements only. *)
From Coq Require Import List NArith Arith Bool Sorted.
From RT Require Import Proofs.BlockProofs Proofs.TableProofs.
From RT Require Import Model.Bytes Model.Result Model.Records Model.Block Model.Merge Model.Overlay Model.Compact
  Model.Writer Model.StackSeq Proofs.MergeProofs Proofs.CompactProofs Proofs.StackSeqProofs.
Import ListNotations.

(* compacting tables first..last (inclusive) of a stack: refs and reflog
   entries seen through the stack are identical before and after *)
Theorem C07_view : forall first last ts,
  tables_sorted ts -> (first <= last)%nat -> (last < length ts)%nat ->
  stack_refs (compact_range first last None ts) = stack_refs ts /\
  stack_logs (compact_range first last None ts) = stack_logs ts.
Proof. exact compact_preserves_view. Qed.
Print Assumptions C07_view.

(* any sequence (nesting) of compactions of contiguous ranges *)
Theorem C07_seq : forall ts ts', tables_sorted ts -> compactions ts ts' ->
  stack_refs ts' = stack_refs ts /\ stack_logs ts' = stack_logs ts.
Proof. exact compact_seq_preserves_view. Qed.
Print Assumptions C07_seq.

(* tombstones are retained while older tables remain beneath the range: the
   raw overlay (deletion records included) is unchanged when first > 0 *)
Theorem C07_tombstones : forall first last ts,
  tables_sorted ts -> (0 < first)%nat -> (first <= last)%nat -> (last < length ts)%nat ->
  overlay ref_key (map t_refs (compact_range first last None ts)) = overlay ref_key (map t_refs ts) /\
  overlay log_key (map t_logs (compact_range first last None ts)) = overlay log_key (map t_logs ts).
Proof. exact compact_keeps_tombstones. Qed.
Print Assumptions C07_tombstones.

(* the result is again a well-formed stack: sorted tables, increasing ranges *)
Theorem C07_wellformed : forall sha first last e ts,
  tables_sorted ts -> new_merged_ok sha ts = true -> Forall (fun t => t_min t <= t_max t)%N ts ->
  (first <= last)%nat -> (last < length ts)%nat ->
  tables_sorted (compact_range first last e ts) /\ new_merged_ok sha (compact_range first last e ts) = true.
Proof.
  intros sha first last e ts Hs Hm Hr H1 H2. split.
  - apply compact_sorted; assumption.
  - apply compact_ranges_ok; assumption.
Qed.
Print Assumptions C07_wellformed.

(* ---- byte level: the stack as the Go code composes it (Model/StackSeq.v, the functions
   tied to the real Stack on every run): merge, WRITE the merged table to bytes, READ the
   bytes back.  zlib enters through the three hypotheses of C01. ---- *)

(* one compaction of any range, whatever its outcome: both views unchanged, the stack stays
   well-formed, a failure leaves the state alone, and tombstones are retained while older
   tables remain beneath the range *)
Theorem C07_bytes_compact : forall deflate inflate,
  zlib_ok deflate inflate ->
  (forall x n, (n < length (deflate x))%nat -> inflate (firstn n (deflate x)) = ITrunc) ->
  (forall x, (N.of_nat (length x) < 16777216)%N -> (N.of_nat (length (deflate x)) < 1073741824)%N) ->
  forall cfg first last st st' s,
  cfg_ok cfg -> stack_wf cfg st -> (last < length st)%nat ->
  write_size_ok deflate cfg (compact_table first last None (tables st)) ->
  stack_compact deflate inflate cfg first last None st = (st', s) ->
  stack_refs (tables st') = stack_refs (tables st) /\ stack_logs (tables st') = stack_logs (tables st) /\
  stack_wf cfg st' /\ s <> SRejected /\ (s = SErr -> st' = st) /\
  ((0 < first)%nat ->
     overlay ref_key (map Compact.t_refs (tables st')) = overlay ref_key (map Compact.t_refs (tables st)) /\
     overlay log_key (map Compact.t_logs (tables st')) = overlay log_key (map Compact.t_logs (tables st))).
Proof. exact stack_compact_preserves. Qed.
Print Assumptions C07_bytes_compact.

(* any history of Adds (with or without auto-compaction), multi-table Additions,
   compactions of arbitrary ranges, CompactAll and expiry, starting from the empty stack:
   after EVERY step what a reader sees is the view of a specification that never mentions
   tables or bytes (spec_hop: a successful Add merges its records and drops deletions, a
   successful expiry filters the reflog, everything else -- every compaction, every refused
   or failed operation -- leaves the view alone); and every state is well-formed.
   hist_ok: inputs in the writer's documented domain at the then-current update index, and
   every file written stays below 2^64 bytes. *)
Theorem C07_bytes_history : forall deflate inflate,
  zlib_ok deflate inflate ->
  (forall x n, (n < length (deflate x))%nat -> inflate (firstn n (deflate x)) = ITrunc) ->
  (forall x, (N.of_nat (length x) < 16777216)%N -> (N.of_nat (length (deflate x)) < 1073741824)%N) ->
  forall ops cfg nc, cfg_ok cfg -> hist_ok deflate inflate cfg nc [] ops ->
  let tr := run_hist deflate inflate cfg nc [] ops in
  map (fun r => view_of (fst r)) tr = spec_trace cfg ([], []) (combine ops (map snd tr)) /\
  Forall (fun r => stack_wf cfg (fst r) /\ (nc = true -> names_ok (fst r))) tr.
Proof. exact history_view. Qed.
Print Assumptions C07_bytes_history.

(* Add at byte level: success = exactly the transaction applied (also when the following
   auto-compaction fails), rejection / failure = no effect *)
Theorem C07_bytes_add : forall deflate inflate,
  zlib_ok deflate inflate ->
  (forall x n, (n < length (deflate x))%nat -> inflate (firstn n (deflate x)) = ITrunc) ->
  (forall x, (N.of_nat (length x) < 16777216)%N -> (N.of_nat (length (deflate x)) < 1073741824)%N) ->
  forall cfg nc auto refs logs st st' s,
  cfg_ok cfg -> stack_wf cfg st -> (next_index st < two64)%N ->
  refs_ok cfg (next_index st) (next_index st) refs -> logs_ok cfg logs ->
  (nc = true -> names_ok st) ->
  add_size_ok deflate inflate cfg nc auto refs logs st ->
  stack_add deflate inflate cfg nc auto refs logs st = (st', s) ->
  stack_wf cfg st' /\ (nc = true -> names_ok st') /\
  match s with
  | SOk => committed cfg st refs logs st'
  | SRejected => st' = st /\ nc = true /\
                 ~ Refname.conflict_free (Refname.apply_tx (map r_name (stack_refs (tables st))) (tx_of refs))
  | SErr => st' = st
  end.
Proof. exact stack_add_spec. Qed.
Print Assumptions C07_bytes_add.

(* non-vacuity of the byte-level theorems: with the stored-stream codec (which satisfies the
   zlib hypotheses) a five-step history (Add with auto-compaction; Add with a deletion and a
   reflog entry; a two-table Addition; compaction of tables 0..1; expiry) meets hist_ok and
   computes the expected views; and the regression history on which the pinned Add reported
   an error after its commit *)
Example C07_bytes_ex : True.
Proof. pose proof history_example. pose proof add_auto_failure_is_not_an_add_failure. exact I. Qed.

(* non-vacuity *)
Local Open Scope N_scope.
Example C07_ex :
  let r n i v := {| r_name := n; r_index := i; r_val := v |} in
  let t mn mx rs := {| t_min := mn; t_max := mx; t_sha256 := false; t_refs := rs; t_logs := [] |} in
  let ts := [t 1 1 [r [1] 1 (RVal [7]); r [2] 1 (RVal [7])]; t 2 2 [r [2] 2 RDel]; t 3 3 [r [3] 3 (RVal [9])]] in
  tables_sorted ts /\
  map t_refs (compact_range 1 2 None ts) = [[r [1] 1 (RVal [7]); r [2] 1 (RVal [7])]; [r [2] 2 RDel; r [3] 3 (RVal [9])]] /\
  map t_refs (compact_range 0 1 None ts) = [[r [1] 1 (RVal [7])]; [r [3] 3 (RVal [9])]] /\
  stack_refs ts = [r [1] 1 (RVal [7]); r [3] 3 (RVal [9])].
Proof.
  cbv zeta. split; [split; repeat constructor|]. vm_compute. auto.
Qed.
