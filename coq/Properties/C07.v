(* C07 -- compaction never changes what readers see.  Statements only. *)
From Coq Require Import List NArith Arith Bool Sorted.
From RT Require Import Model.Bytes Model.Records Model.Merge Model.Overlay Model.Compact
  Model.Writer Proofs.MergeProofs Proofs.CompactProofs.
Import ListNotations.

(* compacting tables first..last (inclusive) of a stack: refs and reflog
   entries seen through the stack are identical before and after *)
Theorem C07_view : forall first last ts,
  tables_sorted ts -> (first <= last)%nat -> (last < length ts)%nat ->
  stack_refs (compact_range first last None ts) = stack_refs ts /\
  stack_logs (compact_range first last None ts) = stack_logs ts.
Proof. exact compact_preserves_view. Qed.
Print Assumptions C07_view.

(* any sequence (nesting) of compactions of contiguous ranges *)
Theorem C07_seq : forall ts ts', tables_sorted ts -> compactions ts ts' ->
  stack_refs ts' = stack_refs ts /\ stack_logs ts' = stack_logs ts.
Proof. exact compact_seq_preserves_view. Qed.
Print Assumptions C07_seq.

(* tombstones are retained while older tables remain beneath the range: the
   raw overlay (deletion records included) is unchanged when first > 0 *)
Theorem C07_tombstones : forall first last ts,
  tables_sorted ts -> (0 < first)%nat -> (first <= last)%nat -> (last < length ts)%nat ->
  overlay ref_key (map t_refs (compact_range first last None ts)) = overlay ref_key (map t_refs ts) /\
  overlay log_key (map t_logs (compact_range first last None ts)) = overlay log_key (map t_logs ts).
Proof. exact compact_keeps_tombstones. Qed.
Print Assumptions C07_tombstones.

(* the result is again a well-formed stack: sorted tables, increasing ranges *)
Theorem C07_wellformed : forall sha first last e ts,
  tables_sorted ts -> new_merged_ok sha ts = true -> Forall (fun t => t_min t <= t_max t)%N ts ->
  (first <= last)%nat -> (last < length ts)%nat ->
  tables_sorted (compact_range first last e ts) /\ new_merged_ok sha (compact_range first last e ts) = true.
Proof.
  intros sha first last e ts Hs Hm Hr H1 H2. split.
  - apply compact_sorted; assumption.
  - apply compact_ranges_ok; assumption.
Qed.
Print Assumptions C07_wellformed.

(* non-vacuity *)
Local Open Scope N_scope.
Example C07_ex :
  let r n i v := {| r_name := n; r_index := i; r_val := v |} in
  let t mn mx rs := {| t_min := mn; t_max := mx; t_sha256 := false; t_refs := rs; t_logs := [] |} in
  let ts := [t 1 1 [r [1] 1 (RVal [7]); r [2] 1 (RVal [7])]; t 2 2 [r [2] 2 RDel]; t 3 3 [r [3] 3 (RVal [9])]] in
  tables_sorted ts /\
  map t_refs (compact_range 1 2 None ts) = [[r [1] 1 (RVal [7]); r [2] 1 (RVal [7])]; [r [2] 2 RDel; r [3] 3 (RVal [9])]] /\
  map t_refs (compact_range 0 1 None ts) = [[r [1] 1 (RVal [7])]; [r [3] 3 (RVal [9])]] /\
  stack_refs ts = [r [1] 1 (RVal [7]); r [3] 3 (RVal [9])].
Proof.
  cbv zeta. split; [split; repeat constructor|]. vm_compute. auto.
Qed.
