(* C19 -- readers and merged views can be shared by concurrent goroutines.
   Statements only.  Two parts: (1) the general fact: goroutines that never
   write the shared state compute, under ANY interleaving, exactly what they
   compute alone; (2) the effect summary of the CURRENT working tree, generated
   by the SSA translator (harness/ssa) on every run, contains no write to state
   owned by a shared type, and every root of the read API was found -- a proof
   by reflection over the generated data (a finite domain). *)
From Coq Require Import List Arith Bool String.
From RT Require Import Model.Effects Proofs.EffectsProofs gen.EffectsData.
Import ListNotations.

Theorem C19_interleaving : forall (shared priv : Type) (ts : list (thread shared priv)) s ps0 sched,
  Forall read_only ts -> List.length ps0 = List.length ts ->
  let '(s', ps') := run_pool ts s ps0 sched in
  s' = s /\
  forall i t p0, nth_error ts i = Some t -> nth_error ps0 i = Some p0 ->
                 nth_error ps' i = Some (run_alone t s p0 (count i sched)).
Proof.
  intros shared priv ts s ps0 sched Hro Hlen.
  pose proof (read_only_interleaving shared priv ts s ps0 sched Hro Hlen ps0 (fun _ => 0)) as H.
  cbv beta in H. destruct (run_pool ts s ps0 sched) as [s' ps'].
  apply H; [|exact Hlen]. intros i t p0 Ht Hp. cbn. exact Hp.
Qed.
Print Assumptions C19_interleaving.

Definition read_only_shared (l : list effect) : bool := forallb (fun e => negb (e_shared e)) l.

Theorem C19_shared_safe :
  read_only_shared effects = true /\ missing_roots = [] /\ (0 < List.length reachable_functions)%nat.
Proof. split; [vm_compute; reflexivity|]. split; [vm_compute; reflexivity|]. vm_compute. apply le_n_S, Nat.le_0_l. Qed.
Print Assumptions C19_shared_safe.
