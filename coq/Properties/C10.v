(* C10 -- a handle's view is one committed snapshot and stays readable under churn.
   Statements only.  [c10_ok] (Model/StackTrace.v), on EVERY schedule of the
   protocol model (crashes included): every read through a handle shows exactly
   the first k committed transactions (one committed version of tables.list,
   never a mixture), k never decreases for that handle, the 'shared' ref has the
   value of the k-th; no read fails; after every call the handle holds open
   readers only, and the names it holds are one version tables.list really had.
   A first load that loses every race reports an error instead of an empty stack. *)
From Coq Require Import List NArith Arith Bool.
From RT Require Import Model.StackTrace Model.StackProto Proofs.StackInvProofs Proofs.SnapshotProofs.
Import ListNotations.

Theorem C10_snapshot : forall size_oracle attempts tabs (scripts : list (bool * list apiop)) sched,
  init_ok tabs ->
  c10_ok (trace_of size_oracle attempts tabs scripts sched) = true.
Proof. exact c10_all_traces. Qed.
Print Assumptions C10_snapshot.
