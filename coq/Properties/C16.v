(* C16 -- operations leave no residue.  Statements only.
   Proved: in every reachable world a handle that is not inside a call owns no
   lock file and no temporary file (whatever happened: failed Adds, rejected
   transactions, compactions that lost lock races, crashes of others). *)
From Coq Require Import List NArith Arith Bool.
From RT Require Import Model.StackTrace Model.StackProto Proofs.LockProofs.
Import ListNotations.

Theorem C16_idle_owns_nothing : forall size_oracle attempts tabs scripts sched w evs h hd,
  run size_oracle attempts (init_world tabs scripts) sched = (w, evs) ->
  nth_error (w_handles w) h = Some hd -> h_pc hd = HIdle -> owns_nothing (w_fs w) h.
Proof. exact idle_owns_nothing. Qed.
Print Assumptions C16_idle_owns_nothing.
