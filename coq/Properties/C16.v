(* C16 -- operations leave no residue.  Statements only.
   [c16_ok] on EVERY schedule: no call panics; Close and Clean succeed on any
   stack (Clean may only lose the race for the list lock); and at every instant
   at which no handle is inside a
   call -- provided no process has crashed before -- the directory contains
   exactly tables.list (if it exists) and the tables it names: no lock file, no
   temporary file, no unlisted table.  [C16_idle_owns_nothing]: also after
   crashes of others, a handle that is not inside a call owns no lock file and
   no temp file (whatever happened to its operations: failed Adds, rejected
   transactions, compactions that lost lock races). *)
From Coq Require Import List NArith Arith Bool.
From RT Require Import Model.StackTrace Model.StackProto Proofs.LockProofs Proofs.StackInvProofs Proofs.ResidueProofs.
Import ListNotations.

Theorem C16_quiescent_clean : forall size_oracle attempts tabs (scripts : list (bool * list apiop)) sched,
  init_ok tabs ->
  c16_ok (trace_of size_oracle attempts tabs scripts sched) = true.
Proof. exact c16_all_traces. Qed.
Print Assumptions C16_quiescent_clean.

Theorem C16_idle_owns_nothing : forall size_oracle attempts tabs (scripts : list (bool * list apiop)) sched w evs h hd,
  run size_oracle attempts (init_world tabs scripts) sched = (w, evs) ->
  nth_error (w_handles w) h = Some hd -> h_pc hd = HIdle -> owns_nothing (w_fs w) h.
Proof. exact idle_owns_nothing. Qed.
Print Assumptions C16_idle_owns_nothing.

(* non-vacuity: a compaction killed right after its commit leaves its inputs on
   disk; the Clean of another handle unlinks them *)
Local Open Scope N_scope.
Example C16_ex_clean :
  let tabs := [(0%nat, {| tf_min := 1; tf_max := 1; tf_txs := [100%nat]; tf_size := 100; tf_hash := false |});
               (1%nat, {| tf_min := 2; tf_max := 2; tf_txs := [101%nat]; tf_size := 100; tf_hash := false |})] in
  let sched := map (fun _ => Step 0 None) (seq 0 15) ++ [Crash 0] ++ map (fun _ => Step 1 None) (seq 0 30) in
  let tr := trace_of (fun _ => 100) 50 tabs [(false, [AOpen; ACompactAll]); (false, [AOpen; AClean; ARead])] sched in
  c16_ok tr = true /\
  existsb (fun e => match e with EFs 1 FRemove (PT 0) FOk _ => true | _ => false end) tr = true /\
  existsb (fun e => match e with EFs 1 FRemove (PT 1) FOk _ => true | _ => false end) tr = true /\
  existsb (fun e => match e with ERet 1 AClean ROk => true | _ => false end) tr = true.
Proof. vm_compute. repeat split. Qed.
