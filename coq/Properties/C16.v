(* C16 -- operations leave no residue.  Statements only.
   [c16_ok] on EVERY schedule: no call panics; Close and Clean(modelled: Close)
   succeed on any stack; and at every instant at which no handle is inside a
   call -- provided no process has crashed before -- the directory contains
   exactly tables.list (if it exists) and the tables it names: no lock file, no
   temporary file, no unlisted table.  [C16_idle_owns_nothing]: also after
   crashes of others, a handle that is not inside a call owns no lock file and
   no temp file (whatever happened to its operations: failed Adds, rejected
   transactions, compactions that lost lock races). *)
From Coq Require Import List NArith Arith Bool.
From RT Require Import Model.StackTrace Model.StackProto Proofs.LockProofs Proofs.StackInvProofs Proofs.ResidueProofs.
Import ListNotations.

Theorem C16_quiescent_clean : forall size_oracle attempts tabs scripts sched,
  init_ok tabs -> Forall (fun s => forallb modelled s = true) scripts ->
  c16_ok (trace_of size_oracle attempts tabs scripts sched) = true.
Proof. exact c16_all_traces. Qed.
Print Assumptions C16_quiescent_clean.

Theorem C16_idle_owns_nothing : forall size_oracle attempts tabs scripts sched w evs h hd,
  run size_oracle attempts (init_world tabs scripts) sched = (w, evs) ->
  nth_error (w_handles w) h = Some hd -> h_pc hd = HIdle -> owns_nothing (w_fs w) h.
Proof. exact idle_owns_nothing. Qed.
Print Assumptions C16_idle_owns_nothing.
