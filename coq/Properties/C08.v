(* C08 -- locks are exclusive and only released by their owner.  Statements only.
   [c08_ok]: along EVERY schedule, every successful remove or rename of a
   *.lock path is performed by the handle whose exclusive create made that
   file, and a lock path never has two owners. *)
From Coq Require Import List NArith Arith Bool.
From RT Require Import Model.StackTrace Model.StackProto Proofs.LockProofs.
Import ListNotations.

Theorem C08_exclusive_owner_only : forall size_oracle attempts tabs (scripts : list (bool * list apiop)) sched,
  c08_ok (trace_of size_oracle attempts tabs scripts sched) = true.
Proof. exact c08_all_traces. Qed.
Print Assumptions C08_exclusive_owner_only.

(* every API program respects lock ownership whatever the file system answers
   (the sequential heart of the argument) is Proofs/LockProofs.wp_call_prog *)
