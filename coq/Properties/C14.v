(* C14 -- every emitted table is well-formed per the reftable format.
   The judge is Model/SpecDecoder.spec_decode, an independent decoder written
   from the format description (walks the file by position; checks header copy,
   CRC-32, block types / lengths / zero padding, restart tables, key order
   within and across blocks, every index level against its children, the object
   index against the ref blocks, update-index range).  On every run the
   extracted spec_decode judges every file the implementation emits
   (translation validation).  Proved here: properties of the judge itself. *)
From Coq Require Import List NArith Arith Bool.
From RT Require Import Model.Bytes Model.Records Model.RecCodec Model.SpecDecoder Model.Crc32 Proofs.SpecProofs.
Import ListNotations.
Local Open Scope N_scope.

(* the judge is strict about the envelope: anything it accepts starts with the
   magic, has a supported version and repeats its header in the footer *)
Theorem C14_accepts_only_enveloped : forall inflate data t,
  spec_decode inflate data = inr t ->
  firstn 4 data = [82; 69; 70; 84] /\ (sp_version t = 1 \/ sp_version t = 2) /\ (92 <= length data)%nat.
Proof. exact spec_decode_envelope. Qed.
Print Assumptions C14_accepts_only_enveloped.

(* non-vacuity: a hand-assembled one-block table is accepted and decodes to its record *)
Definition c14_hdr : bytes := [82; 69; 70; 84] ++ [1; 0; 0; 0] ++ be64 5 ++ be64 9.
Definition c14_block : bytes := [114; 0; 0; 37] ++ [0; 8; 97] ++ [2] ++ [0; 0; 28] ++ [0; 1].
Definition c14_foot : bytes := c14_hdr ++ be64 0 ++ be64 0 ++ be64 0 ++ be64 0 ++ be64 0.
Definition c14_table : bytes := c14_hdr ++ c14_block ++ c14_foot ++ be32 (crc32 c14_foot).
Example C14_ex : forall inflate,
  exists t, spec_decode inflate c14_table = inr t /\
    sp_refs t = [{| r_name := [97]; r_index := 7; r_val := RDel |}] /\ sp_min t = 5 /\ sp_max t = 9.
Proof. intros. eexists. split; [vm_compute; reflexivity|]. vm_compute. auto. Qed.
