(* C14 -- every emitted table is well-formed per the reftable format.
   The judge is Model/SpecDecoder.spec_decode, an independent decoder written
   from the format description (walks the file by position; checks header copy,
   CRC-32, block types / lengths / zero padding, restart tables, key order
   within and across blocks, every index level against its children, the object
   index against the ref blocks, update-index range).  On every run the
   extracted spec_decode judges every file the implementation emits
   (translation validation).  Proved here: the judge accepts EVERY table the
   model writer emits and decodes exactly the records written (so a rejection
   at run time means the implementation left the model or the format), and
   properties of the judge itself. *)
From Coq Require Import List NArith Arith Bool.
From RT Require Import Model.Result Model.Bytes Model.Records Model.RecCodec Model.Block Model.Writer Model.SpecDecoder Model.Crc32
  Proofs.BlockProofs Proofs.TableProofs Proofs.SpecProofs Proofs.SpecWriterProofs Proofs.SpecPaddedProofs.
Import ListNotations.
Local Open Scope N_scope.

(* every table the writer emits -- any accepted configuration (block size,
   padding, restart interval, hash, object index on or off), any accepted
   records, any number of blocks and index levels -- is well-formed per the
   format and means exactly the records written.  The only fact used about zlib
   is the round trip.  Size bound: the format gives the object-section offset 59
   bits (the writer stores offset*32+idlen in 64), so tables are < 2^59 bytes
   (C14_wellformed_noobj keeps 2^64 when no object index is written). *)
Theorem C14_wellformed : forall deflate inflate,
  zlib_ok deflate inflate ->
  forall cfg min max refs logs data logs',
  cfg_ok cfg -> max < two64 -> min <= max -> refs_ok cfg min max refs -> logs_ok cfg logs ->
  N.of_nat (length data) < 2 ^ 59 ->
  write_table deflate cfg min max refs logs = Ok (false, data) ->
  read_logs cfg logs = Some logs' ->
  exists t, spec_decode (sinfl_of inflate) data = inr t /\
    sp_refs t = refs /\ sp_logs t = logs' /\ sp_min t = min /\ sp_max t = max /\ sp_sha256 t = c_sha256 cfg.
Proof. exact table_wellformed. Qed.
Print Assumptions C14_wellformed.

Theorem C14_wellformed_noobj : forall deflate inflate,
  zlib_ok deflate inflate ->
  forall cfg min max refs logs data logs',
  c_skip_index_objects cfg = true ->
  cfg_ok cfg -> max < two64 -> min <= max -> refs_ok cfg min max refs -> logs_ok cfg logs ->
  N.of_nat (length data) < two64 ->
  write_table deflate cfg min max refs logs = Ok (false, data) ->
  read_logs cfg logs = Some logs' ->
  exists t, spec_decode (sinfl_of inflate) data = inr t /\
    sp_refs t = refs /\ sp_logs t = logs' /\ sp_min t = min /\ sp_max t = max /\ sp_sha256 t = c_sha256 cfg.
Proof. exact table_wellformed_noobj. Qed.
Print Assumptions C14_wellformed_noobj.

(* the layout rule of padded tables (padding is a writer option the file does not record, so
   this is a separate judgement, spec_aligned): with padding on, every block in front of the
   log section starts on a multiple of the block size; only the block in front of the log
   section or of the footer may be left unpadded *)
Theorem C14_padded : forall deflate inflate,
  zlib_ok deflate inflate ->
  forall cfg min max refs logs data,
  c_unaligned cfg = false ->
  cfg_ok cfg -> max < two64 -> min <= max -> refs_ok cfg min max refs -> logs_ok cfg logs ->
  N.of_nat (length data) < two64 ->
  write_table deflate cfg min max refs logs = Ok (false, data) ->
  spec_aligned (sinfl_of inflate) data = inr true.
Proof. exact table_padded_two64. Qed.
Print Assumptions C14_padded.

(* the judgement is not constantly true: an unpadded table with several ref blocks fails it *)
Example C14_padded_ex :
  a_check (t_cfg false 128 false) 30 30 = Some (inr true) /\
  a_check (t_cfg true 128 false) 30 30 = Some (inr false).
Proof. split; vm_compute; reflexivity. Qed.

(* non-vacuity: with the concrete stored-stream codec (which satisfies zlib_ok) a 38-block
   aligned table with multi-level ref index, object index and log index is written,
   judged well-formed and decoded to exactly its records *)
Example C14_wellformed_ex :
  zlib_ok sdeflate sinflate /\
  s_check (t_cfg false 128 false) 30 30 = Some (inr (38%nat, true, true, true)).
Proof. split; [exact sdeflate_ok | vm_compute; reflexivity]. Qed.

(* the judge is strict about the envelope: anything it accepts starts with the
   magic, has a supported version and repeats its header in the footer *)
Theorem C14_accepts_only_enveloped : forall inflate data t,
  spec_decode inflate data = inr t ->
  firstn 4 data = [82; 69; 70; 84] /\ (sp_version t = 1 \/ sp_version t = 2) /\ (92 <= length data)%nat.
Proof. exact spec_decode_envelope. Qed.
Print Assumptions C14_accepts_only_enveloped.

(* non-vacuity: a hand-assembled one-block table is accepted and decodes to its record *)
Definition c14_hdr : bytes := [82; 69; 70; 84] ++ [1; 0; 0; 0] ++ be64 5 ++ be64 9.
Definition c14_block : bytes := [114; 0; 0; 37] ++ [0; 8; 97] ++ [2] ++ [0; 0; 28] ++ [0; 1].
Definition c14_foot : bytes := c14_hdr ++ be64 0 ++ be64 0 ++ be64 0 ++ be64 0 ++ be64 0.
Definition c14_table : bytes := c14_hdr ++ c14_block ++ c14_foot ++ be32 (crc32 c14_foot).
Example C14_ex : forall inflate,
  exists t, spec_decode inflate c14_table = inr t /\
    sp_refs t = [{| r_name := [97]; r_index := 7; r_val := RDel |}] /\ sp_min t = 5 /\ sp_max t = 9.
Proof. intros. eexists. split; [vm_compute; reflexivity|]. vm_compute. auto. Qed.
