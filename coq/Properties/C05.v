(* C05 -- tables.list always names an openable, ordered stack of complete tables.
   Statements only.  [c05_ok]: after EVERY file-system operation of EVERY
   schedule (crashes included) every table named in tables.list exists and is
   complete, the named tables have strictly increasing update-index ranges, and
   no successful remove ever hits a table the list names at that instant.
   "Complete" includes: of the hash type of the stack (that of the first listed
   table).  The handles may be configured with either hash type, whatever the
   hash type of the directory ([scripts] pairs a handle's hash type with its
   script); [init_ok tabs]: the initial tables are numbered 0..k-1, have
   increasing ranges and one hash type. *)
From Coq Require Import List NArith Arith Bool.
From RT Require Import Model.StackTrace Model.StackProto Proofs.StackInvProofs.
Import ListNotations.

Theorem C05_integrity : forall size_oracle attempts tabs (scripts : list (bool * list apiop)) sched,
  init_ok tabs ->
  c05_ok (trace_of size_oracle attempts tabs scripts sched) = true.
Proof. exact c05_all_traces. Qed.
Print Assumptions C05_integrity.

(* non-vacuity, hash types: the schedule S9 on which the pinned tree committed a
   table of the wrong hash type into somebody else's stack.  The directory is
   empty; handle 0 is configured with SHA-256 and opens it; handle 1 (SHA-1)
   opens, commits transaction 21 and reads; then handle 0 runs two Adds: its
   view (empty) is stale, its reload refuses the SHA-1 table, so both Adds fail
   with ErrLockFailure and nothing of handle 0 is ever listed *)
Example C05_ex_foreign_hash :
  let sched := map (fun _ => Step 0 None) (seq 0 2) ++ map (fun _ => Step 1 None) (seq 0 40) ++
               map (fun _ => Step 0 None) (seq 0 40) in
  let tr := trace_of (fun _ => 100%N) 50 []
              [(true, [AOpen; AAdd 11 false; AAdd 12 false]); (false, [AOpen; AAdd 21 false; ARead])] sched in
  c05_ok tr = true /\ c04_ok tr = true /\
  existsb (fun e => match e with ERet 0 AOpen ROk => true | _ => false end) tr = true /\
  existsb (fun e => match e with ERet 0 (AAdd 11 false) RLockFailure => true | _ => false end) tr = true /\
  existsb (fun e => match e with ERet 0 (AAdd 12 false) RLockFailure => true | _ => false end) tr = true /\
  existsb (fun e => match e with ERet 0 (AAdd _ _) ROk => true | _ => false end) tr = false /\
  existsb (fun e => match e with ERet 1 (AAdd 21 false) ROk => true | _ => false end) tr = true /\
  existsb (fun e => match e with ERet 1 ARead (RView txs _) => list_nat_eqb txs [21] | _ => false end) tr = true /\
  (* handle 0 opened before anything was committed: the first event after its Open is handle 1's call *)
  existsb (fun e => match e with EMem 0 [] _ => true | _ => false end) tr = true.
Proof. vm_compute. repeat split. Qed.
