(* C05 -- tables.list always names an openable, ordered stack of complete tables.
   Statements only.  [c05_ok]: after EVERY file-system operation of EVERY
   schedule (crashes included) every table named in tables.list exists and is
   complete, the named tables have strictly increasing update-index ranges, and
   no successful remove ever hits a table the list names at that instant. *)
From Coq Require Import List NArith Arith Bool.
From RT Require Import Model.StackTrace Model.StackProto Proofs.StackInvProofs.
Import ListNotations.

Theorem C05_integrity : forall size_oracle attempts tabs scripts sched,
  init_ok tabs ->
  c05_ok (trace_of size_oracle attempts tabs scripts sched) = true.
Proof. exact c05_all_traces. Qed.
Print Assumptions C05_integrity.
