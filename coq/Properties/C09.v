(* C09 -- a stale handle can never commit; it is refreshed and its retry succeeds.
   Statements only.  [c09_ok] looks at every Add that runs undisturbed: through
   a handle whose view differs from tables.list it returns ErrLockFailure,
   leaves the directory as it was and refreshes the handle (also an Add of an
   empty or of a rejected table); through an up-to-date handle with the write
   lock free it commits.  A compaction (all / a range / with expiry), a Clean
   and a NewAddition that run undisturbed through a stale handle return
   success resp. ErrLockFailure and leave the directory literally unchanged
   (in both readings: these paths do not reload).

   Proved for every schedule:
   * [C09_stale_gc]: with "the directory is left unchanged" read as
     "tables.list unchanged, nothing new, nothing listed removed, no lock or
     temp file left" (c09_ok_gc: a failed Add's reload may unlink table files
     that the list no longer names);
   * [C09_stale_strict]: literally unchanged (c09_ok), under the trace
     precondition that, at the call of an Add (of a table, an empty or a
     rejected one), no table the handle holds is both unlisted and still on disk
     (c09_precond) -- which holds at every quiescent instant; it asks nothing
     at the call of a compaction, a Clean or a NewAddition.
   Both statements are about handles configured with the directory's hash
   type ([native tabs scripts]: every handle has the hash type of the initial
   tables; with an empty directory, one common hash type).  A handle of the
   other hash type can never be refreshed (its load refuses the tables of the
   stack), so "is refreshed and its retry succeeds" is FALSE for it
   (Proofs/HashCounterexamples.v: [c09_foreign_refuted]); what holds for such a
   handle is C04 / C05: it never commits.
   The strict statement without that precondition is FALSE for the code
   ([C09_strict_refuted]: another handle's compaction paused between its commit
   and its removes); recorded as known finding C09-gc. *)
From Coq Require Import List NArith Arith Bool.
From RT Require Import Model.StackTrace Model.StackProto Proofs.StackInvProofs Proofs.StaleProofs.
Import ListNotations.

Theorem C09_stale_gc : forall size_oracle attempts tabs (scripts : list (bool * list apiop)) sched,
  init_ok tabs -> native tabs scripts -> (1 <= attempts)%nat ->
  c09_ok_gc (trace_of size_oracle attempts tabs scripts sched) = true.
Proof. exact c09_gc_all_traces. Qed.
Print Assumptions C09_stale_gc.

Theorem C09_stale_strict : forall size_oracle attempts tabs (scripts : list (bool * list apiop)) sched,
  init_ok tabs -> native tabs scripts -> (1 <= attempts)%nat ->
  c09_precond (trace_of size_oracle attempts tabs scripts sched) = true ->
  c09_ok (trace_of size_oracle attempts tabs scripts sched) = true.
Proof. exact c09_all_traces. Qed.
Print Assumptions C09_stale_strict.

(* The same under a weaker hypothesis on the handles: they need to agree on the hash
   type only when the directory is empty at the start ([native_if_empty]:
   tabs = [] -> all handles are configured with one hash type; [native] implies it).
   A handle of another hash type cannot open a non-empty directory (NewStack fails),
   and tables.list never becomes empty again: it never holds a stack, so there is no
   stale Add through it.  With an empty directory the hypothesis cannot be dropped
   (Proofs/HashCounterexamples.v: [c09_foreign_refuted]). *)
Theorem C09_stale_gc_weak : forall size_oracle attempts tabs (scripts : list (bool * list apiop)) sched,
  init_ok tabs -> native_if_empty tabs scripts -> (1 <= attempts)%nat ->
  c09_ok_gc (trace_of size_oracle attempts tabs scripts sched) = true.
Proof. exact c09_gc_all_traces_weak. Qed.
Print Assumptions C09_stale_gc_weak.

Theorem C09_stale_strict_weak : forall size_oracle attempts tabs (scripts : list (bool * list apiop)) sched,
  init_ok tabs -> native_if_empty tabs scripts -> (1 <= attempts)%nat ->
  c09_precond (trace_of size_oracle attempts tabs scripts sched) = true ->
  c09_ok (trace_of size_oracle attempts tabs scripts sched) = true.
Proof. exact c09_all_traces_weak. Qed.
Print Assumptions C09_stale_strict_weak.
