(* Extraction of the executable model.  ExtrOcamlBasic only: bool, option,
   list, prod, unit, sumbool map to OCaml natives; nat / positive / N / Z stay
   the extracted Coq datatypes.  No Extract Constant.  Separate Extraction:
   one OCaml module per Coq module, names preserved.  Run with coqc from the
   directory that is to receive the .ml files. *)
From Coq Require Extraction ExtrOcamlBasic.
From RT Require Import Model.Segments.
Extraction Language OCaml.
Separate Extraction
  Segments.suggest Segments.log2_go Segments.log2 Segments.sizes_to_segments
  Segments.auto_compact Segments.sumN.
