(* Extraction of the executable model.  ExtrOcamlBasic only: bool, option,
   list, prod, unit, sumbool map to OCaml natives; nat / positive / N / Z stay
   the extracted Coq datatypes.  No Extract Constant.  Separate Extraction:
   one OCaml module per Coq module, names preserved.  Run with coqc from the
   directory that is to receive the .ml files. *)
From Coq Require Extraction ExtrOcamlBasic.
From RT Require Import Model.Segments Model.Bytes Model.Records Model.Heap Model.Merge Model.Overlay
  Model.Refname Model.Result Model.Varint Model.KeyCodec Model.RecCodec Model.Block Model.Crc32
  Model.Writer Model.Reader Model.Compact Model.StackSeq Model.SpecDecoder Model.StackTrace Model.StackProto.
Extraction Language OCaml.
Separate Extraction
  Segments.suggest Segments.log2_go Segments.log2 Segments.sizes_to_segments
  Segments.auto_compact Segments.sumN
  Bytes.bytes_ltb Bytes.bytes_eqb Bytes.is_prefix Bytes.be64
  Records.ref_key Records.log_key Records.ref_is_del Records.log_is_del Records.points_to Records.log_key_of
  Merge.merged_scan Merge.merged_seek Merge.seek_list
  Overlay.overlay Overlay.view
  Refname.validate_addition Refname.validate_refname Refname.apply_tx Refname.conflict_free_b
  Refname.add_checked Refname.addition_pinned Refname.addition_seq
  Varint.put_varint Varint.get_varint
  KeyCodec.encode_key KeyCodec.decode_key
  RecCodec.rec_encode RecCodec.rec_decode RecCodec.rec_key
  Block.bw_add Block.bw_finish Block.br_init Block.bi_next Block.br_seek
  Crc32.crc32
  Writer.write_table Writer.norm_log Writer.w_new Writer.w_add_ref Writer.w_add_log Writer.w_close Writer.set_limits
  Compact.merged_refs Compact.merged_logs Compact.merged_refs_for Compact.new_merged_ok
  Compact.compact_range Compact.compact_table Compact.stack_refs Compact.stack_logs Compact.keep_log
  StackSeq.stack_add StackSeq.stack_addition StackSeq.stack_compact StackSeq.stack_compact_all StackSeq.stack_auto StackSeq.decode_table
  Overlay.merge2 Overlay.live
  SpecDecoder.spec_decode SpecDecoder.spec_aligned SpecDecoder.parse_blocks
  StackProto.trace_of
  StackTrace.c04_ok StackTrace.c05_ok StackTrace.c06_ok StackTrace.c08_ok StackTrace.c09_ok StackTrace.c09_ok_gc StackTrace.c10_ok StackTrace.c16_ok
  Reader.rd_open Reader.scan_refs Reader.scan_logs Reader.seek_ref Reader.seek_log Reader.refs_for Reader.read_ref Reader.read_log_at.
