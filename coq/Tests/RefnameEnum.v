From Coq Require Import List NArith Arith Bool String Ascii.
From RT Require Import Model.Bytes Model.Refname.
Import ListNotations.
Local Open Scope N_scope.

Definition b (s : string) : bytes := map N_of_ascii (list_ascii_of_string s).

Fixpoint ins (x : bytes) (l : list bytes) :=
  match l with [] => [x] | a :: t => if bytes_ltb x a then x :: l else a :: ins x t end.
Definition universe : list bytes :=
  fold_right ins [] (map b ["a"; "a/b"; "a/b/c"; "ab"; "a."; "a/."; "b"; "a/"; "/a"; ".."; "a/c"; "a0"]%string).

Fixpoint sublists {A} (l : list A) : list (list A) :=
  match l with [] => [[]] | x :: t => let r := sublists t in map (cons x) r ++ r end.

Definition views := filter conflict_free_b (sublists universe).

Fixpoint flags {A} (l : list A) : list (list (A * bool)) :=
  match l with [] => [[]] | x :: t => let r := flags t in map (cons (x,true)) r ++ map (cons (x,false)) r end.

Definition txs : list tx :=
  flat_map flags (filter (fun l => Nat.leb (List.length l) 3) (sublists universe)).

Definition bool_eq (x y : bool) := if x then y else negb y.

Definition bad := flat_map (fun v => flat_map (fun t =>
   if bool_eq (validate_addition v t) (conflict_free_b (apply_tx v t)) then [] else [(v,t)]) txs) views.

Eval vm_compute in universe.
Eval vm_compute in (List.length views, List.length txs).
Eval vm_compute in (List.length bad).
Eval vm_compute in (firstn 5 bad).
Lemma enum_ok : bad = [].
Proof. vm_compute. reflexivity. Qed.
