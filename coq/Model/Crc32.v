(* hash/crc32 ChecksumIEEE: CRC-32, reflected polynomial 0xEDB88320. *)
From Coq Require Import List NArith.
From RT Require Import Model.Bytes.
Import ListNotations.
Local Open Scope N_scope.

Definition crc_poly : N := 3988292384.      (* 0xEDB88320 *)
Definition crc_mask : N := 4294967295.      (* 0xFFFFFFFF *)

Fixpoint crc_bits (n : nat) (c : N) : N :=
  match n with
  | O => c
  | S k => crc_bits k (if N.testbit c 0 then N.lxor (N.shiftr c 1) crc_poly else N.shiftr c 1)
  end.

Definition crc_byte (c : N) (b : N) : N := crc_bits 8 (N.lxor c b).

Definition crc32 (data : bytes) : N := N.lxor (fold_left crc_byte data crc_mask) crc_mask.
