(* merged.go: pqEntry, pqLess and the array heap mergedIterPQueue (add /
   remove), as coded: the heap is a slice, modelled as a list indexed by nat. *)
From Coq Require Import List NArith Arith Bool.
From RT Require Import Model.Bytes.
Import ListNotations.

Section Heap.
  Variable R : Type.
  Variable key : R -> bytes.

  Definition entry : Type := (R * nat)%type.      (* rec, index of the sub-table *)

  (* func pqLess(a, b pqEntry) bool *)
  Definition pq_less (a b : entry) : bool :=
    if bytes_eqb (key (fst a)) (key (fst b)) then Nat.ltb (snd b) (snd a)
    else bytes_ltb (key (fst a)) (key (fst b)).

  Fixpoint set_nth {A} (i : nat) (x : A) (l : list A) : list A :=
    match l, i with
    | [], _ => []
    | _ :: t, O => x :: t
    | y :: t, S j => y :: set_nth j x t
    end.

  Definition swap (d : entry) (i j : nat) (h : list entry) : list entry :=
    let a := nth i h d in
    let b := nth j h d in
    set_nth j a (set_nth i b h).

  (* add: append, then sift up *)
  Fixpoint sift_up (d : entry) (fuel i : nat) (h : list entry) : list entry :=
    match fuel with
    | O => h
    | S f =>
        match i with
        | O => h
        | S _ =>
            let j := (i - 1) / 2 in
            if pq_less (nth j h d) (nth i h d) then h
            else sift_up d f j (swap d j i h)
        end
    end.

  Definition heap_add (h : list entry) (e : entry) : list entry :=
    let h' := h ++ [e] in
    sift_up e (length h') (length h) h'.

  (* remove: move the last entry to the root, shrink, sift down *)
  Fixpoint sift_down (d : entry) (fuel i : nat) (h : list entry) : list entry :=
    match fuel with
    | O => h
    | S f =>
        if Nat.ltb i (length h) then
          let j := 2 * i + 1 in
          let k := 2 * i + 2 in
          let m1 := if Nat.ltb j (length h) && pq_less (nth j h d) (nth i h d) then j else i in
          let m2 := if Nat.ltb k (length h) && pq_less (nth k h d) (nth m1 h d) then k else m1 in
          if Nat.eqb m2 i then h
          else sift_down d f m2 (swap d i m2 h)
        else h
    end.

  (* Go panics on an empty heap; callers test isEmpty first: None here *)
  Definition heap_remove (h : list entry) : option (entry * list entry) :=
    match h with
    | [] => None
    | e :: _ =>
        let lastv := last h e in
        let h1 := removelast (set_nth 0 lastv h) in
        Some (e, sift_down e (length h1) 0 h1)
    end.
End Heap.

Arguments pq_less {R} key a b.
Arguments heap_add {R} key h e.
Arguments heap_remove {R} key h.
Arguments sift_up {R} key d fuel i h.
Arguments sift_down {R} key d fuel i h.
Arguments swap {R} d i j h.
