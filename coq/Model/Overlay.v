(* Specification: the newest-table-wins overlay of a stack of sorted tables,
   and the reader's view of it. *)
From Coq Require Import List NArith Arith Bool.
From RT Require Import Model.Bytes.
Import ListNotations.

Section Overlay.
  Variable R : Type.
  Variable key : R -> bytes.
  Variable is_del : R -> bool.

  (* merge an older sorted list with a newer one; on equal keys the newer wins *)
  Fixpoint merge2 (old : list R) : list R -> list R :=
    fix inner (new : list R) : list R :=
      match old, new with
      | [], _ => new
      | _, [] => old
      | o :: os, n :: ns =>
          if bytes_ltb (key o) (key n) then o :: merge2 os new
          else if bytes_ltb (key n) (key o) then n :: inner ns
          else n :: merge2 os ns
      end.

  (* tables oldest first *)
  Definition overlay (tables : list (list R)) : list R := fold_left merge2 tables [].

  Definition live (r : R) : bool := negb (is_del r).
  Definition view (tables : list (list R)) : list R := filter live (overlay tables).

  (* the record of key k in a sorted list *)
  Fixpoint lookup (k : bytes) (l : list R) : option R :=
    match l with
    | [] => None
    | r :: t => if bytes_eqb (key r) k then Some r else lookup k t
    end.

  (* newest table containing k wins *)
  Fixpoint lookup_newest (k : bytes) (tables : list (list R)) : option R :=
    match tables with
    | [] => None
    | t :: older_first_rest =>
        match lookup_newest k older_first_rest with
        | Some r => Some r
        | None => lookup k t
        end
    end.
End Overlay.

Arguments merge2 {R} key old new.
Arguments overlay {R} key tables.
Arguments view {R} key is_del tables.
Arguments live {R} is_del r.
Arguments lookup {R} key k l.
Arguments lookup_newest {R} key k tables.
