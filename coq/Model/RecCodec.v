(* record.go: the four record types as stored in blocks -- key, value type,
   encode, decode. *)
From Coq Require Import List NArith Arith Bool.
From RT Require Import Model.Bytes Model.Result Model.Varint Model.KeyCodec Model.Records.
Import ListNotations.
Local Open Scope N_scope.

Definition typ_ref : N := 114.   (* 'r' *)
Definition typ_log : N := 103.   (* 'g' *)
Definition typ_obj : N := 111.   (* 'o' *)
Definition typ_idx : N := 105.   (* 'i' *)
Definition typ_any : N := 0.

Definition is_block_type (t : N) : bool :=
  (t =? typ_ref) || (t =? typ_log) || (t =? typ_obj) || (t =? typ_idx).

Inductive record :=
| RecRef (r : ref_record)
| RecLog (l : log_record)
| RecObj (prefix : bytes) (offsets : list N)
| RecIdx (last_key : bytes) (off : N).

Definition rec_typ (r : record) : N :=
  match r with RecRef _ => typ_ref | RecLog _ => typ_log | RecObj _ _ => typ_obj | RecIdx _ _ => typ_idx end.

Definition rec_key (r : record) : bytes :=
  match r with
  | RecRef x => ref_key x
  | RecLog l => log_key l
  | RecObj p _ => p
  | RecIdx k _ => k
  end.

Definition rec_val_type (r : record) : N :=
  match r with
  | RecRef x => match r_val x with RDel => 0 | RVal _ => 1 | RVal2 _ _ => 2 | RSym _ => 3 end
  | RecLog l => match l_body l with None => 0 | Some _ => 1 end
  | RecObj _ offs => let n := length offs in if Nat.ltb 0 n && Nat.ltb n 8 then N.of_nat n else 0
  | RecIdx _ _ => 0
  end.

Definition encode_string (s : bytes) : bytes := put_varint (N.of_nat (length s)) ++ s.

Definition zeros (n : nat) : bytes := repeat 0 n.

(* offset deltas of an object record; uint64 subtraction wraps *)
Fixpoint encode_deltas (last : N) (offs : list N) : bytes :=
  match offs with
  | [] => []
  | o :: t => put_varint ((o + two64 - last) mod two64) ++ encode_deltas o t
  end.

(* encode: the value bytes; Panic where the Go code panics *)
Definition rec_encode (hash_size : nat) (r : record) : res bytes :=
  match r with
  | RecRef x =>
      Ok (put_varint (r_index x) ++
          match r_val x with
          | RDel => []
          | RVal h => h
          | RVal2 h t => h ++ t
          | RSym s => encode_string s
          end)
  | RecLog l =>
      match l_body l with
      | None => Ok []
      | Some b =>
          let old := match lb_old b with Some h => h | None => zeros hash_size end in
          let new := match lb_new b with Some h => h | None => zeros hash_size end in
          if negb (Nat.eqb (length old) hash_size) || negb (Nat.eqb (length new) hash_size)
          then Panic site_log_hash_len
          else Ok (old ++ new ++ encode_string (lb_name b) ++ encode_string (lb_email b) ++
                   put_varint (lb_time b) ++ be16 (lb_tz b) ++ encode_string (lb_msg b))
      end
  | RecObj _ offs =>
      let n := length offs in
      let cnt := if Nat.eqb n 0 || Nat.leb 8 n then put_varint (N.of_nat n) else [] in
      Ok (cnt ++ match offs with
                 | [] => []
                 | o :: t => put_varint o ++ encode_deltas o t
                 end)
  | RecIdx _ off => Ok (put_varint off)
  end.

Definition decode_string (buf : bytes) : option (nat * bytes) :=
  match get_varint buf with
  | None => None
  | Some (l, s) =>
      let buf1 := skipn s buf in
      if N.of_nat (length buf1) <? l then None
      else Some ((s + N.to_nat l)%nat, firstn (N.to_nat l) buf1)
  end.

(* LogRecord.decodeKey *)
Definition decode_log_key (key : bytes) : option (bytes * N) :=
  let n := length key in
  if Nat.ltb n 10 then None
  else
    let name := firstn (n - 9) key in
    let last := skipn (n - 9) key in
    match last with
    | b0 :: rest => if negb (b0 =? 0) then None else Some (name, rev_int64 (be_value rest 0))
    | [] => None
    end.

Fixpoint decode_deltas (count : nat) (last : N) (buf : bytes) (consumed : nat) (acc : list N)
  : option (nat * list N) :=
  match count with
  | O => Some (consumed, rev acc)
  | S c =>
      match get_varint buf with
      | None => None
      | Some (d, n) =>
          let o := (d + last) mod two64 in
          decode_deltas c o (skipn n buf) (consumed + n) (o :: acc)
      end
  end.

(* decode: (bytes consumed, record) or a format error *)
Definition rec_decode (typ : N) (hash_size : nat) (key : bytes) (vt : N) (buf : bytes)
  : option (nat * record) :=
  if typ =? typ_ref then
    match get_varint buf with
    | None => None
    | Some (delta, s) =>
        let buf1 := skipn s buf in
        if (vt =? 1) || (vt =? 2) then
          if Nat.ltb (length buf1) hash_size then None
          else
            let h := firstn hash_size buf1 in
            let buf2 := skipn hash_size buf1 in
            if vt =? 1 then Some ((s + hash_size)%nat, RecRef {| r_name := key; r_index := delta; r_val := RVal h |})
            else if Nat.ltb (length buf2) hash_size then None
            else Some ((s + hash_size + hash_size)%nat,
                       RecRef {| r_name := key; r_index := delta; r_val := RVal2 h (firstn hash_size buf2) |})
        else if vt =? 3 then
          match decode_string buf1 with
          | None => None
          | Some (n, target) => Some ((s + n)%nat, RecRef {| r_name := key; r_index := delta; r_val := RSym target |})
          end
        else Some (s, RecRef {| r_name := key; r_index := delta; r_val := RDel |})
    end
  else if typ =? typ_log then
    match decode_log_key key with
    | None => None
    | Some (name, idx) =>
        if vt =? 0 then Some (O, RecLog {| l_name := name; l_index := idx; l_body := None |})
        else if Nat.ltb (length buf) (2 * hash_size) then None
        else
          let old := firstn hash_size buf in
          let buf1 := skipn hash_size buf in
          let new := firstn hash_size buf1 in
          let buf2 := skipn hash_size buf1 in
          match decode_string buf2 with
          | None => None
          | Some (n1, nm) =>
              let buf3 := skipn n1 buf2 in
              match decode_string buf3 with
              | None => None
              | Some (n2, em) =>
                  let buf4 := skipn n2 buf3 in
                  match get_varint buf4 with
                  | None => None
                  | Some (tm, n3) =>
                      let buf5 := skipn n3 buf4 in
                      if Nat.ltb (length buf5) 2 then None
                      else
                        let tz := be_value (firstn 2 buf5) 0 in
                        let buf6 := skipn 2 buf5 in
                        match decode_string buf6 with
                        | None => None
                        | Some (n4, msg) =>
                            Some ((2 * hash_size + n1 + n2 + n3 + 2 + n4)%nat,
                                  RecLog {| l_name := name; l_index := idx;
                                            l_body := Some {| lb_old := Some old; lb_new := Some new;
                                                              lb_name := nm; lb_email := em; lb_time := tm;
                                                              lb_tz := tz; lb_msg := msg |} |})
                        end
                  end
              end
          end
    end
  else if typ =? typ_obj then
    let start :=
      if vt =? 0 then
        match get_varint buf with
        | None => None
        | Some (c, n) => Some (c, n)
        end
      else Some (vt, O) in
    match start with
    | None => None
    | Some (count, n0) =>
        let buf1 := skipn n0 buf in
        if count =? 0 then Some (n0, RecObj key [])
        else if N.of_nat (length buf1) <? count then None
        else match get_varint buf1 with
             | None => None
             | Some (o0, n1) =>
                 match decode_deltas (N.to_nat count - 1) o0 (skipn n1 buf1) (n0 + n1) [o0] with
                 | None => None
                 | Some (n, offs) => Some (n, RecObj key offs)
                 end
             end
    end
  else if typ =? typ_idx then
    match get_varint buf with
    | None => None
    | Some (off, s) => Some (s, RecIdx key off)
    end
  else None.
