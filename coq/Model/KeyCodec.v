(* record.go: commonPrefixSize, encodeKey, decodeKey, decodeRestartKey. *)
From Coq Require Import List NArith Arith Bool.
From RT Require Import Model.Bytes Model.Varint.
Import ListNotations.
Local Open Scope N_scope.

Fixpoint common_prefix (a b : bytes) : nat :=
  match a, b with
  | x :: a', y :: b' => if x =? y then S (common_prefix a' b') else O
  | _, _ => O
  end.

(* encodeKey: the bytes written and the restart flag (prefix length 0).  The
   Go function also reports whether they fit the buffer; the caller
   (bw_add) compares lengths. *)
Definition encode_key (prev key : bytes) (extra : N) : bytes * bool :=
  let p := common_prefix prev key in
  let suffix := skipn p key in
  (put_varint (N.of_nat p) ++ put_varint (N.of_nat (length suffix) * 8 + extra) ++ suffix,
   Nat.eqb p 0).

(* decodeKey: (bytes consumed, key, value type) *)
Definition decode_key (buf prev : bytes) : option (nat * bytes * N) :=
  match get_varint buf with
  | None => None
  | Some (prefix_len, s1) =>
      let buf1 := skipn s1 buf in
      match get_varint buf1 with
      | None => None
      | Some (sl, s2) =>
          let buf2 := skipn s2 buf1 in
          let vt := sl mod 8 in
          let suffix_len := sl / 8 in
          if N.of_nat (length buf2) <? suffix_len then None
          else if N.of_nat (length prev) <? prefix_len then None
          else
            let sn := N.to_nat suffix_len in
            Some ((s1 + s2 + sn)%nat, firstn (N.to_nat prefix_len) prev ++ firstn sn buf2, vt)
      end
  end.

(* decodeRestartKey(block, off) *)
Definition decode_restart_key (block : bytes) (off : nat) : option bytes :=
  if Nat.leb (length block) off then None
  else
    let buf := skipn off block in
    match buf with
    | [] => None
    | b0 :: buf1 =>
        if negb (b0 =? 0) then None
        else match get_varint buf1 with
             | None => None
             | Some (l, s) =>
                 let buf2 := skipn s buf1 in
                 let l3 := l / 8 in
                 if N.of_nat (length buf2) <? l3 then None
                 else Some (firstn (N.to_nat l3) buf2)
             end
    end.
