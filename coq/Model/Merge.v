(* merged.go: mergedIter (init, advanceSubIter, nextEntry, Next) over
   sub-iterators that are, at this level, the remaining records of each table
   (a table read from the start or after a seek; the table-level reader is
   Model/Reader.v).  Index i of [subs] is the table's position in the stack:
   higher = newer. *)
From Coq Require Import List NArith Arith Bool.
From RT Require Import Model.Bytes Model.Heap.
Import ListNotations.

Section Merge.
  Variable R : Type.
  Variable key : R -> bytes.
  Variable is_del : R -> bool.

  Record miter := { m_heap : list (R * nat); m_subs : list (list R) }.

  (* advanceSubIter(index) *)
  Definition advance (i : nat) (it : miter) : miter :=
    match nth i (m_subs it) [] with
    | [] => it
    | r :: rest => {| m_heap := heap_add key (m_heap it) (r, i);
                      m_subs := set_nth i rest (m_subs it) |}
    end.

  (* init: one Next on every sub-iterator, in stack order *)
  Fixpoint init_loop (n i : nat) (it : miter) : miter :=
    match n with
    | O => it
    | S n' => init_loop n' (S i) (advance i it)
    end.
  Definition m_init (tables : list (list R)) : miter :=
    init_loop (length tables) 0 {| m_heap := []; m_subs := tables |}.

  (* the loop of nextEntry that drops the other entries of the same key *)
  Fixpoint drop_same (fuel : nat) (k : bytes) (it : miter) : miter :=
    match fuel with
    | O => it
    | S f =>
        match m_heap it with
        | [] => it
        | top :: _ =>
            if bytes_ltb k (key (fst top)) then it
            else match heap_remove key (m_heap it) with
                 | None => it
                 | Some (e, h1) =>
                     drop_same f k (advance (snd e) {| m_heap := h1; m_subs := m_subs it |})
                 end
        end
    end.

  Definition total (it : miter) : nat :=
    length (m_heap it) + fold_right (fun l n => length l + n) 0 (m_subs it).

  Definition next_entry (it : miter) : option (R * miter) :=
    match heap_remove key (m_heap it) with
    | None => None
    | Some (e, h1) =>
        let it1 := advance (snd e) {| m_heap := h1; m_subs := m_subs it |} in
        Some (fst e, drop_same (S (total it1)) (key (fst e)) it1)
    end.

  (* Next: skip deletions when suppressDeletions is set *)
  Fixpoint m_next (fuel : nat) (suppress : bool) (it : miter) : option (R * miter) :=
    match fuel with
    | O => None
    | S f =>
        match next_entry it with
        | None => None
        | Some (r, it') =>
            if is_del r && suppress then m_next f suppress it' else Some (r, it')
        end
    end.

  Fixpoint drain (fuel : nat) (suppress : bool) (it : miter) : list R :=
    match fuel with
    | O => []
    | S f =>
        match m_next (S (total it)) suppress it with
        | None => []
        | Some (r, it') => r :: drain f suppress it'
        end
    end.

  Definition merged_scan (suppress : bool) (tables : list (list R)) : list R :=
    let it := m_init tables in drain (S (total it)) suppress it.

  (* table-level seek: the records with key >= k (what Reader.seek yields on a
     written table: C02) *)
  Fixpoint seek_list (k : bytes) (l : list R) : list R :=
    match l with
    | [] => []
    | r :: t => if bytes_ltb (key r) k then seek_list k t else l
    end.

  Definition merged_seek (suppress : bool) (tables : list (list R)) (k : bytes) : list R :=
    merged_scan suppress (map (seek_list k) tables).
End Merge.

Arguments m_heap {R} m.
Arguments m_subs {R} m.
Arguments merged_scan {R} key is_del suppress tables.
Arguments merged_seek {R} key is_del suppress tables k.
Arguments seek_list {R} key k l.
Arguments m_init {R} key tables.
Arguments next_entry {R} key it.
Arguments m_next {R} key is_del fuel suppress it.
Arguments drain {R} key is_del fuel suppress it.
Arguments advance {R} key i it.
Arguments total {R} it.
