(* refname.go: validateRefname, hasRef, hasRefWithPrefix, validateAddition,
   over the stack's view given as the ascending list of its live ref names
   (Merged with suppressDeletions; SeekRef = first name >= the key).
   A transaction (one table) is the ascending list of (name, is_deletion). *)
From Coq Require Import List NArith Arith Bool.
From RT Require Import Model.Bytes.
Import ListNotations.
Local Open Scope N_scope.

Definition slash : N := 47.
Definition dot : N := 46.

(* strings.Split(name, "/") *)
Fixpoint split_slash (cur : bytes) (s : bytes) : list bytes :=
  match s with
  | [] => [rev cur]
  | c :: t => if c =? slash then rev cur :: split_slash [] t else split_slash (c :: cur) t
  end.

Definition bad_component (c : bytes) : bool :=
  bytes_eqb c [] || bytes_eqb c [dot] || bytes_eqb c [dot; dot].

Definition validate_refname (name : bytes) : bool :=
  negb (existsb bad_component (split_slash [] name)).

(* path.Split + TrimSuffix(dir, "/"): everything before the last '/', or "" *)
Fixpoint dir_of_aux (s : bytes) : option bytes :=
  match s with
  | [] => None
  | c :: t =>
      match dir_of_aux t with
      | Some d => Some (c :: d)
      | None => if c =? slash then Some [] else None
      end
  end.
Definition dir_of (s : bytes) : bytes :=
  match dir_of_aux s with Some d => d | None => [] end.

Definition mem (x : bytes) (l : list bytes) : bool := existsb (bytes_eqb x) l.

(* sort.SearchStrings(l, x) on an ascending list: the suffix starting at the
   first element >= x (the model scans linearly; on ascending input this is
   the element the binary search finds) *)
Fixpoint seek_names (x : bytes) (l : list bytes) : list bytes :=
  match l with
  | [] => []
  | a :: t => if bytes_ltb a x then seek_names x t else l
  end.

Definition has_ref (view adds dels : list bytes) (name : bytes) : bool :=
  if mem name adds then true
  else if mem name dels then false
  else match seek_names name view with
       | r :: _ => bytes_eqb r name
       | [] => false
       end.

Fixpoint first_undeleted (dels : list bytes) (l : list bytes) : option bytes :=
  match l with
  | [] => None
  | r :: t => if mem r dels then first_undeleted dels t else Some r
  end.

Definition has_ref_with_prefix (view adds dels : list bytes) (prefix : bytes) : bool :=
  match seek_names prefix adds with
  | a :: _ => if is_prefix prefix a then true
              else match first_undeleted dels (seek_names prefix view) with
                   | Some r => is_prefix prefix r
                   | None => false
                   end
  | [] => match first_undeleted dels (seek_names prefix view) with
          | Some r => is_prefix prefix r
          | None => false
          end
  end.

(* for a != "" { dir := parent(a); if hasRef(dir) fail; a = dir } *)
Fixpoint parents_free (fuel : nat) (view adds dels : list bytes) (a : bytes) : bool :=
  match fuel with
  | O => true
  | S f =>
      match a with
      | [] => true
      | _ => let d := dir_of a in
             if has_ref view adds dels d then false
             else parents_free f view adds dels d
      end
  end.

Definition check_one (view adds dels : list bytes) (a : bytes) : bool :=
  validate_refname a
  && negb (has_ref_with_prefix view adds dels (a ++ [slash]))
  && parents_free (S (length a)) view adds dels a.

Definition tx := list (bytes * bool).            (* (name, is_deletion), ascending *)
Definition tx_adds (t : tx) : list bytes := map fst (filter (fun p => negb (snd p)) t).
Definition tx_dels (t : tx) : list bytes := map fst (filter (fun p => snd p) t).

(* validateRefRecordAddition / validateAddition *)
Definition validate_addition (view : list bytes) (t : tx) : bool :=
  forallb (check_one view (tx_adds t) (tx_dels t)) (tx_adds t).

(* ---- specification ---- *)

(* the live names after committing t on top of view: names touched by t are
   replaced; sorted merge keeps the list ascending *)
Fixpoint insert_name (x : bytes) (l : list bytes) : list bytes :=
  match l with
  | [] => [x]
  | a :: t => if bytes_ltb x a then x :: l else if bytes_eqb x a then l else a :: insert_name x t
  end.
Definition remove_name (x : bytes) (l : list bytes) : list bytes :=
  filter (fun a => negb (bytes_eqb a x)) l.
Definition apply_tx (view : list bytes) (t : tx) : list bytes :=
  fold_left (fun v p => if (snd p : bool) then remove_name (fst p) v else insert_name (fst p) (remove_name (fst p) v)) t view.

(* a is a directory prefix of b *)
Definition dir_prefix (a b : bytes) : bool := is_prefix (a ++ [slash]) b.

Definition conflict_free (names : list bytes) : Prop :=
  (forall a, In a names -> validate_refname a = true) /\
  (forall a b, In a names -> In b names -> dir_prefix a b = false).

(* boolean version, used as run-time oracle *)
Definition conflict_free_b (names : list bytes) : bool :=
  forallb validate_refname names &&
  forallb (fun a => forallb (fun b => negb (dir_prefix a b)) names) names.

(* Stack.Add with name checking: accepted transactions are applied *)
Definition add_checked (view : list bytes) (t : tx) : list bytes :=
  if validate_addition view t then apply_tx view t else view.

(* multi-table Addition as coded on the pinned tree: every table of the
   Addition is validated against the view committed *before* the Addition *)
Definition addition_pinned (view : list bytes) (ts : list tx) : list bytes :=
  if forallb (validate_addition view) ts then fold_left apply_tx ts view else view.

(* multi-table Addition validating each table against the view that includes
   the Addition's earlier tables *)
Fixpoint addition_seq (view : list bytes) (ts : list tx) : option (list bytes) :=
  match ts with
  | [] => Some view
  | t :: rest => if validate_addition view t then addition_seq (apply_tx view t) rest else None
  end.
