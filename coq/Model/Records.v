(* The two public record types (api.go RefRecord / LogRecord) in the shape of
   the documented domain, their keys and deletion tests (record.go). *)
From Coq Require Import List NArith Bool.
From RT Require Import Model.Bytes.
Import ListNotations.
Local Open Scope N_scope.

(* value kinds 0..3 of a ref: deletion, one hash, hash + peeled hash, symref.
   (The Go struct admits further shapes -- e.g. only a peeled value -- which
   the writer does not encode consistently; they are outside the documented
   domain, see DESIGN.md W5.) *)
Inductive ref_value :=
| RDel
| RVal (h : bytes)
| RVal2 (h t : bytes)
| RSym (target : bytes).

Record ref_record := { r_name : bytes; r_index : N; r_val : ref_value }.

Record log_body := {
  lb_old : option bytes;   (* nil in Go: written and read back as all-zero *)
  lb_new : option bytes;
  lb_name : bytes; lb_email : bytes;
  lb_time : N; lb_tz : N;  (* TZOffset as its uint16 bit pattern *)
  lb_msg : bytes }.

(* l_body = None is the log deletion record (all fields zero in Go) *)
Record log_record := { l_name : bytes; l_index : N; l_body : option log_body }.

Definition ref_key (r : ref_record) : bytes := r_name r.
Definition ref_is_del (r : ref_record) : bool :=
  match r_val r with RDel => true | _ => false end.

(* revInt64 / LogRecord.key: name ++ [0] ++ be64 (MaxUint64 - index) *)
Definition rev_int64 (t : N) : N := u64_max - t.
Definition log_key_of (name : bytes) (index : N) : bytes := name ++ [0] ++ be64 (rev_int64 index).
Definition log_key (l : log_record) : bytes := log_key_of (l_name l) (l_index l).
Definition log_is_del (l : log_record) : bool :=
  match l_body l with None => true | Some _ => false end.

Definition ref_value_eqb (a b : ref_value) : bool :=
  match a, b with
  | RDel, RDel => true
  | RVal h, RVal h' => bytes_eqb h h'
  | RVal2 h t, RVal2 h' t' => bytes_eqb h h' && bytes_eqb t t'
  | RSym s, RSym s' => bytes_eqb s s'
  | _, _ => false
  end.
Definition ref_eqb (a b : ref_record) : bool :=
  bytes_eqb (r_name a) (r_name b) && (r_index a =? r_index b) && ref_value_eqb (r_val a) (r_val b).

(* does the ref's value or peeled value equal [oid]?  (RefsFor) *)
Definition points_to (oid : bytes) (r : ref_record) : bool :=
  match r_val r with
  | RVal h => bytes_eqb h oid
  | RVal2 h t => bytes_eqb h oid || bytes_eqb t oid
  | _ => false
  end.
