(* The lock-file protocol of stack.go as small-step programs over an abstract
   file system (DESIGN.md 6.1, Appendix A).  Every API call of a handle is a
   program in a free monad whose operations are the file-system calls of the Go
   code, in the code's order; a step of the world lets one handle perform its
   pending operation atomically.  Tables are abstracted to their update-index
   range and the list of transactions they hold (what a compaction does to the
   records is C07's business).  The model emits traces of Model/StackTrace.v. *)
From Coq Require Import List NArith Arith Bool.
From RT Require Import Model.StackTrace Model.Segments.
Import ListNotations.
Local Open Scope nat_scope.

(* tf_hash: the hash type of the table (false = SHA-1, true = SHA-256) *)
Record tfile := { tf_min : N; tf_max : N; tf_txs : list nat; tf_size : N; tf_hash : bool }.

(* ---------------- the abstract directory ---------------- *)

Record fs := {
  f_list : option (list nat);          (* tables.list *)
  f_lock : option nat;                 (* tables.list.lock: the handle that created it (ghost) *)
  f_tabs : list (nat * tfile);         (* <name>.ref *)
  f_tlocks : list (nat * nat);         (* <name>.ref.lock -> creator *)
  f_tmps : list (nat * nat);           (* *.reftmp -> creator *)
  f_next_tab : nat;                    (* fresh table names (the code relies on 32 random bits) *)
  f_next_tmp : nat }.

Inductive req :=
| QCreateExcl (p : path)
| QReadList
| QOpenTab (n : nat)
| QOpenTmp (t : nat)
| QCreateTemp
| QRenameTmp (t : nat) (min max : N) (txs : list nat) (hash : bool)   (* temp file -> a new table file *)
| QCommitList (names : list nat)                        (* write the names into the lock file, rename it onto tables.list *)
| QRemove (p : path)
| QRemoveOne (cands : list nat)        (* unlink one of these tables: Go walks a map, any order *)
| QOpenOne (cands : list nat)          (* open one of these tables: the order of a directory listing *)
| QReadDir.

Inductive resp :=
| SOk | SExist | SNoEnt
| SNames (l : option (list nat))
| STab (f : tfile)
| STmp (t : nat)
| SNew (n : nat) (f : tfile)
| SRemoved (n : nat)
| SVisited (n : nat) (f : option tfile)
| SDir (tabs : list (nat * tfile)).

Inductive prog (A : Type) : Type :=
| Ret (a : A)
| Op (q : req) (k : resp -> prog A).
Arguments Ret {A} a.
Arguments Op {A} q k.

Fixpoint pbind {A B} (p : prog A) (f : A -> prog B) : prog B :=
  match p with
  | Ret a => f a
  | Op q k => Op q (fun r => pbind (k r) f)
  end.
Notation "'do!' x ':=' e 'in' f" := (pbind e (fun x => f))
  (at level 200, x pattern, e at level 100, f at level 200, right associativity).
Definition op (q : req) : prog resp := Op q (fun r => Ret r).

Fixpoint lookup {A} (n : nat) (l : list (nat * A)) : option A :=
  match l with [] => None | (m, a) :: t => if Nat.eqb n m then Some a else lookup n t end.
Definition del {A} (n : nat) (l : list (nat * A)) : list (nat * A) :=
  filter (fun x => negb (Nat.eqb n (fst x))) l.

Definition names_eqb := list_nat_eqb.

(* the effect of one operation by handle h; size_oracle gives the byte size of a new table *)
Definition apply_req (size_oracle : nat -> N) (choice : option nat) (h : nat) (q : req) (s : fs) : fs * resp * fres :=
  match q with
  | QRemoveOne cands =>
      let n := match choice with
               | Some c => if mem_nat c cands then c else hd 0 cands
               | None => hd 0 cands
               end in
      match lookup n (f_tabs s) with
      | None => (s, SRemoved n, FNoEnt)
      | Some _ => ({| f_list := f_list s; f_lock := f_lock s; f_tabs := del n (f_tabs s); f_tlocks := f_tlocks s;
                      f_tmps := f_tmps s; f_next_tab := f_next_tab s; f_next_tmp := f_next_tmp s |}, SRemoved n, FOk)
      end
  | QOpenOne cands =>
      let n := match choice with
               | Some c => if mem_nat c cands then c else hd 0 cands
               | None => hd 0 cands
               end in
      match lookup n (f_tabs s) with
      | None => (s, SVisited n None, FNoEnt)
      | Some f => (s, SVisited n (Some f), FOk)
      end
  | QCreateExcl PLL =>
      match f_lock s with
      | Some _ => (s, SExist, FExist)
      | None => ({| f_list := f_list s; f_lock := Some h; f_tabs := f_tabs s; f_tlocks := f_tlocks s;
                    f_tmps := f_tmps s; f_next_tab := f_next_tab s; f_next_tmp := f_next_tmp s |}, SOk, FOk)
      end
  | QCreateExcl (PTL n) =>
      match lookup n (f_tlocks s) with
      | Some _ => (s, SExist, FExist)
      | None => ({| f_list := f_list s; f_lock := f_lock s; f_tabs := f_tabs s; f_tlocks := (n, h) :: f_tlocks s;
                    f_tmps := f_tmps s; f_next_tab := f_next_tab s; f_next_tmp := f_next_tmp s |}, SOk, FOk)
      end
  | QCreateExcl _ => (s, SExist, FOtherErr)
  | QReadList => (s, SNames (f_list s), match f_list s with Some _ => FOk | None => FNoEnt end)
  | QOpenTab n =>
      match lookup n (f_tabs s) with
      | Some f => (s, STab f, FOk)
      | None => (s, SNoEnt, FNoEnt)
      end
  | QOpenTmp t =>
      match lookup t (f_tmps s) with
      | Some _ => (s, SOk, FOk)
      | None => (s, SNoEnt, FNoEnt)
      end
  | QCreateTemp =>
      let t := f_next_tmp s in
      ({| f_list := f_list s; f_lock := f_lock s; f_tabs := f_tabs s; f_tlocks := f_tlocks s;
          f_tmps := (t, h) :: f_tmps s; f_next_tab := f_next_tab s; f_next_tmp := S t |}, STmp t, FOk)
  | QRenameTmp t mn mx txs hsh =>
      match lookup t (f_tmps s) with
      | None => (s, SNoEnt, FNoEnt)
      | Some _ =>
          let n := f_next_tab s in
          let f := {| tf_min := mn; tf_max := mx; tf_txs := txs; tf_size := size_oracle n; tf_hash := hsh |} in
          ({| f_list := f_list s; f_lock := f_lock s; f_tabs := f_tabs s ++ [(n, f)]; f_tlocks := f_tlocks s;
              f_tmps := del t (f_tmps s); f_next_tab := S n; f_next_tmp := f_next_tmp s |}, SNew n f, FOk)
      end
  | QCommitList names =>
      match f_lock s with
      | None => (s, SNoEnt, FNoEnt)
      | Some c =>
          (* the file at the lock path moves onto tables.list; if it is not this handle's own
             lock file its content is not what this handle wrote (modelled as empty) *)
          ({| f_list := Some (if Nat.eqb c h then names else []); f_lock := None; f_tabs := f_tabs s;
              f_tlocks := f_tlocks s; f_tmps := f_tmps s; f_next_tab := f_next_tab s; f_next_tmp := f_next_tmp s |}, SOk, FOk)
      end
  | QRemove PLL =>
      match f_lock s with
      | None => (s, SNoEnt, FNoEnt)
      | Some _ => ({| f_list := f_list s; f_lock := None; f_tabs := f_tabs s; f_tlocks := f_tlocks s;
                      f_tmps := f_tmps s; f_next_tab := f_next_tab s; f_next_tmp := f_next_tmp s |}, SOk, FOk)
      end
  | QRemove (PTL n) =>
      match lookup n (f_tlocks s) with
      | None => (s, SNoEnt, FNoEnt)
      | Some _ => ({| f_list := f_list s; f_lock := f_lock s; f_tabs := f_tabs s; f_tlocks := del n (f_tlocks s);
                      f_tmps := f_tmps s; f_next_tab := f_next_tab s; f_next_tmp := f_next_tmp s |}, SOk, FOk)
      end
  | QRemove (PT n) =>
      match lookup n (f_tabs s) with
      | None => (s, SNoEnt, FNoEnt)
      | Some _ => ({| f_list := f_list s; f_lock := f_lock s; f_tabs := del n (f_tabs s); f_tlocks := f_tlocks s;
                      f_tmps := f_tmps s; f_next_tab := f_next_tab s; f_next_tmp := f_next_tmp s |}, SOk, FOk)
      end
  | QRemove (PTmp t) =>
      match lookup t (f_tmps s) with
      | None => (s, SNoEnt, FNoEnt)
      | Some _ => ({| f_list := f_list s; f_lock := f_lock s; f_tabs := f_tabs s; f_tlocks := f_tlocks s;
                      f_tmps := del t (f_tmps s); f_next_tab := f_next_tab s; f_next_tmp := f_next_tmp s |}, SOk, FOk)
      end
  | QRemove _ => (s, SNoEnt, FNoEnt)
  | QReadDir => (s, SDir (f_tabs s), FOk)
  end.

(* ---------------- a handle's programs ---------------- *)

Definition mem := list (nat * tfile).          (* st.stack: open readers *)
Definition mnames (m : mem) : list nat := map fst m.

Inductive rstatus := RlOk | RlNotExist | RlBadHash.

(* NewMerged's check at the end of a load: every table is of the handle's hash type
   (its other check, increasing index ranges, cannot fail: C05) *)
Definition same_hash (hh : bool) (m : list (nat * tfile)) : bool :=
  forallb (fun x => Bool.eqb (tf_hash (snd x)) hh) m.

(* open the tables of [names] that cannot be reused; None = a file is missing *)
Fixpoint open_all (reuse : bool) (old : mem) (names : list nat) (acc : mem) : prog (option mem) :=
  match names with
  | [] => Ret (Some (rev acc))
  | n :: t =>
      match (if reuse then lookup n old else None) with
      | Some f => open_all reuse old t ((n, f) :: acc)
      | None =>
          do! r := op (QOpenTab n) in
          match r with
          | STab f => open_all reuse old t ((n, f) :: acc)
          | _ => Ret None
          end
      end
  end.

Fixpoint remove_tabs (l : list nat) : prog unit :=
  match l with
  | [] => Ret tt
  | n :: t => do! _ := op (QRemove (PT n)) in remove_tabs t
  end.

(* unlink a set of tables in any order *)
Fixpoint remove_any (fuel : nat) (cands : list nat) : prog unit :=
  match fuel, cands with
  | O, _ | _, [] => Ret tt
  | S f, _ =>
      do! r := op (QRemoveOne cands) in
      match r with
      | SRemoved n => remove_any f (filter (fun x => negb (Nat.eqb x n)) cands)
      | _ => Ret tt
      end
  end.

(* reload(reuse) of a handle configured with hash type [hh]: [attempts] bounds the retry loop (the 2.5 s deadline); when it
   runs out the handle keeps its previous stack and reload reports success *)
Fixpoint reload (attempts : nat) (hh : bool) (reuse : bool) (old : mem) : prog (mem * rstatus) :=
  match attempts with
  | O => Ret (old, RlOk)
  | S a =>
      do! r := op QReadList in
      let names := match r with SNames (Some l) => l | _ => [] end in
      do! o := open_all reuse old names [] in
      match o with
      | Some m =>
          if same_hash hh m then
            (* success: drop (close + unlink) the tables that are no longer listed *)
            let gone := filter (fun n => negb (mem_nat n names)) (mnames old) in
            do! _ := remove_any (length gone) gone in
            Ret (m, RlOk)
          else
            (* a table of another hash type: the tables just opened are closed again, the
               handle keeps what it had (fix: "reload validates the new tables ... before
               they replace the current ones") *)
            Ret (old, RlBadHash)
      | None =>
          do! r2 := op QReadList in
          let after := match r2 with SNames (Some l) => l | _ => [] end in
          if names_eqb after names then Ret (old, RlNotExist)
          else reload a hh reuse old
      end
  end.

(* the first load (NewStack): like reload from an empty stack, but when every
   attempt lost a race there is no earlier state to keep: the open fails
   (fix: commit "NewStack reports an error when every load attempt lost a race") *)
Fixpoint open_reload (attempts : nat) (hh : bool) : prog (option mem) :=
  match attempts with
  | O => Ret None
  | S a =>
      do! r := op QReadList in
      let names := match r with SNames (Some l) => l | _ => [] end in
      do! o := open_all true [] names [] in
      match o with
      | Some m => if same_hash hh m then Ret (Some m) else Ret None
      | None =>
          do! r2 := op QReadList in
          let after := match r2 with SNames (Some l) => l | _ => [] end in
          if names_eqb after names then Ret None
          else open_reload a hh
      end
  end.

Fixpoint remove_tlocks (l : list nat) : prog unit :=
  match l with
  | [] => Ret tt
  | n :: t => do! _ := op (QRemove (PTL n)) in remove_tlocks t
  end.

(* lock tables mem[first..last]: Some = all taken, None = one was held (those taken are released) *)
Fixpoint lock_tabs (todo : list nat) (taken : list nat) : prog (option (list nat)) :=
  match todo with
  | [] => Ret (Some (rev taken))
  | n :: t =>
      do! r := op (QCreateExcl (PTL n)) in
      match r with
      | SOk => lock_tabs t (n :: taken)
      | _ => do! _ := remove_tlocks (rev taken) in Ret None
      end
  end.

Fixpoint find_run (run : list nat) (cur : list nat) (start : nat) : option nat :=
  match cur with
  | [] => None
  | _ :: t =>
      if names_eqb (firstn (length run) cur) run then Some start else find_run run t (S start)
  end.

Definition range {A} (first last : nat) (l : list A) : list A := firstn (last - first + 1) (skipn first l).

Definition last_max (m : mem) : N := match rev m with (_, f) :: _ => tf_max f | [] => 0%N end.
Definition next_index (m : mem) : N := match m with [] => 1%N | _ => (last_max m + 1)%N end.

(* compactRange(first, last, expiry?): true = done *)
Definition compact_range (attempts : nat) (hh : bool) (first last : nat) (expiry : bool) (m : mem) : prog (mem * bool) :=
  if Nat.leb last first && negb expiry then Ret (m, true)
  else
    do! r := op (QCreateExcl PLL) in
    match r with
    | SOk =>
        do! c := op QReadList in
        let cur := match c with SNames (Some l) => l | _ => [] end in
        if negb (names_eqb cur (mnames m)) then do! _ := op (QRemove PLL) in Ret (m, false)
        else
          let sub := range first last m in
          do! lk := lock_tabs (mnames sub) [] in
          match lk with
          | None => do! _ := op (QRemove PLL) in Ret (m, false)
          | Some locks =>
              do! _ := op (QRemove PLL) in
              do! t := op QCreateTemp in
              match t with
              | STmp tmp =>
                  do! r2 := op (QCreateExcl PLL) in
                  match r2 with
                  | SOk =>
                      do! c2 := op QReadList in
                      let cur2 := match c2 with SNames (Some l) => l | _ => [] end in
                      match find_run (mnames sub) cur2 0 with
                      | None =>
                          do! _ := op (QRemove (PTmp tmp)) in
                          do! _ := remove_tlocks locks in
                          do! _ := op (QRemove PLL) in Ret (m, false)
                      | Some start =>
                          let mn := match sub with (_, f) :: _ => tf_min f | [] => 0%N end in
                          let mx := last_max sub in
                          do! nw := op (QRenameTmp tmp mn mx (flat_map (fun x => tf_txs (snd x)) sub) hh) in
                          match nw with
                          | SNew n _ =>
                              do! _ := op (QCommitList (firstn start cur2 ++ [n] ++ skipn (start + length sub) cur2)) in
                              do! _ := remove_tabs (mnames sub) in
                              do! rl := reload attempts hh (negb expiry) m in
                              do! _ := remove_tlocks locks in
                              Ret (fst rl, true)
                          | _ => do! _ := remove_tlocks locks in do! _ := op (QRemove PLL) in Ret (m, false)
                          end
                      end
                  | _ =>
                      do! _ := op (QRemove (PTmp tmp)) in
                      do! _ := remove_tlocks locks in Ret (m, false)
                  end
              | _ => do! _ := remove_tlocks locks in Ret (m, false)
              end
          end
    | _ => Ret (m, false)
    end.

Definition auto_compact (attempts : nat) (hh : bool) (m : mem) : prog mem :=
  match suggest (map (fun x => tf_size (snd x)) m) with
  | None => Ret m
  | Some (s, e) => do! r := compact_range attempts hh s (e - 1) false m in Ret (fst r)
  end.

Inductive add_kind := KAdd (tx : nat) | KEmpty | KBad.

(* Stack.Add *)
Definition add (attempts : nat) (hh : bool) (kind : add_kind) (auto : bool) (m : mem) : prog (mem * apires) :=
  do! r := op (QCreateExcl PLL) in
  match r with
  | SOk =>
      do! c := op QReadList in
      let cur := match c with SNames (Some l) => l | _ => [] end in
      if negb (names_eqb cur (mnames m)) then
        do! _ := op (QRemove PLL) in
        do! rl := reload attempts hh true m in Ret (fst rl, RLockFailure)
      else
        do! t := op QCreateTemp in
        match t with
        | STmp tmp =>
            match kind with
            | KEmpty =>
                do! _ := op (QRemove (PTmp tmp)) in
                do! _ := op (QRemove PLL) in
                if auto then do! m' := auto_compact attempts hh m in Ret (m', ROk) else Ret (m, ROk)
            | KBad =>
                do! _ := op (QRemove (PTmp tmp)) in
                do! _ := op (QRemove PLL) in Ret (m, RRejected)
            | KAdd tx =>
                do! _ := op (QOpenTmp tmp) in
                let ui := next_index m in
                do! nw := op (QRenameTmp tmp ui ui [tx] hh) in
                match nw with
                | SNew n _ =>
                    do! _ := op (QRemove (PTmp tmp)) in
                    do! _ := op (QCommitList (mnames m ++ [n])) in
                    do! rl := reload attempts hh true m in
                    if auto then do! m' := auto_compact attempts hh (fst rl) in Ret (m', ROk) else Ret (fst rl, ROk)
                | _ => do! _ := op (QRemove PLL) in Ret (m, RErr)
                end
            end
        | _ => do! _ := op (QRemove PLL) in Ret (m, RErr)
        end
  | _ => do! rl := reload attempts hh true m in Ret (fst rl, RLockFailure)
  end.

(* NewAddition / Add / Add / Commit / Close: a transaction of two tables.  The second
   table holds no transaction of its own; with [same] it claims the update index
   of the first and is refused, and Close takes the first table back. *)
Definition add_multi (attempts : nat) (hh : bool) (tx : nat) (same : bool) (m : mem) : prog (mem * apires) :=
  do! r := op (QCreateExcl PLL) in
  match r with
  | SOk =>
      do! c := op QReadList in
      let cur := match c with SNames (Some l) => l | _ => [] end in
      if negb (names_eqb cur (mnames m)) then
        do! _ := op (QRemove PLL) in Ret (m, RLockFailure)
      else
        do! t := op QCreateTemp in
        match t with
        | STmp tmp =>
            do! _ := op (QOpenTmp tmp) in
            let ui := next_index m in
            do! nw := op (QRenameTmp tmp ui ui [tx] hh) in
            match nw with
            | SNew n1 _ =>
                do! _ := op (QRemove (PTmp tmp)) in
                do! t2 := op QCreateTemp in
                match t2 with
                | STmp tmp2 =>
                    if same then
                      do! _ := op (QRemove (PTmp tmp2)) in
                      do! _ := op (QRemove (PT n1)) in
                      do! _ := op (QRemove PLL) in Ret (m, RLockFailure)
                    else
                      do! _ := op (QOpenTab n1) in
                      do! _ := op (QOpenTmp tmp2) in
                      do! nw2 := op (QRenameTmp tmp2 (ui + 1) (ui + 1) [] hh) in
                      match nw2 with
                      | SNew n2 _ =>
                          do! _ := op (QRemove (PTmp tmp2)) in
                          do! _ := op (QCommitList (mnames m ++ [n1; n2])) in
                          do! rl := reload attempts hh true m in
                          Ret (fst rl, ROk)
                      | _ => do! _ := op (QRemove (PT n1)) in do! _ := op (QRemove PLL) in Ret (m, RErr)
                      end
                | _ => do! _ := op (QRemove (PT n1)) in do! _ := op (QRemove PLL) in Ret (m, RErr)
                end
            | _ => do! _ := op (QRemove PLL) in Ret (m, RErr)
            end
        | _ => do! _ := op (QRemove PLL) in Ret (m, RErr)
        end
  | _ => Ret (m, RLockFailure)
  end.

(* Stack.Clean: under the list lock, unlink every unlisted table whose update
   indices the stack already covers.  A file that vanished since the directory
   was read is skipped. *)
Fixpoint clean_loop (fuel : nat) (cands : list nat) (mx : N) : prog unit :=
  match fuel, cands with
  | O, _ | _, [] => Ret tt
  | S f, _ =>
      do! r := op (QOpenOne cands) in
      match r with
      | SVisited n (Some tf) =>
          let rest := filter (fun x => negb (Nat.eqb x n)) cands in
          if (tf_max tf <=? mx)%N then do! _ := op (QRemove (PT n)) in clean_loop f rest mx
          else clean_loop f rest mx
      | SVisited n None => clean_loop f (filter (fun x => negb (Nat.eqb x n)) cands) mx
      | _ => Ret tt
      end
  end.

Definition clean (attempts : nat) (hh : bool) (m : mem) : prog (mem * apires) :=
  do! r := op (QCreateExcl PLL) in
  match r with
  | SOk =>
      do! c := op QReadList in
      let cur := match c with SNames (Some l) => l | _ => [] end in
      if negb (names_eqb cur (mnames m)) then
        do! _ := op (QRemove PLL) in Ret (m, RLockFailure)
      else
        do! rl := reload attempts hh true m in
        let m' := fst rl in
        match snd rl with
        | RlNotExist | RlBadHash => do! _ := op (QRemove PLL) in Ret (m', RErr)
        | RlOk =>
            do! d := op QReadDir in
            match m' with
            | [] => do! _ := op (QRemove PLL) in Ret (m', ROk)
            | _ =>
                let all := match d with SDir tabs => map fst tabs | _ => [] end in
                let cands := filter (fun n => negb (mem_nat n (mnames m'))) all in
                do! _ := clean_loop (length cands) cands (last_max m') in
                do! _ := op (QRemove PLL) in Ret (m', ROk)
            end
        end
  | _ => Ret (m, RLockFailure)
  end.

(* Stack.Close *)
Definition close (m : mem) : prog unit :=
  do! c := op QReadList in
  let names := match c with SNames (Some l) => l | _ => [] end in
  match names with
  | [] => Ret tt
  | _ => remove_tabs (filter (fun n => negb (mem_nat n names)) (mnames m))
  end.

(* ---------------- the world ---------------- *)

Inductive hpc :=
| HIdle                                         (* between calls *)
| HRun (op : apiop) (p : prog (option mem * apires))   (* inside a call; None = the handle has no stack afterwards *)
| HDead.

(* h_hash: the hash type the handle is configured with (Config.HashID) *)
Record handle := { h_mem : option mem; h_pc : hpc; h_script : list apiop; h_hash : bool }.

Record world := { w_fs : fs; w_handles : list handle }.

Definition attempts_default : nat := 50.

Definition wrap {A} (p : prog A) (f : A -> option mem * apires) : prog (option mem * apires) :=
  do! a := p in Ret (f a).

(* the program of an API call on a handle holding [m] *)
Definition call_prog (attempts : nat) (hh : bool) (o : apiop) (m : option mem) : prog (option mem * apires) :=
  match o, m with
  | AOpen, _ =>
      wrap (open_reload attempts hh) (fun r => match r with Some m => (Some m, ROk) | None => (None, RErr) end)
  | AAdd tx auto, Some mm => wrap (add attempts hh (KAdd tx) auto mm) (fun r => (Some (fst r), snd r))
  | AAddEmpty, Some mm => wrap (add attempts hh KEmpty false mm) (fun r => (Some (fst r), snd r))
  | AAddBad, Some mm => wrap (add attempts hh KBad false mm) (fun r => (Some (fst r), snd r))
  | ACompactAll, Some mm =>
      match mm with
      | [] => Ret (Some mm, ROk)
      | _ => wrap (compact_range attempts hh 0 (length mm - 1) false mm) (fun r => (Some (fst r), ROk))
      end
  | AExpire, Some mm =>
      match mm with
      | [] => Ret (Some mm, ROk)
      | _ => wrap (compact_range attempts hh 0 (length mm - 1) true mm) (fun r => (Some (fst r), ROk))
      end
  | AAddMulti tx same, Some mm => wrap (add_multi attempts hh tx same mm) (fun r => (Some (fst r), snd r))
  | ACompact first last, Some mm =>
      if Nat.ltb last (length mm) && Nat.leb first last
      then wrap (compact_range attempts hh first last false mm) (fun r => (Some (fst r), ROk))
      else Ret (Some mm, ROk)
  | AClean, Some mm => wrap (clean attempts hh mm) (fun r => (Some (fst r), snd r))
  | AClose, Some mm => wrap (close mm) (fun _ => (None, ROk))
  | AClose, None => Ret (None, ROk)
  | ARead, Some mm => Ret (Some mm, RView (flat_map (fun x => tf_txs (snd x)) mm) (hd_error (rev (flat_map (fun x => tf_txs (snd x)) mm))))
  | _, None => Ret (None, RNoStack)
  end.

Definition req_event (h : nat) (q : req) (rs : resp) (fr : fres) : event :=
  match q with
  | QCreateExcl p => EFs h FCreateExcl p fr []
  | QReadList => EFs h FReadFile PL fr (match rs with SNames (Some l) => l | _ => [] end)
  | QOpenTab n => EFs h FOpen (PT n) fr []
  | QOpenTmp t => EFs h FOpen (PTmp t) fr []
  | QCreateTemp => EFs h FCreateTemp (match rs with STmp t => PTmp t | _ => POther end) fr []
  | QRenameTmp t _ _ _ _ => EFs h (FRename (match rs with SNew n _ => PT n | _ => POther end)) (PTmp t) fr []
  | QCommitList _ => EFs h (FRename PL) PLL fr []
  | QRemove p => EFs h FRemove p fr []
  | QRemoveOne _ => EFs h FRemove (match rs with SRemoved n => PT n | _ => POther end) fr []
  | QOpenOne _ => EFs h FOpen (match rs with SVisited n _ => PT n | _ => POther end) fr []
  | QReadDir => EFs h FReadDir PDir fr []
  end.

(* the hash type of the stack = that of the first listed table; a listed table of another
   hash type is as bad as a missing one ("a valid table of the stack's hash type") *)
Definition stack_hash (s : fs) : option bool :=
  match f_list s with
  | Some (n :: _) => match lookup n (f_tabs s) with Some f => Some (tf_hash f) | None => None end
  | _ => None
  end.

Definition snapshot_of (s : fs) : snapshot :=
  {| sn_list := f_list s;
     sn_tabs := map (fun n => (n, match lookup n (f_tabs s) with
                                  | Some f =>
                                      if (match stack_hash s with Some hsh => Bool.eqb (tf_hash f) hsh | None => true end)
                                      then TGood {| ti_min := tf_min f; ti_max := tf_max f; ti_txs := tf_txs f |}
                                      else TBad
                                  | None => TBad end))
                    (match f_list s with Some l => l | None => [] end);
     sn_files := (match f_list s with Some _ => [PL] | None => [] end)
                 ++ (match f_lock s with Some _ => [PLL] | None => [] end)
                 ++ map (fun x => PT (fst x)) (f_tabs s)
                 ++ map (fun x => PTL (fst x)) (f_tlocks s)
                 ++ map (fun x => PTmp (fst x)) (f_tmps s) |}.

Fixpoint set_handle (i : nat) (x : handle) (l : list handle) : list handle :=
  match l, i with
  | [], _ => []
  | _ :: t, O => x :: t
  | y :: t, S j => y :: set_handle j x t
  end.

(* events when a call finishes *)
Definition finish_events (h : nat) (o : apiop) (m : option mem) (r : apires) : list event :=
  ERet h o r :: match m with Some mm => [EMem h (mnames mm) 0] | None => [] end.

(* one scheduling step of handle h: a call boundary, or one fs operation (run up to the next one) *)
Definition step (size_oracle : nat -> N) (attempts : nat) (w : world) (h : nat) (choice : option nat) : world * list event :=
  match nth_error (w_handles w) h with
  | None => (w, [])
  | Some hd =>
      match h_pc hd with
      | HDead => (w, [])
      | HIdle =>
          match h_script hd with
          | [] => (w, [])
          | o :: rest =>
              (* the call starts; a call without fs operations returns at once *)
              match call_prog attempts (h_hash hd) o (h_mem hd) with
              | Ret (m, r) =>
                  ({| w_fs := w_fs w; w_handles := set_handle h {| h_mem := m; h_pc := HIdle; h_script := rest; h_hash := h_hash hd |} (w_handles w) |},
                   ECall h o :: finish_events h o m r)
              | p => ({| w_fs := w_fs w; w_handles := set_handle h {| h_mem := h_mem hd; h_pc := HRun o p; h_script := rest; h_hash := h_hash hd |} (w_handles w) |},
                      [ECall h o])
              end
          end
      | HRun o (Ret (m, r)) =>
          ({| w_fs := w_fs w; w_handles := set_handle h {| h_mem := m; h_pc := HIdle; h_script := h_script hd; h_hash := h_hash hd |} (w_handles w) |},
           finish_events h o m r)
      | HRun o (Op q k) =>
          let '(s', rs, fr) := apply_req size_oracle choice h q (w_fs w) in
          let ev := [req_event h q rs fr; ESnap (snapshot_of s')] in
          match k rs with
          | Ret (m, r) =>
              ({| w_fs := s'; w_handles := set_handle h {| h_mem := m; h_pc := HIdle; h_script := h_script hd; h_hash := h_hash hd |} (w_handles w) |},
               ev ++ finish_events h o m r)
          | p' => ({| w_fs := s'; w_handles := set_handle h {| h_mem := h_mem hd; h_pc := HRun o p'; h_script := h_script hd; h_hash := h_hash hd |} (w_handles w) |}, ev)
          end
      end
  end.

Definition crash (w : world) (h : nat) : world * list event :=
  match nth_error (w_handles w) h with
  | None => (w, [])
  | Some hd => ({| w_fs := w_fs w; w_handles := set_handle h {| h_mem := h_mem hd; h_pc := HDead; h_script := []; h_hash := h_hash hd |} (w_handles w) |},
                [ECrash h])
  end.

Inductive sched_item := Step (h : nat) (choice : option nat) | Crash (h : nat).

Fixpoint run (size_oracle : nat -> N) (attempts : nat) (w : world) (sched : list sched_item) : world * list event :=
  match sched with
  | [] => (w, [])
  | Step h c :: t =>
      let '(w1, e1) := step size_oracle attempts w h c in
      let '(w2, e2) := run size_oracle attempts w1 t in (w2, e1 ++ e2)
  | Crash h :: t =>
      let '(w1, e1) := crash w h in
      let '(w2, e2) := run size_oracle attempts w1 t in (w2, e1 ++ e2)
  end.

(* an initial world: a directory holding a committed stack, handles with their scripts *)
Definition init_fs (tabs : list (nat * tfile)) : fs :=
  {| f_list := match tabs with [] => None | _ => Some (map fst tabs) end; f_lock := None; f_tabs := tabs;
     f_tlocks := []; f_tmps := []; f_next_tab := length tabs; f_next_tmp := 0 |}.

(* a handle = the hash type it is configured with, and its script *)
Definition init_world (tabs : list (nat * tfile)) (scripts : list (bool * list apiop)) : world :=
  {| w_fs := init_fs tabs;
     w_handles := map (fun s => {| h_mem := None; h_pc := HIdle; h_script := snd s; h_hash := fst s |}) scripts |}.

(* the full trace: the initial snapshot, then the events of the run *)
Definition trace_of (size_oracle : nat -> N) (attempts : nat) (tabs : list (nat * tfile)) (scripts : list (bool * list apiop))
           (sched : list sched_item) : list event :=
  ESnap (snapshot_of (init_fs tabs)) :: snd (run size_oracle attempts (init_world tabs scripts) sched).
