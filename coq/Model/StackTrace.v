(* Observable traces of the stack protocol and the boolean trace predicates of
   the stack properties (C04 C05 C06 C08 C09 C10 C16).  A trace is what the
   scheduler harness records of the Go code and what Model/StackProto.v emits:
   file-system operations with results, call / return events, what each handle
   holds after a call, crashes, and a snapshot of the directory after every
   file-system operation.  The theorems say: every trace of the protocol model
   satisfies these predicates; the checks evaluate the same (extracted)
   predicates on the implementation's traces. *)
From Coq Require Import List NArith Arith Bool.
Import ListNotations.

Inductive path := PL | PLL | PT (n : nat) | PTL (n : nat) | PTmp (n : nat) | PDir | POther.

Inductive fsop := FCreateExcl | FOpen | FRename (dst : path) | FRemove | FReadFile | FCreateTemp | FReadDir.
Inductive fres := FOk | FExist | FNoEnt | FOtherErr.

Inductive apiop :=
| AOpen | AAdd (tx : nat) (auto : bool) | AAddMulti (tx : nat) (same : bool) | AAddEmpty | AAddBad
| ACompactAll | ACompact (first last : nat) | AExpire | AClose | ARead | AClean.

Inductive apires :=
| ROk | RLockFailure | RRejected | RErr | RNoStack | RPanic
| RView (txs : list nat) (shared : option nat) | RReadErr.

Record tinfo := { ti_min : N; ti_max : N; ti_txs : list nat }.
Inductive tstate := TGood (i : tinfo) | TBad.          (* missing, corrupt or of another hash *)

Record snapshot := {
  sn_list : option (list nat);          (* content of tables.list, None = absent *)
  sn_tabs : list (nat * tstate);        (* state of every listed table *)
  sn_files : list path }.               (* everything in the directory *)

Inductive event :=
| EFs (h : nat) (op : fsop) (p : path) (r : fres) (names : list nat)
| ESnap (s : snapshot)
| ECall (h : nat) (op : apiop)
| ERet (h : nat) (op : apiop) (r : apires)
| EMem (h : nat) (names : list nat) (closed : nat)
| ECrash (h : nat)
| EViol.

Definition path_eqb (a b : path) : bool :=
  match a, b with
  | PL, PL | PLL, PLL | PDir, PDir | POther, POther => true
  | PT n, PT m | PTL n, PTL m | PTmp n, PTmp m => Nat.eqb n m
  | _, _ => false
  end.

Definition is_lock (p : path) : bool := match p with PLL | PTL _ => true | _ => false end.

Fixpoint list_nat_eqb (a b : list nat) : bool :=
  match a, b with
  | [], [] => true
  | x :: s, y :: t => Nat.eqb x y && list_nat_eqb s t
  | _, _ => false
  end.

Definition mem_nat (x : nat) (l : list nat) : bool := existsb (Nat.eqb x) l.

Fixpoint lookup_tab (n : nat) (l : list (nat * tstate)) : option tstate :=
  match l with
  | [] => None
  | (m, s) :: t => if Nat.eqb n m then Some s else lookup_tab n t
  end.

Definition listed (s : snapshot) : list nat := match sn_list s with Some l => l | None => [] end.

(* ---------------- C05: tables.list names an openable, ordered stack ---------------- *)

Fixpoint ranges_increasing (last : option N) (l : list tinfo) : bool :=
  match l with
  | [] => true
  | i :: t => N.leb (ti_min i) (ti_max i)
              && (match last with Some m => N.ltb m (ti_min i) | None => true end)
              && ranges_increasing (Some (ti_max i)) t
  end.

Definition list_ok (s : snapshot) : bool :=
  let sts := map (fun n => lookup_tab n (sn_tabs s)) (listed s) in
  forallb (fun o => match o with Some (TGood _) => true | _ => false end) sts
  && ranges_increasing None (flat_map (fun o => match o with Some (TGood i) => [i] | _ => [] end) sts).

(* no successful remove of a table the list names at that instant *)
Fixpoint c05_loop (cur : snapshot) (tr : list event) : bool :=
  match tr with
  | [] => true
  | ESnap s :: t => list_ok s && c05_loop s t
  | EFs _ FRemove (PT n) FOk _ :: t => negb (mem_nat n (listed cur)) && c05_loop cur t
  | EViol :: _ => false
  | _ :: t => c05_loop cur t
  end.

Definition snap0 : snapshot := {| sn_list := None; sn_tabs := []; sn_files := [] |}.
Definition c05_ok (tr : list event) : bool := c05_loop snap0 tr.

(* ---------------- C08: locks are exclusive and released only by their owner ---------------- *)

Fixpoint owner_of (p : path) (o : list (path * nat)) : option nat :=
  match o with
  | [] => None
  | (q, h) :: t => if path_eqb p q then Some h else owner_of p t
  end.
Definition drop_owner (p : path) (o : list (path * nat)) : list (path * nat) :=
  filter (fun x => negb (path_eqb p (fst x))) o.

Fixpoint c08_loop (own : list (path * nat)) (tr : list event) : bool :=
  match tr with
  | [] => true
  | EFs h FCreateExcl p FOk _ :: t =>
      if is_lock p then (match owner_of p own with None => true | Some _ => false end) && c08_loop ((p, h) :: own) t
      else c08_loop own t
  | EFs h FRemove p FOk _ :: t =>
      if is_lock p then (match owner_of p own with Some h' => Nat.eqb h h' | None => false end)
                        && c08_loop (drop_owner p own) t
      else c08_loop own t
  | EFs h (FRename _) p FOk _ :: t =>
      if is_lock p then (match owner_of p own with Some h' => Nat.eqb h h' | None => false end)
                        && c08_loop (drop_owner p own) t
      else c08_loop own t
  | _ :: t => c08_loop own t
  end.
Definition c08_ok (tr : list event) : bool := c08_loop [] tr.

(* ---------------- C04: linearizable transactional store ---------------- *)

Definition snap_txs (s : snapshot) : list nat :=
  flat_map (fun n => match lookup_tab n (sn_tabs s) with Some (TGood i) => ti_txs i | _ => [] end) (listed s).

Record c04_state := {
  c4_commits : list nat;                 (* initial transactions, then commits in commit order *)
  c4_pending : list (nat * nat);         (* handle -> transaction of its running Add, not yet committed *)
  c4_done : list (nat * nat) }.          (* handle -> transaction committed during its running call *)

Fixpoint assoc (h : nat) (l : list (nat * nat)) : option nat :=
  match l with [] => None | (k, v) :: t => if Nat.eqb h k then Some v else assoc h t end.
Definition unassoc (h : nat) (l : list (nat * nat)) : list (nat * nat) :=
  filter (fun x => negb (Nat.eqb h (fst x))) l.

Definition ret_allowed (op : apiop) (r : apires) : bool :=
  match op, r with
  | AOpen, (ROk | RErr) => true          (* a first load that lost every race reports an error *)
  | (AAdd _ _ | AAddMulti _ _), (ROk | RLockFailure) => true
  | AAddEmpty, (ROk | RLockFailure) => true
  | AAddBad, (RRejected | RLockFailure) => true
  | (ACompactAll | ACompact _ _ | AExpire), ROk => true
  | AClose, ROk => true
  | AClean, (ROk | RLockFailure) => true
  | ARead, RView _ _ => true
  | _, RNoStack => true
  | _, _ => false
  end.

Fixpoint c04_loop (init : bool) (st : c04_state) (tr : list event) : bool :=
  match tr with
  | [] => true
  | ESnap s :: t =>
      if init then c04_loop false {| c4_commits := snap_txs s; c4_pending := []; c4_done := [] |} t
      else list_nat_eqb (snap_txs s) (c4_commits st) && c04_loop false st t
  | ECall h (AAdd tx _ | AAddMulti tx _) :: t =>
      c04_loop init {| c4_commits := c4_commits st; c4_pending := (h, tx) :: unassoc h (c4_pending st);
                       c4_done := unassoc h (c4_done st) |} t
  | EFs h (FRename PL) PLL FOk _ :: t =>
      match assoc h (c4_pending st) with
      | Some tx => c04_loop init {| c4_commits := c4_commits st ++ [tx]; c4_pending := unassoc h (c4_pending st);
                                    c4_done := (h, tx) :: c4_done st |} t
      | None => c04_loop init st t          (* a compaction: the committed transactions do not change *)
      end
  | ERet h op r :: t =>
      ret_allowed op r &&
      (match op with
       | AAdd tx _ | AAddMulti tx _ =>
           (match r with
            | ROk => (match assoc h (c4_done st) with Some tx' => Nat.eqb tx tx' | None => false end)
            | RNoStack => true
            | _ => (match assoc h (c4_done st) with Some _ => false | None => true end)
            end)
       | _ => true
       end)
      && c04_loop init {| c4_commits := c4_commits st; c4_pending := unassoc h (c4_pending st);
                          c4_done := unassoc h (c4_done st) |} t
  | ECrash h :: t =>
      c04_loop init {| c4_commits := c4_commits st; c4_pending := c4_pending st; c4_done := c4_done st |} t
  | EViol :: _ => false
  | _ :: t => c04_loop init st t
  end.
Definition c04_ok (tr : list event) : bool :=
  c04_loop true {| c4_commits := []; c4_pending := []; c4_done := [] |} tr.

(* ---------------- C10: a handle's view is one committed snapshot, all readers open ---------------- *)

Fixpoint is_perm_prefix (fuel : nat) (txs : list nat) (commits : list nat) (k : nat) : option nat :=
  (* the least k' >= k such that txs, as a set, is the first k' commits; None if there is none *)
  match fuel with
  | O => None
  | S f =>
      let pre := firstn k commits in
      if Nat.eqb (length txs) (length pre) && forallb (fun x => mem_nat x pre) txs then Some k
      else if Nat.ltb k (length commits) then is_perm_prefix f txs commits (S k) else None
  end.

Record c10_state := { cx_commits : list nat; cx_pending : list (nat * nat);
                      cx_seen : list (nat * nat);            (* handle -> number of commits its last read showed *)
                      cx_versions : list (list nat) }.        (* every content tables.list ever had *)

(* a return ends the handle's call: forget its pending Add (as c04_loop does) *)
Definition cx_clr (h : nat) (st : c10_state) : c10_state :=
  {| cx_commits := cx_commits st; cx_pending := unassoc h (cx_pending st);
     cx_seen := cx_seen st; cx_versions := cx_versions st |}.

Fixpoint c10_loop (init : bool) (st : c10_state) (tr : list event) : bool :=
  match tr with
  | [] => true
  | ESnap s :: t =>
      let v := listed s in
      let vs := if existsb (list_nat_eqb v) (cx_versions st) then cx_versions st else v :: cx_versions st in
      if init then c10_loop false {| cx_commits := snap_txs s; cx_pending := []; cx_seen := []; cx_versions := [v; []] |} t
      else c10_loop false {| cx_commits := cx_commits st; cx_pending := cx_pending st; cx_seen := cx_seen st; cx_versions := vs |} t
  | ECall h (AAdd tx _ | AAddMulti tx _) :: t =>
      c10_loop init {| cx_commits := cx_commits st; cx_pending := (h, tx) :: unassoc h (cx_pending st);
                       cx_seen := cx_seen st; cx_versions := cx_versions st |} t
  | EFs h (FRename PL) PLL FOk _ :: t =>
      match assoc h (cx_pending st) with
      | Some tx => c10_loop init {| cx_commits := cx_commits st ++ [tx]; cx_pending := unassoc h (cx_pending st);
                                    cx_seen := cx_seen st; cx_versions := cx_versions st |} t
      | None => c10_loop init st t
      end
  | ERet h ARead (RView txs shared) :: t =>
      let k0 := match assoc h (cx_seen st) with Some k => k | None => O end in
      match is_perm_prefix (S (length (cx_commits st))) txs (cx_commits st) k0 with
      | None => false
      | Some k =>
          (match shared, rev (firstn k (cx_commits st)) with
           | Some x, y :: _ => Nat.eqb x y
           | None, [] => true
           | _, _ => false
           end)
          && c10_loop init (cx_clr h {| cx_commits := cx_commits st; cx_pending := cx_pending st;
                                        cx_seen := (h, k) :: unassoc h (cx_seen st); cx_versions := cx_versions st |}) t
      end
  | ERet h ARead RNoStack :: t => c10_loop init (cx_clr h st) t      (* no stack to read through: not a failed read *)
  | ERet h ARead _ :: t => false                                     (* a read failed *)
  | ERet h _ _ :: t => c10_loop init (cx_clr h st) t
  | EMem h names closed :: t =>
      Nat.eqb closed 0 && existsb (list_nat_eqb names) (cx_versions st) && c10_loop init st t
  | EViol :: _ => false
  | _ :: t => c10_loop init st t
  end.
Definition c10_ok (tr : list event) : bool :=
  c10_loop true {| cx_commits := []; cx_pending := []; cx_seen := []; cx_versions := [[]] |} tr.

(* ---------------- C16: no residue when nobody crashed and everybody is idle ---------------- *)

Definition clean_dir (s : snapshot) : bool :=
  forallb (fun p => match p with
                    | PL => match sn_list s with Some _ => true | None => false end
                    | PT n => mem_nat n (listed s)
                    | _ => false
                    end) (sn_files s)
  && forallb (fun n => existsb (path_eqb (PT n)) (sn_files s)) (listed s).

Fixpoint c16_loop (cur : snapshot) (busy : list nat) (crashed : bool) (tr : list event) : bool :=
  match tr with
  | [] => true
  | ESnap s :: t => c16_loop s busy crashed t
  | ECall h _ :: t => c16_loop cur (h :: busy) crashed t
  | ERet h op r :: t =>
      let busy' := filter (fun x => negb (Nat.eqb x h)) busy in
      (* Close and Clean succeed on any stack (also an empty one); nothing panics *)
      (match op, r with
       | _, RPanic => false
       | AClose, ROk | AClose, RNoStack => true
       | AClose, _ => false
       | AClean, (ROk | RLockFailure | RNoStack) => true
       | AClean, _ => false
       | _, _ => true
       end) &&
      (if crashed || negb (match busy' with [] => true | _ => false end) then true else clean_dir cur)
      && c16_loop cur busy' crashed t
  | ECrash _ :: t => c16_loop cur busy true t
  | _ :: t => c16_loop cur busy crashed t
  end.
Definition c16_ok (tr : list event) : bool := c16_loop snap0 [] false tr.

(* ---------------- C09: a stale handle never commits, is refreshed, and its retry succeeds ---------------- *)

(* events of the call of handle h starting the trace: (events of the call, return, rest), provided no other handle moves *)
Fixpoint alone_until_ret (h : nat) (tr : list event) (acc : list event) : option (list event * apires * list event) :=
  match tr with
  | [] => None
  | ERet h' _ r :: t => if Nat.eqb h h' then Some (rev acc, r, t) else None
  | EFs h' _ _ _ _ as e :: t => if Nat.eqb h h' then alone_until_ret h t (e :: acc) else None
  | ECall _ _ :: _ => None
  | ECrash _ :: _ => None
  | e :: t => alone_until_ret h t (e :: acc)
  end.

Definition last_snap (evs : list event) (dflt : snapshot) : snapshot :=
  fold_left (fun s e => match e with ESnap x => x | _ => s end) evs dflt.

Definition snap_eqb (a b : snapshot) : bool :=
  (match sn_list a, sn_list b with
   | Some x, Some y => list_nat_eqb x y
   | None, None => true
   | _, _ => false end)
  && Nat.eqb (length (sn_files a)) (length (sn_files b))
  && forallb (fun p => existsb (path_eqb p) (sn_files b)) (sn_files a).

(* a call through a stale handle that is not an Add: it must leave the directory
   exactly as it was (these paths do not reload), and return as follows *)
Definition add_like (o : apiop) : bool :=
  match o with AAdd _ _ | AAddEmpty | AAddBad => true | _ => false end.
Definition stale_quiet (o : apiop) : option (apires -> bool) :=
  match o with
  | ACompactAll | AExpire | ACompact _ _ => Some (fun r => match r with ROk => true | _ => false end)
  | AClean | AAddMulti _ _ => Some (fun r => match r with RLockFailure => true | _ => false end)
  | _ => None
  end.

(* the clause of one call; [cmp after before] = "the directory is left unchanged" for an Add (which reloads) *)
Definition c09_call_ok (cmp : snapshot -> snapshot -> bool) (cur : snapshot) (mems : list (nat * list nat))
    (h : nat) (o : apiop) (t : list event) : bool :=
  let held := fold_right (fun x acc => if Nat.eqb h (fst x) then Some (snd x) else acc) None mems in
  match held, alone_until_ret h t [] with
  | Some names, Some (evs, r, rest) =>
      if negb (list_nat_eqb names (listed cur)) then
        if add_like o then
          (* stale and undisturbed Add: lock failure, directory unchanged, handle refreshed *)
          (match r with RLockFailure => true | _ => false end)
          && cmp (last_snap evs cur) cur
          && (match rest with
              | EMem h' names' _ :: _ => Nat.eqb h h' && list_nat_eqb names' (listed cur)
              | _ => false
              end)
        else
          (* stale and undisturbed compaction, Clean, NewAddition: nothing happens *)
          match stale_quiet o with
          | Some okr => okr r && snap_eqb (last_snap evs cur) cur
          | None => true
          end
      else
        match o with
        | AAdd _ _ =>
            if existsb (path_eqb PLL) (sn_files cur) then true      (* somebody holds the write lock *)
            else (* up to date, lock free, undisturbed: the Add commits *)
              (match r with ROk => true | _ => false end)
        | _ => true
        end
  | _, _ => true
  end.

Fixpoint c09_loop (cur : snapshot) (mems : list (nat * list nat)) (tr : list event) : bool :=
  match tr with
  | [] => true
  | ESnap s :: t => c09_loop s mems t
  | EMem h names _ :: t => c09_loop cur ((h, names) :: filter (fun x => negb (Nat.eqb h (fst x))) mems) t
  | ERet h AClose _ :: t => c09_loop cur (filter (fun x => negb (Nat.eqb h (fst x))) mems) t
  | ERet h AOpen RErr :: t => c09_loop cur (filter (fun x => negb (Nat.eqb h (fst x))) mems) t
  | ECall h o :: t => c09_call_ok snap_eqb cur mems h o t && c09_loop cur mems t
  | _ :: t => c09_loop cur mems t
  end.
Definition c09_ok (tr : list event) : bool := c09_loop snap0 [] tr.

(* the same with "directory unchanged" read as: tables.list unchanged, nothing
   new, and the only files that went away are table files the list does not
   name (a failed Add's reload also unlinks the tables it held that a finished
   compaction of somebody else has already dropped from the list) *)
Definition snap_gc (after before : snapshot) : bool :=
  (match sn_list after, sn_list before with
   | Some x, Some y => list_nat_eqb x y
   | None, None => true
   | _, _ => false end)
  && forallb (fun p => existsb (path_eqb p) (sn_files before)) (sn_files after)
  && forallb (fun p => existsb (path_eqb p) (sn_files after)
                       || (match p with PT n => negb (mem_nat n (listed before)) | _ => false end))
             (sn_files before).

Fixpoint c09_loop_gc (cur : snapshot) (mems : list (nat * list nat)) (tr : list event) : bool :=
  match tr with
  | [] => true
  | ESnap s :: t => c09_loop_gc s mems t
  | EMem h names _ :: t => c09_loop_gc cur ((h, names) :: filter (fun x => negb (Nat.eqb h (fst x))) mems) t
  | ERet h AClose _ :: t => c09_loop_gc cur (filter (fun x => negb (Nat.eqb h (fst x))) mems) t
  | ERet h AOpen RErr :: t => c09_loop_gc cur (filter (fun x => negb (Nat.eqb h (fst x))) mems) t
  | ECall h o :: t => c09_call_ok snap_gc cur mems h o t && c09_loop_gc cur mems t
  | _ :: t => c09_loop_gc cur mems t
  end.
Definition c09_ok_gc (tr : list event) : bool := c09_loop_gc snap0 [] tr.

(* ---------------- C06: crash atomicity = C04 and C05 on traces with crashes, and the survivors' calls succeed ---------------- *)
Definition c06_ok (tr : list event) : bool := c04_ok tr && c05_ok tr && c10_ok tr.
