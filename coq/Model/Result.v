(* Outcome of a partial Go operation: a value, an error return, a run-time
   panic at a named site, or exhausted model fuel. *)
From Coq Require Import List NArith.

Inductive res (A : Type) : Type :=
| Ok (a : A)
| Err
| Panic (site : nat)
| Fuel.
Arguments Ok {A} a.
Arguments Err {A}.
Arguments Panic {A} site.
Arguments Fuel {A}.

Definition bind {A B} (x : res A) (f : A -> res B) : res B :=
  match x with
  | Ok a => f a
  | Err => Err
  | Panic s => Panic s
  | Fuel => Fuel
  end.

Notation "'let*' x ':=' e 'in' f" := (bind e (fun x => f))
  (at level 200, x pattern, e at level 100, f at level 200, right associativity).

Definition of_option {A} (o : option A) : res A :=
  match o with Some a => Ok a | None => Err end.

(* panic sites (documented in DESIGN.md; the repaired tree reaches none of
   them from the read API, which is what C18 proves) *)
Definition site_writer_order : nat := 1.      (* keys must be ascending *)
Definition site_writer_type : nat := 2.       (* add <typ> on block <typ> *)
Definition site_log_hash_len : nat := 3.      (* invalid log entry: hash length *)
Definition site_obj_fresh : nat := 4.         (* truncated obj record does not fit *)
Definition site_idx_fresh : nat := 5.         (* index record does not fit a fresh block *)
Definition site_slice : nat := 6.             (* slice / index out of range *)
Definition site_iter_type : nat := 7.         (* tableIter.Next: record of another type *)
