(* Model of the auto-compaction segment chooser of stack.go:
   log2, sizesToSegments, suggestCompactionSegment.
   Executable definitions only; proofs live in Proofs/SegmentsProofs.v.

   Sizes are N (Go: uint64; the sums `bytes += sz` are not reduced mod 2^64:
   table sizes are file sizes, their sum is far below 2^64 -- stated in the
   trusted base).  Indices are nat. *)
From Coq Require Import List NArith Arith Bool.
Import ListNotations.
Local Open Scope N_scope.

(* Go: func log2(sz uint64) int -- number of halvings until 0, minus one;
   0 for 0.  That is the position of the highest set bit = N.log2. *)
Definition log2 (sz : N) : N := N.log2 sz.

(* The Go loop itself, on fuel (64 iterations suffice for a uint64), used by
   the tie and proved equal to [log2] in Proofs. *)
Fixpoint log2_loop (fuel : nat) (sz : N) (l : N) : N :=
  match fuel with
  | O => l
  | S f => if N.eqb sz 0 then l else log2_loop f (sz / 2) (l + 1)
  end.
Definition log2_go (sz : N) : N :=
  if N.eqb sz 0 then 0 else log2_loop 64 sz 0 - 1.

Record segment := { s_start : nat; s_end : nat; s_log : N; s_bytes : N }.

Definition seg_size (s : segment) : nat := s_end s - s_start s.

(* for i, sz := range sizes { ... }  carrying (cur, res-reversed) *)
Fixpoint segs_loop (i : nat) (sizes : list N) (cur : segment) (acc : list segment)
  : list segment :=
  match sizes with
  | [] => rev (cur :: acc)                       (* res = append(res, cur) *)
  | sz :: rest =>
      let l := log2 sz in
      let '(cur1, acc1) :=
        if negb (N.eqb (s_log cur) l) && (0 <? s_bytes cur)
        then ({| s_start := i; s_end := 0; s_log := 0; s_bytes := 0 |}, cur :: acc)
        else (cur, acc) in
      segs_loop (S i) rest
        {| s_start := s_start cur1; s_end := S i; s_log := l; s_bytes := s_bytes cur1 + sz |}
        acc1
  end.

Definition sizes_to_segments (sizes : list N) : list segment :=
  segs_loop 0 sizes {| s_start := 0; s_end := 0; s_log := 0; s_bytes := 0 |} [].

(* minSeg := segment{log: 64}; for _, st := range segs {...} *)
Definition pick_min (segs : list segment) : segment :=
  fold_left
    (fun m st => if Nat.eqb (seg_size st) 1 then m
                 else if s_log st <? s_log m then st else m)
    segs {| s_start := 0; s_end := 0; s_log := 64; s_bytes := 0 |}.

(* for minSeg.start > 0 { prev := start-1; if log2(bytes) < log2(sizes[prev]) break; ... } *)
Fixpoint extend (fuel : nat) (sizes : list N) (start : nat) (bytes : N) : nat * N :=
  match fuel with
  | O => (start, bytes)
  | S f =>
      match start with
      | O => (start, bytes)
      | S prev =>
          let p := nth prev sizes 0 in
          if log2 bytes <? log2 p then (start, bytes)
          else extend f sizes prev (bytes + p)
      end
  end.

(* Result: Some (start, end) with end exclusive, or None for nil. *)
Definition suggest (sizes : list N) : option (nat * nat) :=
  let m := pick_min (sizes_to_segments sizes) in
  if Nat.eqb (seg_size m) 0 then None
  else
    let '(st, _) := extend (s_start m) sizes (s_start m) (s_bytes m) in
    Some (st, s_end m).

(* The stack-level effect of one auto-compaction on the size vector, with the
   merged table's size given by [f] (an oracle on the input sizes). *)
Definition replace_range {A} (s e : nat) (x : A) (l : list A) : list A :=
  firstn s l ++ x :: skipn e l.

Definition auto_compact (f : list N -> N) (sizes : list N) : list N :=
  match suggest sizes with
  | None => sizes
  | Some (s, e) => replace_range s e (f (firstn (e - s) (skipn s sizes))) sizes
  end.

(* One single-writer transaction of byte size [u] followed by AutoCompact. *)
Definition add_step (f : list N -> N) (u : N) (sizes : list N) : list N :=
  auto_compact f (sizes ++ [u]).

Fixpoint run_adds (f : list N -> N) (u : N) (n : nat) : list N :=
  match n with
  | O => []
  | S k => add_step f u (run_adds f u k)
  end.

Fixpoint sumN (l : list N) : N :=
  match l with [] => 0 | x :: t => x + sumN t end.

(* Bytes (or entries, in units of one transaction) rewritten by the
   auto-compaction that [suggest] triggers on [sizes]: the sum of its inputs
   (with additive sizes this is what the merged table holds). *)
Definition compact_cost (sizes : list N) : N :=
  match suggest sizes with
  | None => 0
  | Some (s, e) => sumN (firstn (e - s) (skipn s sizes))
  end.

Fixpoint run_cost (f : list N -> N) (u : N) (n : nat) : N :=
  match n with
  | O => 0
  | S k => run_cost f u k + compact_cost (run_adds f u k ++ [u])
  end.
