(* C19: readers and merged views shared by goroutines.
   A data race is a fact about the Go memory model; what is logic is this:
   if no code reachable from the read API writes to state that is shared
   between the goroutines (the Reader / Merged and what hangs off them), then
   every goroutine's computation is a function of the (constant) shared state
   and of its own private state only, so any interleaving gives each goroutine
   exactly the result of running alone.  The effect summary of the code
   (gen/EffectsData.v) is produced from the working tree by the translator
   harness/ssa on every run. *)
From Coq Require Import List Arith Bool.
Import ListNotations.

Section Interleaving.
  Variable shared : Type.       (* the state reachable from the shared *Reader / *Merged *)
  Variable priv : Type.         (* a goroutine's iterators, records, buffers *)

  (* one step of a goroutine: it may read everything, it updates its private
     state, and -- if the code had such writes -- the shared state *)
  Record thread := {
    t_step : shared -> priv -> option priv;        (* None = finished *)
    t_write : shared -> priv -> shared }.          (* its effect on the shared state *)

  Definition read_only (t : thread) : Prop := forall s p, t_write t s p = s.

  (* the pool: every goroutine's private state; a schedule picks who moves *)
  Fixpoint update {A} (i : nat) (x : A) (l : list A) : list A :=
    match l, i with
    | [], _ => []
    | _ :: r, O => x :: r
    | y :: r, S j => y :: update j x r
    end.

  Definition step_pool (ts : list thread) (s : shared) (ps : list priv) (i : nat) : shared * list priv :=
    match nth_error ts i, nth_error ps i with
    | Some t, Some p =>
        match t_step t s p with
        | Some p' => (t_write t s p, update i p' ps)
        | None => (s, ps)
        end
    | _, _ => (s, ps)
    end.

  Fixpoint run_pool (ts : list thread) (s : shared) (ps : list priv) (sched : list nat) : shared * list priv :=
    match sched with
    | [] => (s, ps)
    | i :: rest => let '(s', ps') := step_pool ts s ps i in run_pool ts s' ps' rest
    end.

  (* a goroutine running alone for n steps *)
  Fixpoint run_alone (t : thread) (s : shared) (p : priv) (n : nat) : priv :=
    match n with
    | O => p
    | S k => match t_step t s p with Some p' => run_alone t s p' k | None => p end
    end.

  Definition count (i : nat) (sched : list nat) : nat := length (filter (Nat.eqb i) sched).
End Interleaving.

Arguments t_step {shared priv} t.
Arguments t_write {shared priv} t.
Arguments read_only {shared priv} t.
Arguments run_pool {shared priv} ts s ps sched.
Arguments run_alone {shared priv} t s p n.
Arguments step_pool {shared priv} ts s ps i.
Arguments update {A} i x l.
