(* record.go: putVarInt / getVarInt (the offset varint of the reftable format). *)
From Coq Require Import List NArith Arith Bool.
From RT Require Import Model.Bytes.
Import ListNotations.
Local Open Scope N_scope.

(* dest[9] = val & 0x7f; for { val >>= 7; if val == 0 break; val--; dest[i] = 0x80 | val&0x7f } *)
Fixpoint put_varint_aux (fuel : nat) (val : N) (acc : bytes) : bytes :=
  match fuel with
  | O => acc
  | S f =>
      let v := val / 128 in
      if v =? 0 then acc
      else let v' := v - 1 in put_varint_aux f v' ((128 + v' mod 128) :: acc)
  end.

(* val is a uint64: ten groups of 7 bits suffice *)
Definition put_varint (val : N) : bytes := put_varint_aux 10 val [val mod 128].

(* after the byte whose continuation bit was set *)
Fixpoint get_varint_loop (buf : bytes) (val : N) (n : nat) : option (N * nat) :=
  match buf with
  | [] => None                                  (* ptr >= len(buf): -1 *)
  | b :: t =>
      let val' := (((val + 1) mod two64) * 128) mod two64 + b mod 128 in
      if 128 <=? b then get_varint_loop t val' (S n) else Some (val', S n)
  end.

(* returns (value, bytes consumed); None is the Go result n = -1 *)
Definition get_varint (buf : bytes) : option (N * nat) :=
  match buf with
  | [] => None
  | b :: t => if 128 <=? b then get_varint_loop t (b mod 128) 1 else Some (b mod 128, 1%nat)
  end.
