(* The stack at the level of decoded tables: Merged over tables (merged.go
   NewMerged / SeekRef / SeekLog / RefsFor), writeCompact / compactRange's
   effect on the list of tables (stack.go), reflog expiry. *)
From Coq Require Import List NArith Arith Bool.
From RT Require Import Model.Bytes Model.Records Model.Heap Model.Merge Model.Overlay Model.Segments.
Import ListNotations.
Local Open Scope N_scope.

Record table := { t_min : N; t_max : N; t_sha256 : bool;
                  t_refs : list ref_record; t_logs : list log_record }.

(* NewMerged: update-index ranges strictly increasing, all tables of the stack's hash *)
Fixpoint ranges_ok (last_max : option N) (ts : list table) : bool :=
  match ts with
  | [] => true
  | t :: rest =>
      (match last_max with Some m => m <? t_min t | None => true end) && ranges_ok (Some (t_max t)) rest
  end.
Definition new_merged_ok (sha256 : bool) (ts : list table) : bool :=
  ranges_ok None ts && forallb (fun t => Bool.eqb (t_sha256 t) sha256) ts.

Definition merged_refs (suppress : bool) (ts : list table) (k : bytes) : list ref_record :=
  merged_seek ref_key ref_is_del suppress (map t_refs ts) k.
Definition merged_logs (suppress : bool) (ts : list table) (k : bytes) : list log_record :=
  merged_seek log_key log_is_del suppress (map t_logs ts) k.

(* Merged.RefsFor: merge the per-table hits, then double-check each candidate
   against the merged view (a newer table may have deleted or re-pointed it) *)
Definition merged_refs_for (suppress : bool) (ts : list table) (oid : bytes) : list ref_record :=
  let hits := map (fun t => filter (points_to oid) (t_refs t)) ts in
  let cands := merged_scan ref_key ref_is_del false hits in
  flat_map (fun c =>
    match merged_refs suppress ts (r_name c) with
    | r :: _ => if bytes_eqb (r_name r) (r_name c) && points_to oid r then [r] else []
    | [] => []
    end) cands.

(* ---- compaction ---- *)

Record expiry := { e_time : N; e_max_index : N; e_min_index : N }.

(* writeCompact's filter on a log record: true = keep *)
Definition keep_log (e : option expiry) (l : log_record) : bool :=
  match e with
  | None => true
  | Some x =>
      let tm := match l_body l with Some b => lb_time b | None => 0 end in
      negb ((0 <? e_time x) && (tm <? e_time x))
      && negb (negb (e_max_index x =? 0) && (e_max_index x <? l_index l))
      && negb (negb (e_min_index x =? 0) && (l_index l <? e_min_index x))
  end.

(* the table written by compactLocked for tables [first, last] (inclusive) *)
Definition compact_table (first last : nat) (e : option expiry) (ts : list table) : table :=
  let sub := firstn (last - first + 1) (skipn first ts) in
  let refs := merged_scan ref_key ref_is_del false (map t_refs sub) in
  let refs' := if Nat.eqb first 0 then filter (fun r => negb (ref_is_del r)) refs else refs in
  let logs := merged_scan log_key log_is_del false (map t_logs sub) in
  {| t_min := t_min (nth first ts {| t_min := 0; t_max := 0; t_sha256 := false; t_refs := []; t_logs := [] |});
     t_max := t_max (nth last ts {| t_min := 0; t_max := 0; t_sha256 := false; t_refs := []; t_logs := [] |});
     t_sha256 := t_sha256 (nth first ts {| t_min := 0; t_max := 0; t_sha256 := false; t_refs := []; t_logs := [] |});
     t_refs := refs';
     t_logs := filter (keep_log e) logs |}.

Definition table_empty (t : table) : bool :=
  match t_refs t, t_logs t with [], [] => true | _, _ => false end.

(* the stack after compactRange(first, last): an empty result is dropped *)
Definition compact_range (first last : nat) (e : option expiry) (ts : list table) : list table :=
  let c := compact_table first last e ts in
  firstn first ts ++ (if table_empty c then [] else [c]) ++ skipn (S last) ts.

(* what a reader sees *)
Definition stack_refs (ts : list table) : list ref_record := view ref_key ref_is_del (map t_refs ts).
Definition stack_logs (ts : list table) : list log_record := view log_key log_is_del (map t_logs ts).
