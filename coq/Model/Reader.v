(* reader.go: NewReader, newBlockReader, tableIter, seek (linear / indexed),
   RefsFor; iter.go: filteringRefIterator; reftable.go: block sources. *)
From Coq Require Import List NArith Arith Bool.
From RT Require Import Model.Bytes Model.Result Model.Varint Model.KeyCodec Model.Records
  Model.RecCodec Model.Block Model.Crc32 Model.Writer.
Import ListNotations.
Local Open Scope N_scope.

Record offsets := { o_present : bool; o_offset : N; o_index : N }.

Record reader := {
  rd_src : bytes;            (* the whole file *)
  rd_version : N;
  rd_block_size : N;
  rd_min : N; rd_max : N;
  rd_sha256 : bool;
  rd_idlen : nat;
  rd_size : N;               (* file size minus footer *)
  rd_ref : offsets; rd_log : offsets; rd_obj : offsets }.

Definition rd_hash_size (r : reader) : nat := if rd_sha256 r then 32%nat else 20%nat.
Definition rd_header_size (r : reader) : nat := if rd_version r =? 1 then 24%nat else 28%nat.

Definition rd_offsets (r : reader) (typ : N) : offsets :=
  if typ =? typ_ref then rd_ref r else if typ =? typ_log then rd_log r
  else if typ =? typ_obj then rd_obj r
  else {| o_present := false; o_offset := 0; o_index := 0 |}.

(* BlockSource.ReadBlock (both sources clamp to the file) *)
Definition read_block (src : bytes) (off : N) (sz : N) : option bytes :=
  let len := N.of_nat (length src) in
  if len <=? off then None
  else Some (firstn (N.to_nat (N.min sz (len - off))) (dropN off src)).

Definition get_be_at (width : nat) (off : nat) (l : bytes) : N := be_value (firstn width (skipn off l)) 0.

(* NewReader *)
Definition rd_open (src : bytes) : res reader :=
  match read_block src 0 29 with
  | None => Err
  | Some head =>
      if Nat.ltb (length head) 29 then Err
      else if negb (bytes_eqb (firstn 4 head) magic) then Err
      else
        let version := nth 4 head 0 in
        if negb ((version =? 1) || (version =? 2)) then Err
        else
          let hs := if version =? 1 then 24%nat else 28%nat in
          let fs := if version =? 1 then 68%nat else 72%nat in
          let total := N.of_nat (length src) in
          if total <? N.of_nat (hs + fs) then Err
          else
            let size := total - N.of_nat fs in
            match read_block src size (N.of_nat fs) with
            | None => Err
            | Some foot =>
                if Nat.ltb (length foot) fs then Err
                else if negb (bytes_eqb (firstn hs head) (firstn hs foot)) then Err
                else
                  let block_size := get_be_at 4 4 foot in
                  let min := get_be_at 8 8 foot in
                  let max := get_be_at 8 16 foot in
                  let hash_id := if version =? 1 then sha1_id else firstn 4 (skipn 24 foot) in
                  let ref_index := get_be_at 8 hs foot in
                  let obj_off := get_be_at 8 (hs + 8) foot in
                  let obj_index := get_be_at 8 (hs + 16) foot in
                  let log_off := get_be_at 8 (hs + 24) foot in
                  let log_index := get_be_at 8 (hs + 32) foot in
                  let got_crc := get_be_at 4 (hs + 40) foot in
                  if negb (bytes_eqb hash_id sha1_id || bytes_eqb hash_id sha256_id) then Err
                  else if negb (got_crc =? crc32 (firstn (fs - 4) foot)) then Err
                  else
                    let first_typ := nth hs head 0 in
                    Ok {| rd_src := src; rd_version := version;
                          rd_block_size := block_size mod 16777216;
                          rd_min := min; rd_max := max;
                          rd_sha256 := bytes_eqb hash_id sha256_id;
                          rd_idlen := N.to_nat (obj_off mod 32);
                          rd_size := size;
                          rd_ref := {| o_present := first_typ =? typ_ref; o_offset := 0; o_index := ref_index |};
                          rd_log := {| o_present := (first_typ =? typ_log) || (0 <? log_off);
                                       o_offset := log_off; o_index := log_index |};
                          rd_obj := {| o_present := 0 <? obj_off / 32; o_offset := obj_off / 32; o_index := obj_index |} |}
            end
  end.

Section Reader.
  Variable inflate : bytes -> inflate_result.

  (* Reader.getBlock *)
  Definition get_block (r : reader) (off : N) (sz : N) : option bytes :=
    if rd_size r <=? off then None
    else Some (firstn (N.to_nat (N.min sz (rd_size r - off))) (dropN off (rd_src r))).

  (* the W3 loop: re-read a truncated log block with a doubled window *)
  Fixpoint br_retry (fuel : nat) (r : reader) (off : N) (hdr : nat) (is_log : bool) (block : bytes)
    : res (option br) :=
    match fuel with
    | O => Fuel
    | S f =>
        match br_init inflate block hdr (N.to_nat (rd_block_size r)) (rd_hash_size r) with
        | inr b => Ok (Some b)
        | inl BrFormat => Err
        | inl BrTrunc =>
            if negb is_log || (rd_size r <=? off + N.of_nat (length block)) then Err
            else match get_block r off ((2 * N.of_nat (length block)) mod 4294967296) with
                 | None => Err
                 | Some block' => br_retry f r off hdr is_log block'
                 end
        end
    end.

  (* Reader.newBlockReader(nextOff, wantTyp): Ok None = no such block *)
  Definition new_block_reader (r : reader) (off : N) (want : N) : res (option br) :=
    if rd_size r <=? off then Ok None
    else
      let guess := if rd_block_size r =? 0 then 4096 else rd_block_size r in
      match get_block r off guess with
      | None => Ok None
      | Some block =>
          (* extractBlockSize *)
          let hdr := if off =? 0 then rd_header_size r else O in
          if Nat.ltb (length block) hdr then Err
          else
            let b1 := skipn hdr block in
            if Nat.ltb (length b1) 4 then Err
            else
              let typ := nth 0 b1 0 in
              if negb (is_block_type typ) then Err
              else
                let bsz := be_value (firstn 3 (skipn 1 b1)) 0 in
                if negb (want =? typ_any) && negb (typ =? want) then Ok None
                else
                  let blk :=
                    if guess <? bsz then get_block r off bsz else Some block in
                  match blk with
                  | None => Err
                  | Some block2 => br_retry 40 r off hdr (typ =? typ_log) block2
                  end
      end.

  (* tableIter *)
  Record titer := { ti_typ : N; ti_off : N; ti_br : br; ti_pos : bpos; ti_done : bool }.

  Definition ti_set (t : titer) (p : bpos) : titer :=
    {| ti_typ := ti_typ t; ti_off := ti_off t; ti_br := ti_br t; ti_pos := p; ti_done := ti_done t |}.

  (* tabIterAt *)
  Definition tab_iter_at (r : reader) (off : N) (want : N) : res (option titer) :=
    let* ob := new_block_reader r off want in
    match ob with
    | None => Ok None
    | Some b => Ok (Some {| ti_typ := br_typ b; ti_off := off; ti_br := b; ti_pos := br_start b; ti_done := false |})
    end.

  (* Reader.start(typ, index) *)
  Definition rd_start (r : reader) (typ : N) (index : bool) : res (option titer) :=
    if index then
      let off := o_index (rd_offsets r typ) in
      if off =? 0 then Ok None else tab_iter_at r off typ_idx
    else tab_iter_at r (o_offset (rd_offsets r typ)) typ.

  (* tableIter.nextBlock: Ok (t', true) moved; Ok (t', false) finished *)
  Definition ti_next_block (r : reader) (t : titer) : res (titer * bool) :=
    let next_off := ti_off t + N.of_nat (br_full (ti_br t)) in
    let* ob := new_block_reader r next_off (ti_typ t) in
    match ob with
    | None => Ok ({| ti_typ := ti_typ t; ti_off := ti_off t; ti_br := ti_br t; ti_pos := ti_pos t; ti_done := true |}, false)
    | Some b => Ok ({| ti_typ := ti_typ t; ti_off := next_off; ti_br := b; ti_pos := br_start b; ti_done := false |}, true)
    end.

  (* refs carry their update index relative to the table minimum *)
  Definition fix_index (r : reader) (rec : record) : record :=
    match rec with
    | RecRef x => RecRef {| r_name := r_name x; r_index := (r_index x + rd_min r) mod two64; r_val := r_val x |}
    | _ => rec
    end.

  (* tableIter.Next *)
  Fixpoint ti_next (fuel : nat) (r : reader) (t : titer) : res (option (record * titer)) :=
    match fuel with
    | O => Fuel
    | S f =>
        if ti_done t then Ok None
        else match bi_next (ti_br t) (ti_pos t) with
             | None => Err
             | Some (Some (rec, p')) => Ok (Some (fix_index r rec, ti_set t p'))
             | Some None =>
                 let* nb := ti_next_block r t in
                 let '(t', moved) := nb in
                 if moved then ti_next f r t' else Ok None
             end
    end.

  Definition blocks_fuel (r : reader) : nat := S (S (length (rd_src r))).

  (* seekLinear(tabIter, wantKey) *)
  Fixpoint seek_linear_loop (fuel : nat) (r : reader) (t : titer) (want : bytes) : res titer :=
    match fuel with
    | O => Fuel
    | S f =>
        let last := t in
        let* nb := ti_next_block r t in
        let '(t1, moved) := nb in
        if negb moved then Ok last
        else
          let* nx := ti_next (blocks_fuel r) r t1 in
          match nx with
          | None => Err                         (* a block without records *)
          | Some (rec, t2) =>
              if bytes_ltb want (rec_key rec) then Ok last
              else seek_linear_loop f r t2 want
          end
    end.

  Definition seek_linear (r : reader) (t : titer) (want : bytes) : res titer :=
    let* last := seek_linear_loop (blocks_fuel r) r t want in
    match br_seek (ti_br last) want with
    | None => Err
    | Some p => Ok (ti_set last p)
    end.

  (* seekIndexed *)
  Fixpoint seek_indexed_loop (fuel : nat) (r : reader) (idx : titer) (typ : N) (want : bytes)
    : res (option titer) :=
    match fuel with
    | O => Fuel
    | S f =>
        match ti_next (blocks_fuel r) r idx with
        | Ok None => Ok None
        | Ok (Some (RecIdx _ off, idx')) =>
            if ti_off idx <=? off then Err
            else
              let* ot := tab_iter_at r off typ_any in
              match ot with
              | None => Err
              | Some t =>
                  match br_seek (ti_br t) want with
                  | None => Err
                  | Some p =>
                      let t' := ti_set t p in
                      if ti_typ t' =? typ then Ok (Some t')
                      else if negb (ti_typ t' =? typ_idx) then Err
                      else seek_indexed_loop f r t' typ want
                  end
              end
        | Ok (Some _) => Panic site_iter_type
        | Err => Ok None                         (* the Go loop tests !ok before err *)
        | Panic s => Panic s
        | Fuel => Fuel
        end
    end.

  Definition seek_indexed (r : reader) (typ : N) (want : bytes) : res (option titer) :=
    let* oi := rd_start r typ true in
    match oi with
    | None => Err
    | Some idx =>
        let* idx1 := seek_linear r idx want in
        seek_indexed_loop (blocks_fuel r) r idx1 typ want
    end.

  (* the key that makes Reader.seek start at the beginning of the section: the
     empty key of ref / obj / index records.  For logs there is none: the key
     of a zero LogRecord is not the smallest log key, and the shortcut is not
     taken (fix: commit "SeekLog of the zero LogRecord key"); a log key is never
     empty, so the test below never fires for logs. *)
  Definition empty_key (typ : N) : bytes := [].

  (* Reader.seek(rec): None = nil iterator *)
  Definition rd_seek (r : reader) (typ : N) (want : bytes) : res (option titer) :=
    if bytes_eqb want (empty_key typ) then rd_start r typ false
    else if 0 <? o_index (rd_offsets r typ) then seek_indexed r typ want
    else
      let* ot := rd_start r typ false in
      match ot with
      | None => Ok None
      | Some t => let* t' := seek_linear r t want in Ok (Some t')
      end.

  (* seekRecord: not present or nil => empty iterator *)
  Definition seek_record (r : reader) (typ : N) (want : bytes) : res (option titer) :=
    if negb (o_present (rd_offsets r typ)) then Ok None else rd_seek r typ want.

  (* the records of the current block from position p on (repeated blockIter.Next);
     fuel = bytes of the (inflated) block: every record consumes at least one *)
  Fixpoint block_rest (fuel : nat) (r : reader) (b : br) (p : bpos) (acc : list record) : res (list record) :=
    match fuel with
    | O => Fuel
    | S f =>
        match bi_next b p with
        | None => Err
        | Some None => Ok (rev acc)
        | Some (Some (rec, p')) => block_rest f r b p' (fix_index r rec :: acc)
        end
    end.

  (* drain an iterator: repeated tableIter.Next until it reports the end *)
  Fixpoint ti_drain (fuel : nat) (r : reader) (t : titer) (acc : list record) : res (list record) :=
    match fuel with
    | O => Fuel
    | S f =>
        if ti_done t then Ok acc
        else
          let* recs := block_rest (S (length (br_block (ti_br t)))) r (ti_br t) (ti_pos t) [] in
          let* nb := ti_next_block r t in
          let '(t', moved) := nb in
          if moved then ti_drain f r t' (acc ++ recs) else Ok (acc ++ recs)
    end.

  Definition drain_opt (r : reader) (ot : option titer) : res (list record) :=
    match ot with
    | None => Ok []
    | Some t => ti_drain (blocks_fuel r) r t []
    end.

  (* SeekRef(name) / SeekLog(name, index) followed by iteration to the end *)
  Definition seek_ref (r : reader) (name : bytes) : res (list record) :=
    let* ot := seek_record r typ_ref name in drain_opt r ot.
  Definition seek_log (r : reader) (name : bytes) (idx : N) : res (list record) :=
    let* ot := seek_record r typ_log (log_key_of name idx) in drain_opt r ot.

  (* reftable.go ReadRef / ReadLogAt: the first record of the seek, if it carries the wanted name *)
  Definition read_ref (r : reader) (name : bytes) : res (option ref_record) :=
    let* rs := seek_ref r name in
    Ok (match rs with
        | RecRef x :: _ => if bytes_eqb (r_name x) name then Some x else None
        | _ => None
        end).
  Definition read_log_at (r : reader) (name : bytes) (idx : N) : res (option log_record) :=
    let* rs := seek_log r name idx in
    Ok (match rs with
        | RecLog l :: _ => if bytes_eqb (l_name l) name then Some l else None
        | _ => None
        end).

  Definition rec_points_to (oid : bytes) (rec : record) : bool :=
    match rec with RecRef x => points_to oid x | _ => false end.

  (* indexedTableRefIter: every ref block listed for the object id, filtered *)
  Fixpoint refs_in_blocks (r : reader) (oid : bytes) (offs : list N) : res (list record) :=
    match offs with
    | [] => Ok []
    | off :: rest =>
        let* ob := new_block_reader r off typ_ref in
        match ob with
        | None => Err                            (* indexed block does not exist *)
        | Some b =>
            let* recs := block_rest (S (length (br_block b))) r b (br_start b) [] in
            let* more := refs_in_blocks r oid rest in
            Ok (filter (rec_points_to oid) recs ++ more)
        end
    end.

  Definition refs_for_linear (r : reader) (oid : bytes) : res (list record) :=
    let* ot := rd_start r typ_ref false in
    let* all := drain_opt r ot in
    Ok (filter (rec_points_to oid) all).

  (* Reader.RefsFor(oid), drained *)
  Definition refs_for (r : reader) (oid : bytes) : res (list record) :=
    if negb (o_present (rd_ref r)) then Ok []        (* no ref section: an empty table, or one with only a log *)
    else if o_present (rd_obj r) then
      if Nat.ltb (length oid) (rd_idlen r) then Ok []
      else
        let want := firstn (rd_idlen r) oid in
        let* ot := rd_seek r typ_obj want in
        match ot with
        | None => Ok []
        | Some t =>
            let* nx := ti_next (blocks_fuel r) r t in
            match nx with
            | Some (RecObj k offs, _) =>
                if negb (bytes_eqb k want) then Ok []
                else match offs with
                     | [] => refs_for_linear r oid
                     | _ => refs_in_blocks r oid offs
                     end
            | Some _ => Panic site_iter_type
            | None => Ok []
            end
        end
    else refs_for_linear r oid.

  Definition scan_refs (r : reader) : res (list record) := seek_ref r [].
  Definition scan_logs (r : reader) : res (list record) := seek_log r [] u64_max.
End Reader.
