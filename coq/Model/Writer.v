(* writer.go: Writer (NewWriter, SetLimits, AddRef, AddLog, Close) with the
   padded writer, flushBlock, finishSection, dumpObjectIndex, header/footer. *)
From Coq Require Import List NArith Arith Bool.
From RT Require Import Model.Bytes Model.Result Model.Varint Model.KeyCodec Model.Records
  Model.RecCodec Model.Block Model.Crc32.
Import ListNotations.
Local Open Scope N_scope.

Record config := {
  c_unaligned : bool;
  c_block_size : N;
  c_skip_index_objects : bool;
  c_restart_interval : nat;
  c_sha256 : bool;
  c_exact_log : bool }.

Definition cfg_defaults (c : config) : config :=
  {| c_unaligned := c_unaligned c;
     c_block_size := if c_block_size c =? 0 then 4096 else c_block_size c;
     c_skip_index_objects := c_skip_index_objects c;
     c_restart_interval := if Nat.eqb (c_restart_interval c) 0 then 16%nat else c_restart_interval c;
     c_sha256 := c_sha256 c;
     c_exact_log := c_exact_log c |}.

Definition hash_size (c : config) : nat := if c_sha256 c then 32%nat else 20%nat.
Definition header_size (c : config) : nat := if c_sha256 c then 28%nat else 24%nat.
Definition footer_size (c : config) : nat := if c_sha256 c then 72%nat else 68%nat.

Definition magic : bytes := [82; 69; 70; 84].           (* "REFT" *)
Definition sha256_id : bytes := [115; 50; 53; 54].      (* "s256" *)
Definition sha1_id : bytes := [115; 104; 97; 49].       (* "sha1" *)

Definition header_bytes (c : config) (min max : N) : bytes :=
  let v := if c_sha256 c then 2 else 1 in
  magic ++ be32 (c_block_size c + v * 16777216) ++ be64 min ++ be64 max ++
  (if c_sha256 c then sha256_id else []).

Record tstats := { ts_blocks : nat; ts_offset : N; ts_index_blocks : nat; ts_index_offset : N; ts_max_level : nat }.
Definition tstats0 := {| ts_blocks := 0; ts_offset := 0; ts_index_blocks := 0; ts_index_offset := 0; ts_max_level := 0 |}.

Record wstate := {
  w_cfg : config;                 (* after setDefaults *)
  w_out : bytes;                  (* bytes handed to the io.Writer so far *)
  w_pad : N;                      (* paddedWriter.pendingPadding *)
  w_next : N;
  w_last_key : bytes;
  w_bw : option bw;
  w_index : list (bytes * N);
  w_obj : list (bytes * list N);  (* objIndex: sorted association list *)
  w_min : N; w_max : N;
  w_ref : tstats; w_objs : tstats; w_log : tstats; w_idx : tstats;
  w_blocks : nat;
  w_idlen : nat }.

Definition upd (st : wstate) (out : bytes) (pad next : N) (last : bytes) (b : option bw)
           (index : list (bytes * N)) : wstate :=
  {| w_cfg := w_cfg st; w_out := out; w_pad := pad; w_next := next; w_last_key := last; w_bw := b;
     w_index := index; w_obj := w_obj st; w_min := w_min st; w_max := w_max st;
     w_ref := w_ref st; w_objs := w_objs st; w_log := w_log st; w_idx := w_idx st;
     w_blocks := w_blocks st; w_idlen := w_idlen st |}.

Definition set_bw (st : wstate) (b : option bw) : wstate :=
  upd st (w_out st) (w_pad st) (w_next st) (w_last_key st) b (w_index st).
Definition set_index (st : wstate) (ix : list (bytes * N)) : wstate :=
  upd st (w_out st) (w_pad st) (w_next st) (w_last_key st) (w_bw st) ix.
Definition set_last_key (st : wstate) (k : bytes) : wstate :=
  upd st (w_out st) (w_pad st) (w_next st) k (w_bw st) (w_index st).

Definition get_stats (st : wstate) (typ : N) : tstats :=
  if typ =? typ_ref then w_ref st else if typ =? typ_log then w_log st
  else if typ =? typ_obj then w_objs st else w_idx st.

Definition set_stats (st : wstate) (typ : N) (s : tstats) : wstate :=
  {| w_cfg := w_cfg st; w_out := w_out st; w_pad := w_pad st; w_next := w_next st;
     w_last_key := w_last_key st; w_bw := w_bw st; w_index := w_index st; w_obj := w_obj st;
     w_min := w_min st; w_max := w_max st;
     w_ref := if typ =? typ_ref then s else w_ref st;
     w_objs := if typ =? typ_obj then s else w_objs st;
     w_log := if typ =? typ_log then s else w_log st;
     w_idx := if typ =? typ_idx then s else w_idx st;
     w_blocks := w_blocks st; w_idlen := w_idlen st |}.

Definition set_obj (st : wstate) (o : list (bytes * list N)) (blocks idlen : nat) : wstate :=
  {| w_cfg := w_cfg st; w_out := w_out st; w_pad := w_pad st; w_next := w_next st;
     w_last_key := w_last_key st; w_bw := w_bw st; w_index := w_index st; w_obj := o;
     w_min := w_min st; w_max := w_max st;
     w_ref := w_ref st; w_objs := w_objs st; w_log := w_log st; w_idx := w_idx st;
     w_blocks := blocks; w_idlen := idlen |}.

Definition set_limits (st : wstate) (min max : N) : wstate :=
  {| w_cfg := w_cfg st; w_out := w_out st; w_pad := w_pad st; w_next := w_next st;
     w_last_key := w_last_key st; w_bw := w_bw st; w_index := w_index st; w_obj := w_obj st;
     w_min := min; w_max := max;
     w_ref := w_ref st; w_objs := w_objs st; w_log := w_log st; w_idx := w_idx st;
     w_blocks := w_blocks st; w_idlen := w_idlen st |}.

Section Writer.
  Variable deflate : bytes -> bytes.

  (* newBlockWriter(typ) *)
  Definition new_bw (st : wstate) (typ : N) : bw :=
    let c := w_cfg st in
    bw_new typ (if w_next st =? 0 then header_size c else O) (N.to_nat (c_block_size c))
           (c_restart_interval c) (hash_size c).

  (* NewWriter *)
  (* a block size that cannot hold the file header and a block header (fix: "NewWriter
     refuses a block size that cannot hold the file header"; 0 = the default size) *)
  Definition block_too_small (cfg : config) : bool :=
    negb (N.of_nat (header_size (cfg_defaults cfg)) + 4 <=? c_block_size (cfg_defaults cfg)).

  Definition w_new (cfg : config) : res wstate :=
    if 16777216 <=? c_block_size cfg then Err
    else if block_too_small cfg then Err
    else
      let c := cfg_defaults cfg in
      let st := {| w_cfg := c; w_out := []; w_pad := 0; w_next := 0; w_last_key := []; w_bw := None;
                   w_index := []; w_obj := []; w_min := 0; w_max := 0;
                   w_ref := tstats0; w_objs := tstats0; w_log := tstats0; w_idx := tstats0;
                   w_blocks := 0; w_idlen := 0 |} in
      Ok (set_bw st (Some (new_bw st typ_ref))).

  Definition flush_block (st : wstate) : wstate :=
    match w_bw st with
    | None => st
    | Some b =>
        if Nat.eqb (bw_entries b) 0 then st
        else
          let c := w_cfg st in
          let typ := bw_typ b in
          let s := get_stats st typ in
          let s1 := {| ts_blocks := S (ts_blocks s);
                       ts_offset := if Nat.eqb (ts_blocks s) 0 then w_next st else ts_offset s;
                       ts_index_blocks := ts_index_blocks s; ts_index_offset := ts_index_offset s;
                       ts_max_level := ts_max_level s |} in
          let file_hdr := if w_next st =? 0 then header_bytes c (w_min st) (w_max st) else [] in
          let raw := bw_finish deflate file_hdr b in
          let padding := if c_unaligned c || (typ =? typ_log) then 0
                         else c_block_size c - N.of_nat (length raw) in
          let out := w_out st ++ zeros (N.to_nat (w_pad st)) ++ raw in
          let n := N.of_nat (length raw) + padding in
          let st1 := set_stats st typ s1 in
          let st2 := upd st1 out padding (w_next st + n) (w_last_key st) None
                         (w_index st ++ [(bw_last b, w_next st)]) in
          set_obj st2 (w_obj st2) (S (w_blocks st2)) (w_idlen st2)
    end.

  (* one index level: add every entry, starting a new block when one is full *)
  Fixpoint index_level (st : wstate) (idx : list (bytes * N)) : res wstate :=
    match idx with
    | [] => Ok st
    | (k, off) :: rest =>
        match w_bw st with
        | None => Panic site_slice
        | Some b =>
            let* r := bw_add b (RecIdx k off) in
            match r with
            | Some b' => index_level (set_bw st (Some b')) rest
            | None =>
                let st1 := flush_block st in
                let nb := new_bw st1 typ_idx in
                let* r2 := bw_add nb (RecIdx k off) in
                match r2 with
                | Some b2 => index_level (set_bw st1 (Some b2)) rest
                | None => Panic site_idx_fresh
                end
            end
        end
    end.

  (* the level loop of finishSection: returns (state, indexStart, maxLevel) *)
  Fixpoint index_levels (fuel : nat) (st : wstate) (threshold : nat) (index_start : N) (max_level : nat)
    : res (wstate * N * nat) :=
    match fuel with
    | O => Fuel
    | S f =>
        if Nat.ltb threshold (length (w_index st)) then
          let idx := w_index st in
          let start := w_next st in
          let st0 := set_index (set_bw st (Some (new_bw st typ_idx))) [] in
          let* st1 := index_level st0 idx in
          let st2 := flush_block st1 in
          if Nat.leb (length idx) (length (w_index st2)) then Ok (st2, start, S max_level)
          else index_levels f st2 threshold start (S max_level)
        else Ok (st, index_start, max_level)
    end.

  Definition finish_section (st : wstate) : res wstate :=
    match w_bw st with
    | None => Panic site_slice
    | Some b =>
        let typ := bw_typ b in
        let st1 := flush_block st in
        let threshold := if c_unaligned (w_cfg st) then 1%nat else 3%nat in
        let before := ts_blocks (w_idx st1) in
        let* lv := index_levels (S (length (w_index st1))) st1 threshold 0 O in
        let '(st2, index_start, max_level) := lv in
        let st3 := set_index st2 [] in
        let s := get_stats st3 typ in
        let s' := {| ts_blocks := ts_blocks s; ts_offset := ts_offset s;
                     ts_index_blocks := (ts_blocks (w_idx st3) - before)%nat;
                     ts_index_offset := index_start; ts_max_level := max_level |} in
        Ok (set_last_key (set_stats st3 typ s') [])
    end.

  (* uniqSorted keys: the association list is kept sorted and duplicate-free *)
  Fixpoint obj_insert (h : bytes) (off : N) (l : list (bytes * list N)) : list (bytes * list N) :=
    match l with
    | [] => [(h, [off])]
    | (k, offs) :: t =>
        if bytes_eqb k h then
          (k, if (match rev offs with o :: _ => o =? off | [] => false end) then offs else offs ++ [off]) :: t
        else if bytes_ltb h k then (h, [off]) :: l
        else (k, offs) :: obj_insert h off t
    end.

  (* indexHash *)
  Definition index_hash (st : wstate) (h : bytes) : wstate :=
    if c_skip_index_objects (w_cfg st) then st
    else set_obj st (obj_insert h (w_next st) (w_obj st)) (w_blocks st) (w_idlen st).

  Fixpoint max_common (last : bytes) (keys : list bytes) (m : nat) : nat :=
    match keys with
    | [] => m
    | k :: t => max_common k t (Nat.max m (common_prefix last k))
    end.

  Fixpoint dump_objs (st : wstate) (idlen : nat) (objs : list (bytes * list N)) : res wstate :=
    match objs with
    | [] => Ok st
    | (k, offs) :: rest =>
        match w_bw st with
        | None => Panic site_slice
        | Some b =>
            let key := firstn idlen k in
            let* r := bw_add b (RecObj key offs) in
            match r with
            | Some b' => dump_objs (set_bw st (Some b')) idlen rest
            | None =>
                let st1 := flush_block st in
                let nb := new_bw st1 typ_obj in
                let* r2 := bw_add nb (RecObj key offs) in
                match r2 with
                | Some b2 => dump_objs (set_bw st1 (Some b2)) idlen rest
                | None =>
                    let* r3 := bw_add nb (RecObj key []) in
                    match r3 with
                    | Some b3 => dump_objs (set_bw st1 (Some b3)) idlen rest
                    | None => Panic site_obj_fresh
                    end
                end
            end
        end
    end.

  Definition dump_object_index (st : wstate) : res wstate :=
    let keys := map fst (w_obj st) in
    let mc := max_common [] keys O in
    if Nat.leb 32 (S mc) then Ok st
    else
      let st1 := set_obj st (w_obj st) (w_blocks st) (S mc) in
      let st2 := set_bw st1 (Some (new_bw st1 typ_obj)) in
      let* st3 := dump_objs st2 (S mc) (w_obj st2) in
      finish_section st3.

  Definition finish_public_section (st : wstate) : res wstate :=
    match w_bw st with
    | None => Ok st
    | Some b =>
        let typ := bw_typ b in
        let* st1 := finish_section st in
        let* st2 :=
          if (typ =? typ_ref) && negb (c_skip_index_objects (w_cfg st1))
             && Nat.ltb 0 (ts_index_blocks (w_ref st1))
          then dump_object_index st1 else Ok st1 in
        Ok (set_bw st2 None)
    end.

  (* Writer.add *)
  (* indexEntryFits: an index entry for the key, with any block position, fits an index
     block that is not the first block of the table (block header, prefix length, suffix
     length varint, key, a 10-byte position, one restart, restart count) *)
  Definition index_entry_fits (st : wstate) (k : bytes) : bool :=
    (N.of_nat (4 + 1 + length (put_varint ((N.of_nat (length k) * 8) mod two64)) + length k + 10 + 3 + 2)
       <=? c_block_size (w_cfg st)).

  (* the body of Writer.add behind its two entry checks *)
  Definition w_add_core (st : wstate) (r : record) : res wstate :=
    let k := rec_key r in
    if negb (bytes_ltb (w_last_key st) k) then Panic site_writer_order
    else
      let st0 := set_last_key st k in
      let st1 := match w_bw st0 with None => set_bw st0 (Some (new_bw st0 (rec_typ r))) | Some _ => st0 end in
      match w_bw st1 with
      | None => Panic site_slice
      | Some b =>
          if negb (bw_typ b =? rec_typ r) then Panic site_writer_type
          else
            let* a := bw_add b r in
            match a with
            | Some b' => Ok (set_bw st1 (Some b'))
            | None =>
                let st2 := flush_block st1 in
                let nb := new_bw st2 (rec_typ r) in
                let* a2 := bw_add nb r in
                match a2 with
                | Some b2 => Ok (set_bw st2 (Some b2))
                | None => Err                      (* record too large for block size *)
                end
            end
      end.

  (* Writer.add: keys ascending (a programming error otherwise); the key must leave room
     for its index entry (fix: "the writer refuses a record whose index entry cannot fit a
     block"); then the block logic *)
  Definition w_add (st : wstate) (r : record) : res wstate :=
    let k := rec_key r in
    if negb (bytes_ltb (w_last_key st) k) then Panic site_writer_order
    else if negb (index_entry_fits st k) then Err
    else w_add_core st r.

  Definition w_add_ref (st : wstate) (r : ref_record) : res wstate :=
    if Nat.eqb (length (r_name r)) 0 then Err
    else if (r_index r <? w_min st) || (w_max st <? r_index r) then Err
    else
      let cpy := {| r_name := r_name r; r_index := r_index r - w_min st; r_val := r_val r |} in
      let* st1 := w_add st (RecRef cpy) in
      Ok match r_val r with
         | RVal h => index_hash st1 h
         | RVal2 h t => index_hash (index_hash st1 h) t
         | _ => st1
         end.

  (* strings.TrimRight(msg, "\n") *)
  Fixpoint trim_right_nl_rev (r : bytes) : bytes :=
    match r with
    | b :: t => if b =? 10 then trim_right_nl_rev t else r
    | [] => []
    end.
  Definition trim_right_nl (m : bytes) : bytes := rev (trim_right_nl_rev (rev m)).

  (* the message normalisation of AddLog: None = "must be single line" *)
  Definition norm_msg (exact : bool) (m : bytes) : option bytes :=
    if exact then Some m
    else let t := trim_right_nl m in
         if existsb (N.eqb 10) t then None else Some (t ++ [10]).

  Definition norm_log (exact : bool) (l : log_record) : option log_record :=
    match l_body l with
    | None => Some l
    | Some b =>
        match norm_msg exact (lb_msg b) with
        | None => None
        | Some m => Some {| l_name := l_name l; l_index := l_index l;
                            l_body := Some {| lb_old := lb_old b; lb_new := lb_new b; lb_name := lb_name b;
                                              lb_email := lb_email b; lb_time := lb_time b; lb_tz := lb_tz b;
                                              lb_msg := m |} |}
        end
    end.

  Definition w_add_log (st : wstate) (l : log_record) : res wstate :=
    if Nat.eqb (length (l_name l)) 0 then Err
    else
      match norm_log (c_exact_log (w_cfg st)) l with
      | None => Err
      | Some l1 =>
          let* st1 :=
            match w_bw st with
            | Some b => if bw_typ b =? typ_ref then finish_public_section st else Ok st
            | None => Ok st
            end in
          let st2 := upd st1 (w_out st1) 0 (w_next st1 - w_pad st1) (w_last_key st1) (w_bw st1) (w_index st1) in
          w_add st2 (RecLog l1)
      end.

  (* Close: (empty table?, all bytes written) *)
  Definition w_close (st : wstate) : res (bool * bytes) :=
    let* st1 := finish_public_section st in
    let c := w_cfg st1 in
    let hb := header_bytes c (w_min st1) (w_max st1) in
    let empty := w_next st1 =? 0 in
    let out1 := if empty then w_out st1 ++ hb else w_out st1 in
    let footer := hb ++ be64 (ts_index_offset (w_ref st1))
                     ++ be64 ((ts_offset (w_objs st1) * 32 + N.of_nat (w_idlen st1)) mod two64)
                     ++ be64 (ts_index_offset (w_objs st1))
                     ++ be64 (ts_offset (w_log st1))
                     ++ be64 (ts_index_offset (w_log st1)) in
    Ok (empty, out1 ++ footer ++ be32 (crc32 footer)).

  Fixpoint add_refs (st : wstate) (refs : list ref_record) : res wstate :=
    match refs with
    | [] => Ok st
    | r :: t => let* st1 := w_add_ref st r in add_refs st1 t
    end.
  Fixpoint add_logs (st : wstate) (logs : list log_record) : res wstate :=
    match logs with
    | [] => Ok st
    | l :: t => let* st1 := w_add_log st l in add_logs st1 t
    end.

  (* NewWriter; SetLimits; AddRef*; AddLog*; Close *)
  Definition write_table (cfg : config) (min max : N) (refs : list ref_record) (logs : list log_record)
    : res (bool * bytes) :=
    let* st0 := w_new cfg in
    let* st1 := add_refs (set_limits st0 min max) refs in
    let* st2 := add_logs st1 logs in
    w_close st2.
End Writer.
