(* An independent decoder written from the format description (README.md /
   reftable-v2-proposal.md): it walks the file by POSITION and checks every
   structural rule, sharing with the reader model only the byte / varint /
   key / record-field decoders of the codec layer (Bytes, Varint, KeyCodec,
   RecCodec) -- nothing of Block.v's or Reader.v's readers.  Used to judge
   every table the writer emits (C14). *)
From Coq Require Import List NArith Arith Bool.
From RT Require Import Model.Bytes Model.Result Model.Varint Model.KeyCodec Model.Records Model.RecCodec
  Model.Crc32.
Import ListNotations.
Local Open Scope N_scope.

Inductive sinflate_result := SIOk (out : bytes) (consumed : nat) | SIFail.

(* why a file is rejected *)
Inductive spec_err :=
| SE_short | SE_magic | SE_version | SE_header_copy | SE_crc | SE_hash
| SE_block_type (pos : N) | SE_block_len (pos : N) | SE_padding (pos : N) | SE_zlib (pos : N)
| SE_restart (pos : N) | SE_record (pos : N) | SE_key_order (pos : N)
| SE_section (what : N) | SE_index (level : nat) | SE_objindex | SE_update_index | SE_fuel.

Definition sres (A : Type) := (spec_err + A)%type.
Definition sbind {A B} (x : sres A) (f : A -> sres B) : sres B :=
  match x with inl e => inl e | inr a => f a end.
Notation "'do*' x ':=' e 'in' f" := (sbind e (fun x => f))
  (at level 200, x pattern, e at level 100, f at level 200, right associativity).

Definition slice (off len : nat) (l : bytes) : bytes := firstn len (skipn off l).
Definition be_at (w off : nat) (l : bytes) : N := be_value (slice off w l) 0.

Record sblock := {
  sb_pos : N;            (* file position of the block (0 for the first, which holds the file header) *)
  sb_typ : N;
  sb_len : nat;          (* the block's own length field *)
  sb_next : N;           (* position of whatever follows (after padding) *)
  sb_recs : list record;
  sb_last : bytes }.     (* key of its last record *)

Section Spec.
  Variable inflate : bytes -> sinflate_result.

  (* all records of a block body: [body] starts at the first record; [stop] is
     the offset (within the block) where the restart table begins *)
  Fixpoint parse_records (fuel : nat) (typ : N) (hs : nat) (blk : bytes) (off stop : nat) (last : bytes)
           (acc : list (nat * bool * record))        (* offset, written with prefix 0?, record *)
    : option (list (nat * bool * record)) :=
    match fuel with
    | O => None
    | S f =>
        if Nat.eqb off stop then Some (rev acc)
        else if Nat.ltb stop off then None
        else
          let buf := slice off (stop - off) blk in
          match decode_key buf last with
          | None => None
          | Some (n, key, vt) =>
              (* prefix length 0 <=> first byte of the key encoding is 0 *)
              let p0 := match buf with b0 :: _ => b0 =? 0 | [] => false end in
              match rec_decode typ hs key vt (skipn n buf) with
              | None => None
              | Some (m, r) => parse_records f typ hs blk (off + n + m) stop (rec_key r) ((off, p0, r) :: acc)
              end
          end
    end.

  Fixpoint keys_ascending (last : option bytes) (rs : list record) : bool :=
    match rs with
    | [] => true
    | r :: t => (match last with Some k => bytes_ltb k (rec_key r) | None => true end)
                && keys_ascending (Some (rec_key r)) t
    end.

  Fixpoint all_zero (l : bytes) : bool :=
    match l with [] => true | b :: t => (b =? 0) && all_zero t end.

  Fixpoint ascending_nat (l : list nat) : bool :=
    match l with
    | a :: ((b :: _) as t) => Nat.ltb a b && ascending_nat t
    | _ => true
    end.

  (* one block at file position [pos]; [hdr] = file header size if pos = 0 *)
  Definition parse_block (data : bytes) (size : N) (block_size : N) (hs : nat) (pos : N) (hdr : nat)
    : sres sblock :=
    let avail := skipn (N.to_nat pos) (firstn (N.to_nat size) data) in
    if Nat.ltb (length avail) (hdr + 4) then inl (SE_block_len pos)
    else
      let typ := nth hdr avail 0 in
      if negb (is_block_type typ) then inl (SE_block_type pos)
      else
        let blen := N.to_nat (be_at 3 (hdr + 1) avail) in
        if Nat.ltb blen (hdr + 4 + 2) then inl (SE_block_len pos)
        else
          (* the block's bytes (inflated for log blocks) and where the next block starts *)
          do* bn :=
            (if typ =? typ_log then
               match inflate (skipn (hdr + 4) avail) with
               | SIFail => inl (SE_zlib pos)
               | SIOk out consumed =>
                   if negb (Nat.eqb (hdr + 4 + length out) blen) then inl (SE_block_len pos)
                   else inr (firstn (hdr + 4) avail ++ out, pos + N.of_nat (hdr + 4 + consumed))
               end
             else if Nat.ltb (length avail) blen then inl (SE_block_len pos)
             else
               let blk := firstn blen avail in
               let after := skipn blen avail in
               match after with
               | [] => inr (blk, pos + N.of_nat blen)
               | b :: _ =>
                   if negb (b =? 0) then inr (blk, pos + N.of_nat blen)       (* not padded *)
                   else
                     (* padded up to the block size: zeros only, and the padded block must fit *)
                     if (block_size =? 0) || (block_size <? N.of_nat blen) then inl (SE_padding pos)
                     else
                       let padlen := (N.to_nat block_size - blen)%nat in
                       if Nat.ltb (length after) padlen then
                         (* the last block of the file may be followed by less padding only if nothing else follows *)
                         inl (SE_padding pos)
                       else if negb (all_zero (firstn padlen after)) then inl (SE_padding pos)
                       else inr (blk, pos + block_size)
               end)
          in
          let '(blk, next) := bn in
          let count := N.to_nat (be_at 2 (blen - 2) blk) in
          if Nat.ltb blen (hdr + 4 + 2 + 3 * count) then inl (SE_restart pos)
          else
            let rstart := (blen - 2 - 3 * count)%nat in
            let restarts := map (fun i => N.to_nat (be_at 3 (rstart + 3 * i) blk)) (seq 0 count) in
            match parse_records (S blen) typ hs blk (hdr + 4) rstart [] [] with
            | None => inl (SE_record pos)
            | Some recs =>
                let offs0 := map (fun x => fst (fst x)) (filter (fun x => snd (fst x)) recs) in
                (* restarts: ascending, each the offset of a record written with prefix length 0,
                   the first one the first record; at least one record *)
                if negb (ascending_nat restarts) then inl (SE_restart pos)
                else if negb (forallb (fun r => existsb (Nat.eqb r) offs0) restarts) then inl (SE_restart pos)
                else match recs, restarts with
                     | [], _ => inl (SE_record pos)
                     | _, [] => inl (SE_restart pos)
                     | (o1, _, _) :: _, r1 :: _ =>
                         if negb (Nat.eqb o1 r1) then inl (SE_restart pos)
                         else
                           let rs := map snd recs in
                           if negb (keys_ascending None rs) then inl (SE_key_order pos)
                           else inr {| sb_pos := pos; sb_typ := typ; sb_len := blen; sb_next := next;
                                       sb_recs := rs; sb_last := rec_key (last rs (RecIdx [] 0)) |}
                     end
            end.

  (* all blocks from [pos] up to [size], in file order *)
  Fixpoint parse_blocks (fuel : nat) (data : bytes) (size block_size : N) (hs hdr0 : nat) (pos : N)
           (acc : list sblock) : sres (list sblock) :=
    match fuel with
    | O => inl SE_fuel
    | S f =>
        if size <=? pos then (if size =? pos then inr (rev acc) else inl (SE_block_len pos))
        else
          do* b := parse_block data size block_size hs pos (if pos =? 0 then hdr0 else O) in
          if sb_next b <=? pos then inl (SE_block_len pos)
          else parse_blocks f data size block_size hs hdr0 (sb_next b) (b :: acc)
    end.

  (* split the block list into maximal runs of one type *)
  Fixpoint runs (bs : list sblock) (cur : list sblock) (acc : list (list sblock)) : list (list sblock) :=
    match bs with
    | [] => rev (match cur with [] => acc | _ => rev cur :: acc end)
    | b :: t =>
        match cur with
        | [] => runs t [b] acc
        | c :: _ => if sb_typ c =? sb_typ b then runs t (b :: cur) acc
                    else runs t [b] (rev cur :: acc)
        end
    end.

  Definition run_typ (r : list sblock) : N := match r with b :: _ => sb_typ b | [] => 0 end.
  Definition run_pos (r : list sblock) : N := match r with b :: _ => sb_pos b | [] => 0 end.

  Fixpoint idx_entries (rs : list record) : option (list (bytes * N)) :=
    match rs with
    | [] => Some []
    | RecIdx k o :: t => match idx_entries t with Some l => Some ((k, o) :: l) | None => None end
    | _ => None
    end.

  Fixpoint same_entries (a b : list (bytes * N)) : bool :=
    match a, b with
    | [], [] => true
    | (k1, o1) :: t1, (k2, o2) :: t2 => bytes_eqb k1 k2 && (o1 =? o2) && same_entries t1 t2
    | _, _ => false
    end.

  (* an index run = levels; level blocks, consumed from the front, must list
     exactly (last key, position) of the blocks of the level below, in order *)
  Fixpoint check_levels (fuel : nat) (below : list sblock) (index : list sblock) (level : nat)
    : sres (N * nat) (* position of the top level, number of levels *) :=
    match fuel with
    | O => inl SE_fuel
    | S f =>
        let want := map (fun b => (sb_last b, sb_pos b)) below in
        (* take index blocks until their entries cover [want] *)
        let fix take (idx : list sblock) (got : list (bytes * N)) (taken : list sblock) (k : nat)
          : option (list sblock * list sblock) :=
          match k with
          | O => None
          | S k' =>
              if Nat.eqb (length got) (length want) then Some (rev taken, idx)
              else match idx with
                   | [] => None
                   | b :: t => match idx_entries (sb_recs b) with
                               | None => None
                               | Some es => take t (got ++ es) (b :: taken) k'
                               end
                   end
          end in
        match take index [] [] (S (length index)) with
        | None => inl (SE_index level)
        | Some (lvl, rest) =>
            let got := flat_map (fun b => match idx_entries (sb_recs b) with Some es => es | None => [] end) lvl in
            if negb (same_entries got want) then inl (SE_index level)
            else match rest with
                 | [] => inr (run_pos lvl, level)
                 | _ => check_levels f lvl rest (S level)
                 end
        end
    end.

  Definition section_index (data_run : list sblock) (idx_run : option (list sblock)) (claimed : N)
    : sres unit :=
    match idx_run with
    | None => if claimed =? 0 then inr tt else inl (SE_section 1)
    | Some ix =>
        do* tl := check_levels (S (length ix)) data_run ix 1 in
        if fst tl =? claimed then inr tt else inl (SE_section 2)
    end.

  Definition refs_of_blocks (bs : list sblock) : list ref_record :=
    flat_map (fun b => flat_map (fun r => match r with RecRef x => [x] | _ => [] end) (sb_recs b)) bs.
  Definition logs_of_blocks (bs : list sblock) : list log_record :=
    flat_map (fun b => flat_map (fun r => match r with RecLog x => [x] | _ => [] end) (sb_recs b)) bs.

  Definition ref_has_prefix (p : bytes) (r : ref_record) : bool :=
    match r_val r with
    | RVal h => is_prefix p h
    | RVal2 h t => is_prefix p h || is_prefix p t
    | _ => false
    end.

  Fixpoint same_N_list (a b : list N) : bool :=
    match a, b with
    | [], [] => true
    | x :: s, y :: t => (x =? y) && same_N_list s t
    | _, _ => false
    end.

  (* every object record lists exactly the ref blocks holding a ref whose value or
     peeled value starts with its abbreviated id (an empty list = positions omitted),
     and every object id of the refs is covered *)
  Definition check_objs (idlen : nat) (ref_run obj_run : list sblock) : bool :=
    let objs := flat_map (fun b => flat_map (fun r => match r with RecObj p o => [(p, o)] | _ => [] end) (sb_recs b)) obj_run in
    forallb (fun po =>
      let '(p, offs) := po in
      Nat.eqb (length p) idlen &&
      let want := map sb_pos (filter (fun b => existsb (fun r => match r with RecRef x => ref_has_prefix p x | _ => false end) (sb_recs b)) ref_run) in
      (match offs with [] => true | _ => same_N_list offs want end) &&
      negb (match want with [] => true | _ => false end)) objs
    && forallb (fun x =>
         match r_val x with
         | RVal h => existsb (fun po => bytes_eqb (fst po) (firstn idlen h)) objs
         | RVal2 h t => existsb (fun po => bytes_eqb (fst po) (firstn idlen h)) objs
                        && existsb (fun po => bytes_eqb (fst po) (firstn idlen t)) objs
         | _ => true
         end) (refs_of_blocks ref_run).

  Record spec_table := {
    sp_version : N; sp_block_size : N; sp_min : N; sp_max : N; sp_sha256 : bool;
    sp_refs : list ref_record;      (* update indices absolute *)
    sp_logs : list log_record;
    sp_nblocks : nat; sp_ref_levels : bool; sp_has_obj : bool; sp_log_levels : bool }.

  (* pick the runs in the order the format prescribes: r [i] [o [i]] [g [i]] *)
  Definition take_run (typ : N) (rs : list (list sblock)) : option (list sblock) * list (list sblock) :=
    match rs with
    | r :: t => if run_typ r =? typ then (Some r, t) else (None, rs)
    | [] => (None, [])
    end.

  Definition spec_decode (data : bytes) : sres spec_table :=
    let total := length data in
    if Nat.ltb total 92 then inl SE_short
    else if negb (bytes_eqb (firstn 4 data) [82; 69; 70; 84]) then inl SE_magic
    else
      let version := nth 4 data 0 in
      if negb ((version =? 1) || (version =? 2)) then inl SE_version
      else
        let hs := if version =? 1 then 24%nat else 28%nat in
        let fs := if version =? 1 then 68%nat else 72%nat in
        if Nat.ltb total (hs + fs) then inl SE_short
        else
          let foot := skipn (total - fs) data in
          if negb (bytes_eqb (firstn hs data) (firstn hs foot)) then inl SE_header_copy
          else if negb (be_at 4 (fs - 4) foot =? crc32 (firstn (fs - 4) foot)) then inl SE_crc
          else
            let hash_id := if version =? 1 then [115; 104; 97; 49] else slice 24 4 data in
            let sha256 := bytes_eqb hash_id [115; 50; 53; 54] in
            if negb (sha256 || bytes_eqb hash_id [115; 104; 97; 49]) then inl SE_hash
            else
              let hsize := if sha256 then 32%nat else 20%nat in
              let block_size := be_at 3 5 data in
              let min := be_at 8 8 data in
              let max := be_at 8 16 data in
              let ref_index := be_at 8 hs foot in
              let obj_word := be_at 8 (hs + 8) foot in
              let obj_off := obj_word / 32 in
              let idlen := N.to_nat (obj_word mod 32) in
              let obj_index := be_at 8 (hs + 16) foot in
              let log_off := be_at 8 (hs + 24) foot in
              let log_index := be_at 8 (hs + 32) foot in
              let size := N.of_nat (total - fs) in
              if Nat.eqb total (hs + fs) then
                (* header + footer only: the empty table *)
                inr {| sp_version := version; sp_block_size := block_size; sp_min := min; sp_max := max;
                       sp_sha256 := sha256; sp_refs := []; sp_logs := []; sp_nblocks := 0;
                       sp_ref_levels := false; sp_has_obj := false; sp_log_levels := false |}
              else
              do* blocks := parse_blocks (S total) data size block_size hsize hs 0 [] in
              let rs := runs blocks [] [] in
              let '(ref_run, rs1) := take_run typ_ref rs in
              let '(ref_idx, rs2) := match ref_run with Some _ => take_run typ_idx rs1 | None => (None, rs1) end in
              let '(obj_run, rs3) := take_run typ_obj rs2 in
              let '(obj_idx, rs4) := match obj_run with Some _ => take_run typ_idx rs3 | None => (None, rs3) end in
              let '(log_run, rs5) := take_run typ_log rs4 in
              let '(log_idx, rs6) := match log_run with Some _ => take_run typ_idx rs5 | None => (None, rs5) end in
              match rs6 with
              | _ :: _ => inl (SE_section 3)                 (* blocks out of the prescribed order *)
              | [] =>
                  (* section positions declared in the footer *)
                  let okpos :=
                    (match obj_run with Some r => obj_off =? run_pos r | None => obj_off =? 0 end) &&
                    (match log_run with
                     | Some r => (log_off =? run_pos r) || ((run_pos r =? 0) && (log_off =? 0))
                     | None => log_off =? 0 end) in
                  if negb okpos then inl (SE_section 4)
                  else
                    do* _ := section_index (match ref_run with Some r => r | None => [] end) ref_idx ref_index in
                    do* _ := section_index (match obj_run with Some r => r | None => [] end) obj_idx obj_index in
                    do* _ := section_index (match log_run with Some r => r | None => [] end) log_idx log_index in
                    (* keys ascending across the blocks of each section *)
                    let flat r := flat_map sb_recs (match r with Some x => x | None => [] end) in
                    if negb (keys_ascending None (flat ref_run) && keys_ascending None (flat obj_run)
                             && keys_ascending None (flat log_run)) then inl (SE_key_order 0)
                    else if negb (match obj_run with
                                  | Some o => check_objs idlen (match ref_run with Some r => r | None => [] end) o
                                  | None => true end) then inl SE_objindex
                    else
                      let refs := map (fun x => {| r_name := r_name x; r_index := r_index x + min; r_val := r_val x |})
                                      (refs_of_blocks (match ref_run with Some r => r | None => [] end)) in
                      if negb (forallb (fun x => r_index x <=? max) refs) then inl SE_update_index
                      else inr {| sp_version := version; sp_block_size := block_size; sp_min := min; sp_max := max;
                                  sp_sha256 := sha256; sp_refs := refs;
                                  sp_logs := logs_of_blocks (match log_run with Some r => r | None => [] end);
                                  sp_nblocks := length blocks;
                                  sp_ref_levels := match ref_idx with Some _ => true | None => false end;
                                  sp_has_obj := match obj_run with Some _ => true | None => false end;
                                  sp_log_levels := match log_idx with Some _ => true | None => false end |}
              end.

  (* The layout rule of a PADDED table.  Padding is a writer option that the file does not
     record, so this is a separate judgement, asked only about tables written with padding on:
     every block in front of the log section starts on a multiple of the block size (the first
     one directly behind the file header); only the block in front of the log section or of the
     footer may be left unpadded; the log section (log blocks and their index) is not padded. *)
  Fixpoint aligned_prefix (block_size : N) (bs : list sblock) : bool :=
    match bs with
    | [] => true
    | b :: t =>
        if sb_typ b =? typ_log then true                  (* the log section and its index are not padded *)
        else (sb_pos b mod block_size =? 0) && aligned_prefix block_size t
    end.

  Definition spec_aligned (data : bytes) : sres bool :=
    let total := length data in
    let version := nth 4 data 0 in
    let hs := if version =? 1 then 24%nat else 28%nat in
    let fs := if version =? 1 then 68%nat else 72%nat in
    if Nat.leb total (hs + fs) then inr true
    else
      let hash_id := if version =? 1 then [115; 104; 97; 49] else slice 24 4 data in
      let hsize := if bytes_eqb hash_id [115; 50; 53; 54] then 32%nat else 20%nat in
      let block_size := be_at 3 5 data in
      let size := N.of_nat (total - fs) in
      if block_size =? 0 then inr false
      else
        do* blocks := parse_blocks (S total) data size block_size hsize hs 0 [] in
        inr (aligned_prefix block_size blocks).
End Spec.
