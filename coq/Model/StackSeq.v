(* stack.go, single handle, no interference: Add (with name check and
   auto-compaction), compactRange, CompactAll -- composed from the table
   writer, the table reader, the merged view and the segment chooser. *)
From Coq Require Import List NArith Arith Bool.
From RT Require Import Model.Bytes Model.Result Model.Records Model.RecCodec Model.Block Model.Writer
  Model.Reader Model.Merge Model.Overlay Model.Compact Model.Segments Model.Refname.
Import ListNotations.
Local Open Scope N_scope.

Section StackSeq.
  Variable deflate : bytes -> bytes.
  Variable inflate : bytes -> inflate_result.

  Definition refs_of (rs : list record) : list ref_record :=
    flat_map (fun r => match r with RecRef x => [x] | _ => [] end) rs.
  Definition logs_of (rs : list record) : list log_record :=
    flat_map (fun r => match r with RecLog x => [x] | _ => [] end) rs.

  (* open a table file and read everything (NewReader + full scans) *)
  Definition decode_table (data : bytes) : res table :=
    let* rd := rd_open data in
    let* rr := scan_refs inflate rd in
    let* ll := scan_logs inflate rd in
    Ok {| t_min := rd_min rd; t_max := rd_max rd; t_sha256 := rd_sha256 rd;
          t_refs := refs_of rr; t_logs := logs_of ll |}.

  (* tableSizesForCompaction: size - overhead, size = file size - footer *)
  Definition compaction_size (cfg : config) (data : bytes) : N :=
    N.of_nat (length data) - N.of_nat (footer_size cfg) - (N.of_nat (header_size cfg) - 1).

  Definition stbl : Type := (table * N)%type.
  Definition tables (st : list stbl) : list table := map fst st.

  Definition next_index (st : list stbl) : N :=
    match rev st with
    | (t, _) :: _ => t_max t + 1
    | [] => 1
    end.

  Inductive status := SOk | SRejected | SErr.

  (* compactRange(first, last, expiry): merge, write, replace *)
  Definition stack_compact (cfg : config) (first last : nat) (e : option expiry) (st : list stbl)
    : list stbl * status :=
    if Nat.leb last first && (match e with None => true | Some _ => false end) then (st, SOk) else
    let c := compact_table first last e (tables st) in
    match write_table deflate cfg (t_min c) (t_max c) (t_refs c) (t_logs c) with
    | Ok (true, _) => (firstn first st ++ skipn (S last) st, SOk)          (* empty result: dropped *)
    | Ok (false, data) =>
        match decode_table data with
        | Ok t => (firstn first st ++ [(t, compaction_size cfg data)] ++ skipn (S last) st, SOk)
        | _ => (st, SErr)
        end
    | _ => (st, SErr)
    end.

  Definition stack_auto (cfg : config) (st : list stbl) : list stbl * status :=
    match suggest (map snd st) with
    | None => (st, SOk)
    | Some (s, e) => stack_compact cfg s (e - 1) None st
    end.

  (* Stack.Add of one table holding refs and logs at the next update index *)
  Definition stack_add (cfg : config) (name_check auto : bool) (refs : list ref_record) (logs : list log_record)
             (st : list stbl) : list stbl * status :=
    let ui := next_index st in
    match write_table deflate cfg ui ui refs logs with
    | Ok (true, _) => if auto then (fst (stack_auto cfg st), SOk) else (st, SOk)       (* no records: no table *)
    | Ok (false, data) =>
        let names := map r_name (stack_refs (tables st)) in
        let tx := map (fun r => (r_name r, ref_is_del r)) refs in
        if name_check && negb (validate_addition names tx) then (st, SRejected)
        else match decode_table data with
             | Ok t =>
                 let st1 := st ++ [(t, compaction_size cfg data)] in
                 (* the transaction is committed: a failing auto-compaction leaves the stack as
                    it is and does not make Add fail *)
                 if auto then (fst (stack_auto cfg st1), SOk) else (st1, SOk)
             | _ => (st, SErr)
             end
    | _ => (st, SErr)
    end.

  (* a multi-table Addition (NewAddition / Add ... / Commit): table k is written at update
     index next+k and validated against the view that includes the Addition's earlier
     tables; one refusal abandons the whole Addition; no auto-compaction afterwards *)
  Fixpoint addition_go (cfg : config) (name_check : bool) (ui : N) (txs : list (list ref_record))
           (st0 cur : list stbl) : list stbl * status :=
    match txs with
    | [] => (cur, SOk)
    | refs :: rest =>
        match write_table deflate cfg ui ui refs [] with
        | Ok (true, _) => addition_go cfg name_check (ui + 1) rest st0 cur
        | Ok (false, data) =>
            let names := map r_name (stack_refs (tables cur)) in
            let tx := map (fun r => (r_name r, ref_is_del r)) refs in
            if name_check && negb (validate_addition names tx) then (st0, SRejected)
            else match decode_table data with
                 | Ok t => addition_go cfg name_check (ui + 1) rest st0 (cur ++ [(t, compaction_size cfg data)])
                 | _ => (st0, SErr)
                 end
        | _ => (st0, SErr)
        end
    end.
  Definition stack_addition (cfg : config) (name_check : bool) (txs : list (list ref_record)) (st : list stbl)
    : list stbl * status := addition_go cfg name_check (next_index st) txs st st.

  (* CompactAll(expiry) *)
  Definition stack_compact_all (cfg : config) (e : option expiry) (st : list stbl) : list stbl * status :=
    match st with
    | [] => (st, SOk)
    | _ =>
        let last := (length st - 1)%nat in
        match e with
        | None => if Nat.leb last 0 then (st, SOk) else stack_compact cfg 0 last None st
        | Some _ => stack_compact cfg 0 last e st
        end
    end.
End StackSeq.
