(* Bytes, strings and their order.  A byte is an N (well-formed when < 256);
   Go strings / []byte are lists of bytes; Go's string order is the
   lexicographic order on byte lists. *)
From Coq Require Import List NArith Bool.
Import ListNotations.
Local Open Scope N_scope.

Definition byte := N.
Definition bytes := list N.

Definition wf_byte (b : N) : Prop := b < 256.
Definition wf_bytes (l : bytes) : Prop := Forall wf_byte l.

Fixpoint bytes_eqb (a b : bytes) : bool :=
  match a, b with
  | [], [] => true
  | x :: a', y :: b' => (x =? y) && bytes_eqb a' b'
  | _, _ => false
  end.

(* Go: a < b on strings *)
Fixpoint bytes_ltb (a b : bytes) : bool :=
  match a, b with
  | _, [] => false
  | [], _ :: _ => true
  | x :: a', y :: b' => if x <? y then true else if y <? x then false else bytes_ltb a' b'
  end.

Definition bytes_leb (a b : bytes) : bool := negb (bytes_ltb b a).

Fixpoint is_prefix (p s : bytes) : bool :=
  match p, s with
  | [], _ => true
  | x :: p', y :: s' => (x =? y) && is_prefix p' s'
  | _ :: _, [] => false
  end.

(* big-endian fixed-width integers *)
Fixpoint be_bytes (width : nat) (v : N) : bytes :=
  match width with
  | O => []
  | S w => be_bytes w (v / 256) ++ [v mod 256]
  end.
Definition be16 := be_bytes 2.
Definition be24 := be_bytes 3.
Definition be32 := be_bytes 4.
Definition be64 := be_bytes 8.

Fixpoint be_value (l : bytes) (acc : N) : N :=
  match l with
  | [] => acc
  | b :: t => be_value t (acc * 256 + b)
  end.

(* read a big-endian integer of [width] bytes from the front of [l] *)
Definition get_be (width : nat) (l : bytes) : option N :=
  if Nat.leb width (length l) then Some (be_value (firstn width l) 0) else None.

Definition u64_max : N := 18446744073709551615.
Definition two64 : N := 18446744073709551616.

(* drop the first n elements, n given in binary (file offsets) *)
Fixpoint drop_pos {A} (p : positive) (l : list A) : list A :=
  match p with
  | xH => tl l
  | xO q => drop_pos q (drop_pos q l)
  | xI q => tl (drop_pos q (drop_pos q l))
  end.
Definition dropN {A} (n : N) (l : list A) : list A :=
  match n with N0 => l | Npos p => drop_pos p l end.
