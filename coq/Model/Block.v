(* block.go: blockWriter (add / registerRestart / finish), blockReader
   (newBlockReader), blockIter (Next, seek). *)
From Coq Require Import List NArith Arith Bool.
From RT Require Import Model.Bytes Model.Result Model.Varint Model.KeyCodec Model.Records Model.RecCodec.
Import ListNotations.
Local Open Scope N_scope.

Definition max_restarts : N := 65535.

(* ---------------- writer ---------------- *)

Record bw := {
  bw_typ : N;
  bw_hdr : nat;            (* headerOff: 0, or the file header size for the first block *)
  bw_size : nat;           (* blockSize = len(buf) *)
  bw_interval : nat;
  bw_hash : nat;
  bw_body : bytes;         (* buf[headerOff+4 : next] *)
  bw_restarts : list nat;  (* in registration order *)
  bw_last : bytes;
  bw_entries : nat }.

Definition bw_next (w : bw) : nat := (bw_hdr w + 4 + length (bw_body w))%nat.

Definition bw_new (typ : N) (hdr size interval hash : nat) : bw :=
  {| bw_typ := typ; bw_hdr := hdr; bw_size := size; bw_interval := interval; bw_hash := hash;
     bw_body := []; bw_restarts := []; bw_last := []; bw_entries := 0 |}.

(* add: Ok (Some w') = added, Ok None = does not fit *)
Definition bw_add (w : bw) (r : record) : res (option bw) :=
  let last := if Nat.eqb (Nat.modulo (bw_entries w) (bw_interval w)) 0 then [] else bw_last w in
  let room := (bw_size w - bw_next w)%nat in
  let '(kb, restart) := encode_key last (rec_key r) (rec_val_type r) in
  if Nat.ltb room (length kb) then Ok None
  else
    let* vb := rec_encode (bw_hash w) r in
    if Nat.ltb (room - length kb) (length vb) then Ok None
    else
      (* registerRestart *)
      let n := (length kb + length vb)%nat in
      let rlen := length (bw_restarts w) in
      let restart' := if max_restarts <=? N.of_nat rlen then false else restart in
      let rlen' := if restart' then S rlen else rlen in
      if Nat.ltb room (2 + 3 * rlen' + n) then Ok None
      else Ok (Some {| bw_typ := bw_typ w; bw_hdr := bw_hdr w; bw_size := bw_size w;
                       bw_interval := bw_interval w; bw_hash := bw_hash w;
                       bw_body := bw_body w ++ kb ++ vb;
                       bw_restarts := if restart' then bw_restarts w ++ [bw_next w] else bw_restarts w;
                       bw_last := rec_key r;
                       bw_entries := S (bw_entries w) |}).

(* finish: the unpadded block.  [file_hdr] is what the first bw_hdr bytes of
   the buffer hold when the block is handed to the output (the file header
   for the block at offset 0, nothing otherwise). *)
Definition bw_finish (deflate : bytes -> bytes) (file_hdr : bytes) (w : bw) : bytes :=
  let rbytes := flat_map (fun r => be24 (N.of_nat r)) (bw_restarts w) in
  let nxt := (bw_next w + 3 * length (bw_restarts w) + 2)%nat in
  let head := file_hdr ++ [bw_typ w] ++ be24 (N.of_nat nxt) in
  let payload := bw_body w ++ rbytes ++ be16 (N.of_nat (length (bw_restarts w))) in
  if bw_typ w =? typ_log then head ++ deflate payload else head ++ payload.

(* ---------------- reader ---------------- *)

Inductive inflate_result :=
| IOk (out : bytes) (consumed : nat)
| ITrunc                 (* io.ErrUnexpectedEOF: the stream ends too early *)
| IBad.

Record br := {
  br_typ : N;
  br_hdr : nat;
  br_block : bytes;        (* file header, block header and records; no restart table *)
  br_restarts : bytes;     (* the restart offsets, 3 bytes each *)
  br_count : nat;          (* restartCount *)
  br_full : nat;           (* fullBlockSize *)
  br_hash : nat }.

Inductive br_err := BrFormat | BrTrunc.

(* newBlockReader(block, headerOff, tableBlockSize, hashSize): reference formulation
   (every length as nat).  [br_init] below is the one that is run; it compares the
   3-byte length field as N before converting it (a hostile length of 2^23 is never
   built as a unary number) and is proved equal in Proofs/BlockInitEq.v. *)
Definition br_init_ref (inflate : bytes -> inflate_result) (block : bytes) (hdr : nat)
           (table_block_size : nat) (hash : nat) : br_err + br :=
  if Nat.ltb (length block) (hdr + 4) then inl BrFormat
  else
    let typ := nth hdr block 0 in
    if negb (is_block_type typ) then inl BrFormat
    else
      let sz := N.to_nat (be_value (firstn 3 (skipn (hdr + 1) block)) 0) in
      let step1 : br_err + (bytes * nat) :=
        if typ =? typ_log then
          match inflate (skipn (hdr + 4) block) with
          | IOk out consumed =>
              let blk := firstn (hdr + 4) block ++ out in
              if negb (Nat.eqb (length blk) sz) then inl BrFormat
              else inr (blk, (hdr + 4 + consumed)%nat)
          | ITrunc => inl BrTrunc
          | IBad => inl BrFormat
          end
        else if Nat.eqb table_block_size 0 then inr (block, sz)
        else if Nat.ltb sz table_block_size && Nat.ltb sz (length block) && negb (nth sz block 0 =? 0)
             then inr (block, sz)
             else inr (block, table_block_size) in
      match step1 with
      | inl e => inl e
      | inr (blk, full) =>
          if Nat.ltb (length blk) sz || Nat.ltb sz (hdr + 4 + 2) then inl BrFormat
          else
            let blk1 := firstn sz blk in
            let count := N.to_nat (be_value (skipn (sz - 2) blk1) 0) in
            if Nat.ltb sz (2 + 3 * count + (hdr + 4)) then inl BrFormat
            else
              let rstart := (sz - 2 - 3 * count)%nat in
              inr {| br_typ := typ; br_hdr := hdr; br_block := firstn rstart blk1;
                     br_restarts := skipn rstart blk1; br_count := count;
                     br_full := full; br_hash := hash |}
      end.

(* the second half of newBlockReader: cut the block at sz, split off the restart table *)
Definition br_finish (typ : N) (hdr hash : nat) (blk : bytes) (sz full : nat) : br_err + br :=
  if Nat.ltb (length blk) sz || Nat.ltb sz (hdr + 4 + 2) then inl BrFormat
  else
    let blk1 := firstn sz blk in
    let count := N.to_nat (be_value (skipn (sz - 2) blk1) 0) in
    if Nat.ltb sz (2 + 3 * count + (hdr + 4)) then inl BrFormat
    else
      let rstart := (sz - 2 - 3 * count)%nat in
      inr {| br_typ := typ; br_hdr := hdr; br_block := firstn rstart blk1;
             br_restarts := skipn rstart blk1; br_count := count;
             br_full := full; br_hash := hash |}.

(* newBlockReader(block, headerOff, tableBlockSize, hashSize) *)
Definition br_init (inflate : bytes -> inflate_result) (block : bytes) (hdr : nat)
           (table_block_size : nat) (hash : nat) : br_err + br :=
  if Nat.ltb (length block) (hdr + 4) then inl BrFormat
  else
    let typ := nth hdr block 0 in
    if negb (is_block_type typ) then inl BrFormat
    else
      let szN := be_value (firstn 3 (skipn (hdr + 1) block)) 0 in
      if typ =? typ_log then
        match inflate (skipn (hdr + 4) block) with
        | IOk out consumed =>
            let blk := firstn (hdr + 4) block ++ out in
            if negb (N.of_nat (length blk) =? szN) then inl BrFormat
            else br_finish typ hdr hash blk (length blk) (hdr + 4 + consumed)
        | ITrunc => inl BrTrunc
        | IBad => inl BrFormat
        end
      else if N.of_nat (length block) <? szN then inl BrFormat
      else
        let sz := N.to_nat szN in
        let full :=
          if Nat.eqb table_block_size 0 then sz
          else if Nat.ltb sz table_block_size && Nat.ltb sz (length block) && negb (nth sz block 0 =? 0)
               then sz else table_block_size in
        br_finish typ hdr hash block sz full.

Definition restart_offset (b : br) (i : nat) : nat :=
  N.to_nat (be_value (firstn 3 (skipn (3 * i) (br_restarts b))) 0).

(* blockIter position: (nextOffset, lastKey) *)
Definition bpos : Type := (nat * bytes)%type.
Definition br_start (b : br) : bpos := ((br_hdr b + 4)%nat, []).

(* blockIter.Next: None = format error, Some None = end of block *)
Definition bi_next (b : br) (p : bpos) : option (option (record * bpos)) :=
  let '(off, last) := p in
  if Nat.leb (length (br_block b)) off then Some None
  else
    let buf := skipn off (br_block b) in
    match decode_key buf last with
    | None => None
    | Some (n, key, vt) =>
        match rec_decode (br_typ b) (br_hash b) key vt (skipn n buf) with
        | None => None
        | Some (m, r) => Some (Some (r, ((off + n + m)%nat, rec_key r)))
        end
    end.

(* sort.Search(n, f): smallest i in [0,n] with f i (f monotone); f may fail *)
Fixpoint search_loop (fuel : nat) (f : nat -> option bool) (i j : nat) (failed : bool) : nat * bool :=
  match fuel with
  | O => (i, failed)
  | S fu =>
      if Nat.ltb i j then
        let h := Nat.div (i + j) 2 in
        match f h with
        | Some true => search_loop fu f i h failed
        | Some false => search_loop fu f (S h) j failed
        | None => search_loop fu f (S h) j true          (* key < "" is false; decodeErr set *)
        end
      else (i, failed)
  end.

Fixpoint seek_scan (fuel : nat) (b : br) (key : bytes) (p : bpos) : option bpos :=
  match fuel with
  | O => Some p
  | S f =>
      match bi_next b p with
      | None => None
      | Some None => Some p
      | Some (Some (r, p')) =>
          if negb (bytes_ltb (rec_key r) key) then Some p else seek_scan f b key p'
      end
  end.

(* blockReader.seek(key): position just before the first record >= key *)
Definition br_seek (b : br) (key : bytes) : option bpos :=
  let f := fun i => match decode_restart_key (br_block b) (restart_offset b i) with
                    | Some rk => Some (bytes_ltb key rk)
                    | None => None
                    end in
  let '(j, failed) := search_loop (S (br_count b)) f 0 (br_count b) false in
  if failed then None
  else
    let off := match j with O => (br_hdr b + 4)%nat | S j' => restart_offset b j' end in
    seek_scan (S (length (br_block b))) b key (off, []).
