(* glue between the extracted Coq datatypes and OCaml values; trusted *)
open Datatypes
open BinNums
module L = Stdlib.List

let rec nat_of_int (i : int) : nat = if i <= 0 then O else S (nat_of_int (i - 1))
let rec int_of_nat (n : nat) : int = match n with O -> 0 | S m -> 1 + int_of_nat m

let rec pos_of_z (z : Z.t) : positive =
  if Z.equal z Z.one then Coq_xH
  else if Z.testbit z 0 then Coq_xI (pos_of_z (Z.shift_right z 1))
  else Coq_xO (pos_of_z (Z.shift_right z 1))

let rec z_of_pos (p : positive) : Z.t = match p with
  | Coq_xH -> Z.one
  | Coq_xO q -> Z.shift_left (z_of_pos q) 1
  | Coq_xI q -> Z.succ (Z.shift_left (z_of_pos q) 1)

let n_of_z (z : Z.t) : coq_N = if Z.sign z <= 0 then N0 else Npos (pos_of_z z)
let z_of_n (x : coq_N) : Z.t = match x with N0 -> Z.zero | Npos p -> z_of_pos p
let n_of_string s = n_of_z (Z.of_string s)
let string_of_n x = Z.to_string (z_of_n x)
let n_of_int i = n_of_z (Z.of_int i)
let int_of_n x = Z.to_int (z_of_n x)

(* bytes are N < 256; hex strings on the wire *)
let bytes_of_hex (h : string) : coq_N list =
  let len = String.length h / 2 in
  L.init len (fun i -> n_of_int (int_of_string ("0x" ^ String.sub h (2 * i) 2)))
let hex_of_bytes (l : coq_N list) : string =
  String.concat "" (L.map (fun b -> Printf.sprintf "%02x" (int_of_n b)) l)

let split_on c s = if s = "" then [] else String.split_on_char c s
let n_list_of_string s = L.map n_of_string (split_on ',' s)
let string_of_n_list l = String.concat "," (L.map string_of_n l)
