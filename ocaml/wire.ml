(* parsing / printing of the wire format shared with harness/wire.go; trusted glue *)
open Datatypes
open BinNums
open Conv
module L = Stdlib.List
module S = Stdlib.String

let bytes_of_hex_opt h = if h = "-" then None else Some (bytes_of_hex h)

let parse_cfg (s : string) : Writer.config =
  match L.map int_of_string (S.split_on_char ',' s) with
  | [u; b; k; r; h; e] ->
    { Writer.c_unaligned = (u = 1); c_block_size = n_of_int b; c_skip_index_objects = (k = 1);
      c_restart_interval = nat_of_int r; c_sha256 = (h = 1); c_exact_log = (e = 1) }
  | _ -> failwith "bad cfg"

let parse_ref (s : string) : Records.ref_record =
  match S.split_on_char ':' s with
  | name :: idx :: kind :: rest ->
    let v = match kind, rest with
      | "d", _ -> Records.RDel
      | "v", [h] -> Records.RVal (bytes_of_hex h)
      | "w", [h; t] -> Records.RVal2 (bytes_of_hex h, bytes_of_hex t)
      | "s", [t] -> Records.RSym (bytes_of_hex t)
      | _ -> failwith "bad ref kind" in
    { Records.r_name = bytes_of_hex name; r_index = n_of_string idx; r_val = v }
  | _ -> failwith "bad ref"

let show_ref (r : Records.ref_record) : string =
  let base = hex_of_bytes r.Records.r_name ^ ":" ^ string_of_n r.Records.r_index in
  match r.Records.r_val with
  | Records.RDel -> base ^ ":d"
  | Records.RVal h -> base ^ ":v:" ^ hex_of_bytes h
  | Records.RVal2 (h, t) -> base ^ ":w:" ^ hex_of_bytes h ^ ":" ^ hex_of_bytes t
  (* a symbolic ref to the empty name (only hostile or foreign bytes hold one; the Go writer cannot emit it):
     the Go API returns RefRecord{Target: ""}, which IS its representation of a deletion *)
  | Records.RSym [] -> base ^ ":d"
  | Records.RSym t -> base ^ ":s:" ^ hex_of_bytes t

let parse_log (s : string) : Records.log_record =
  match S.split_on_char ':' s with
  | [name; idx; "x"] -> { Records.l_name = bytes_of_hex name; l_index = n_of_string idx; l_body = None }
  | [name; idx; "u"; o; n; nm; em; tm; tz; msg] ->
    { Records.l_name = bytes_of_hex name; l_index = n_of_string idx;
      l_body = Some { Records.lb_old = bytes_of_hex_opt o; lb_new = bytes_of_hex_opt n;
                      lb_name = bytes_of_hex nm; lb_email = bytes_of_hex em;
                      lb_time = n_of_string tm; lb_tz = n_of_string tz; lb_msg = bytes_of_hex msg } }
  | _ -> failwith "bad log"

let show_opt_hex = function None -> "-" | Some h -> hex_of_bytes h

let show_log (l : Records.log_record) : string =
  let base = hex_of_bytes l.Records.l_name ^ ":" ^ string_of_n l.Records.l_index in
  match l.Records.l_body with
  | None -> base ^ ":x"
  | Some b -> S.concat ":" [base; "u"; show_opt_hex b.Records.lb_old; show_opt_hex b.Records.lb_new;
                            hex_of_bytes b.Records.lb_name; hex_of_bytes b.Records.lb_email;
                            string_of_n b.Records.lb_time; string_of_n b.Records.lb_tz;
                            hex_of_bytes b.Records.lb_msg]

let parse_list f s = if s = "" then [] else L.map f (S.split_on_char ';' s)
let show_refs rs = S.concat ";" (L.map show_ref rs)
let show_logs ls = S.concat ";" (L.map show_log ls)

let show_records (rs : RecCodec.record list) : string =
  S.concat ";" (L.map (function
      | RecCodec.RecRef r -> show_ref r
      | RecCodec.RecLog l -> show_log l
      | RecCodec.RecObj (p, offs) -> "obj:" ^ hex_of_bytes p ^ ":" ^ string_of_n_list offs
      | RecCodec.RecIdx (k, o) -> "idx:" ^ hex_of_bytes k ^ ":" ^ string_of_n o) rs)

(* ---- zlib oracle (the Go helper started from $VERIF_ZLIBD) ---- *)
let zproc = lazy (Unix.open_process (Sys.getenv "VERIF_ZLIBD"))

let deflate (b : coq_N list) : coq_N list =
  let (ic, oc) = Lazy.force zproc in
  output_string oc ("D " ^ hex_of_bytes b ^ "\n"); flush oc;
  bytes_of_hex (input_line ic)

let inflate (b : coq_N list) : Block.inflate_result =
  let (ic, oc) = Lazy.force zproc in
  output_string oc ("I " ^ hex_of_bytes b ^ "\n"); flush oc;
  let line = input_line ic in
  match S.split_on_char ' ' line with
  | ["O"; c; h] -> Block.IOk (bytes_of_hex h, nat_of_int (int_of_string c))
  | ["O"; c] -> Block.IOk ([], nat_of_int (int_of_string c))
  | ["T"] -> Block.ITrunc
  | _ -> Block.IBad
