(* Line driver for the extracted model.  One case per input line,
   tab-separated:  <cmd> TAB <args> [TAB <impl result>]
   One output line per case:  <model result> TAB <oracle verdict>
   The oracle verdict judges the *implementation's* result with the boolean
   predicates of the theorem statements ("ok", "bad:<why>", or "-"). *)
open Datatypes
open BinNums
open Conv
module L = Stdlib.List

let handlers : (string, string list -> string * string) Hashtbl.t = Hashtbl.create 64
let register name f = Hashtbl.replace handlers name f

(* ---- C17 ---- *)
let show_suggest = function
  | None -> "none"
  | Some (s, e) -> Printf.sprintf "%d %d" (int_of_nat s) (int_of_nat e)

let rec adj_eq = function
  | a :: (b :: _ as t) -> (z_of_n (Segments.log2 a) = z_of_n (Segments.log2 b)) || adj_eq t
  | _ -> false

let () = register "suggest" (fun args ->
  let sizes = n_list_of_string (L.nth args 0) in
  let m = show_suggest (Segments.suggest sizes) in
  let oracle =
    if L.length args < 2 then "-" else
    let impl = L.nth args 1 in
    if impl = "none" then (if adj_eq sizes then "bad:none-but-adjacent-equal-classes" else "ok")
    else match String.split_on_char ' ' impl with
      | [s; e] ->
        let s = int_of_string s and e = int_of_string e in
        if s + 2 <= e && e <= L.length sizes && s >= 0 then "ok" else "bad:invalid-range"
      | _ -> "bad:unparsable" in
  (m, oracle))

let () = register "autocompact" (fun args ->
  let sizes = n_list_of_string (L.nth args 0) in
  let n = L.length sizes in
  let m = match Segments.suggest sizes with
    | None -> Printf.sprintf "%d %d -" n n
    | Some (s, e) -> let s = int_of_nat s and e = int_of_nat e in
      Printf.sprintf "%d %d %d" n (n - (e - s) + 1) s in
  (m, "-"))

let () = register "depthcost" (fun args ->
  let impl = if L.length args < 2 then "ok" else L.nth args 1 in
  ("ok", if impl = "ok" then "ok" else "bad:" ^ impl))

let () = register "log2" (fun args ->
  let x = n_of_string (L.nth args 0) in
  (string_of_n (Segments.log2_go x), "-"))

let () =
  try
    while true do
      let line = input_line stdin in
      let fields = String.split_on_char '\t' line in
      match fields with
      | [] | [""] -> print_string "\t-\n"
      | cmd :: args ->
        let (m, o) =
          match Hashtbl.find_opt handlers cmd with
          | None -> ("unknown-command:" ^ cmd, "-")
          | Some f -> (try f args with e -> ("driver-exception:" ^ Printexc.to_string e, "-")) in
        print_string m; print_char '\t'; print_string o; print_char '\n'
    done
  with End_of_file -> ()
