(* Line driver for the extracted model.  One case per input line,
   tab-separated:  <cmd> TAB <args> [TAB <impl result>]
   One output line per case:  <model result> TAB <oracle verdict>
   The oracle verdict judges the *implementation's* result with the boolean
   predicates of the theorem statements ("ok", "bad:<why>", or "-"). *)
open Datatypes
open BinNums
open Conv
open Wire
module L = Stdlib.List
module S = Stdlib.String

let handlers : (string, string list -> string * string) Hashtbl.t = Hashtbl.create 64
let register name f = Hashtbl.replace handlers name f

(* ---- C17 ---- *)
let show_suggest = function
  | None -> "none"
  | Some (s, e) -> Printf.sprintf "%d %d" (int_of_nat s) (int_of_nat e)

let rec adj_eq = function
  | a :: (b :: _ as t) -> (z_of_n (Segments.log2 a) = z_of_n (Segments.log2 b)) || adj_eq t
  | _ -> false

let () = register "suggest" (fun args ->
  let sizes = n_list_of_string (L.nth args 0) in
  let m = show_suggest (Segments.suggest sizes) in
  let oracle =
    if L.length args < 2 then "-" else
    let impl = L.nth args 1 in
    if impl = "none" then (if adj_eq sizes then "bad:none-but-adjacent-equal-classes" else "ok")
    else match String.split_on_char ' ' impl with
      | [s; e] ->
        let s = int_of_string s and e = int_of_string e in
        if s + 2 <= e && e <= L.length sizes && s >= 0 then "ok" else "bad:invalid-range"
      | _ -> "bad:unparsable" in
  (m, oracle))

let () = register "autocompact" (fun args ->
  let sizes = n_list_of_string (L.nth args 0) in
  let n = L.length sizes in
  let m = match Segments.suggest sizes with
    | None -> Printf.sprintf "%d %d -" n n
    | Some (s, e) -> let s = int_of_nat s and e = int_of_nat e in
      Printf.sprintf "%d %d %d" n (n - (e - s) + 1) s in
  (m, "-"))

let () = register "depthcost" (fun args ->
  let impl = if L.length args < 2 then "ok" else L.nth args 1 in
  ("ok", if impl = "ok" then "ok" else "bad:" ^ impl))

let () = register "log2" (fun args ->
  let x = n_of_string (L.nth args 0) in
  (string_of_n (Segments.log2_go x), "-"))


(* ---- tables: C01 C02 C11 C14 ---- *)
let show_res f = function
  | Result.Ok a -> f a
  | Result.Err -> "err"
  | Result.Panic _ -> "panic"
  | Result.Fuel -> "fuel"

let ref_key_ltb (r : Records.ref_record) k = Bytes.bytes_ltb r.Records.r_name k
let log_ltb (l : Records.log_record) k = Bytes.bytes_ltb (Records.log_key l) k
let rec drop_while p = function [] -> [] | x :: t as l -> if p x then drop_while p t else l

(* model side of a query on an opened reader *)
let model_query rd q =
  match S.split_on_char ':' q with
  | ["sr"; k] -> show_res show_records (Reader.seek_ref inflate rd (bytes_of_hex k))
  | ["sl"; k; u] -> show_res show_records (Reader.seek_log inflate rd (bytes_of_hex k) (n_of_string u))
  | ["rf"; o] -> show_res show_records (Reader.refs_for inflate rd (bytes_of_hex o))
  | _ -> "badquery"

(* specification side: what the query must return for the given source records *)
let spec_query (refs : Records.ref_record list) (logs : Records.log_record list) q =
  match S.split_on_char ':' q with
  | ["sr"; k] -> let k = bytes_of_hex k in show_refs (drop_while (fun r -> ref_key_ltb r k) refs)
  | ["sl"; k; u] -> let key = Records.log_key_of (bytes_of_hex k) (n_of_string u) in
    show_logs (drop_while (fun l -> log_ltb l key) logs)
  | ["rf"; o] -> let o = bytes_of_hex o in show_refs (L.filter (fun r -> Records.points_to o r) refs)
  | _ -> "badquery"

let norm_logs exact hs (logs : Records.log_record list) : Records.log_record list option =
  let zero = L.init hs (fun _ -> N0) in
  let fill = function None -> Some zero | h -> h in
  let rec go acc = function
    | [] -> Some (L.rev acc)
    | l :: t ->
      (match Writer.norm_log exact l with
       | None -> None
       | Some l1 ->
         let l2 = match l1.Records.l_body with
           | None -> l1
           | Some b -> { l1 with Records.l_body = Some { b with Records.lb_old = fill b.Records.lb_old; lb_new = fill b.Records.lb_new } } in
         go (l2 :: acc) t) in
  go [] logs

let () = register "table" (fun args ->
  let f = S.split_on_char '|' (L.nth args 0) in
  let cfg = parse_cfg (L.nth f 0) in
  let mn = n_of_string (L.nth f 1) and mx = n_of_string (L.nth f 2) in
  let refs = parse_list parse_ref (L.nth f 3) and logs = parse_list parse_log (L.nth f 4) in
  let qs = split_on ',' (L.nth f 5) in
  let w = Writer.write_table deflate cfg mn mx refs logs in
  let parts = match w with
    | Result.Ok (empty, data) ->
      if empty then ["empty:" ^ hex_of_bytes data]
      else begin
        let first = "ok:" ^ hex_of_bytes data in
        match Reader.rd_open data with
        | Result.Ok rd ->
          let sr = show_res show_records (Reader.scan_refs inflate rd) in
          let sl = show_res show_records (Reader.scan_logs inflate rd) in
          first :: "ok" :: sr :: sl :: L.map (model_query rd) qs
        | r -> [first; show_res (fun _ -> "ok") r]
      end
    | r -> [show_res (fun _ -> "") r] in
  let model = S.concat "|" parts in
  (* oracle on the implementation's results *)
  let oracle =
    if L.length args < 2 then "-" else
    let impl = S.split_on_char '|' (L.nth args 1) in
    match impl with
    | w :: "ok" :: sr :: sl :: qres when S.length w > 3 && S.sub w 0 3 = "ok:" ->
      let hs = if cfg.Writer.c_sha256 then 32 else 20 in
      (match norm_logs cfg.Writer.c_exact_log hs logs with
       | None -> "bad:writer-accepted-multi-line-message"
       | Some nlogs ->
         if sr <> show_refs refs then "bad:scan-refs"
         else if sl <> show_logs nlogs then "bad:scan-logs"
         else
           let rec chk qs rs = match qs, rs with
             | [], [] -> "ok"
             | q :: qt, r :: rt -> if spec_query refs nlogs q = r then chk qt rt else "bad:query " ^ q
             | _ -> "bad:query-count" in
           chk qs qres)
    | w :: _ when w = "panic" -> "bad:writer-panic"
    | _ :: o :: _ when o = "panic" -> "bad:open-panic"
    | _ -> "-" in
  (model, oracle))

let () =
  try
    while true do
      let line = input_line stdin in
      let fields = String.split_on_char '\t' line in
      match fields with
      | [] | [""] -> print_string "\t-\n"
      | cmd :: args ->
        let (m, o) =
          match Hashtbl.find_opt handlers cmd with
          | None -> ("unknown-command:" ^ cmd, "-")
          | Some f -> (try f args with e -> ("driver-exception:" ^ Printexc.to_string e, "-")) in
        print_string m; print_char '\t'; print_string o; print_char '\n'
    done
  with End_of_file -> ()
